(* Js/StmtProofs.v — the statement optimiser of Js/StmtModel.v preserves the behaviour of a statement list under the
   semantics of Js/StmtSem.v: for EVERY fuel (out of fuel returns the rest of the input unprocessed), every list, every
   store, every interpretation of the abstract operators, under two hypotheses, each shown necessary by a concrete
   failing input (Module StmtCounterexample):
     hse_trusted l              wherever the optimiser believes a "no" of hasSideEffects — the condition of an `if`
                                (both branches empty: the statement is dropped) and the operand of a returned `void x`
                                (the trailing `return void x` of a function is dropped) — the "no" is right.  About the
                                input only: every if-condition and every returned void operand of l, at any depth.
     trailing_return_hazard     (function bodies only) the optimised list does not end in `return a, b, undefined`
                                (three or more comma items, the last one undefined), which drop_trailing_return
                                truncates to `return a, b` — a return of b instead of undefined.
   The proofs use of the body of has_side_effects only the four facts hse_group, hse_not, hse_comma, hse_and_false.
   Last: beyond the fuel of optimize_body the result does not depend on the fuel (optimize_body_fuel_enough). *)
From Coq Require Import List String Arith Bool Lia.
Import ListNotations.
From MV Require Import Js.PrintModel Js.PrintGroup Js.RewriteModel Js.RewriteSem Js.RewriteProofs Js.StmtModel Js.StmtSem.
Local Open Scope string_scope.
Local Open Scope list_scope.

(* ---------- an induction principle for the nested inductive [stmt] ---------- *)
Section StmtInd.
  Variable P : stmt -> Prop.
  Hypothesis HExpr : forall e, P (SExpr e).
  Hypothesis HIf : forall c b e, P b -> match e with Some x => P x | None => True end -> P (SIf c b e).
  Hypothesis HReturn : forall v, P (SReturn v).
  Hypothesis HThrow : forall v, P (SThrow v).
  Hypothesis HBranch : forall k, P (SBranch k).
  Hypothesis HEmpty : P SEmpty.
  Hypothesis HBlock : forall l, Forall P l -> P (SBlock l).
  Hypothesis HOpaque : forall i, P (SOpaque i).
  Fixpoint stmt_ind' (s : stmt) : P s :=
    match s with
    | SExpr e => HExpr e
    | SIf c b e => HIf c b e (stmt_ind' b) (match e with Some x => stmt_ind' x | None => I end)
    | SReturn v => HReturn v
    | SThrow v => HThrow v
    | SBranch k => HBranch k
    | SEmpty => HEmpty
    | SBlock l => HBlock l ((fix go (l : list stmt) : Forall P l :=
                               match l with [] => Forall_nil P | x :: r => Forall_cons x (stmt_ind' x) (go r) end) l)
    | SOpaque i => HOpaque i
    end.
End StmtInd.

(* ---------- facts about the syntactic helpers that need no semantics ---------- *)
Lemma last_stmt_block_go : forall (s0 : stmt) (l : list stmt),
  (fix go (l : list stmt) : stmt := match l with [] => s0 | [x] => last_stmt x | _ :: r => go r end) l =
  match l with [] => s0 | _ :: _ => last_stmt (last l SEmpty) end.
Proof.
  intros s0 l. induction l as [|x r IH]; [reflexivity|].
  destruct r as [|y r']; [reflexivity|]. rewrite IH. reflexivity.
Qed.

Lemma last_stmt_block : forall l, last_stmt (SBlock l) = match l with [] => SBlock [] | _ :: _ => last_stmt (last l SEmpty) end.
Proof. intro l. simpl last_stmt. rewrite last_stmt_block_go. destruct l; reflexivity. Qed.

(* the top of a flattened comma list is a comma *)
Lemma comma_expr_shape : forall x y, exists a b, comma_expr x y = EBin "CommaToken" a b.
Proof.
  intros x y. destruct y as [ |op y1 y2| | | | | | | | ]; try (eexists; eexists; reflexivity).
  simpl. unfold is_op. destruct (String.eqb_spec op "CommaToken") as [-> | N]; eexists; eexists; reflexivity.
Qed.

Section StmtProofs.
  Variable T : tables.
  Variables V S : Type.
  Variable truthy : V -> bool.
  Variables vtrue vfalse vundef vinf : V.
  Hypothesis truthy_true : truthy vtrue = true.
  Hypothesis truthy_false : truthy vfalse = false.
  Hypothesis truthy_undef : truthy vundef = false.
  Variable var : string -> S -> V.
  Variable assign : string -> V -> S -> S.
  Hypothesis var_assign_same : forall x v s, var x (assign x v s) = v.
  Variable call : V -> V -> S -> V * S.
  Variable strict_eq : V -> V -> bool.
  Variable loose_eq : V -> V -> S -> bool * S.
  Variable compare : string -> V -> V -> S -> bool * S.
  Variable arith : string -> V -> V -> S -> V * S.
  Variable pure_unop : string -> V -> V.
  Variable unop : string -> V -> S -> V * S.
  Variable member : string -> V -> S -> V * S.
  Variable index : V -> V -> S -> V * S.
  Variable nullish : V -> bool.
  Hypothesis HT : sem_tables_ok T = true.
  (* `void x` is undefined *)
  Hypothesis void_undef : forall v, pure_unop "VoidToken" v = vundef.
  Variable opaque : string -> S -> completion V * S.

  Notation ev := (eval T V S truthy vtrue vfalse vundef vinf var assign call strict_eq loose_eq compare arith pure_unop unop member index nullish).
  Notation exec := (exec T V S truthy vtrue vfalse vundef vinf var assign call strict_eq loose_eq compare arith pure_unop unop member index nullish opaque).
  Notation exec_list := (exec_list T V S truthy vtrue vfalse vundef vinf var assign call strict_eq loose_eq compare arith pure_unop unop member index nullish opaque).
  Notation run_function := (run_function T V S truthy vtrue vfalse vundef vinf var assign call strict_eq loose_eq compare arith pure_unop unop member index nullish opaque).
  Notation run := (run T V S truthy vtrue vfalse vundef vinf var assign call strict_eq loose_eq compare arith pure_unop unop member index nullish opaque).
  Notation vb := (vbool V vtrue vfalse).
  Notation cnormal := (CNormal V).

  Definition effect_free (e : expr) : Prop := forall s, snd (ev e s) = s.

  (* ================= the hypothesis on hasSideEffects =================
     The optimiser believes hasSideEffects when it answers "no", in two places: an `if` whose two branches are empty is
     dropped together with its condition, and `void x` counts as undefined (so that a trailing `return void x` of a
     function can go).  [trusted e]: a "no" for e is right. *)
  Definition trusted (e : expr) : Prop := has_side_effects T e = false -> effect_free e.

  (* the operand of a `void` (under parentheses) *)
  Definition void_trusted (v : expr) : Prop :=
    match inner_expr v with
    | EPre op x => is_op op "VoidToken" = true -> trusted x
    | _ => True
    end.
  (* a return value: the value itself, or the last item of a comma list *)
  Definition ret_trusted (v : expr) : Prop :=
    void_trusted v /\ match v with EBin op _ r => is_op op "CommaToken" = true -> void_trusted r | _ => True end.

  (* every condition of an `if` and every returned `void x` of the statement, at any depth *)
  Fixpoint hse_trusted_stmt (st : stmt) : Prop :=
    match st with
    | SIf c b e => trusted c /\ hse_trusted_stmt b /\ match e with Some x => hse_trusted_stmt x | None => True end
    | SReturn (Some v) => ret_trusted v
    | SBlock l => (fix go (l : list stmt) : Prop := match l with [] => True | x :: r => hse_trusted_stmt x /\ go r end) l
    | _ => True
    end.
  Definition hse_trusted (l : list stmt) : Prop := Forall hse_trusted_stmt l.
  Notation safe := hse_trusted_stmt.

  Lemma safe_block : forall l, safe (SBlock l) <-> Forall safe l.
  Proof.
    induction l as [|x r IH].
    - split; intro; [constructor|exact I].
    - split.
      + intros [H1 H2]. constructor; [exact H1|apply IH; exact H2].
      + intro H. inversion H; subst. split; [assumption|apply IH; assumption].
  Qed.

  (* ---------- expressions ---------- *)
  Lemma gev : forall p e s, ev (group_expr T p e) s = ev e s.
  Proof. intros. apply group_expr_eval. Qed.
  Lemma ev_comma : forall x y s, ev (EBin "CommaToken" x y) s = let '(_, s1) := ev x s in ev y s1.
  Proof. reflexivity. Qed.
  Lemma ev_and : forall x y s, ev (EBin "AndToken" x y) s = let '(v, s1) := ev x s in if truthy v then ev y s1 else (v, s1).
  Proof. reflexivity. Qed.
  Lemma ev_or : forall x y s, ev (EBin "OrToken" x y) s = let '(v, s1) := ev x s in if truthy v then (v, s1) else ev y s1.
  Proof. reflexivity. Qed.
  Lemma ev_cond : forall c x y s, ev (ECond c x y) s = let '(v, s1) := ev c s in if truthy v then ev x s1 else ev y s1.
  Proof. reflexivity. Qed.
  Lemma ev_not : forall x s, ev (EPre "NotToken" x) s = let '(v, s1) := ev x s in (vb (negb (truthy v)), s1).
  Proof. reflexivity. Qed.
  Lemma ev_void : forall x s, ev (EPre "VoidToken" x) s = let '(v, s1) := ev x s in (vundef, s1).
  Proof. intros x s. simpl. destruct (ev x s) as [v s1]. rewrite void_undef. reflexivity. Qed.
  Lemma ev_inner : forall e s, ev (inner_expr e) s = ev e s.
  Proof. intros. apply inner_eval. Qed.
  Lemma truthy_vb' : forall b, truthy (vb b) = b.
  Proof. destruct b; simpl; assumption. Qed.

  Lemma comma_expr_eval : forall y x s, ev (comma_expr x y) s = let '(_, s1) := ev x s in ev y s1.
  Proof.
    induction y as [ |op y1 IH1 y2 IH2| | | | | | | | ]; intros x s; try reflexivity.
    simpl comma_expr. unfold is_op. destruct (String.eqb_spec op "CommaToken") as [-> | N]; [|reflexivity].
    rewrite ev_comma, IH1. destruct (ev x s) as [v0 s0]. rewrite ev_comma. reflexivity.
  Qed.

  Lemma ev_cond_group : forall p q r c x y s,
    ev (ECond (group_expr T p c) (group_expr T q x) (group_expr T r y)) s = ev (ECond c x y) s.
  Proof.
    intros. rewrite !ev_cond, gev. destruct (ev c s) as [v s1]. destruct (truthy v); apply gev.
  Qed.

  Lemma cond_expr_eval : forall c x y s, ev (cond_expr T c x y) s = ev (ECond c x y) s.
  Proof.
    intros c x y s. unfold cond_expr. destruct c as [ |op l r| | | | | | | | ]; try apply ev_cond_group.
    unfold is_op. destruct (String.eqb_spec op "CommaToken") as [-> | N]; [|apply ev_cond_group].
    rewrite ev_comma. rewrite (ev_cond (EBin "CommaToken" l r)), ev_comma. destruct (ev l s) as [vl sl].
    apply ev_cond_group.
  Qed.

  Lemma and_expr_eval : forall a b s, ev (and_expr T a b) s = ev (EBin "AndToken" a b) s.
  Proof. intros. unfold and_expr. rewrite !ev_and, gev. destruct (ev a s) as [v s1]. destruct (truthy v); [apply gev|reflexivity]. Qed.
  Lemma or_expr_eval : forall a b s, ev (or_expr T a b) s = ev (EBin "OrToken" a b) s.
  Proof. intros. unfold or_expr. rewrite !ev_or, gev. destruct (ev a s) as [v s1]. destruct (truthy v); [reflexivity|apply gev]. Qed.

  Lemma not_operand_some : forall c x, not_operand c = Some x -> c = EPre "NotToken" x.
  Proof.
    intros c x H. destruct c as [ | |op u| | | | | | | ]; try discriminate H. simpl in H. unfold is_op in H.
    destruct (String.eqb_spec op "NotToken") as [-> | N]; [|discriminate H]. injection H as ->. reflexivity.
  Qed.

  (* ---------- what the proofs use of the body of hasSideEffects (nothing else depends on it) ---------- *)
  Definition operand_hse (x : expr) : bool :=
    match x with EAtom _ => false | EConst CUndefined | EConst CInfinity => false | _ => has_side_effects T x end.
  Lemma hse_group : forall x, has_side_effects T (EGroup x) = has_side_effects T x.
  Proof. reflexivity. Qed.
  Lemma hse_not : forall x, has_side_effects T (EPre "NotToken" x) = has_side_effects T x.
  Proof. reflexivity. Qed.
  Lemma hse_comma : forall x y, has_side_effects T (EBin "CommaToken" x y) = true.
  Proof. reflexivity. Qed.
  Lemma hse_and_false : forall x y, has_side_effects T (EBin "AndToken" x y) = false -> operand_hse x = false /\ operand_hse y = false.
  Proof.
    intros x y H. simpl in H. destruct (Nat.eqb (binp T "AndToken") OpAssign); [discriminate H|].
    apply orb_false_iff in H. exact H.
  Qed.

  Lemma hse_comma_expr : forall x y, has_side_effects T (comma_expr x y) = true.
  Proof. intros x y. destruct (comma_expr_shape x y) as [a [b ->]]. apply hse_comma. Qed.
  Lemma hse_group_expr : forall p e, has_side_effects T (group_expr T p e) = has_side_effects T e.
  Proof. intros p e. unfold group_expr. cbv zeta. match goal with |- context [if ?t then _ else _] => destruct t end; [apply hse_group|reflexivity]. Qed.

  (* ---------- trusted ---------- *)
  Lemma effect_free_atom : forall a, effect_free (EAtom a).
  Proof. intros a s. reflexivity. Qed.
  Lemma effect_free_const : forall k, effect_free (EConst k).
  Proof. intros k s. destruct k; reflexivity. Qed.

  Lemma trusted_not_operand : forall c x, not_operand c = Some x -> trusted c -> trusted x.
  Proof.
    intros c x N Hc Hx s. apply not_operand_some in N. subst c. unfold trusted in Hc. rewrite hse_not in Hc.
    specialize (Hc Hx s). rewrite ev_not in Hc. destruct (ev x s) as [v s1]. exact Hc.
  Qed.
  Lemma trusted_comma_expr : forall l c, trusted (comma_expr l c).
  Proof. intros l c H. rewrite hse_comma_expr in H. discriminate H. Qed.
  Lemma operand_free : forall e, operand_hse e = false -> trusted e -> effect_free e.
  Proof.
    intros e H Ht. destruct e; try (apply Ht; exact H).
    - apply effect_free_atom.
    - apply effect_free_const.
  Qed.
  Lemma trusted_group_expr : forall p e, trusted e -> trusted (group_expr T p e).
  Proof. intros p e Ht H s. rewrite hse_group_expr in H. rewrite gev. apply Ht. exact H. Qed.
  Lemma trusted_and_expr : forall a b, trusted a -> trusted b -> trusted (and_expr T a b).
  Proof.
    intros a b Ha Hb H s. unfold and_expr in *. apply hse_and_false in H. destruct H as [H1 H2].
    pose proof (operand_free _ H1 (trusted_group_expr _ _ Ha)) as F1.
    pose proof (operand_free _ H2 (trusted_group_expr _ _ Hb)) as F2.
    rewrite ev_and. specialize (F1 s). destruct (ev (group_expr T (leftp T "AndToken") a) s) as [v s1]. simpl in F1. subst s1.
    destruct (truthy v); [apply F2|reflexivity].
  Qed.

  (* ---------- returned values ---------- *)
  Lemma is_undefined_sound : forall v, void_trusted v -> is_undefined T v = true -> forall s, ev v s = (vundef, s).
  Proof.
    intros v Hv Hu s. unfold is_undefined in Hu. unfold void_trusted in Hv. rewrite <- ev_inner.
    destruct (inner_expr v) as [ | |op x| | | | | | |k]; try discriminate Hu.
    - apply andb_true_iff in Hu. destruct Hu as [Hop Hx]. apply negb_true_iff in Hx. specialize (Hv Hop Hx s).
      unfold is_op in Hop. apply String.eqb_eq in Hop. subst op. rewrite ev_void. destruct (ev x s) as [v0 s1]. simpl in Hv. subst s1. reflexivity.
    - destruct k; try discriminate Hu. reflexivity.
  Qed.

  Lemma ret_trusted_comma_expr : forall l v, ret_trusted v -> ret_trusted (comma_expr l v).
  Proof.
    intros l v [H1 H2]. destruct v as [ |op v1 v2| | | | | | | | ]; try (split; [exact I|intros _; exact H1]).
    simpl comma_expr. destruct (is_op op "CommaToken") eqn:E.
    - split; [exact I|]. intros _. apply H2. reflexivity.
    - split; [exact I|intros _; exact H1].
  Qed.
  Lemma void_trusted_cond : forall c x y, void_trusted (ECond c x y).
  Proof. intros. exact I. Qed.
  Lemma ret_trusted_cond_expr : forall c x y, ret_trusted (cond_expr T c x y).
  Proof.
    intros c x y. unfold cond_expr. destruct c as [ |op l r| | | | | | | | ]; try (split; exact I).
    destruct (is_op op "CommaToken"); split; try exact I. intros _. exact I.
  Qed.
  Lemma ret_trusted_comma_void0 : forall c, ret_trusted (comma_expr c void0).
  Proof. intro c. split; [exact I|]. intros _ _ _. apply effect_free_atom. Qed.

  (* ---------- statements: one-step equations of exec ---------- *)
  Lemma exec_expr : forall e s, exec (SExpr e) s = (cnormal, snd (ev e s)).
  Proof. reflexivity. Qed.
  Lemma exec_if : forall c b e s, exec (SIf c b e) s =
    let '(v, s1) := ev c s in if truthy v then exec b s1 else match e with Some x => exec x s1 | None => (cnormal, s1) end.
  Proof. reflexivity. Qed.
  Lemma exec_return_none : forall s, exec (SReturn None) s = (CReturn V vundef, s).
  Proof. reflexivity. Qed.
  Lemma exec_return : forall e s, exec (SReturn (Some e)) s = let '(v, s1) := ev e s in (CReturn V v, s1).
  Proof. reflexivity. Qed.
  Lemma exec_throw : forall e s, exec (SThrow e) s = let '(v, s1) := ev e s in (CThrow V v, s1).
  Proof. reflexivity. Qed.
  Lemma exec_empty : forall s, exec SEmpty s = (cnormal, s).
  Proof. reflexivity. Qed.
  Lemma exec_list_cons : forall x r s, exec_list (x :: r) s = match exec x s with (CNormal _, s1) => exec_list r s1 | res => res end.
  Proof. reflexivity. Qed.
  Lemma exec_list_nil : forall s, exec_list [] s = (cnormal, s).
  Proof. reflexivity. Qed.

  (* ---------- statements: basic facts ---------- *)
  Lemma exec_block : forall l s, exec (SBlock l) s = exec_list l s.
  Proof.
    induction l as [|x r IH]; intro s; [reflexivity|].
    simpl. destruct (exec x s) as [[ | | | ] s1]; reflexivity.
  Qed.

  Lemma exec_list_app : forall a b s,
    exec_list (a ++ b) s = match exec_list a s with (CNormal _, s1) => exec_list b s1 | res => res end.
  Proof.
    induction a as [|x r IH]; intros b s; [reflexivity|].
    simpl app. rewrite !exec_list_cons. destruct (exec x s) as [[ | | | ] s1]; try reflexivity. apply IH.
  Qed.

  (* two lists with the same behaviour from every store *)
  Definition leq (a b : list stmt) : Prop := forall s, exec_list a s = exec_list b s.
  Lemma leq_refl : forall a, leq a a. Proof. intros a s. reflexivity. Qed.
  Lemma leq_trans : forall a b c, leq a b -> leq b c -> leq a c.
  Proof. intros a b c H1 H2 s. exact (eq_trans (H1 s) (H2 s)). Qed.
  Lemma leq_sym : forall a b, leq a b -> leq b a.
  Proof. intros a b H s. symmetry. apply H. Qed.
  Lemma leq_app : forall a a' b b', leq a a' -> leq b b' -> leq (a ++ b) (a' ++ b').
  Proof.
    intros a a' b b' Ha Hb s. rewrite !exec_list_app, (Ha s). destruct (exec_list a' s) as [[ | | | ] s1]; try reflexivity. apply Hb.
  Qed.
  Lemma leq_single : forall x y, (forall s, exec x s = exec y s) -> leq [x] [y].
  Proof. intros x y H s. rewrite !exec_list_cons, H. reflexivity. Qed.

  Lemma is_empty_exec : forall st, is_empty st = true -> forall s, exec st s = (cnormal, s).
  Proof.
    induction st as [e|c b e0 IHb IHe|v|v|k| |l IH|i] using stmt_ind'; intro Hem; try discriminate Hem; intro s; [reflexivity|].
    rewrite exec_block. simpl in Hem. revert s. induction IH as [|x r Hx Hr IHr]; intro s; [reflexivity|].
    simpl in Hem. apply andb_true_iff in Hem. destruct Hem as [H1 H2]. rewrite exec_list_cons, (Hx H1). apply IHr. exact H2.
  Qed.
  Lemma is_empty_opt_exec : forall e, is_empty_opt e = true -> forall s,
    match e with Some x => exec x s | None => (cnormal, s) end = (cnormal, s).
  Proof. intros [x|] H s; [apply is_empty_exec; exact H|reflexivity]. Qed.

  (* a statement that ends in return / throw / break / continue never completes normally *)
  Lemma flow_not_normal : forall st, is_flow (last_stmt st) = true -> forall s, fst (exec st s) <> cnormal.
  Proof.
    induction st as [e|c b e0 IHb IHe|v|v|k| |l IH|i] using stmt_ind'; intro Hfl; try discriminate Hfl; intro s.
    - destruct v as [e|]; [rewrite exec_return; destruct (ev e s)|rewrite exec_return_none]; discriminate.
    - rewrite exec_throw. destruct (ev v s). discriminate.
    - discriminate.
    - rewrite exec_block. rewrite last_stmt_block in Hfl. destruct l as [|x0 r0]; [discriminate Hfl|].
      remember (x0 :: r0) as l eqn:El. assert (Hne : l <> []) by (subst l; discriminate). clear El x0 r0.
      revert s. induction IH as [|x r Hx Hr IHr]; intro s; [congruence|].
      rewrite exec_list_cons. destruct r as [|y r'].
      + simpl in Hfl. specialize (Hx Hfl s). destruct (exec x s) as [[ | | | ] s1]; simpl in *; congruence.
      + destruct (exec x s) as [[ | | | ] s1]; simpl fst; try discriminate.
        apply IHr; [exact Hfl|discriminate].
  Qed.

  Lemma unpack_block : forall e1 s, exec_list (match e1 with SBlock l => l | _ => [e1] end) s = exec e1 s.
  Proof.
    intros e1 s. destruct e1; try (rewrite exec_list_cons; match goal with |- context [match ?x with _ => _ end] => destruct x as [[ | | | ] ?] end; reflexivity).
    symmetry. apply exec_block.
  Qed.

  (* if(!x) b else es  =  if(x) es else b *)
  Lemma if_swap : forall c x b es s, not_operand c = Some x -> exec (SIf x es (Some b)) s = exec (SIf c b (Some es)) s.
  Proof.
    intros c x b es s N. apply not_operand_some in N. subst c. rewrite !exec_if, ev_not.
    destruct (ev x s) as [v s1]. rewrite truthy_vb'. destruct (truthy v); reflexivity.
  Qed.

  (* ---------- optimize_if ---------- *)
  (* the rewrites proper, after the `!` normalisation *)
  Definition if_core (c : expr) (b : stmt) (e : option stmt) : stmt :=
    let has_if := negb (is_empty b) in
    let has_else := negb (is_empty_opt e) in
    if negb has_if && negb has_else then (if has_side_effects T c then SExpr c else SEmpty)
    else if has_if && negb has_else then
      match b with
      | SExpr x => match not_operand c with Some u => SExpr (or_expr T u x) | None => SExpr (and_expr T c x) end
      | SIf c2 b2 e2 => if is_empty_opt e2 then SIf (and_expr T c c2) b2 e else SIf c b e
      | _ => SIf c b e
      end
    else if negb has_if && has_else then
      match e with
      | Some (SExpr y) => SExpr (or_expr T c y)
      | _ => SIf c b e
      end
    else
      match b, e with
      | SExpr x, Some (SExpr y) => SExpr (cond_expr T c x y)
      | SReturn None, Some (SReturn None) => SReturn (Some (comma_expr c void0))
      | SReturn (Some x), Some (SReturn (Some y)) => SReturn (Some (cond_expr T c x y))
      | SThrow x, Some (SThrow y) => SThrow (cond_expr T c x y)
      | _, _ => SIf c b e
      end.

  Lemma optimize_if_cases : forall c0 b0 e0,
    optimize_if T c0 b0 e0 = if_core c0 b0 e0 \/
    exists x es, not_operand c0 = Some x /\ e0 = Some es /\ optimize_if T c0 b0 e0 = if_core x es (Some b0).
  Proof.
    intros c0 b0 e0. unfold optimize_if.
    destruct (not_operand c0) as [x|] eqn:N; [|left; reflexivity].
    destruct e0 as [es|]; [|left; reflexivity].
    simpl is_empty_opt. destruct (is_empty es) eqn:E; cbn [negb]; [left; unfold if_core; simpl is_empty_opt; rewrite E; reflexivity|].
    right. exists x, es. unfold if_core. rewrite E. repeat split; reflexivity.
  Qed.

  Lemma if_core_sound : forall c b e s, trusted c -> exec (if_core c b e) s = exec (SIf c b e) s.
  Proof.
    intros c b e s Hc. unfold if_core. cbv zeta.
    destruct (is_empty b) eqn:Eb; destruct (is_empty_opt e) eqn:Ee; cbn [negb andb].
    - (* both branches empty *)
      rewrite exec_if. pose proof (is_empty_exec b Eb) as Xb. pose proof (is_empty_opt_exec e Ee) as Xe.
      destruct (has_side_effects T c) eqn:Hs.
      + rewrite exec_expr. destruct (ev c s) as [v s1]. destruct (truthy v); [rewrite Xb|rewrite Xe]; reflexivity.
      + rewrite exec_empty. specialize (Hc Hs s). destruct (ev c s) as [v s1]. simpl in Hc. subst s1.
        destruct (truthy v); [rewrite Xb|rewrite Xe]; reflexivity.
    - (* only else *)
      destruct e as [[y| | | | | | | ]|]; try reflexivity.
      rewrite exec_expr, exec_if, or_expr_eval, ev_or. destruct (ev c s) as [v s1].
      destruct (truthy v); [rewrite (is_empty_exec b Eb)|rewrite exec_expr]; reflexivity.
    - (* only body *)
      pose proof (is_empty_opt_exec e Ee) as Xe.
      destruct b as [x|c2 b2 e2| | | | | | ]; try reflexivity.
      + destruct (not_operand c) as [u|] eqn:N.
        * apply not_operand_some in N. subst c. rewrite exec_expr, exec_if, or_expr_eval, ev_or, ev_not.
          destruct (ev u s) as [v s1]. rewrite truthy_vb'. destruct (truthy v); cbn [negb]; [rewrite Xe|rewrite exec_expr]; reflexivity.
        * rewrite exec_expr, exec_if, and_expr_eval, ev_and. destruct (ev c s) as [v s1].
          destruct (truthy v); [rewrite exec_expr|rewrite Xe]; reflexivity.
      + destruct (is_empty_opt e2) eqn:E2; [|reflexivity].
        rewrite !exec_if, and_expr_eval, ev_and. destruct (ev c s) as [v s1]. destruct (truthy v) eqn:Tv.
        * rewrite exec_if. destruct (ev c2 s1) as [v2 s2]. destruct (truthy v2); [reflexivity|].
          rewrite Xe, (is_empty_opt_exec e2 E2). reflexivity.
        * rewrite Tv. reflexivity.
    - (* both *)
      destruct b as [x| |[x|]|x| | | | ]; try reflexivity.
      + destruct e as [[y| | | | | | | ]|]; try reflexivity.
        rewrite exec_expr, exec_if, cond_expr_eval, ev_cond. destruct (ev c s) as [v s1].
        destruct (truthy v); rewrite exec_expr; reflexivity.
      + destruct e as [[ | |[y|]| | | | | ]|]; try reflexivity.
        rewrite exec_return, exec_if, cond_expr_eval, ev_cond. destruct (ev c s) as [v s1].
        destruct (truthy v); rewrite exec_return; reflexivity.
      + destruct e as [[ | |[y|]| | | | | ]|]; try reflexivity.
        rewrite exec_return, exec_if, comma_expr_eval. destruct (ev c s) as [v s1].
        unfold void0. rewrite ev_void. cbn. destruct (truthy v); reflexivity.
      + destruct e as [[ | | |y| | | | ]|]; try reflexivity.
        rewrite exec_throw, exec_if, cond_expr_eval, ev_cond. destruct (ev c s) as [v s1].
        destruct (truthy v); rewrite exec_throw; reflexivity.
  Qed.

  Theorem optimize_if_sound : forall c b e s, trusted c -> exec (optimize_if T c b e) s = exec (SIf c b e) s.
  Proof.
    intros c b e s Hc. destruct (optimize_if_cases c b e) as [-> | [x [es [N [-> ->]]]]].
    - apply if_core_sound. exact Hc.
    - rewrite if_core_sound; [apply if_swap; exact N|]. exact (trusted_not_operand _ _ N Hc).
  Qed.

  Definition safe_opt (e : option stmt) : Prop := match e with Some x => safe x | None => True end.

  Lemma if_core_safe : forall c b e, trusted c -> safe b -> safe_opt e -> safe (if_core c b e).
  Proof.
    intros c b e Hc Hb He. unfold if_core. cbv zeta.
    assert (D : safe (SIf c b e)) by (split; [exact Hc|split; [exact Hb|exact He]]).
    destruct (is_empty b) eqn:Eb; destruct (is_empty_opt e) eqn:Ee; cbn [negb andb].
    - destruct (has_side_effects T c); exact I.
    - destruct e as [[y| | | | | | | ]|]; try exact D. exact I.
    - destruct b as [x|c2 b2 e2| | | | | | ]; try exact D.
      + destruct (not_operand c); exact I.
      + destruct (is_empty_opt e2); [|exact D]. destruct Hb as [Hc2 [Hb2 He2]].
        split; [apply trusted_and_expr; assumption|split; assumption].
    - destruct b as [x| |[x|]|x| | | | ]; try exact D.
      + destruct e as [[y| | | | | | | ]|]; try exact D. exact I.
      + destruct e as [[ | |[y|]| | | | | ]|]; try exact D. apply ret_trusted_cond_expr.
      + destruct e as [[ | |[y|]| | | | | ]|]; try exact D. apply ret_trusted_comma_void0.
      + destruct e as [[ | | |y| | | | ]|]; try exact D. exact I.
  Qed.

  Lemma optimize_if_safe : forall c b e, trusted c -> safe b -> safe_opt e -> safe (optimize_if T c b e).
  Proof.
    intros c b e Hc Hb He. destruct (optimize_if_cases c b e) as [-> | [x [es [N [-> ->]]]]].
    - apply if_core_safe; assumption.
    - apply if_core_safe; [exact (trusted_not_operand _ _ N Hc)|exact He|exact Hb].
  Qed.

  (* ---------- flatten_else ---------- *)
  Lemma flatten_else_sound : forall s0 s1 extra rest, flatten_else s0 = (s1, extra) ->
    leq (s1 :: extra ++ rest) (s0 :: rest).
  Proof.
    intros s0 s1 extra rest H.
    assert (Triv : (s1, extra) = (s0, []) -> leq (s1 :: extra ++ rest) (s0 :: rest)).
    { intro E. injection E as -> ->. apply leq_refl. }
    destruct s0 as [ |c b [es|]| | | | | | ]; simpl in H; try (apply Triv; symmetry; exact H).
    destruct (is_empty es) eqn:Ees; [apply Triv; symmetry; exact H|]. clear Triv.
    (* the normalised triple behaves like the original if *)
    assert (Norm : forall c1 b1 e1,
      (forall s, exec (SIf c1 b1 (Some e1)) s = exec (SIf c b (Some es)) s) ->
      (if is_flow (last_stmt b1) then (SIf c1 b1 None, match e1 with SBlock l => l | _ => [e1] end)
       else (SIf c1 b1 (Some e1), [])) = (s1, extra) ->
      leq (s1 :: extra ++ rest) (SIf c b (Some es) :: rest)).
    { intros c1 b1 e1 Heq H1. destruct (is_flow (last_stmt b1)) eqn:Fl; injection H1 as <- <-.
      - intro s. rewrite !exec_list_cons, <- Heq, !exec_if. destruct (ev c1 s) as [v sc]. destruct (truthy v).
        + pose proof (flow_not_normal b1 Fl sc) as Nn. destruct (exec b1 sc) as [[ | | | ] sb]; simpl in Nn; congruence.
        + rewrite exec_list_app, unpack_block. reflexivity.
      - intro s. simpl app. rewrite !exec_list_cons, Heq. reflexivity. }
    destruct (not_operand c) as [x|] eqn:N.
    - destruct (is_flow (last_stmt es)) eqn:Fe.
      + apply (Norm x es b); [intro s; apply if_swap; exact N|exact H].
      + apply (Norm c b es); [reflexivity|exact H].
    - apply (Norm c b es); [reflexivity|exact H].
  Qed.

  Lemma safe_unpack : forall e1, safe e1 -> Forall safe (match e1 with SBlock l => l | _ => [e1] end).
  Proof.
    intros e1 H. destruct e1; try (constructor; [exact H|constructor]). apply safe_block. exact H.
  Qed.

  Lemma flatten_else_safe : forall s0 s1 extra, flatten_else s0 = (s1, extra) -> safe s0 -> safe s1 /\ Forall safe extra.
  Proof.
    intros s0 s1 extra H Hs.
    assert (Triv : (s1, extra) = (s0, []) -> safe s1 /\ Forall safe extra).
    { intro E. injection E as -> ->. split; [exact Hs|constructor]. }
    destruct s0 as [ |c b [es|]| | | | | | ]; simpl in H; try (apply Triv; symmetry; exact H).
    destruct (is_empty es) eqn:Ees; [apply Triv; symmetry; exact H|]. clear Triv.
    destruct Hs as [Hc [Hb He]].
    assert (Norm : forall c1 b1 e1, trusted c1 -> safe b1 -> safe e1 ->
      (if is_flow (last_stmt b1) then (SIf c1 b1 None, match e1 with SBlock l => l | _ => [e1] end)
       else (SIf c1 b1 (Some e1), [])) = (s1, extra) -> safe s1 /\ Forall safe extra).
    { intros c1 b1 e1 H1 H2 H3 H4. destruct (is_flow (last_stmt b1)); injection H4 as <- <-.
      - split; [split; [exact H1|split; [exact H2|exact I]]|apply safe_unpack; exact H3].
      - split; [split; [exact H1|split; [exact H2|exact H3]]|constructor]. }
    destruct (not_operand c) as [x|] eqn:N.
    - destruct (is_flow (last_stmt es)).
      + apply (Norm x es b); try assumption. exact (trusted_not_operand _ _ N Hc).
      + apply (Norm c b es); assumption.
    - apply (Norm c b es); assumption.
  Qed.

  (* ---------- merge_prev ---------- *)
  Lemma merge_prev_sound : forall prev cur m, merge_prev prev cur = Some m -> leq [m] [prev; cur].
  Proof.
    intros prev cur m H s. destruct prev as [l| | | | | | | ]; try discriminate H. simpl in H.
    rewrite !exec_list_cons, exec_expr.
    destruct cur as [r|c b e|[v|]|v| | | | ]; try discriminate H; injection H as <-.
    - rewrite !exec_expr, comma_expr_eval. destruct (ev l s) as [vl sl]. reflexivity.
    - rewrite !exec_if, comma_expr_eval. destruct (ev l s) as [vl sl]. reflexivity.
    - rewrite !exec_return, comma_expr_eval. destruct (ev l s) as [vl sl]. reflexivity.
    - rewrite !exec_throw, comma_expr_eval. destruct (ev l s) as [vl sl]. reflexivity.
  Qed.

  Lemma merge_prev_safe : forall prev cur m, merge_prev prev cur = Some m -> safe cur -> safe m.
  Proof.
    intros prev cur m H Hc. destruct prev as [l| | | | | | | ]; try discriminate H. simpl in H.
    destruct cur as [r|c b e|[v|]|v| | | | ]; try discriminate H; injection H as <-.
    - exact I.
    - destruct Hc as [_ Hc]. split; [apply trusted_comma_expr|exact Hc].
    - apply ret_trusted_comma_expr. exact Hc.
    - exact I.
  Qed.

  (* ---------- merge_if_flow ---------- *)
  Lemma mif_return_body : forall c lv v e, is_empty_opt e = true ->
    leq [SReturn (Some (cond_expr T c lv v))] [SIf c (SReturn (Some lv)) e; SReturn (Some v)].
  Proof.
    intros c lv v e He s. rewrite !exec_list_cons, exec_return, cond_expr_eval, ev_cond, exec_if.
    destruct (ev c s) as [vc sc]. destruct (truthy vc).
    - rewrite exec_return. destruct (ev lv sc). reflexivity.
    - rewrite (is_empty_opt_exec e He), exec_list_cons, exec_return. destruct (ev v sc). reflexivity.
  Qed.
  Lemma mif_return_else : forall c lv v b, is_empty b = true ->
    leq [SReturn (Some (cond_expr T c v lv))] [SIf c b (Some (SReturn (Some lv))); SReturn (Some v)].
  Proof.
    intros c lv v b Hb s. rewrite !exec_list_cons, exec_return, cond_expr_eval, ev_cond, exec_if.
    destruct (ev c s) as [vc sc]. destruct (truthy vc).
    - rewrite (is_empty_exec b Hb), exec_list_cons, exec_return. destruct (ev v sc). reflexivity.
    - rewrite exec_return. destruct (ev lv sc). reflexivity.
  Qed.
  Lemma mif_throw_body : forall c lv v e, is_empty_opt e = true ->
    leq [SThrow (cond_expr T c lv v)] [SIf c (SThrow lv) e; SThrow v].
  Proof.
    intros c lv v e He s. rewrite !exec_list_cons, exec_throw, cond_expr_eval, ev_cond, exec_if.
    destruct (ev c s) as [vc sc]. destruct (truthy vc).
    - rewrite exec_throw. destruct (ev lv sc). reflexivity.
    - rewrite (is_empty_opt_exec e He), exec_list_cons, exec_throw. destruct (ev v sc). reflexivity.
  Qed.
  Lemma mif_throw_else : forall c lv v b, is_empty b = true ->
    leq [SThrow (cond_expr T c v lv)] [SIf c b (Some (SThrow lv)); SThrow v].
  Proof.
    intros c lv v b Hb s. rewrite !exec_list_cons, exec_throw, cond_expr_eval, ev_cond, exec_if.
    destruct (ev c s) as [vc sc]. destruct (truthy vc).
    - rewrite (is_empty_exec b Hb), exec_list_cons, exec_throw. destruct (ev v sc). reflexivity.
    - rewrite exec_throw. destruct (ev lv sc). reflexivity.
  Qed.
  Lemma mif_none_body : forall c e, is_empty_opt e = true ->
    leq [SExpr c; SReturn None] [SIf c (SReturn None) e; SReturn None].
  Proof.
    intros c e He s. rewrite !exec_list_cons, exec_expr, exec_if.
    destruct (ev c s) as [vc sc]. simpl snd. destruct (truthy vc).
    - rewrite !exec_return_none. reflexivity.
    - rewrite (is_empty_opt_exec e He). reflexivity.
  Qed.
  Lemma mif_none_else : forall c b, is_empty b = true ->
    leq [SExpr c; SReturn None] [SIf c b (Some (SReturn None)); SReturn None].
  Proof.
    intros c b Hb s. rewrite !exec_list_cons, exec_expr, exec_if.
    destruct (ev c s) as [vc sc]. simpl snd. destruct (truthy vc).
    - rewrite (is_empty_exec b Hb). reflexivity.
    - rewrite !exec_return_none. reflexivity.
  Qed.

  (* newest-first output lists: replacing the two newest statements by an equivalent list *)
  Lemma rev_top2 : forall (cur x : stmt) rest, rev (cur :: x :: rest) = rev rest ++ [x; cur].
  Proof. intros. simpl. rewrite <- app_assoc. reflexivity. Qed.
  Lemma merge_step : forall out cur' cur x rest,
    leq out (rev (cur' :: rest)) -> leq [cur'] [x; cur] -> leq out (rev (cur :: x :: rest)).
  Proof.
    intros out cur' cur x rest H1 H2. eapply leq_trans; [exact H1|]. rewrite rev_top2. simpl rev.
    apply leq_app; [apply leq_refl|exact H2].
  Qed.
  Lemma merge_step2 : forall (a b cur x : stmt) rest,
    leq [a; b] [x; cur] -> leq (rev (b :: a :: rest)) (rev (cur :: x :: rest)).
  Proof. intros a b cur x rest H. rewrite !rev_top2. apply leq_app; [apply leq_refl|exact H]. Qed.

  Lemma merge_if_flow_sound : forall n cur acc, leq (rev (merge_if_flow T n cur acc)) (rev (cur :: acc)).
  Proof.
    induction n as [|n IH]; intros cur acc; [apply leq_refl|].
    simpl merge_if_flow.
    destruct acc as [|[ |c b e| | | | | | ] rest]; try apply leq_refl.
    destruct (is_empty b) eqn:Eb; destruct (is_empty_opt e) eqn:Ee; cbn [Bool.eqb]; try apply leq_refl.
    - (* the body is empty, the else is not *)
      destruct cur as [ | |[v|]|v| | | | ]; try apply leq_refl;
        destruct b as [ | |[lv0|]| | | | | ]; try discriminate Eb;
        destruct e as [[ | |[lv|]|lv| | | | ]|]; try apply leq_refl.
      all: first [ apply (merge_step _ _ _ _ _ (IH _ _)); first [apply mif_return_else|apply mif_throw_else]; exact Eb
                 | apply merge_step2; apply mif_none_else; exact Eb ].
    - (* the else is empty, the body is not *)
      destruct cur as [ | |[v|]|v| | | | ]; try apply leq_refl;
        destruct b as [ | |[lv0|]|lv0| | | | ]; try discriminate Eb;
        try (destruct e as [[ | |[lv|]|lv| | | | ]|]; try discriminate Ee; apply leq_refl).
      all: first [ apply (merge_step _ _ _ _ _ (IH _ _)); first [apply mif_return_body|apply mif_throw_body]; exact Ee
                 | apply merge_step2; apply mif_none_body; exact Ee ].
  Qed.

  Lemma merge_if_flow_safe : forall n cur acc, safe cur -> Forall safe acc -> Forall safe (merge_if_flow T n cur acc).
  Proof.
    induction n as [|n IH]; intros cur acc Hc Ha; [constructor; assumption|].
    assert (D : Forall safe (cur :: acc)) by (constructor; assumption).
    simpl merge_if_flow.
    destruct acc as [|[ |c b e| | | | | | ] rest]; try exact D.
    destruct (Bool.eqb (is_empty b) (is_empty_opt e)); [exact D|].
    inversion Ha as [|x0 r0 Hx Hrest]; subst.
    assert (D2 : Forall safe (cur :: SExpr c :: rest)) by (constructor; [exact Hc|constructor; [exact I|exact Hrest]]).
    destruct cur as [ | |[v|]|v| | | | ]; try exact D;
      destruct b as [ | |[lv0|]|lv0| | | | ];
      try (destruct e as [[ | |[lv|]|lv| | | | ]|]);
      first [exact D | exact D2 | apply IH; [first [apply ret_trusted_cond_expr|exact I]|exact Hrest]].
  Qed.

  (* ---------- one step of the list loop: appending a statement to the output ---------- *)
  Definition push (s : stmt) (acc : list stmt) : list stmt :=
    let '(cur, acc1) :=
      match acc with
      | prev :: acc' => match merge_prev prev s with Some m => (m, acc') | None => (s, acc) end
      | [] => (s, acc)
      end in
    merge_if_flow T (Datatypes.S (List.length acc1)) cur acc1.

  Lemma optimize_list_cons : forall k f s0 rest0 acc, optimize_list T (Datatypes.S k) f (s0 :: rest0) acc =
    let '(s1, extra) := flatten_else s0 in
    match optimize_stmt T k s1 with
    | SEmpty => optimize_list T k f (extra ++ rest0) acc
    | _ => optimize_list T k f (extra ++ rest0) (push (optimize_stmt T k s1) acc)
    end.
  Proof.
    intros k f s0 rest0 acc. simpl optimize_list. destruct (flatten_else s0) as [s1 extra].
    destruct (optimize_stmt T k s1); try reflexivity; unfold push;
      (destruct acc as [|prev acc']; [reflexivity|]);
      match goal with |- context [merge_prev ?a ?b] => destruct (merge_prev a b) end; reflexivity.
  Qed.
  Lemma optimize_list_nil : forall k f acc, optimize_list T (Datatypes.S k) f [] acc = rev (if f then drop_trailing_return T acc else acc).
  Proof. intros. reflexivity. Qed.

  Lemma push_sound : forall s acc, leq (rev (push s acc)) (rev acc ++ [s]).
  Proof.
    intros s acc. unfold push. destruct acc as [|prev acc'].
    - apply merge_if_flow_sound.
    - destruct (merge_prev prev s) as [m|] eqn:M.
      + eapply leq_trans; [apply merge_if_flow_sound|]. simpl rev. rewrite <- app_assoc.
        apply leq_app; [apply leq_refl|]. apply (merge_prev_sound _ _ _ M).
      + apply merge_if_flow_sound.
  Qed.

  Lemma push_safe : forall s acc, safe s -> Forall safe acc -> Forall safe (push s acc).
  Proof.
    intros s acc Hs Ha. unfold push. destruct acc as [|prev acc'].
    - apply merge_if_flow_safe; assumption.
    - destruct (merge_prev prev s) as [m|] eqn:M.
      + inversion Ha; subst. apply merge_if_flow_safe; [exact (merge_prev_safe _ _ _ M Hs)|assumption].
      + apply merge_if_flow_safe; assumption.
  Qed.

  Lemma leq_cons_head : forall x y r, (forall s, exec x s = exec y s) -> leq (x :: r) (y :: r).
  Proof. intros x y r H. apply (leq_app [x] [y] r r); [apply leq_single; exact H|apply leq_refl]. Qed.
  Lemma exec_list_single : forall x s, exec_list [x] s = exec x s.
  Proof. intros x s. rewrite exec_list_cons. destruct (exec x s) as [[ | | | ] s1]; reflexivity. Qed.

  (* ---------- the optimiser, without the end-of-function step ---------- *)
  Lemma optimize_sound_k : forall k,
    (forall st, safe st -> (forall s, exec (optimize_stmt T k st) s = exec st s) /\ safe (optimize_stmt T k st)) /\
    (forall l acc, Forall safe l -> Forall safe acc ->
       leq (optimize_list T k false l acc) (rev acc ++ l) /\ Forall safe (optimize_list T k false l acc)).
  Proof.
    induction k as [|k [IHs IHl]].
    - split.
      + intros st Hs. split; [reflexivity|exact Hs].
      + intros l acc Hl Ha. split; [apply leq_refl|]. simpl. apply Forall_app. split; [apply Forall_rev; exact Ha|exact Hl].
    - split.
      + intros st Hs. destruct st as [e|c b e|v|v|kd| |l|i]; try (split; [reflexivity|exact Hs]).
        * (* if *)
          destruct Hs as [Hc [Hb He]]. simpl optimize_stmt.
          destruct (IHs b Hb) as [Eb Sb].
          assert (Xe : (forall s, match option_map (optimize_stmt T k) e with Some x => exec x s | None => (cnormal, s) end =
                                  match e with Some x => exec x s | None => (cnormal, s) end) /\
                       safe_opt (option_map (optimize_stmt T k) e)).
          { destruct e as [x|]; [|split; [reflexivity|exact I]]. destruct (IHs x He) as [Ex Sx]. split; [exact Ex|exact Sx]. }
          destruct Xe as [Ee Se]. split.
          -- intro s. rewrite (optimize_if_sound _ _ _ _ Hc), !exec_if. destruct (ev c s) as [v s1].
             destruct (truthy v); [apply Eb|apply Ee].
          -- apply optimize_if_safe; assumption.
        * (* block *)
          apply safe_block in Hs. simpl optimize_stmt.
          destruct (IHl l [] Hs (Forall_nil _)) as [Hleq Hsafe]. simpl in Hleq.
          destruct (optimize_list T k false l []) as [|x [|y r]] eqn:E.
          -- split; [|exact I]. intro s. rewrite exec_block, <- (Hleq s). reflexivity.
          -- inversion Hsafe as [|x0 r0 Hx Hr]; subst. destruct (IHs x Hx) as [Ex Sx]. split; [|exact Sx].
             intro s. rewrite exec_block, <- (Hleq s), exec_list_single. apply Ex.
          -- split; [|apply safe_block; exact Hsafe]. intro s. rewrite !exec_block. apply Hleq.
      + intros l acc Hl Ha. destruct l as [|s0 rest0].
        * rewrite optimize_list_nil, app_nil_r. split; [apply leq_refl|apply Forall_rev; exact Ha].
        * rewrite optimize_list_cons. inversion Hl as [|x0 r0 Hs0 Hrest0]; subst.
          destruct (flatten_else s0) as [s1 extra] eqn:F.
          destruct (flatten_else_safe _ _ _ F Hs0) as [Hs1 Hextra].
          pose proof (flatten_else_sound _ _ _ rest0 F) as Hfl.
          destruct (IHs s1 Hs1) as [E1 S1].
          assert (Hrest : Forall safe (extra ++ rest0)) by (apply Forall_app; split; assumption).
          remember (optimize_stmt T k s1) as s' eqn:Es'.
          assert (B : leq (optimize_list T k false (extra ++ rest0) (push s' acc)) (rev acc ++ s0 :: rest0) /\
                      Forall safe (optimize_list T k false (extra ++ rest0) (push s' acc))).
          { destruct (IHl (extra ++ rest0) (push s' acc) Hrest (push_safe _ _ S1 Ha)) as [L1 L2]. split; [|exact L2].
            eapply leq_trans; [exact L1|].
            eapply leq_trans; [apply leq_app; [apply push_sound|apply leq_refl]|].
            rewrite <- app_assoc. apply leq_app; [apply leq_refl|]. simpl app.
            eapply leq_trans; [apply leq_cons_head; exact E1|exact Hfl]. }
          destruct s'; try exact B. clear B.
          destruct (IHl (extra ++ rest0) acc Hrest Ha) as [L1 L2]. split; [|exact L2].
          eapply leq_trans; [exact L1|]. apply leq_app; [apply leq_refl|].
          eapply leq_trans; [|exact Hfl]. intro s. rewrite exec_list_cons, <- E1, exec_empty. reflexivity.
  Qed.

  Theorem optimize_stmt_sound : forall k st s, safe st -> exec (optimize_stmt T k st) s = exec st s.
  Proof. intros k st s H. apply (proj1 (optimize_sound_k k)). exact H. Qed.

  Theorem optimize_list_false_sound : forall k l s, hse_trusted l ->
    exec_list (optimize_list T k false l []) s = exec_list l s.
  Proof. intros k l s H. apply (proj2 (optimize_sound_k k) l [] H (Forall_nil _)). Qed.
  Lemma optimize_list_false_safe : forall k l, hse_trusted l -> hse_trusted (optimize_list T k false l []).
  Proof. intros k l H. apply (proj2 (optimize_sound_k k) l [] H (Forall_nil _)). Qed.

  (* ---------- the end of a function body ---------- *)
  (* [function] matters only when the list is exhausted: the function-body run is the block run, with the trailing return
     step applied to the finished output (or not at all, when the fuel ran out before the end) *)
  Lemma optimize_list_true_false : forall k l acc,
    optimize_list T k true l acc = optimize_list T k false l acc \/
    optimize_list T k true l acc = rev (drop_trailing_return T (rev (optimize_list T k false l acc))).
  Proof.
    induction k as [|k IH]; intros l acc; [left; reflexivity|].
    destruct l as [|s0 rest0].
    - right. rewrite !optimize_list_nil, rev_involutive. reflexivity.
    - rewrite !optimize_list_cons. destruct (flatten_else s0) as [s1 extra]. destruct (optimize_stmt T k s1); apply IH.
  Qed.

  (* THE SECOND HYPOTHESIS.  drop_trailing_return rewrites a trailing `return a, b, undefined` of a function (a comma list
     of three or more items whose last item is undefined) to `return a, b`: the list is truncated but stays a return, so
     the function returns b instead of undefined.  [return_hazard acc] (acc: the output, newest first) recognises
     exactly that shape; drop_trailing_return is correct on every other one. *)
  Definition return_hazard (acc : list stmt) : bool :=
    match acc with
    | SReturn (Some (EBin op (EBin opl _ _) r)) :: _ => is_op op "CommaToken" && is_op opl "CommaToken" && is_undefined T r
    | _ => false
    end.

  Lemma run_function_snoc_return_none : forall l s, run_function (l ++ [SReturn None]) s = run_function l s.
  Proof.
    intros l s. unfold run_function. rewrite exec_list_app. destruct (exec_list l s) as [[ | | | ] s1]; reflexivity.
  Qed.
  Lemma run_function_snoc_undefined : forall l v s, (forall s1, ev v s1 = (vundef, s1)) ->
    run_function (l ++ [SReturn (Some v)]) s = run_function l s.
  Proof.
    intros l v s Hv. unfold run_function. rewrite exec_list_app. destruct (exec_list l s) as [[ | | | ] s1]; try reflexivity.
    rewrite exec_list_single, exec_return, Hv. reflexivity.
  Qed.
  Lemma run_function_snoc_comma_undefined : forall l x r s, (forall s1, ev r s1 = (vundef, s1)) ->
    run_function (l ++ [SReturn (Some (EBin "CommaToken" x r))]) s = run_function (l ++ [SExpr x]) s.
  Proof.
    intros l x r s Hr. unfold run_function. rewrite !exec_list_app. destruct (exec_list l s) as [[ | | | ] s1]; try reflexivity.
    rewrite !exec_list_single, exec_return, exec_expr, ev_comma. destruct (ev x s1) as [vx sx]. rewrite Hr. reflexivity.
  Qed.

  Lemma drop_trailing_return_sound : forall acc s, Forall safe acc -> return_hazard acc = false ->
    run_function (rev (drop_trailing_return T acc)) s = run_function (rev acc) s.
  Proof.
    intros acc s Ha Hz. destruct acc as [|[ | |[v|]| | | | | ] rest]; try reflexivity.
    - inversion Ha as [|x0 r0 Hx Hrest]; subst. assert (Hv : ret_trusted v) by exact Hx. destruct Hv as [Hv1 Hv2].
      simpl drop_trailing_return.
      destruct (is_undefined T v) eqn:U.
      + simpl rev. symmetry. apply run_function_snoc_undefined. apply is_undefined_sound; assumption.
      + destruct v as [ |op l r| | | | | | | | ]; try reflexivity.
        destruct (is_op op "CommaToken") eqn:Eop; [|reflexivity]. cbn [andb].
        destruct (is_undefined T r) eqn:Ur; [|reflexivity].
        pose proof (is_undefined_sound r (Hv2 eq_refl) Ur) as Hr.
        unfold is_op in Eop. apply String.eqb_eq in Eop. subst op.
        assert (Good : run_function (rev (SExpr l :: rest)) s = run_function (rev (SReturn (Some (EBin "CommaToken" l r)) :: rest)) s).
        { simpl rev. symmetry. apply run_function_snoc_comma_undefined. exact Hr. }
        destruct l as [ |opl l1 l2| | | | | | | | ]; try exact Good.
        destruct (is_op opl "CommaToken") eqn:Eopl; [|exact Good].
        simpl in Hz. rewrite Eopl, Ur in Hz. discriminate Hz.
    - simpl drop_trailing_return. simpl rev. symmetry. apply run_function_snoc_return_none.
  Qed.

  (* the same, for the output in source order *)
  Definition trailing_return_hazard (out : list stmt) : bool := return_hazard (rev out).

  (* ================= MAIN THEOREMS ================= *)
  (* for every fuel, every list, every store; [function = false]: a block / the program, [function = true]: a function body *)
  Theorem optimize_list_preserves : forall fuel function l s,
      hse_trusted l ->
      (function = true -> trailing_return_hazard (optimize_list T fuel false l []) = false) ->
      run function (optimize_list T fuel function l []) s = run function l s.
  Proof.
    intros fuel function l s Hl Hz. destruct function.
    - unfold run. specialize (Hz eq_refl).
      assert (Base : run_function (optimize_list T fuel false l []) s = run_function l s).
      { unfold run_function. rewrite (optimize_list_false_sound fuel l s Hl). reflexivity. }
      destruct (optimize_list_true_false fuel l []) as [-> | ->]; [exact Base|].
      rewrite drop_trailing_return_sound.
      + rewrite rev_involutive. exact Base.
      + apply Forall_rev. apply optimize_list_false_safe. exact Hl.
      + exact Hz.
    - unfold run. apply optimize_list_false_sound. exact Hl.
  Qed.

  Theorem optimize_body_preserves : forall function l s,
      hse_trusted l ->
      (function = true -> trailing_return_hazard (optimize_body T false l) = false) ->
      run function (optimize_body T function l) s = run function l s.
  Proof. intros function l s Hl Hz. unfold optimize_body in *. apply optimize_list_preserves; assumption. Qed.

  (* blocks and the top level need the first hypothesis only *)
  Corollary optimize_body_block_preserves : forall l s, hse_trusted l -> run false (optimize_body T false l) s = run false l s.
  Proof. intros l s Hl. apply optimize_body_preserves; [exact Hl|discriminate]. Qed.

End StmtProofs.

(* ================= fuel: beyond the bound of optimize_body the result does not depend on it ================= *)
Section Fuel.
  Variable T : tables.

  Definition size_opt (e : option stmt) : nat := match e with Some x => stmt_size x | None => 0 end.
  Lemma stmt_size_if : forall c b e, stmt_size (SIf c b e) = S (stmt_size b + size_opt e).
  Proof. reflexivity. Qed.
  Lemma stmt_size_block : forall l, stmt_size (SBlock l) = S (list_size l).
  Proof. reflexivity. Qed.
  Lemma list_size_cons : forall x l, list_size (x :: l) = stmt_size x + list_size l.
  Proof. reflexivity. Qed.
  Lemma stmt_size_pos : forall st, 1 <= stmt_size st.
  Proof. destruct st; simpl; lia. Qed.
  Lemma list_size_app : forall a b, list_size (a ++ b) = list_size a + list_size b.
  Proof. induction a as [|x r IH]; intro b; [reflexivity|]. simpl app. rewrite !list_size_cons, IH. lia. Qed.
  Lemma list_size_rev : forall a, list_size (rev a) = list_size a.
  Proof. induction a as [|x r IH]; [reflexivity|]. simpl rev. rewrite list_size_app, IH, !list_size_cons. simpl. lia. Qed.

  Lemma size_if_core : forall c b e, stmt_size (if_core T c b e) <= S (stmt_size b + size_opt e).
  Proof.
    intros c b e. unfold if_core. cbv zeta.
    assert (D : stmt_size (SIf c b e) <= S (stmt_size b + size_opt e)) by (rewrite stmt_size_if; lia).
    destruct (negb (negb (is_empty b)) && negb (negb (is_empty_opt e))); [destruct (has_side_effects T c); simpl; lia|].
    destruct (negb (is_empty b) && negb (negb (is_empty_opt e))).
    { destruct b as [x|c2 b2 e2| | | | | | ]; try exact D.
      - destruct (not_operand c); simpl; lia.
      - destruct (is_empty_opt e2); [|exact D]. rewrite !stmt_size_if. lia. }
    destruct (negb (negb (is_empty b)) && negb (is_empty_opt e)).
    { destruct e as [[y| | | | | | | ]|]; try exact D. simpl. lia. }
    destruct b as [x| |[x|]|x| | | | ]; try exact D;
      destruct e as [[y| |[y|]|y| | | | ]|]; try exact D; simpl; lia.
  Qed.

  Lemma size_optimize_if : forall c b e, stmt_size (optimize_if T c b e) <= S (stmt_size b + size_opt e).
  Proof.
    intros c b e. destruct (optimize_if_cases T c b e) as [-> | [x [es [_ [-> ->]]]]].
    - apply size_if_core.
    - pose proof (size_if_core x es (Some b)) as H. simpl size_opt in *. lia.
  Qed.

  Lemma size_unpack : forall e1, list_size (match e1 with SBlock l => l | _ => [e1] end) <= stmt_size e1.
  Proof. intro e1. destruct e1; try (rewrite list_size_cons; simpl; lia). rewrite stmt_size_block. lia. Qed.

  Lemma size_flatten_else : forall s0 s1 extra, flatten_else s0 = (s1, extra) -> stmt_size s1 + list_size extra <= stmt_size s0.
  Proof.
    intros s0 s1 extra H.
    assert (Triv : (s1, extra) = (s0, []) -> stmt_size s1 + list_size extra <= stmt_size s0).
    { intro E. injection E as -> ->. simpl. lia. }
    destruct s0 as [ |c b [es|]| | | | | | ]; simpl in H; try (apply Triv; symmetry; exact H).
    destruct (is_empty es); [apply Triv; symmetry; exact H|]. clear Triv. rewrite stmt_size_if. simpl size_opt.
    assert (Norm : forall c1 b1 e1,
      (if is_flow (last_stmt b1) then (SIf c1 b1 None, match e1 with SBlock l => l | _ => [e1] end)
       else (SIf c1 b1 (Some e1), [])) = (s1, extra) -> stmt_size s1 + list_size extra <= S (stmt_size b1 + stmt_size e1)).
    { intros c1 b1 e1 H1. destruct (is_flow (last_stmt b1)); injection H1 as <- <-.
      - pose proof (size_unpack e1). rewrite stmt_size_if. simpl size_opt. lia.
      - rewrite stmt_size_if. simpl. lia. }
    destruct (not_operand c) as [x|].
    - destruct (is_flow (last_stmt es)); [specialize (Norm x es b H)|specialize (Norm c b es H)]; lia.
    - specialize (Norm c b es H). lia.
  Qed.

  Lemma size_merge_prev : forall prev cur m, merge_prev prev cur = Some m -> stmt_size m <= stmt_size cur.
  Proof.
    intros prev cur m H. destruct prev as [l0| | | | | | | ]; try discriminate H. simpl in H.
    destruct cur as [r|c b e|[v|]|v| | | | ]; try discriminate H; injection H as <-; simpl; lia.
  Qed.

  Lemma size_merge_if_flow : forall n cur acc, list_size (merge_if_flow T n cur acc) <= stmt_size cur + list_size acc.
  Proof.
    induction n as [|n IH]; intros cur acc; [simpl merge_if_flow; rewrite list_size_cons; lia|].
    assert (D : list_size (cur :: acc) <= stmt_size cur + list_size acc) by (rewrite list_size_cons; lia).
    simpl merge_if_flow.
    destruct acc as [|[ |c b e| | | | | | ] rest]; try exact D.
    destruct (Bool.eqb (is_empty b) (is_empty_opt e)); [exact D|].
    rewrite list_size_cons, stmt_size_if.
    destruct cur as [ | |[v|]|v| | | | ]; try (rewrite !list_size_cons, stmt_size_if; lia);
      destruct b as [ | |[lv0|]|lv0| | | | ];
      try (destruct e as [[ | |[lv|]|lv| | | | ]|]);
      first [ rewrite !list_size_cons, ?stmt_size_if; simpl; lia
            | match goal with |- list_size (merge_if_flow T n ?c rest) <= _ => pose proof (IH c rest) as Hm; simpl in Hm |- *; lia end ].
  Qed.

  Lemma size_push : forall s acc, list_size (push T s acc) <= stmt_size s + list_size acc.
  Proof.
    intros s acc. unfold push. destruct acc as [|prev acc'].
    - apply size_merge_if_flow.
    - destruct (merge_prev prev s) as [m|] eqn:M.
      + pose proof (size_merge_prev _ _ _ M). pose proof (size_merge_if_flow (S (List.length acc')) m acc').
        pose proof (stmt_size_pos prev). rewrite list_size_cons. lia.
      + apply size_merge_if_flow.
  Qed.

  Lemma size_drop_trailing_return : forall acc, list_size (drop_trailing_return T acc) <= list_size acc.
  Proof.
    intro acc. destruct acc as [|[ | |[v|]| | | | | ] rest]; try (simpl drop_trailing_return; lia).
    - simpl drop_trailing_return. destruct (is_undefined T v); [rewrite list_size_cons; lia|].
      destruct v as [ |op l r| | | | | | | | ]; try lia.
      destruct (is_op op "CommaToken" && is_undefined T r); [|lia].
      destruct l as [ |opl l1 l2| | | | | | | | ]; try (rewrite !list_size_cons; simpl; lia).
      destruct (is_op opl "CommaToken"); rewrite !list_size_cons; simpl; lia.
    - simpl drop_trailing_return. rewrite list_size_cons. lia.
  Qed.

  (* the optimiser never grows a program *)
  Lemma size_optimize : forall k,
    (forall st, stmt_size (optimize_stmt T k st) <= stmt_size st) /\
    (forall f l acc, list_size (optimize_list T k f l acc) <= list_size acc + list_size l).
  Proof.
    induction k as [|k [IHs IHl]].
    - split; [intro st; simpl; lia|]. intros f l acc. simpl. rewrite list_size_app, list_size_rev. lia.
    - split.
      + intro st. destruct st as [e|c b e|v|v|kd| |l|i]; try (simpl; lia).
        * simpl optimize_stmt. pose proof (size_optimize_if c (optimize_stmt T k b) (option_map (optimize_stmt T k) e)) as H.
          pose proof (IHs b) as Hb. rewrite stmt_size_if.
          assert (He : size_opt (option_map (optimize_stmt T k) e) <= size_opt e) by (destruct e as [x|]; [apply IHs|simpl; lia]).
          lia.
        * simpl optimize_stmt. pose proof (IHl false l []) as H. rewrite stmt_size_block.
          destruct (optimize_list T k false l []) as [|x [|y r]].
          -- simpl. lia.
          -- pose proof (IHs x) as Hx. rewrite list_size_cons in H. simpl in H. lia.
          -- rewrite stmt_size_block. simpl in H |- *. lia.
      + intros f l acc. destruct l as [|s0 rest0].
        * rewrite optimize_list_nil, list_size_rev. destruct f; [pose proof (size_drop_trailing_return acc)|]; simpl; lia.
        * rewrite optimize_list_cons. destruct (flatten_else s0) as [s1 extra] eqn:F.
          pose proof (size_flatten_else _ _ _ F) as Hf. pose proof (IHs s1) as H1.
          pose proof (size_push (optimize_stmt T k s1) acc) as Hp.
          pose proof (IHl f (extra ++ rest0) acc) as Ha.
          pose proof (IHl f (extra ++ rest0) (push T (optimize_stmt T k s1) acc)) as Hb.
          rewrite list_size_app in Ha, Hb. rewrite list_size_cons.
          destruct (optimize_stmt T k s1); lia.
  Qed.

  Lemma fuel_mono : forall k,
    (forall st k', 2 * stmt_size st <= k -> k <= k' -> optimize_stmt T k' st = optimize_stmt T k st) /\
    (forall f l acc k', 2 * list_size l + 1 <= k -> k <= k' -> optimize_list T k' f l acc = optimize_list T k f l acc).
  Proof.
    induction k as [|k [IHs IHl]].
    - split; [intros st k' H; pose proof (stmt_size_pos st); lia|intros f l acc k' H; lia].
    - split.
      + intros st k' Hb Hk. destruct k' as [|k'']; [lia|].
        destruct st as [e|c b e|v|v|kd| |l|i]; try reflexivity.
        * rewrite stmt_size_if in Hb. simpl optimize_stmt. rewrite (IHs b k'') by lia.
          destruct e as [x|]; [|reflexivity]. simpl size_opt in Hb. simpl option_map. rewrite (IHs x k'') by lia. reflexivity.
        * rewrite stmt_size_block in Hb. simpl optimize_stmt. rewrite (IHl false l [] k'') by lia.
          pose proof (proj2 (size_optimize k) false l []) as Hs.
          destruct (optimize_list T k false l []) as [|x [|y r]]; try reflexivity.
          rewrite list_size_cons in Hs. simpl in Hs. apply IHs; lia.
      + intros f l acc k' Hb Hk. destruct k' as [|k'']; [lia|].
        destruct l as [|s0 rest0]; [reflexivity|].
        rewrite !optimize_list_cons. rewrite list_size_cons in Hb.
        destruct (flatten_else s0) as [s1 extra] eqn:F. pose proof (size_flatten_else _ _ _ F) as Hf.
        pose proof (stmt_size_pos s1) as Hp.
        rewrite (IHs s1 k'') by lia.
        destruct (optimize_stmt T k s1); apply IHl; rewrite ?list_size_app; lia.
  Qed.

  (* BONUS *)
  Theorem optimize_body_fuel_enough : forall function l k, 2 * list_size l + 2 <= k ->
    optimize_list T k function l [] = optimize_body T function l.
  Proof.
    intros function l k H. unfold optimize_body. apply (proj2 (fuel_mono (2 * list_size l + 2))); lia.
  Qed.
End Fuel.

(* ================= the two hypotheses are necessary: concrete failing inputs =================
   Instance: V = nat (0 false, 1 true, 2 undefined, 3 Infinity), a store = the variables (an association list) and a log
   (a counter of the effects so far: every call and every "arithmetic" operator, which may run valueOf, ticks it).
   The tables are the generated ones (the minifier's own precedence maps). *)
From MV Require Import Js.PrintGen.
Module StmtCounterexample.
  Definition V := nat.
  Definition S := (list (string * nat) * nat)%type.
  Definition truthy (v : V) : bool := negb (Nat.eqb v 0) && negb (Nat.eqb v 2).
  Fixpoint lookup (x : string) (m : list (string * nat)) : V :=
    match m with [] => 0 | (k, v) :: r => if String.eqb k x then v else lookup x r end.
  Definition var (x : string) (s : S) : V := lookup x (fst s).
  Definition assign (x : string) (v : V) (s : S) : S := ((x, v) :: fst s, snd s).
  Definition tick (s : S) : S := (fst s, Datatypes.S (snd s)).
  Definition call (f a : V) (s : S) : V * S := (f + a, tick s).
  Definition arith (op : string) (a b : V) (s : S) : V * S := (a + b, tick s).
  Definition pure_unop (op : string) (v : V) : V := if String.eqb op "VoidToken" then 2 else 1.
  Definition opaque (i : string) (s : S) : completion V * S := (CNormal V, s).
  Definition run' : bool -> list stmt -> S -> completion V * S :=
    run T_gen V S truthy 1 0 2 3 var assign call Nat.eqb (fun a b s => (Nat.eqb a b, s))
      (fun _ _ _ s => (false, s)) arith pure_unop (fun _ _ s => (0, s)) (fun _ _ s => (0, s)) (fun _ _ s => (0, s))
      (fun v => Nat.eqb v 2) opaque.
  Definition hse_trusted' : list stmt -> Prop :=
    hse_trusted T_gen V S truthy 1 0 2 3 var assign call Nat.eqb (fun a b s => (Nat.eqb a b, s))
      (fun _ _ _ s => (false, s)) arith pure_unop (fun _ _ s => (0, s)) (fun _ _ s => (0, s)) (fun _ _ s => (0, s))
      (fun v => Nat.eqb v 2).
  Definition s0 : S := ([("a", 5); ("b", 7); ("f", 10); ("g", 20); ("x", 1)], 0).

  Example tables_ok : sem_tables_ok T_gen = true.
  Proof. vm_compute. reflexivity. Qed.
  (* the interpretation satisfies everything the theorems ask of it (and the remaining assumptions of the expression semantics) *)
  Example interpretation_ok :
    truthy 1 = true /\ truthy 0 = false /\ truthy 2 = false /\ (forall x v s, var x (assign x v s) = v) /\
    (forall v, pure_unop "VoidToken" v = 2).
  Proof. repeat split. intros x v s. unfold var, assign. simpl. rewrite String.eqb_refl. reflexivity. Qed.

  (* ----- 1. hse_trusted (known defect K03).  JavaScript:   a = {valueOf(){log()}}; b = 1;  if (a + b);
     hasSideEffects(a+b) = false (both operands are bare identifiers), so the whole statement is dropped, and with it the
     valueOf call that `+` makes. *)
  Definition cex_hse : list stmt := [SIf (EBin "AddToken" (EAtom "a") (EAtom "b")) SEmpty None].
  Example cex_hse_answer : has_side_effects T_gen (EBin "AddToken" (EAtom "a") (EAtom "b")) = false.
  Proof. vm_compute. reflexivity. Qed.
  Example cex_hse_optimised : optimize_body T_gen false cex_hse = [] /\ optimize_body T_gen true cex_hse = [].
  Proof. vm_compute. split; reflexivity. Qed.
  Example cex_hse_runs : run' false cex_hse s0 = (CNormal V, tick s0) /\ run' false (optimize_body T_gen false cex_hse) s0 = (CNormal V, s0).
  Proof. vm_compute. split; reflexivity. Qed.
  Theorem hse_hypothesis_needed : exists function l s,
    (function = true -> trailing_return_hazard T_gen (optimize_body T_gen false l) = false) /\
    run' function (optimize_body T_gen function l) s <> run' function l s.
  Proof.
    exists false, cex_hse, s0. split; [discriminate|]. intro H. vm_compute in H. discriminate H.
  Qed.
  (* the same in a function body: the second hypothesis holds there, so it is the first one that fails *)
  Theorem hse_hypothesis_needed_in_function :
    trailing_return_hazard T_gen (optimize_body T_gen false cex_hse) = false /\
    run' true (optimize_body T_gen true cex_hse) s0 <> run' true cex_hse s0.
  Proof. split; [vm_compute; reflexivity|]. intro H. vm_compute in H. discriminate H. Qed.
  Theorem cex_hse_not_trusted : ~ hse_trusted' cex_hse.
  Proof.
    intro H. inversion H as [|x r Hx _]; subst. destruct Hx as [Hc _].
    specialize (Hc eq_refl s0). vm_compute in Hc. discriminate Hc.
  Qed.

  (* the other place where the answer is believed: a returned `void x`.
     JavaScript:   function h() { return void (a + b) }   ->   function h() {}   (the valueOf call of `+` is lost) *)
  Definition cex_void : list stmt := [SReturn (Some (EPre "VoidToken" (EGroup (EBin "AddToken" (EAtom "a") (EAtom "b")))))].
  Example cex_void_optimised : optimize_body T_gen true cex_void = [].
  Proof. vm_compute. reflexivity. Qed.
  Theorem hse_hypothesis_needed_void :
    trailing_return_hazard T_gen (optimize_body T_gen false cex_void) = false /\
    run' true cex_void s0 = (CReturn V 2, tick s0) /\ run' true (optimize_body T_gen true cex_void) s0 = (CReturn V 2, s0).
  Proof. vm_compute. repeat split; reflexivity. Qed.

  (* ----- 2. trailing_return_hazard (known finding C01; js_test.go pins `return a,b,void 0` -> `return a,b`).
     JavaScript:   function h(f, g, x) { f(x); g(x); return undefined }
     The two expression statements are merged into the return: `return f(x), g(x), undefined`; the trailing undefined
     is cut off the comma list, but the list stays a return: `return f(x), g(x)`.  h now returns g(x), not undefined. *)
  Definition cex_ret : list stmt :=
    [SExpr (ECall (EAtom "f") (EAtom "x")); SExpr (ECall (EAtom "g") (EAtom "x")); SReturn (Some (EConst CUndefined))].
  Example cex_ret_optimised :
    optimize_body T_gen true cex_ret =
      [SReturn (Some (EBin "CommaToken" (ECall (EAtom "f") (EAtom "x")) (ECall (EAtom "g") (EAtom "x"))))].
  Proof. vm_compute. reflexivity. Qed.
  Example cex_ret_hazard : trailing_return_hazard T_gen (optimize_body T_gen false cex_ret) = true.
  Proof. vm_compute. reflexivity. Qed.
  Example cex_ret_runs :
    run' true cex_ret s0 = (CReturn V 2, tick (tick s0)) /\
    run' true (optimize_body T_gen true cex_ret) s0 = (CReturn V 21, tick (tick s0)).
  Proof. vm_compute. split; reflexivity. Qed.
  Example cex_ret_trusted : hse_trusted' cex_ret.
  Proof. repeat constructor. Qed.
  Theorem return_hypothesis_needed : exists l s,
    hse_trusted' l /\ run' true (optimize_body T_gen true l) s <> run' true l s.
  Proof.
    exists cex_ret, s0. split; [exact cex_ret_trusted|]. intro H. vm_compute in H. discriminate H.
  Qed.
  (* the same through `return void 0` and through an `if` whose two branches are bare returns *)
  Example cex_ret_void : let l := [SExpr (ECall (EAtom "f") (EAtom "x")); SExpr (ECall (EAtom "g") (EAtom "x")); SReturn (Some void0)] in
    hse_trusted' l /\ run' true (optimize_body T_gen true l) s0 <> run' true l s0.
  Proof. split; [repeat constructor; intros _ _ s; reflexivity|]. intro H. vm_compute in H. discriminate H. Qed.

  (* the theorem, at this instance: for blocks under the first hypothesis alone *)
  Example instance : forall l s, hse_trusted' l -> run' false (optimize_body T_gen false l) s = run' false l s.
  Proof.
    intros l s H. unfold run'. apply optimize_body_block_preserves; try reflexivity. exact H.
  Qed.
End StmtCounterexample.

Print Assumptions optimize_body_preserves.
