(* Js/StmtRender.v — from the statement printer's tokens (Js/StmtPrint.v) to BYTES: the keywords and punctuation of
   minifyStmt go through the same writer as the expression tokens (Js/PrintRender.v: jsMinifier.write with needsSpace /
   spaceBefore); `return`, `throw` and `else` are followed by writeSpaceBeforeIdent; the pending semicolon is written RAW
   (writeSemicolon: straight to the output, clearing needsSpace but touching neither the previous chunk nor spaceBefore).
   [render_body] is what js.Minify writes between the braces of a function body of the fragment.
   No proofs in this file; extracted and compared byte for byte with the real js.Minify. *)
From Coq Require Import List String Ascii Arith Bool ZArith.
Import ListNotations.
From MV Require Import Base.MvBytes Js.PrintModel Js.PrintRender Js.StmtModel Js.StmtPrint.
Local Open Scope Z_scope.

Definition raw_semicolon (s : wstate) : wstate :=
  {| w_out := w_out s ++ [59]; w_last := w_last s; w_needs_space := false; w_space_before := w_space_before s |}.

Definition kw_bytes (k : string) : bytes := bytes_of_string k.

Definition render_stok (t : stok) (s : wstate) : wstate :=
  match t with
  | SE e => fold_left (fun st tk => render_tok tk st) e s
  | SK k =>
      if String.eqb k ";" then raw_semicolon s
      else if String.eqb k "else" || String.eqb k "return" || String.eqb k "throw" then set_needs_space (write (kw_bytes k) s)
      else write (kw_bytes k) s
  end.
Definition render_stoks (ts : list stok) : bytes := w_out (fold_left (fun s t => render_stok t s) ts w_init).

Definition render_body (T : tables) (efuel : nat) (function : bool) (l : list stmt) : bytes :=
  render_stoks (print_body T efuel function l).
