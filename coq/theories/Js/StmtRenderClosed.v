(* Js/StmtRenderClosed.v — the hypothesis of StmtRenderProofs.render_body_lexes_back (every token of print_body is well
   formed) discharged from a condition on the INPUT statement list:
   D1  the expression rewrites (optimize_unary / optimize_boolean / optimize_cond, rw) keep expr_ok
   D2  devoid, the statement optimiser and the statement printer keep it; stmts_okb; the closed corollary
   D3  an example on the generated tables, everything by computation *)
From Coq Require Import List String Ascii Arith Bool ZArith Lia.
Import ListNotations.
From MV Require Import Base.MvBytes Js.PrintModel Js.PrintGen Js.PrintGroup Js.RewriteModel Js.RewritePipe Js.RewriteSem
  Js.RewriteProofs Js.RewritePipeProofs Js.StmtModel Js.StmtPrint Js.PrintRender Js.PrintRenderProofs Js.StmtRender Js.StmtRenderProofs.
Local Open Scope string_scope.
Local Open Scope list_scope.

(* ================================================================================================================== *)
(* D1. the rewrites keep expr_ok                                                                                       *)
(* ================================================================================================================== *)

Notation ok e := (expr_ok e = true).

Ltac okinv :=
  repeat match goal with
  | H : expr_ok (EBin _ _ _) = true |- _ =>
      let A := fresh "Hop" in let B := fresh "Hok" in let C := fresh "Hok" in
      cbn [expr_ok] in H; apply andb_true_iff in H; destruct H as [A C]; apply andb_true_iff in A; destruct A as [A B]
  | H : expr_ok (EPre _ _) = true |- _ =>
      let A := fresh "Hop" in let B := fresh "Hok" in cbn [expr_ok] in H; apply andb_true_iff in H; destruct H as [A B]
  | H : expr_ok (EPost _ _) = true |- _ =>
      let A := fresh "Hop" in let B := fresh "Hok" in cbn [expr_ok] in H; apply andb_true_iff in H; destruct H as [A B]
  | H : expr_ok (ECond _ _ _) = true |- _ =>
      let A := fresh "Hok" in let B := fresh "Hok" in let C := fresh "Hok" in
      cbn [expr_ok] in H; apply andb_true_iff in H; destruct H as [A C]; apply andb_true_iff in A; destruct A as [A B]
  | H : expr_ok (ECall _ _) = true |- _ =>
      let A := fresh "Hok" in let B := fresh "Hok" in cbn [expr_ok] in H; apply andb_true_iff in H; destruct H as [A B]
  | H : expr_ok (EIndex _ _ _) = true |- _ =>
      let A := fresh "Hok" in let B := fresh "Hok" in cbn [expr_ok] in H; apply andb_true_iff in H; destruct H as [A B]
  | H : expr_ok (EDot _ _ _) = true |- _ =>
      let A := fresh "Hok" in let B := fresh "Hid" in cbn [expr_ok] in H; apply andb_true_iff in H; destruct H as [A B]
  | H : expr_ok (EGroup ?x) = true |- _ => change (expr_ok x = true) in H
  end.

Lemma ok_group_expr T p e : ok e -> ok (group_expr T p e).
Proof. intros H. unfold group_expr. destruct (_ && _); [exact H|exact H]. Qed.

Create HintDb okdb.
#[export] Hint Resolve ok_group_expr : okdb.
#[export] Hint Extern 1 (mem_str _ _ = true) => reflexivity : okdb.

Ltac oksolve :=
  first [ assumption
        | lazymatch goal with
          | |- expr_ok (group_expr _ _ _) = true => apply ok_group_expr; oksolve
          | |- _ && _ = true => apply andb_true_iff; split; oksolve
          | |- expr_ok ?e = true =>
              first [ solve [auto with okdb]
                    | progress cbn [expr_ok]; oksolve ]
          | _ => auto with okdb
          end ].

Lemma ok_strip_nots e : forall inv, ok e -> ok (snd (strip_nots inv e)).
Proof.
  induction e; intros inv H; cbn [strip_nots]; try exact H.
  - destruct (is_op op "NotToken"); [|exact H]. okinv. auto.
  - okinv. auto.
Qed.

Lemma four_eq_invert_mem op : four_eq op = true -> mem_str (invert_op op) bin_ops = true.
Proof. intros H. destruct (four_eq_cases _ H) as [-> | [-> | [-> | ->]]]; reflexivity. Qed.

Section Rewrites.
  Variable T : tables.
  Hypothesis HT : sem_tables_ok T = true.

  Lemma ok_flip_eq e : ok e -> is_equals_bin T e = true -> ok (flip_eq e).
  Proof.
    destruct e; cbn [is_equals_bin flip_eq]; try discriminate. intros H E. apply Nat.eqb_eq in E. okinv.
    pose proof (four_eq_invert_mem _ (binp_equals_four T HT _ E)). oksolve.
  Qed.

  Lemma ok_optimize_unary whole prec : ok whole -> ok (optimize_unary T whole prec).
  Proof.
    intros H. unfold optimize_unary. destruct whole as [| | op0 x0| | | | | | |]; try exact H.
    destruct (negb (is_op op0 "NotToken")); [exact H|].
    assert (ok x0) as Hok by (cbn [expr_ok] in H; apply andb_true_iff in H; tauto).
    remember (EPre op0 x0) as w eqn:Ew. rename H into H0. pose proof (ok_strip_nots x0 true Hok) as Hs.
    destruct (strip_nots true x0) as [invert e2]. cbn [snd] in Hs.
    destruct (negb invert && is_boolean_expr T e2); [auto with okdb|].
    destruct e2 as [|op a b| | | | | | | |]; try exact H0.
    destruct (negb invert); [exact H0|].
    destruct (Nat.eqb (binp T op) OpEquals) eqn:E.
    { apply Nat.eqb_eq in E. okinv. apply ok_group_expr. pose proof (four_eq_invert_mem _ (binp_equals_four T HT _ E)). oksolve. }
    destruct (is_op op "AndToken" || is_op op "OrToken"); [|exact H0].
    okinv. cbv zeta. destruct (0 <? _)%Z; [|exact H0].
    assert (ok (if is_equals_bin T a then flip_eq a
                else EPre "NotToken" (if negb (is_equals_bin T a) && Nat.leb (leftp T op) (expr_prec T a) && Nat.ltb (expr_prec T a) OpUnary then EGroup a else a))) as Hx.
    { destruct (is_equals_bin T a) eqn:Ea; [apply ok_flip_eq; auto|].
      match goal with |- context [if ?c then EGroup _ else _] => destruct c end; oksolve. }
    assert (ok (if is_equals_bin T b then flip_eq b
                else EPre "NotToken" (if negb (is_equals_bin T b) && Nat.leb (rightp T op) (expr_prec T b) && Nat.ltb (expr_prec T b) OpUnary then EGroup b else b))) as Hy.
    { destruct (is_equals_bin T b) eqn:Eb; [apply ok_flip_eq; auto|].
      match goal with |- context [if ?c then EGroup _ else _] => destruct c end; oksolve. }
    destruct (is_op op "AndToken"); match goal with |- ok (if ?c then EGroup _ else _) => destruct c end; oksolve.
  Qed.

  Lemma ok_optimize_boolean e invert prec : ok e -> ok (optimize_boolean T e invert prec).
  Proof.
    intros H. unfold optimize_boolean. destruct invert.
    - destruct (is_equals_bin T e) eqn:E; [apply ok_flip_eq; auto|]. apply ok_optimize_unary. oksolve.
    - destruct (is_boolean_expr T e); oksolve.
  Qed.

  (* optimize_cond in two pieces (the same text; optimize_cond_eq is by reflexivity) *)
  Definition cond_sel (c0 x0 y0 : expr) : expr * expr * expr :=
    match c0 with
    | EPre op1 u1 =>
        if is_op op1 "NotToken" then
          match u1 with
          | EPre op2 u2 => if is_op op2 "NotToken" then (if is_boolean_expr T u2 then (u2, x0, y0) else (c0, x0, y0)) else (u1, y0, x0)
          | _ => (u1, y0, x0)
          end
        else (c0, x0, y0)
    | _ => (c0, x0, y0)
    end.
  Definition cond_unwrap (c x y : expr) (prec : nat) : expr :=
    if Nat.leb prec OpExpr then
      match c with
      | EGroup (EBin opc l r) => if is_op opc "CommaToken" && Nat.leb OpCoalesce (expr_prec T r) then EBin "CommaToken" l (ECond r x y) else ECond c x y
      | _ => ECond c x y
      end
    else ECond c x y.
  Definition cond_tail (c x y : expr) (prec : nat) : expr :=
    let fc := final_expr c in
    match is_truthy c with
    | Some true => x
    | Some false => y
    | None =>
      if is_equal_expr fc x && or_and_guard T "OrToken" fc y then EBin "OrToken" (group_expr T (leftp T "OrToken") c) y
      else if is_equal_expr fc y && or_and_guard T "AndToken" fc x then EBin "AndToken" (group_expr T (leftp T "AndToken") c) x
      else if is_equal_expr x y then group_expr T prec (EBin "CommaToken" c x)
      else
        match x, y with
        | ECall f a, ECall f' b =>
            if is_equal_expr f f' && negb (may_run_code c) then ECall f (ECond c a b) else cond_unwrap c x y prec
        | _, _ =>
          let tx := is_true x in let fx := is_false x in let ty := is_true y in let fy := is_false y in
          if (tx && fy) || (fx && ty) then optimize_boolean T c fx prec
          else if tx || ty then
            let cond := optimize_boolean T c ty (leftp T "OrToken") in
            if ty then EBin "OrToken" cond (group_expr T (rightp T "OrToken") x) else EBin "OrToken" cond (group_expr T (rightp T "OrToken") y)
          else if fx || fy then
            let cond := optimize_boolean T c fx (leftp T "AndToken") in
            if fx then EBin "AndToken" cond (group_expr T (rightp T "AndToken") y) else EBin "AndToken" cond (group_expr T (rightp T "AndToken") x)
          else
            match x with
            | ECond c2 x2 y2 =>
                if is_equal_expr y y2 then ECond (EBin "AndToken" (group_expr T (leftp T "AndToken") c) (group_expr T (rightp T "AndToken") c2)) x2 y
                else cond_unwrap c x y prec
            | _ => cond_unwrap c x y prec
            end
        end
    end.
  Lemma optimize_cond_eq c0 x0 y0 prec :
    optimize_cond T (ECond c0 x0 y0) prec = let '(c, x, y) := cond_sel c0 x0 y0 in cond_tail c x y prec.
  Proof. reflexivity. Qed.

  Lemma ok_cond_sel c0 x0 y0 : ok c0 -> ok x0 -> ok y0 ->
    ok (fst (fst (cond_sel c0 x0 y0))) /\ ok (snd (fst (cond_sel c0 x0 y0))) /\ ok (snd (cond_sel c0 x0 y0)).
  Proof.
    intros Hc Hx Hy. unfold cond_sel.
    destruct c0 as [| |op1 u1| | | | | | |]; cbn [fst snd]; auto.
    destruct (is_op op1 "NotToken"); cbn [fst snd]; auto.
    assert (ok u1) as Hu by (okinv; assumption).
    destruct u1 as [| |op2 u2| | | | | | |]; cbn [fst snd]; auto.
    destruct (is_op op2 "NotToken"); cbn [fst snd]; auto.
    destruct (is_boolean_expr T u2); cbn [fst snd]; auto. okinv. auto.
  Qed.

  Lemma ok_cond_unwrap c x y prec : ok c -> ok x -> ok y -> ok (cond_unwrap c x y prec).
  Proof.
    intros Hc Hx Hy. unfold cond_unwrap. destruct (Nat.leb prec OpExpr); [|oksolve].
    destruct c as [| | | | |g| | | |]; try oksolve. destruct g; try oksolve. destruct (_ && _); [|oksolve]. okinv. oksolve.
  Qed.

  Lemma ok_cond_tail c x y prec : ok c -> ok x -> ok y -> ok (cond_tail c x y prec).
  Proof.
    intros Hc Hx Hy. unfold cond_tail. cbv zeta.
    pose proof (ok_cond_unwrap c x y prec Hc Hx Hy) as HU.
    pose proof (fun i p => ok_optimize_boolean c i p Hc) as HB.
    destruct (is_truthy c) as [[|]|]; auto.
    destruct (_ && _); [oksolve|]. destruct (_ && _); [oksolve|]. destruct (is_equal_expr x y); [apply ok_group_expr; oksolve|].
    destruct x; destruct y;
      repeat match goal with |- ok (if ?b then _ else _) => destruct b end; okinv; try exact HU; oksolve.
  Qed.

  Lemma ok_optimize_cond whole prec : ok whole -> ok (optimize_cond T whole prec).
  Proof.
    intros H. destruct whole; try exact H. rewrite optimize_cond_eq. okinv.
    destruct (ok_cond_sel whole1 whole2 whole3) as (A & B & C); auto.
    destruct (cond_sel whole1 whole2 whole3) as [[c x] y]. cbn [fst snd] in *. apply ok_cond_tail; auto.
  Qed.

  Lemma ok_rewrite_node e prec : ok e -> ok (rewrite_node T e prec).
  Proof.
    intros H. unfold rewrite_node. destruct e; try exact H; [apply ok_optimize_unary | apply ok_optimize_cond]; exact H.
  Qed.

  Lemma rw_comma_item k x t :
    (match x with
     | EBin opl _ _ => if is_op opl "CommaToken" then rw T k OpExpr x else rw T k OpAssign x
     | _ => rw T k OpAssign x
     end) = Some t -> exists p, rw T k p x = Some t.
  Proof. destruct x; try (intros H; eexists; exact H). destruct (is_op _ _); intros H; eexists; exact H. Qed.

  (* D1 *)
  Theorem rw_ok : forall fuel prec e t, ok e -> rw T fuel prec e = Some t -> ok t.
  Proof.
    induction fuel as [|k IH]; intros prec e t He H; [discriminate H|].
    cbn [rw] in H. pose proof (ok_rewrite_node e prec He) as Hn.
    destruct (rewrite_node T e prec) as [s|op x y|op x|op x|c x y|x|f a|x n c|x i c|c].
    - injection H as <-. exact Hn.
    - okinv. destruct (is_op op "CommaToken").
      + ob H. ob H. injection H as <-. apply rw_comma_item in R as [p R].
        pose proof (IH _ _ _ Hok R). pose proof (IH _ _ _ Hok0 R0). oksolve.
      + cbv zeta in H. name_unwrap H T prec op x U.
        * apply unwrap_sel_some in U as (-> & -> & _). okinv.
          ob H. ob H. ob H. injection H as <-. apply rw_comma_item in R as [p R].
          pose proof (IH _ _ _ Hok1 R). pose proof (IH _ _ _ Hok2 R0). pose proof (IH _ _ _ Hok0 R1). oksolve.
        * ob H. ob H. injection H as <-. pose proof (IH _ _ _ Hok R). pose proof (IH _ _ _ Hok0 R0). oksolve.
    - okinv. ob H. injection H as <-. pose proof (IH _ _ _ Hok R). oksolve.
    - okinv. ob H. injection H as <-. pose proof (IH _ _ _ Hok R). oksolve.
    - okinv. ob H. ob H. ob H. injection H as <-.
      pose proof (IH _ _ _ Hok R). pose proof (IH _ _ _ Hok0 R0). pose proof (IH _ _ _ Hok1 R1). oksolve.
    - okinv. cbv zeta in H.
      assert (ok (match x with ECond _ _ _ => optimize_cond T x OpExpr | _ => x end)) as Hx1
        by (destruct x; try exact Hn; apply ok_optimize_cond; exact Hn).
      destruct (Nat.leb prec _).
      + exact (IH _ _ _ Hx1 H).
      + ob H. injection H as <-. pose proof (IH _ _ _ Hx1 R). oksolve.
    - okinv. ob H. ob H. injection H as <-. pose proof (IH _ _ _ Hok R). pose proof (IH _ _ _ Hok0 R0). oksolve.
    - okinv. ob H. injection H as <-. pose proof (IH _ _ _ Hok R). oksolve.
    - okinv. ob H. ob H. injection H as <-. pose proof (IH _ _ _ Hok R). pose proof (IH _ _ _ Hok0 R0). oksolve.
    - injection H as <-. destruct (Nat.ltb _ _); reflexivity.
  Qed.

  (* with enough fuel the rewriting printer's tokens are emit of a well-formed tree *)
  Corollary print_rw_wf fuel prec e :
    ok e -> rw T fuel prec e <> None -> exists t, ok t /\ print_rw T fuel prec e = RewritePipe.emit t.
  Proof.
    intros He Hf. destruct (rw T fuel prec e) as [t|] eqn:R; [|congruence].
    exists t. split; [exact (rw_ok _ _ _ _ He R) | exact (print_rw_is_emit_rw _ _ _ _ _ R)].
  Qed.
End Rewrites.

(* ================================================================================================================== *)
(* D2. statements                                                                                                      *)
(* ================================================================================================================== *)

(* a condition on every expression of a statement; break / continue and opaque statements are single words *)
Definition wordb (k : string) : bool := word_b (bytes_of_string k).
Fixpoint stmt_all (P : expr -> bool) (s : stmt) : bool :=
  match s with
  | SExpr e => P e
  | SIf c b e => P c && stmt_all P b && match e with Some x => stmt_all P x | None => true end
  | SReturn None => true
  | SReturn (Some v) => P v
  | SThrow v => P v
  | SBranch k => wordb k
  | SEmpty => true
  | SBlock l => forallb (stmt_all P) l
  | SOpaque i => wordb i
  end.

(* the condition on the INPUT *)
Definition stmt_okb : stmt -> bool := stmt_all expr_ok.
Definition stmts_okb (l : list stmt) : bool := forallb stmt_okb l.

Section StmtInd.
  Variable P : stmt -> Prop.
  Hypothesis HExpr : forall e, P (SExpr e).
  Hypothesis HIf : forall c b e, P b -> (match e with Some x => P x | None => True end) -> P (SIf c b e).
  Hypothesis HReturn : forall v, P (SReturn v).
  Hypothesis HThrow : forall v, P (SThrow v).
  Hypothesis HBranch : forall k, P (SBranch k).
  Hypothesis HEmpty : P SEmpty.
  Hypothesis HBlock : forall l, Forall P l -> P (SBlock l).
  Hypothesis HOpaque : forall i, P (SOpaque i).
  Fixpoint stmt_nested_ind (s : stmt) : P s :=
    match s with
    | SExpr e => HExpr e
    | SIf c b e => HIf c b e (stmt_nested_ind b) (match e with Some x => stmt_nested_ind x | None => I end)
    | SReturn v => HReturn v
    | SThrow v => HThrow v
    | SBranch k => HBranch k
    | SEmpty => HEmpty
    | SBlock l => HBlock l ((fix go (l : list stmt) : Forall P l :=
                               match l with [] => Forall_nil P | x :: r => Forall_cons x (stmt_nested_ind x) (go r) end) l)
    | SOpaque i => HOpaque i
    end.
End StmtInd.

Lemma stmt_all_impl (P Q : expr -> bool) : (forall e, P e = true -> Q e = true) ->
  forall s, stmt_all P s = true -> stmt_all Q s = true.
Proof.
  intros HPQ. apply (stmt_nested_ind (fun s => stmt_all P s = true -> stmt_all Q s = true)); cbn [stmt_all]; auto.
  - intros c b e IHb IHe H. apply andb_true_iff in H as [H He]. apply andb_true_iff in H as [Hc Hb].
    rewrite (HPQ _ Hc), (IHb Hb). destruct e; auto.
  - intros [v|]; auto.
  - intros l IH H. rewrite forallb_forall in *. rewrite Forall_forall in IH. auto.
Qed.

Section Stmts.
  Variable T : tables.
  Hypothesis HT : sem_tables_ok T = true.

  (* what the statement printer hands to the expression printer *)
  Definition dokb (e : expr) : bool := expr_ok (devoid T e).
  Notation dok e := (dokb e = true).

  Lemma devoid_ok e : ok e -> dok e.
  Proof.
    unfold dokb. induction e; cbn [devoid]; intros H; try exact H; okinv; try solve [oksolve].
    destruct (_ && _); [reflexivity|]. oksolve.
  Qed.

  (* dokb is compositional (devoid is a homomorphism except at a void without effects) *)
  Lemma dok_bin op x y : dokb (EBin op x y) = mem_str op bin_ops && dokb x && dokb y. Proof. reflexivity. Qed.
  Lemma dok_cond c x y : dokb (ECond c x y) = dokb c && dokb x && dokb y. Proof. reflexivity. Qed.
  Lemma dok_group x : dokb (EGroup x) = dokb x. Proof. reflexivity. Qed.
  Lemma dok_not x : dokb (EPre "NotToken" x) = dokb x. Proof. reflexivity. Qed.
  Lemma dok_void0 : dok void0. Proof. reflexivity. Qed.
  Lemma dok_group_expr p e : dok e -> dok (group_expr T p e).
  Proof. intros H. unfold group_expr. destruct (_ && _); [rewrite dok_group|]; exact H. Qed.

  Lemma dok_not_operand c x : not_operand c = Some x -> dok c -> dok x.
  Proof.
    destruct c; try discriminate. cbn [not_operand]. destruct (is_op op "NotToken") eqn:E; [|discriminate].
    intros [= <-]. apply String.eqb_eq in E. subst op. rewrite dok_not. auto.
  Qed.
  Lemma dok_and a b : dok a -> dok b -> dok (and_expr T a b).
  Proof. intros A B. unfold and_expr. rewrite dok_bin, !dok_group_expr; auto. Qed.
  Lemma dok_or a b : dok a -> dok b -> dok (or_expr T a b).
  Proof. intros A B. unfold or_expr. rewrite dok_bin, !dok_group_expr; auto. Qed.
  Lemma dok_cond_plain c x y : dok c -> dok x -> dok y ->
    dok (ECond (group_expr T OpCoalesce c) (group_expr T OpAssign x) (group_expr T OpAssign y)).
  Proof. intros A B C. rewrite dok_cond, !dok_group_expr; auto. Qed.
  Lemma dok_cond_expr c x y : dok c -> dok x -> dok y -> dok (cond_expr T c x y).
  Proof.
    intros A B C. unfold cond_expr. destruct c; try (apply dok_cond_plain; assumption).
    destruct (is_op op "CommaToken"); [|apply dok_cond_plain; assumption].
    rewrite dok_bin in A. apply andb_true_iff in A as [A A3]. apply andb_true_iff in A as [A1 A2].
    rewrite dok_bin, A1, A2, dok_cond_plain; auto.
  Qed.
  Lemma dok_comma_expr x y : dok x -> dok y -> dok (comma_expr x y).
  Proof.
    intros A. induction y; intros B; cbn [comma_expr]; try (rewrite dok_bin, A, B; reflexivity).
    destruct (is_op op "CommaToken"); [|rewrite dok_bin, A, B; reflexivity].
    rewrite dok_bin in B. apply andb_true_iff in B as [B B3]. apply andb_true_iff in B as [B1 B2].
    rewrite dok_bin, B1, (IHy1 B2), B3. reflexivity.
  Qed.
  Lemma dok_bin_left op l r : dok (EBin op l r) -> dok l.
  Proof. rewrite dok_bin. intros B. apply andb_true_iff in B as [B _]. apply andb_true_iff in B as [_ B]. exact B. Qed.

  Notation SS := (stmt_all dokb).
  Definition S_opt (e : option stmt) : bool := match e with Some x => SS x | None => true end.
  Lemma S_if c b e : SS (SIf c b e) = dokb c && SS b && S_opt e. Proof. reflexivity. Qed.

  Ltac sinv :=
    repeat match goal with
    | H : stmt_all _ (SIf _ _ _) = true |- _ => rewrite S_if in H
    | H : stmt_all _ (SExpr _) = true |- _ => cbn [stmt_all] in H
    | H : stmt_all _ (SReturn (Some _)) = true |- _ => cbn [stmt_all] in H
    | H : stmt_all _ (SThrow _) = true |- _ => cbn [stmt_all] in H
    | H : S_opt (Some _) = true |- _ => cbn [S_opt] in H
    | H : _ && _ = true |- _ => let A := fresh "Hs" in let B := fresh "Hs" in apply andb_true_iff in H; destruct H as [A B]
    end.
  Ltac ssolve :=
    first [ assumption | reflexivity
          | lazymatch goal with
            | |- _ && _ = true => apply andb_true_iff; split; ssolve
            | |- stmt_all _ (SIf _ _ _) = true => rewrite S_if; ssolve
            | |- stmt_all _ _ = true => progress cbn [stmt_all]; ssolve
            | |- S_opt (Some _) = true => cbn [S_opt]; ssolve
            | |- dokb (and_expr _ _ _) = true => apply dok_and; ssolve
            | |- dokb (or_expr _ _ _) = true => apply dok_or; ssolve
            | |- dokb (cond_expr _ _ _ _) = true => apply dok_cond_expr; ssolve
            | |- dokb (comma_expr _ _) = true => apply dok_comma_expr; ssolve
            | |- dokb void0 = true => exact dok_void0
            | _ => eauto using dok_not_operand, dok_bin_left
            end ].

  Lemma S_optimize_if c0 b0 e0 : dok c0 -> SS b0 = true -> S_opt e0 = true -> SS (optimize_if T c0 b0 e0) = true.
  Proof.
    intros Hc Hb He. unfold optimize_if.
    assert (forall c b e hi he, dok c -> SS b = true -> S_opt e = true ->
      SS (if negb hi && negb he then (if has_side_effects T c then SExpr c else SEmpty)
         else if hi && negb he then
           match b with
           | SExpr x => match not_operand c with Some u => SExpr (or_expr T u x) | None => SExpr (and_expr T c x) end
           | SIf c2 b2 e2 => if is_empty_opt e2 then SIf (and_expr T c c2) b2 e else SIf c b e
           | _ => SIf c b e
           end
         else if negb hi && he then
           match e with
           | Some (SExpr y) => SExpr (or_expr T c y)
           | _ => SIf c b e
           end
         else
           match b, e with
           | SExpr x, Some (SExpr y) => SExpr (cond_expr T c x y)
           | SReturn None, Some (SReturn None) => SReturn (Some (comma_expr c void0))
           | SReturn (Some x), Some (SReturn (Some y)) => SReturn (Some (cond_expr T c x y))
           | SThrow x, Some (SThrow y) => SThrow (cond_expr T c x y)
           | _, _ => SIf c b e
           end) = true) as Tail.
    { intros c b e hi he Dc Sb Se.
      destruct (negb hi && negb he); [destruct (has_side_effects T c); ssolve|].
      destruct (hi && negb he).
      { destruct b; try ssolve.
        - destruct (not_operand c) eqn:N; sinv; ssolve.
        - destruct (is_empty_opt els); sinv; ssolve. }
      destruct (negb hi && he).
      { destruct e as [[]|]; sinv; ssolve. }
      destruct b as [| |[]| | | | |]; destruct e as [[| |[]| | | | |]|]; sinv; ssolve. }
    destruct (not_operand c0) as [x|] eqn:N; [|exact (Tail c0 b0 e0 _ _ Hc Hb He)].
    destruct e0 as [es|]; [|exact (Tail c0 b0 None _ _ Hc Hb He)].
    destruct (negb (is_empty_opt (Some es))) eqn:E.
    - exact (Tail x es (Some b0) true (negb (is_empty b0)) (dok_not_operand _ _ N Hc) He Hb).
    - exact (Tail c0 b0 (Some es) (negb (is_empty b0)) false Hc Hb He).
  Qed.

  Notation SL := (forallb (stmt_all dokb)).
  Lemma SL_rev l : SL l = true -> SL (rev l) = true.
  Proof. rewrite !forallb_forall. intros H x Hx. apply H. apply in_rev. exact Hx. Qed.
  Lemma SL_cons x l : SL (x :: l) = SS x && SL l. Proof. reflexivity. Qed.

  Lemma S_flatten_else s : SS s = true -> SS (fst (flatten_else s)) = true /\ SL (snd (flatten_else s)) = true.
  Proof.
    intros H. unfold flatten_else. destruct s as [|c b [es|]| | | | | |]; try (split; [exact H|reflexivity]).
    destruct (is_empty es); [split; [exact H|reflexivity]|].
    rewrite S_if in H. apply andb_true_iff in H as [H He]. apply andb_true_iff in H as [Hc Hb]. cbn [S_opt] in He.
    assert (forall c1 b1 e1, dok c1 -> SS b1 = true -> SS e1 = true ->
      SS (fst (if is_flow (last_stmt b1) then (SIf c1 b1 None, match e1 with SBlock l => l | _ => [e1] end) else (SIf c1 b1 (Some e1), []))) = true /\
      SL (snd (if is_flow (last_stmt b1) then (SIf c1 b1 None, match e1 with SBlock l => l | _ => [e1] end) else (SIf c1 b1 (Some e1), []))) = true) as Tail.
    { intros c1 b1 e1 A B C. destruct (is_flow (last_stmt b1)); cbn [fst snd]; split; try ssolve.
      destruct e1; try (cbn [forallb]; rewrite C; reflexivity). exact C. }
    destruct (not_operand c) as [x|] eqn:N; [|exact (Tail c b es Hc Hb He)].
    destruct (is_flow (last_stmt es)); [|exact (Tail c b es Hc Hb He)].
    exact (Tail x es b (dok_not_operand _ _ N Hc) He Hb).
  Qed.

  Lemma S_merge_prev prev cur m : merge_prev prev cur = Some m -> SS prev = true -> SS cur = true -> SS m = true.
  Proof.
    unfold merge_prev. destruct prev; try discriminate. destruct cur as [| |[]| | | | |]; try discriminate;
      intros [= <-] A B; sinv; ssolve.
  Qed.

  Lemma S_merge_if_flow fuel : forall cur acc, SS cur = true -> SL acc = true -> SL (merge_if_flow T fuel cur acc) = true.
  Proof.
    induction fuel as [|k IH]; intros cur acc A B; cbn [merge_if_flow]; [rewrite SL_cons, A, B; reflexivity|].
    assert (SL (cur :: acc) = true) as Keep by (rewrite SL_cons, A, B; reflexivity).
    destruct acc as [|[|c b e| | | | | |] rest]; try exact Keep.
    destruct (Bool.eqb _ _); [exact Keep|].
    rewrite SL_cons in B. sinv.
    destruct cur as [| |[v|]| v | | | |]; try exact Keep.
    - destruct b as [| |[lv|]| | | | |]; try (destruct e as [[| |[lv2|]| | | | |]|]); try exact Keep; sinv;
        apply IH; ssolve.
    - destruct b as [| |[lv|]| | | | |]; try (destruct e as [[| |[lv2|]| | | | |]|]); try exact Keep; sinv;
        rewrite !SL_cons; ssolve.
    - destruct b as [| | |lv| | | |]; try (destruct e as [[| | |lv2| | | |]|]); try exact Keep; sinv;
        apply IH; ssolve.
  Qed.

  Lemma S_drop_trailing_return acc : SL acc = true -> SL (drop_trailing_return T acc) = true.
  Proof.
    intros H. unfold drop_trailing_return. destruct acc as [|[| |[v|]| | | | |] rest]; try exact H.
    rewrite SL_cons in H. sinv. destruct (is_undefined T v); [assumption|].
    assert (SL (SReturn (Some v) :: rest) = true) as Keep by (rewrite SL_cons; ssolve).
    destruct v; try exact Keep. destruct (_ && _); [|exact Keep].
    assert (dok v1) by (eapply dok_bin_left; eauto).
    destruct v1; try (rewrite SL_cons; ssolve). destruct (is_op _ _); rewrite SL_cons; ssolve.
  Qed.

  Lemma optimize_stmt_S k s : optimize_stmt T (Datatypes.S k) s =
    match s with
    | SIf c b e => optimize_if T c (optimize_stmt T k b) (option_map (optimize_stmt T k) e)
    | SBlock l =>
        match optimize_list T k false l [] with
        | [] => SEmpty
        | [x] => optimize_stmt T k x
        | l' => SBlock l'
        end
    | _ => s
    end.
  Proof. reflexivity. Qed.
  Lemma optimize_list_S k function l acc : optimize_list T (Datatypes.S k) function l acc =
    match l with
    | [] => rev (if function then drop_trailing_return T acc else acc)
    | s0 :: rest0 =>
      let '(s1, extra) := flatten_else s0 in
      let rest := extra ++ rest0 in
      let s := optimize_stmt T k s1 in
      match s with
      | SEmpty => optimize_list T k function rest acc
      | _ =>
        let '(cur, acc1) :=
          match acc with
          | prev :: acc' => match merge_prev prev s with Some m => (m, acc') | None => (s, acc) end
          | [] => (s, acc)
          end in
        optimize_list T k function rest (merge_if_flow T (Datatypes.S (List.length acc1)) cur acc1)
      end
    end.
  Proof. reflexivity. Qed.

  (* the statement optimiser keeps the condition *)
  Lemma S_optimize : forall fuel,
    (forall s, SS s = true -> SS (optimize_stmt T fuel s) = true) /\
    (forall function l acc, SL l = true -> SL acc = true -> SL (optimize_list T fuel function l acc) = true).
  Proof.
    induction fuel as [|k [IH1 IH2]].
    - split; [intros s H; exact H|]. intros function l acc A B. cbn [optimize_list].
      rewrite forallb_app, (SL_rev _ B), A. reflexivity.
    - split.
      + intros s H. rewrite optimize_stmt_S. destruct s as [|c b e| | | | |l|]; try exact H.
        * sinv. apply S_optimize_if; auto. destruct e; cbn [option_map S_opt] in *; auto.
        * pose proof (IH2 false l [] H eq_refl) as HL.
          destruct (optimize_list T k false l []) as [|x [|y r]]; [reflexivity| |exact HL].
          rewrite SL_cons in HL. sinv. auto.
      + intros function l acc A B. rewrite optimize_list_S. destruct l as [|s0 rest0].
        * apply SL_rev. destruct function; [apply S_drop_trailing_return|]; exact B.
        * rewrite SL_cons in A. apply andb_true_iff in A as [Hs Hs0]. destruct (S_flatten_else s0 Hs) as [F1 F2].
          destruct (flatten_else s0) as [s1 extra]. cbn [fst snd] in F1, F2.
          assert (SL (extra ++ rest0) = true) as HR by (rewrite forallb_app, F2, Hs0; reflexivity).
          pose proof (IH1 s1 F1) as HS.
          assert (forall s, SS s = true ->
                  SL (let '(cur, acc1) :=
                        match acc with
                        | prev :: acc' => match merge_prev prev s with Some m => (m, acc') | None => (s, acc) end
                        | [] => (s, acc)
                        end in
                      optimize_list T k function (extra ++ rest0) (merge_if_flow T (Datatypes.S (List.length acc1)) cur acc1)) = true) as Go.
          { intros s Hs'. destruct acc as [|prev acc']; [apply IH2; auto; apply S_merge_if_flow; auto|].
            rewrite SL_cons in B. sinv.
            destruct (merge_prev prev s) as [m|] eqn:M.
            - apply IH2; auto. apply S_merge_if_flow; auto. eapply S_merge_prev; eauto.
            - apply IH2; auto. apply S_merge_if_flow; auto. rewrite SL_cons. ssolve. }
          destruct (optimize_stmt T k s1) eqn:Es; try (apply Go; exact HS).
          apply IH2; auto.
  Qed.

  Lemma stmts_ok_optimize_body function l : stmts_okb l = true -> SL (optimize_body T function l) = true.
  Proof.
    intros H. unfold optimize_body. apply S_optimize; [|reflexivity].
    unfold stmts_okb, stmt_okb in H. rewrite forallb_forall in *. intros x Hx.
    apply (stmt_all_impl expr_ok dokb); [intros e; apply devoid_ok | auto].
  Qed.

  (* --- the statement printer --- *)
  Variable efuel : nat.
  (* the fuel of the expression printer suffices for this expression (the hypothesis `rw ... = Some t` of
     RewritePipeProofs, as a test) *)
  Definition fuelb (e : expr) : bool := match rw T efuel OpExpr (devoid T e) with Some _ => true | None => false end.
  Notation FF := (stmt_all fuelb).

  Definition W (st : list stok * bool) : Prop := Forall stok_wf (fst st).
  Lemma W_out k st : W st -> Forall stok_wf k -> W (out k st).
  Proof. unfold W, out. cbn [fst]. intros A B. apply Forall_app. auto. Qed.
  Lemma W_require st : W st -> W (require_semi st). Proof. exact (fun H => H). Qed.
  Lemma W_clear st : W st -> W (clear_semi st). Proof. exact (fun H => H). Qed.
  Lemma W_write_semi st : W st -> W (write_semi st).
  Proof.
    unfold W, write_semi. intros H. destruct (snd st); [|exact H]. cbn [fst]. apply Forall_app. split; [exact H|].
    repeat constructor.
  Qed.
  Lemma wf_kw k : kw_okb k = true -> Forall stok_wf [SK k].
  Proof. intros H. repeat constructor. exact H. Qed.
  Lemma wf_word k : wordb k = true -> Forall stok_wf [SK k].
  Proof. intros H. apply wf_kw. unfold kw_okb. unfold wordb in H. unfold kw_bytes. rewrite H. apply orb_true_r. Qed.

  Lemma expr_toks_wf e : dok e -> fuelb e = true -> Forall stok_wf (expr_toks T efuel e).
  Proof.
    intros A B. unfold expr_toks. constructor; [|constructor]. cbn [stok_wf]. unfold fuelb in B.
    destruct (print_rw_wf T HT efuel OpExpr (devoid T e) A) as (t & Ht & E).
    - destruct (rw T efuel OpExpr (devoid T e)); [discriminate|discriminate B].
    - exists t. split; [exact Ht|exact E].
  Qed.

  Lemma fold_W k :
    (forall s st, W st -> SS s = true -> FF s = true -> W (print_stmt T efuel k s st)) ->
    forall l acc, W acc -> SL l = true -> forallb FF l = true ->
    W (fold_left (fun acc x => print_stmt T efuel k x (write_semi acc)) l acc).
  Proof.
    intros IH l. induction l as [|x r IHl]; intros acc HW A B; [exact HW|]. cbn [fold_left].
    cbn [forallb] in A, B. apply andb_true_iff in A as [A1 A2]. apply andb_true_iff in B as [B1 B2].
    apply IHl; auto. apply IH; auto. apply W_write_semi, HW.
  Qed.

  Lemma print_stmt_W : forall fuel s st, W st -> SS s = true -> FF s = true -> W (print_stmt T efuel fuel s st).
  Proof.
    induction fuel as [|k IH]; intros s st HW A B; [exact HW|].
    destruct s as [e|c b e|[v|]|v|kind| |l|i]; cbn [print_stmt]; cbn [stmt_all] in A, B.
    - apply W_require, W_out; auto. apply expr_toks_wf; auto.
    - match goal with |- W (if ?c then _ else _) => destruct c end; [exact HW|].
      apply andb_true_iff in A as [A A3]. apply andb_true_iff in A as [A1 A2].
      apply andb_true_iff in B as [B B3]. apply andb_true_iff in B as [B1 B2].
      set (st1 := out _ st).
      assert (W st1) as W1.
      { apply W_out; auto. apply Forall_app. split; [repeat constructor|].
        apply Forall_app. split; [apply expr_toks_wf; auto | repeat constructor]. }
      set (st2 := if negb (negb (is_empty b)) then _ else _).
      assert (W st2) as W2.
      { unfold st2. destruct (negb (negb (is_empty b))); [exact W1|].
        match goal with |- W (if ?c then _ else _) => destruct c end.
        - apply W_clear, W_out; [|repeat constructor]. apply IH; auto. apply W_out; [exact W1|repeat constructor].
        - apply IH; auto. }
      destruct (negb (is_empty_opt e)); [|exact W2]. destruct e as [x|]; [|exact W2].
      apply IH; auto. apply W_out; [apply W_write_semi, W2|repeat constructor].
    - apply W_require, W_out; auto. apply (Forall_app stok_wf [SK "return"]). split; [repeat constructor|apply expr_toks_wf; auto].
    - apply W_require, W_out; auto; repeat constructor.
    - apply W_require, W_out; auto. apply (Forall_app stok_wf [SK "throw"]). split; [repeat constructor|apply expr_toks_wf; auto].
    - apply W_require, W_out; auto. apply wf_word, A.
    - exact HW.
    - apply W_clear, W_out; [|repeat constructor]. apply fold_W; auto. apply W_clear, W_out; [exact HW|repeat constructor].
    - apply W_require, W_out; auto. apply wf_word, A.
  Qed.

  Lemma print_list_W l : SL l = true -> forallb FF l = true -> Forall stok_wf (print_list T efuel l).
  Proof.
    unfold print_list.
    assert (forall acc, W acc -> SL l = true -> forallb FF l = true ->
            W (fold_left (fun acc x => print_stmt T efuel (Datatypes.S (stmt_size x)) x (write_semi acc)) l acc)) as H.
    { induction l as [|x r IHl]; intros acc HW A B; [exact HW|]. cbn [fold_left].
      cbn [forallb] in A, B. apply andb_true_iff in A as [A1 A2]. apply andb_true_iff in B as [B1 B2].
      apply IHl; auto. apply print_stmt_W; auto. apply W_write_semi, HW. }
    intros A B. apply (H ([], false)); auto. constructor.
  Qed.
End Stmts.

(* the fuel condition, on the optimised list (the statements the printer sees) *)
Definition stmts_fuel_okb (T : tables) (efuel : nat) (l : list stmt) : bool := forallb (stmt_all (fuelb T efuel)) l.

(* D2 *)
Theorem print_body_wf T efuel function l :
  sem_tables_ok T = true ->
  stmts_okb l = true ->
  stmts_fuel_okb T efuel (optimize_body T function l) = true ->
  Forall stok_wf (print_body T efuel function l).
Proof.
  intros HT Hok Hfuel. unfold print_body. apply print_list_W; auto. apply stmts_ok_optimize_body; auto.
Qed.

Theorem render_body_lexes_back_closed T efuel function l :
  sem_tables_ok T = true ->
  stmts_okb l = true ->
  stmts_fuel_okb T efuel (optimize_body T function l) = true ->
  lexs_bytes (render_body T efuel function l) = Some (stok_surfaces (print_body T efuel function l)).
Proof. intros HT Hok Hfuel. apply render_body_lexes_back, print_body_wf; auto. Qed.

(* ================================================================================================================== *)
(* D3. checks                                                                                                          *)
(* ================================================================================================================== *)
Module ClosedChecks.
  Definition a := EAtom "a". Definition b := EAtom "b". Definition c := EAtom "c". Definition f := EAtom "f".

  (* the table hypothesis of D1 is needed: with + on the equality level, !(a+b) is rewritten with invert_op "AddToken" =
     "ErrorToken", an operator without surface (the generated tables have only == != === !== there) *)
  Definition T_bad : tables :=
    {| t_unary := []; t_left := []; t_right := []; t_unop := []; t_binop := [("AddToken", "OpEquals")]; t_const := [] |}.
  Example sem_tables_needed :
    let e := EPre "NotToken" (EGroup (EBin "AddToken" a b)) in
    sem_tables_ok T_bad = false /\ expr_ok e = true /\
    rw T_bad 5 0 e = Some (EBin "ErrorToken" a b) /\ expr_ok (EBin "ErrorToken" a b) = false.
  Proof. vm_compute. auto. Qed.

  (* a body that exercises the optimiser (if/else to ?:, statement merging, else-flattening after a flow statement),
     the rewrites, the space flags of the writer and the pending semicolon; every hypothesis by computation *)
  Definition l2 : list stmt :=
    [ SExpr (EBin "EqToken" a (ECall f b));
      SIf (EPre "NotToken" (EBin "EqEqEqToken" a b))
          (SBlock [SExpr (ECall f a); SExpr (EPost "PostIncrToken" b)]) (Some (SExpr (ECall f c)));
      SIf (EBin "LtToken" a (EPre "NegToken" (EPre "PreDecrToken" b))) (SReturn (Some (EConst CTrue))) None;
      SIf a (SBlock [SIf b (SBranch "break") None]) (Some (SBlock [SExpr (ECall f a); SThrow (EPre "TypeofToken" c)]));
      SIf (EGroup (EBin "InToken" a b))
          (SBlock [SExpr (EBin "AddEqToken" c (EPre "PosToken" (EPre "PosToken" a))); SBranch "continue"])
          (Some (SOpaque "debugger"));
      SReturn (Some (EPre "VoidToken" (ECall f a))) ].
  Example l2_tables : sem_tables_ok T_gen = true. Proof. vm_compute. reflexivity. Qed.
  Example l2_ok : stmts_okb l2 = true. Proof. vm_compute. reflexivity. Qed.
  Example l2_fuel : stmts_fuel_okb T_gen 60 (optimize_body T_gen true l2) = true. Proof. vm_compute. reflexivity. Qed.
  Example l2_bytes :
    render_body T_gen 60 true l2 = bytes_of_string
      "if(a=f(b),a===b?f(c):(f(a),b++),a<- --b)return!0;if(a){if(b)break}else throw f(a),typeof c;if(a in b){c+=+ +a;continue}debugger;return void f(a)".
  Proof. vm_compute. reflexivity. Qed.
  Example l2_lexes :
    lexs_bytes (render_body T_gen 60 true l2) = Some (stok_surfaces (print_body T_gen 60 true l2)).
  Proof. apply render_body_lexes_back_closed; [exact l2_tables | exact l2_ok | exact l2_fuel]. Qed.
End ClosedChecks.

Print Assumptions rw_ok.
Print Assumptions print_body_wf.
Print Assumptions render_body_lexes_back_closed.
