(* Js/StmtRenderProofs.v — the bytes written for the rewriting printer's tokens and for statements lex back to the printer's
   tokens (the spec lexer of Js/PrintRender.v, whose punctuator table includes `{` `}` `;`).
   A  emit_lexes_back: emit (Js/RewritePipe.v) of a well-formed tree
   B  stoks_lex_back: a statement token list whose expression chunks are emit of well-formed trees, whose keywords are
      words or ( ) { } ;, and in which no chunk ending in a word is directly followed by a chunk starting with a word
      (unless the first is else / return / throw, after which the writer owes a space)
   C  print_list_adj: the statement printer never puts a word after a word (any statements, any tables), hence
      render_body_lexes_back *)
From Coq Require Import List String Ascii Arith Bool ZArith Lia.
Import ListNotations.
From MV Require Import Base.MvBytes Js.PrintModel Js.PrintGen Js.PrintRender Js.PrintRenderProofs Js.RewritePipe Js.StmtModel Js.StmtPrint Js.StmtRender.
Local Open Scope Z_scope.
Local Arguments is_ident_byte : simpl never.
Local Arguments Z.eqb : simpl never.
Local Arguments Z.leb : simpl never.
Local Arguments last : simpl never.

(* ================================================================================================================== *)
(* A. emit                                                                                                             *)
(* ================================================================================================================== *)

Definition last_tok (ts : list tok) : tok := last ts TL.

Lemma last_tok_snoc xs t : last_tok (xs ++ [t]) = t.
Proof. unfold last_tok. apply last_last. Qed.
Lemma last_tok_app xs ys : ys <> [] -> last_tok (xs ++ ys) = last_tok ys.
Proof.
  intros H. destruct (exists_last H) as (r & t & ->). rewrite app_assoc, !last_tok_snoc. reflexivity.
Qed.

Lemma last_ok_const k : last_ok (last_tok (const_tokens k)).
Proof. destruct k; cbv [const_tokens last_tok last]; auto with toks. Qed.

(* first token, last token, fusion freedom *)
Lemma emit_chain e : expr_ok e = true ->
  hd_first (emit e) /\ last_ok (last_tok (emit e)) /\ (forall f, follow_ok f -> Chain (emit e) f).
Proof.
  induction e as [s|op x IHx y IHy|op x IHx|op x IHx|c IHc x IHx y IHy|x IHx|g IHg a IHa|x IHx n ch|x IHx i IHi ch|k];
    cbn [expr_ok]; intros Hok; cbn [emit].
  - (* EAtom *) apply ident_okb_word in Hok. split; [cbn [hd_first]; auto with toks|]. split; [cbv [last_tok last]; auto with toks|].
    intros f Hf. apply Chain_last; auto with toks.
  - (* EBin *)
    apply andb_true_iff in Hok as [Hok Hy]. apply andb_true_iff in Hok as [Hop Hx]. apply mem_str_In in Hop.
    destruct (IHx Hx) as (F1 & L1 & C1). destruct (IHy Hy) as (F2 & L2 & C2).
    split; [apply hd_first_app, F1|]. split.
    + rewrite app_assoc, last_tok_app; auto. destruct (emit y); [contradiction|discriminate].
    + intros f Hf. apply Chain_app; [apply C1; cbn [follow_ok follow_of app]; auto with toks|].
      apply Chain_pre; auto with toks.
  - (* EPre *)
    apply andb_true_iff in Hok as [Hop Hx]. apply mem_str_In in Hop. destruct (IHx Hx) as (F1 & L1 & C1).
    split; [cbn [hd_first]; auto with toks|]. split.
    + change (TOp op :: emit x) with ([TOp op] ++ emit x). rewrite last_tok_app; auto. destruct (emit x); [contradiction|discriminate].
    + intros f Hf. apply Chain_pre; auto with toks.
  - (* EPost *)
    apply andb_true_iff in Hok as [Hop Hx]. apply mem_str_In in Hop. destruct (IHx Hx) as (F1 & L1 & C1).
    split; [apply hd_first_app, F1|]. split; [rewrite last_tok_snoc; auto with toks|].
    intros f Hf. apply Chain_app; [apply C1; cbn [follow_ok follow_of app]; auto with toks | apply Chain_last; auto with toks].
  - (* ECond *)
    apply andb_true_iff in Hok as [Hok Hy]. apply andb_true_iff in Hok as [Hc Hx].
    destruct (IHc Hc) as (F0 & L0 & C0). destruct (IHx Hx) as (F1 & L1 & C1). destruct (IHy Hy) as (F2 & L2 & C2).
    split; [apply hd_first_app, F0|]. split.
    + rewrite !app_assoc, last_tok_app; auto. destruct (emit y); [contradiction|discriminate].
    + intros f Hf. apply Chain_app; [apply C0; cbn [follow_ok follow_of app]; auto with toks|].
      apply Chain_pre; auto with toks; [apply hd_first_app, F1|].
      apply Chain_app; [apply C1; cbn [follow_ok follow_of app]; auto with toks|].
      apply Chain_pre; auto with toks.
  - (* EGroup *)
    destruct (IHx Hok) as (F1 & L1 & C1).
    split; [cbn [hd_first app]; auto with toks|]. split; [rewrite !app_assoc, last_tok_snoc; auto with toks|].
    intros f Hf. apply Chain_pre; auto with toks; [apply hd_first_app, F1|].
    apply Chain_app; [apply C1; cbn [follow_ok follow_of app]; auto with toks | apply Chain_last; auto with toks].
  - (* ECall *)
    apply andb_true_iff in Hok as [Hg Ha]. destruct (IHg Hg) as (F1 & L1 & C1). destruct (IHa Ha) as (F2 & L2 & C2).
    split; [apply hd_first_app, F1|]. split; [rewrite !app_assoc, last_tok_snoc; auto with toks|].
    intros f Hf. apply Chain_app; [apply C1; cbn [follow_ok follow_of app]; auto with toks|].
    apply Chain_pre; auto with toks; [apply hd_first_app, F2|].
    apply Chain_app; [apply C2; cbn [follow_ok follow_of app]; auto with toks | apply Chain_last; auto with toks].
  - (* EDot *)
    apply andb_true_iff in Hok as [Hx Hn]. destruct (IHx Hx) as (F1 & L1 & C1). apply ident_okb_word in Hn.
    split; [apply hd_first_app, F1|]. split.
    + change [TDot; TAtom n] with ([TDot] ++ [TAtom n]). rewrite app_assoc, last_tok_snoc. auto with toks.
    + intros f Hf. apply Chain_app; [apply C1; cbn [follow_ok follow_of app]; auto with toks | apply Chain_dot; auto].
  - (* EIndex *)
    apply andb_true_iff in Hok as [Hx Hi]. destruct (IHx Hx) as (F1 & L1 & C1). destruct (IHi Hi) as (F2 & L2 & C2).
    split; [apply hd_first_app, F1|]. split; [rewrite !app_assoc, last_tok_snoc; auto with toks|].
    intros f Hf. apply Chain_app; [apply C1; cbn [follow_ok follow_of app]; auto with toks|].
    apply Chain_pre; auto with toks; [apply hd_first_app, F2|].
    apply Chain_app; [apply C2; cbn [follow_ok follow_of app]; auto with toks | apply Chain_last; auto with toks].
  - (* EConst *)
    split; [apply hd_first_const|]. split; [apply last_ok_const|]. intros f Hf. apply Chain_const; auto.
Qed.

Theorem emit_lexes_back : forall t,
  expr_ok t = true ->
  lex_bytes (render (emit t)) = Some (map tok_surface (emit t)).
Proof.
  intros t Hok. apply chain_lexes_back. destruct (emit_chain t Hok) as (_ & _ & H). apply H. exact I.
Qed.

(* ================================================================================================================== *)
(* B. statement tokens                                                                                                 *)
(* ================================================================================================================== *)

(* one lexer for expressions and statements: the punctuator table of Js/PrintRender.v has `{` `}` `;` *)
Definition lexs := lex.
Definition lexs_bytes := lex_bytes.

Definition ssurf (t : stok) : list bytes := match t with SE e => map tok_surface e | SK k => [kw_bytes k] end.
Definition stok_surfaces (ts : list stok) : list bytes := flat_map ssurf ts.

(* --- B.1 the lexer: a fusion-free token list followed by more bytes --- *)
Lemma chain_lex_cont ts : forall s rest,
  ts <> [] -> chain s ts None -> nofuse (tok_surface (last_tok ts)) (hd_error rest) = true ->
  lexf (R s ts ++ rest) = option_map (app (map tok_surface ts)) (lexf rest).
Proof.
  induction ts as [|t r IH]; intros s rest Hne H N; [congruence|].
  destruct H as (A & B & C). cbn [R map].
  destruct (emit_shape t s (surf_okb_nonempty _ A)) as (sp & F & E).
  rewrite E, <- !app_assoc, (lexf_spaces _ _ F).
  destruct r as [|u r'].
  - cbn [R app]. rewrite lexf_tok; auto; destruct (lexf rest); reflexivity.
  - rewrite lexf_tok; auto.
    + assert (nofuse (tok_surface (last_tok (u :: r'))) (hd_error rest) = true) as N'.
      { change (t :: u :: r') with ([t] ++ (u :: r')) in N. rewrite last_tok_app in N by discriminate. exact N. }
      assert (u :: r' <> []) as Hne' by discriminate.
      rewrite (IH _ rest Hne' C N'). destruct (lexf rest); reflexivity.
    + cbn [R]. destruct C as (A' & _ & _). rewrite <- app_assoc.
      rewrite hd_error_app by (apply emit_nonempty, surf_okb_nonempty, A'). exact B.
Qed.

(* a punctuator that no punctuator extends never fuses with what follows *)
Definition closed_punct (a : bytes) : bool :=
  forallb (fun p => negb (prefix_b a p) || Nat.leb (length p) (length a)) punctuators.

Lemma prefix_b_app_inv a b p : prefix_b (a ++ b) p = true -> prefix_b a p = true /\ (length a + length b <= length p)%nat.
Proof.
  revert p; induction a as [|x a IH]; intros p H.
  - split; [reflexivity|]. simpl in *. revert p H. induction b as [|y b IHb]; intros p H; simpl; [lia|].
    destruct p as [|z p]; simpl in H; [discriminate|]. apply andb_true_iff in H as [_ H]. apply IHb in H. simpl. lia.
  - destruct p as [|z p]; simpl in H; [discriminate|]. apply andb_true_iff in H as [H1 H2]. apply IH in H2 as [H2 H3].
    simpl. rewrite H1, H2. split; [reflexivity|lia].
Qed.

Lemma closed_ext a c : closed_punct a = true -> punct_ext a c = false.
Proof.
  intros H. unfold punct_ext. destruct (existsb _ _) eqn:E; [|reflexivity].
  apply existsb_exists in E as (p & Hp & Hx). unfold closed_punct in H. rewrite forallb_forall in H. specialize (H _ Hp).
  apply prefix_b_app_inv in Hx as [H1 H2]. rewrite H1 in H. simpl in H, H2. apply Nat.leb_le in H. lia.
Qed.

Lemma nofuse_closed a nxt : hd_ident a = false -> closed_punct a = true -> nofuse a nxt = true.
Proof. intros H C. unfold nofuse. rewrite H. destruct nxt as [c|]; [|reflexivity]. simpl. rewrite closed_ext; auto. Qed.

Lemma nofuse_word a c : hd_ident a = true -> is_ident_byte c = false -> nofuse a (Some c) = true.
Proof. intros H C. unfold nofuse. rewrite H, C. reflexivity. Qed.

(* --- B.2 the writer on statement tokens --- *)
Definition semit (t : stok) (s : wstate) : bytes := w_out (render_stok t (clear s)).
Definition safter (t : stok) (s : wstate) : wstate := clear (render_stok t s).
Fixpoint SR (s : wstate) (ts : list stok) : bytes :=
  match ts with [] => [] | t :: r => semit t s ++ SR (safter t s) r end.

Lemma fold_after e : forall s, clear (fold_left (fun st tk => render_tok tk st) e s) = afters (clear s) e.
Proof.
  induction e as [|t r IH]; intros s; [reflexivity|]. cbn [fold_left afters]. rewrite IH.
  destruct (render_tok_split t s) as [_ B]. fold (after t s). rewrite B. reflexivity.
Qed.

Lemma semit_SE e s : semit (SE e) s = R (clear s) e.
Proof. unfold semit. cbn [render_stok]. rewrite fold_render. reflexivity. Qed.
Lemma safter_SE e s : safter (SE e) s = afters (clear s) e.
Proof. unfold safter. cbn [render_stok]. apply fold_after. Qed.

Lemma render_stok_split t s :
  w_out (render_stok t s) = w_out s ++ semit t s /\ safter t s = safter t (clear s).
Proof.
  destruct t as [k|e].
  - unfold semit, safter. cbn [render_stok].
    destruct (String.eqb k ";"); [destruct s; split; reflexivity|].
    destruct (write_split (kw_bytes k) s) as [A B].
    destruct (_ || _); [|split; assumption].
    split; [exact A|]. unfold clear in *. cbn in *. inversion B. reflexivity.
  - rewrite semit_SE, !safter_SE. cbn [render_stok]. rewrite fold_render. split; reflexivity.
Qed.

Lemma fold_render_stoks ts : forall s,
  w_out (fold_left (fun s t => render_stok t s) ts s) = w_out s ++ SR (clear s) ts.
Proof.
  induction ts as [|t r IH]; intros s; cbn [fold_left SR]; [rewrite app_nil_r; reflexivity|].
  rewrite IH. destruct (render_stok_split t s) as [A B]. rewrite A, <- app_assoc.
  f_equal. f_equal. fold (safter t s). rewrite B. reflexivity.
Qed.

Lemma render_stoks_SR ts : render_stoks ts = SR w_init ts.
Proof. unfold render_stoks. rewrite fold_render_stoks. reflexivity. Qed.

(* --- B.3 well-formed statement tokens --- *)
Definition punct_kws : list string := ["("; ")"; "{"; "}"; ";"]%string.
Definition kw_okb (k : string) : bool := mem_str k punct_kws || word_b (kw_bytes k).
Definition stok_wf (t : stok) : Prop :=
  match t with
  | SK k => kw_okb k = true
  | SE e => exists t, expr_ok t = true /\ e = emit t
  end.

Definition lastsurf (t : stok) : bytes := match t with SK k => kw_bytes k | SE e => tok_surface (last_tok e) end.
Definition firstsurf (t : stok) : bytes :=
  match t with SK k => kw_bytes k | SE e => match e with u :: _ => tok_surface u | [] => [] end end.
(* the writer owes a space before an identifier byte: writeSpaceBeforeIdent after else / return / throw *)
Definition spaced (t : stok) : bool :=
  match t with SK k => (String.eqb k "else" || String.eqb k "return" || String.eqb k "throw")%string | SE _ => false end.
Definition ends_word (t : stok) : bool := hd_ident (lastsurf t).
Definition starts_word (t : stok) : bool := hd_ident (firstsurf t).
Definition adj (x y : stok) : bool := negb (ends_word x && starts_word y && negb (spaced x)).
Fixpoint adj_all (ts : list stok) : bool :=
  match ts with
  | x :: r => match r with y :: _ => adj x y | [] => true end && adj_all r
  | [] => true
  end.
Definition stoks_ok (ts : list stok) : Prop := Forall stok_wf ts /\ adj_all ts = true.

Lemma punct_kw_table :
  forallb (fun k => surf_okb (kw_bytes k) && negb (hd_ident (kw_bytes k)) && closed_punct (kw_bytes k)) punct_kws = true.
Proof. vm_compute. reflexivity. Qed.
Lemma last_list_closed :
  forallb (fun t => negb (hd_ident (tok_surface t)) && closed_punct (tok_surface t)) last_list = true.
Proof. vm_compute. reflexivity. Qed.

Lemma kw_cases k : kw_okb k = true ->
  (surf_okb (kw_bytes k) = true /\ hd_ident (kw_bytes k) = false /\ closed_punct (kw_bytes k) = true) \/
  (word_b (kw_bytes k) = true /\ String.eqb k ";" = false).
Proof.
  unfold kw_okb. intros H. apply orb_true_iff in H as [H|H].
  - left. apply mem_str_In in H. pose proof punct_kw_table as F. rewrite forallb_forall in F. specialize (F _ H).
    apply andb_true_iff in F as [F F3]. apply andb_true_iff in F as [F1 F2]. apply negb_true_iff in F2. auto.
  - right. split; [exact H|]. destruct (String.eqb k ";") eqn:E; [|reflexivity]. apply String.eqb_eq in E. subst k. discriminate.
Qed.

Lemma kw_surf_ok k : kw_okb k = true -> surf_okb (kw_bytes k) = true.
Proof. intros H. destruct (kw_cases k H) as [(A & _)|(A & _)]; [exact A|]. unfold surf_okb. rewrite A. reflexivity. Qed.

Lemma kw_shape k s : exists sp, forallb (Z.eqb 32) sp = true /\ semit (SK k) s = sp ++ kw_bytes k.
Proof.
  unfold semit. cbn [render_stok]. destruct s as [o l ns sb]. unfold clear, mk; simpl.
  destruct (String.eqb k ";") eqn:E.
  - apply String.eqb_eq in E. subst k. exists []. split; reflexivity.
  - destruct (kw_bytes k) as [|c b]; [exists []; destruct (_ || _); split; reflexivity|].
    destruct (_ || _); simpl; destruct (_ || _); spaces_witness.
Qed.

Lemma wf_SE_facts e : stok_wf (SE e) ->
  e <> [] /\ hd_first e /\ last_ok (last_tok e) /\ Chain e None.
Proof.
  intros (t & Hok & ->). destruct (emit_chain t Hok) as (F & L & C).
  split; [destruct (emit t); [contradiction|discriminate]|]. split; [exact F|]. split; [exact L|]. apply C. exact I.
Qed.

Lemma semit_nonempty t s : stok_wf t -> semit t s <> [].
Proof.
  destruct t as [k|e]; intros H.
  - destruct (kw_shape k s) as (sp & _ & E). rewrite E. intros C. apply app_eq_nil in C as [_ C].
    apply kw_surf_ok, surf_okb_nonempty in H. auto.
  - destruct (wf_SE_facts e H) as (Hne & _ & _ & C). rewrite semit_SE. destruct e as [|u r]; [congruence|].
    cbn [R]. intros X. apply app_eq_nil in X as [X _]. destruct (C (clear s)) as (A & _).
    revert X. apply emit_nonempty, surf_okb_nonempty, A.
Qed.

(* one statement token followed by more bytes *)
Lemma stok_lex t s rest :
  stok_wf t -> nofuse (lastsurf t) (hd_error rest) = true ->
  lexf (semit t s ++ rest) = option_map (app (ssurf t)) (lexf rest).
Proof.
  destruct t as [k|e]; intros H N.
  - destruct (kw_shape k s) as (sp & F & E). rewrite E, <- app_assoc, (lexf_spaces _ _ F).
    rewrite lexf_tok; [destruct (lexf rest); reflexivity | apply kw_surf_ok, H | exact N].
  - destruct (wf_SE_facts e H) as (Hne & _ & _ & C). rewrite semit_SE. apply chain_lex_cont; auto.
Qed.

(* --- B.4 what a chunk leaves behind, what a chunk starts with --- *)
Lemma end_cases x s : stok_wf x ->
  (hd_ident (lastsurf x) = false /\ closed_punct (lastsurf x) = true) \/
  (hd_ident (lastsurf x) = true /\ exists l, is_ident_byte l = true /\ safter x s = mk l (spaced x) 0).
Proof.
  destruct x as [k|e]; intros H.
  - destruct (kw_cases k H) as [(_ & A & B)|(W & E)]; [left; auto|]. right.
    split; [apply word_b_hd, W|]. cbn [lastsurf].
    unfold word_b in W. apply andb_true_iff in W as [W1 W2]. apply negb_true_iff in W1.
    exists (last (kw_bytes k) 0). split.
    + apply last_ident; auto. intros C. rewrite C in W1. discriminate.
    + unfold safter, spaced. cbn [render_stok]. rewrite E.
      destruct (kw_bytes k) as [|c b]; [discriminate|]. destruct s as [o l ns sb].
      destruct (_ || _); reflexivity.
  - destruct (wf_SE_facts e H) as (Hne & _ & L & _). cbn [lastsurf]. destruct L as [L|(w & Ew & Hw)].
    + left. pose proof last_list_closed as F. rewrite forallb_forall in F. specialize (F _ L).
      apply andb_true_iff in F as [F1 F2]. apply negb_true_iff in F1. auto.
    + right. rewrite Ew. destruct (word_tok_cons _ Hw) as (c & b & E & Hc & Hb).
      split; [cbn [tok_surface]; rewrite E; exact Hc|].
      exists (last (bytes_of_string w) 0). split.
      * apply last_ident; rewrite E; [discriminate|]. cbn [forallb]. rewrite Hc, Hb. reflexivity.
      * rewrite safter_SE. destruct (exists_last Hne) as (r & t & ->). rewrite last_tok_snoc in Ew. subst t.
        rewrite afters_app. cbn [afters spaced]. apply after_atom. rewrite E. discriminate.
Qed.

Lemma write_hd c0 b l ns :
  is_ident_byte l = true -> (ns = true \/ is_ident_byte c0 = false) ->
  exists c, hd_error (w_out (write (c0 :: b) (mk l ns 0))) = Some c /\ is_ident_byte c = false.
Proof.
  intros _ H. unfold write, mk; simpl. destruct (_ || _) eqn:E.
  - exists 32. split; reflexivity.
  - exists c0. split; [reflexivity|]. apply orb_false_iff in E as [E _].
    destruct H as [->|H]; [exact E|exact H].
Qed.

Lemma first_start_table :
  forallb (fun u => forallb (fun ns => implb (ns || negb (hd_ident (tok_surface u)))
                      match hd_error (PrintRenderProofs.emit u (mk 97 ns 0)) with Some c => negb (is_ident_byte c) | None => false end)
                    [true; false]) first_list = true.
Proof. vm_compute. reflexivity. Qed.

Lemma start_cases y l ns : stok_wf y -> is_ident_byte l = true -> (ns = true \/ starts_word y = false) ->
  exists c, hd_error (semit y (mk l ns 0)) = Some c /\ is_ident_byte c = false.
Proof.
  destruct y as [k|e]; intros H Hl Hs.
  - unfold semit. cbn [render_stok]. change (clear (mk l ns 0)) with (mk l ns 0).
    destruct (String.eqb k ";"); [exists 59; split; reflexivity|].
    unfold starts_word in Hs. cbn [firstsurf] in Hs.
    pose proof (surf_okb_nonempty _ (kw_surf_ok k H)) as Hne. destruct (kw_bytes k) as [|c0 b]; [congruence|].
    destruct (write_hd c0 b l ns Hl Hs) as (c & A & B). exists c. split; [|exact B].
    destruct (_ || _); exact A.
  - destruct (wf_SE_facts e H) as (Hne & F & _ & C). rewrite semit_SE. change (clear (mk l ns 0)) with (mk l ns 0).
    destruct e as [|u r]; [congruence|]. cbn [R hd_first] in *. destruct (C (mk l ns 0)) as (A & _).
    rewrite hd_error_app by (apply emit_nonempty, surf_okb_nonempty, A).
    unfold starts_word in Hs. cbn [firstsurf] in Hs.
    destruct F as [F|(w & -> & Hw)].
    + rewrite emit_last_ident by exact Hl. pose proof first_start_table as G. rewrite forallb_forall in G. specialize (G _ F).
      rewrite forallb_forall in G. specialize (G ns). 
      assert (In ns [true; false]) as Hin by (destruct ns; simpl; auto). specialize (G Hin).
      assert (ns || negb (hd_ident (tok_surface u)) = true) as Hc.
      { destruct Hs as [->|Hs]; [reflexivity|]. rewrite Hs. apply orb_true_r. }
      rewrite Hc in G. simpl in G. destruct (hd_error _) as [c|]; [|discriminate]. exists c. split; [reflexivity|].
      apply negb_true_iff in G. exact G.
    + destruct (word_tok_cons _ Hw) as (c0 & b & E & Hc & _). unfold PrintRenderProofs.emit. cbn [render_tok tok_surface] in *.
      change (clear (mk l ns 0)) with (mk l ns 0). rewrite E in *. apply write_hd; auto.
Qed.

Lemma sep x r s : stok_wf x -> Forall stok_wf r -> match r with y :: _ => adj x y = true | [] => True end ->
  nofuse (lastsurf x) (hd_error (SR (safter x s) r)) = true.
Proof.
  intros Hx Hr Ha. destruct r as [|y r']; [apply nofuse_none|]. inversion Hr as [|? ? Hy Hr']; subst.
  cbn [SR]. rewrite hd_error_app by (apply semit_nonempty, Hy).
  destruct (end_cases x s Hx) as [(A & B)|(A & l & Hl & E)]; [apply nofuse_closed; auto|].
  rewrite E. unfold adj, ends_word in Ha. rewrite A in Ha. cbn [andb] in Ha. apply negb_true_iff in Ha.
  assert (spaced x = true \/ starts_word y = false) as Hs.
  { destruct (starts_word y); [|auto]. destruct (spaced x); [auto|discriminate]. }
  destruct (start_cases y l (spaced x) Hy Hl Hs) as (c & Hc & Hi). rewrite Hc. apply nofuse_word; auto.
Qed.

Lemma SR_lex ts : forall s, Forall stok_wf ts -> adj_all ts = true -> lexf (SR s ts) = Some (stok_surfaces ts).
Proof.
  induction ts as [|x r IH]; intros s Hwf Hadj; [reflexivity|].
  inversion Hwf as [|? ? Hx Hr]; subst. cbn [adj_all] in Hadj. apply andb_true_iff in Hadj as [Ha Hadj].
  cbn [SR stok_surfaces flat_map]. rewrite stok_lex; auto.
  - rewrite (IH _ Hr Hadj). reflexivity.
  - apply sep; auto. destruct r; [exact I|exact Ha].
Qed.

Theorem stoks_lex_back ts : stoks_ok ts -> lexs_bytes (render_stoks ts) = Some (stok_surfaces ts).
Proof.
  intros [Hwf Hadj]. unfold lexs_bytes. rewrite lex_bytes_lexf, render_stoks_SR. apply SR_lex; auto.
Qed.

(* ================================================================================================================== *)
(* C. the statement printer never puts a word directly after a word                                                    *)
(* ================================================================================================================== *)

Definition open_end (x : stok) : bool := ends_word x && negb (spaced x).
Definition lastopen (ts : list stok) : bool := open_end (last ts (SK ";")).

Lemma adj_open x y : adj x y = negb (open_end x && starts_word y).
Proof. unfold adj, open_end. destruct (ends_word x), (starts_word y), (spaced x); reflexivity. Qed.
Lemma adj_nonword_r x y : starts_word y = false -> adj x y = true.
Proof. intros H. rewrite adj_open, H, andb_false_r. reflexivity. Qed.
Lemma adj_closed_l x y : open_end x = false -> adj x y = true.
Proof. intros H. rewrite adj_open, H. reflexivity. Qed.

Lemma lastopen_snoc xs y : lastopen (xs ++ [y]) = open_end y.
Proof. unfold lastopen. rewrite last_last. reflexivity. Qed.
Lemma lastopen_app xs ys : ys <> [] -> lastopen (xs ++ ys) = lastopen ys.
Proof. intros H. destruct (exists_last H) as (r & t & ->). rewrite app_assoc, !lastopen_snoc. reflexivity. Qed.
Lemma lastopen_cons x y r : lastopen (x :: y :: r) = lastopen (y :: r).
Proof. change (x :: y :: r) with ([x] ++ (y :: r)). apply lastopen_app. discriminate. Qed.

Definition hd_nonword (ys : list stok) : Prop := match ys with y :: _ => starts_word y = false | [] => True end.

Lemma adj_all_app xs ys :
  adj_all xs = true -> adj_all ys = true -> lastopen xs = false \/ hd_nonword ys -> adj_all (xs ++ ys) = true.
Proof.
  intros Hx Hy Hb. induction xs as [|x r IH]; [exact Hy|].
  cbn [adj_all] in Hx. apply andb_true_iff in Hx as [H1 H2]. destruct r as [|x' r'].
  - cbn [app adj_all]. rewrite Hy, andb_true_r. destruct ys as [|y ys']; [reflexivity|].
    destruct Hb as [Hb|Hb]; [apply adj_closed_l; exact Hb | apply adj_nonword_r; exact Hb].
  - change ((x :: x' :: r') ++ ys) with (x :: ((x' :: r') ++ ys)). cbn [adj_all app]. cbn [app] in IH.
    rewrite H1. cbn [andb]. apply IH; auto; rewrite lastopen_cons in Hb; exact Hb.
Qed.

(* the printer's state: the tokens so far are pairwise fine, and unless a semicolon is pending they do not end in a
   word that has no space owed after it *)
Definition Inv (st : list stok * bool) : Prop := adj_all (fst st) = true /\ (snd st = false -> lastopen (fst st) = false).

Lemma inv_out_closed k st :
  Inv st -> snd st = false -> k <> [] -> adj_all k = true -> lastopen k = false ->
  Inv (out k st) /\ snd (out k st) = false.
Proof.
  intros [A B] Hf Hk Ak Lk. unfold Inv, out. cbn [fst snd]. split; [split|exact Hf].
  - apply adj_all_app; auto.
  - intros _. rewrite lastopen_app; auto.
Qed.

Lemma inv_out_semi k st : Inv st -> snd st = false -> adj_all k = true -> Inv (require_semi (out k st)).
Proof.
  intros [A B] Hf Ak. unfold Inv, out, require_semi. cbn [fst snd]. split; [|discriminate].
  apply adj_all_app; auto.
Qed.

Lemma inv_out_punct p st :
  Inv st -> starts_word (SK p) = false -> open_end (SK p) = false ->
  Inv (clear_semi (out [SK p] st)) /\ snd (clear_semi (out [SK p] st)) = false.
Proof.
  intros [A B] Hs Ho. unfold Inv, out, clear_semi. cbn [fst snd]. split; [split|reflexivity].
  - apply adj_all_app; auto; right; exact Hs.
  - intros _. rewrite lastopen_snoc. exact Ho.
Qed.

Lemma inv_write_semi st : Inv st -> Inv (write_semi st) /\ snd (write_semi st) = false.
Proof.
  intros HI. unfold write_semi. destruct (snd st) eqn:Hf.
  - destruct HI as [A B]. unfold Inv. cbn [fst snd]. split; [split|reflexivity].
    + apply adj_all_app; auto; right; reflexivity.
    + intros _. rewrite lastopen_snoc. reflexivity.
  - split; [exact HI|exact Hf].
Qed.

Lemma adj_all_if x : adj_all ([SK "if"; SK "("] ++ [SE x] ++ [SK ")"]) = true.
Proof.
  cbn [app adj_all]. rewrite (adj_nonword_r (SK "if") (SK "(")) by reflexivity.
  rewrite (adj_closed_l (SK "(") (SE x)) by reflexivity. rewrite (adj_nonword_r (SE x) (SK ")")) by reflexivity. reflexivity.
Qed.
Lemma adj_all_kw_expr k x : spaced (SK k) = true -> adj_all (SK k :: [SE x]) = true.
Proof.
  intros H. cbn [adj_all]. rewrite adj_closed_l; [reflexivity|]. unfold open_end. rewrite H. apply andb_false_r.
Qed.

Section Adj.
  Variable T : tables.
  Variable efuel : nat.

  Lemma fold_inv k :
    (forall s st, Inv st -> snd st = false -> Inv (print_stmt T efuel k s st)) ->
    forall l acc, Inv acc -> Inv (fold_left (fun acc x => print_stmt T efuel k x (write_semi acc)) l acc).
  Proof.
    intros IH l. induction l as [|x r IHl]; intros acc HI; [exact HI|]. cbn [fold_left].
    apply IHl. destruct (inv_write_semi acc HI) as [A B]. apply IH; auto.
  Qed.

  Lemma print_stmt_inv : forall fuel s st, Inv st -> snd st = false -> Inv (print_stmt T efuel fuel s st).
  Proof.
    induction fuel as [|k IH]; intros s st HI Hf; [exact HI|].
    destruct s as [e|c b e|[v|]|v|kind| |l|i]; cbn [print_stmt].
    - (* SExpr *) apply inv_out_semi; auto.
    - (* SIf *)
      destruct (negb (negb (is_empty b)) && negb (negb (is_empty_opt e))); [exact HI|].
      set (st1 := out _ st).
      assert (Inv st1 /\ snd st1 = false) as [I1 F1].
      { apply inv_out_closed; [exact HI | exact Hf | discriminate | apply adj_all_if |].
        unfold expr_toks. rewrite !app_assoc, lastopen_snoc. reflexivity. }
      set (st2 := if negb (negb (is_empty b)) then _ else _).
      assert (Inv st2) as I2.
      { unfold st2. destruct (negb (negb (is_empty b))).
        - destruct I1 as [A B]. split; [exact A|discriminate].
        - destruct (_ && _).
          + apply inv_out_punct; [|reflexivity|reflexivity].
            assert (Inv (out [SK "{"] st1) /\ snd (out [SK "{"] st1) = false) as [I' F']
              by (apply inv_out_closed; [exact I1 | exact F1 | discriminate | reflexivity | reflexivity]).
            apply IH; auto.
          + apply IH; auto. }
      destruct (negb (is_empty_opt e)); [|exact I2].
      destruct e as [x|]; [|exact I2].
      destruct (inv_write_semi st2 I2) as [I3 F3].
      assert (Inv (out [SK "else"] (write_semi st2)) /\ snd (out [SK "else"] (write_semi st2)) = false) as [I4 F4]
        by (apply inv_out_closed; [exact I3 | exact F3 | discriminate | reflexivity | reflexivity]).
      apply IH; auto.
    - (* SReturn (Some v) *) apply inv_out_semi; auto. apply adj_all_kw_expr. reflexivity.
    - (* SReturn None *) apply inv_out_semi; auto.
    - (* SThrow *) apply inv_out_semi; auto. apply adj_all_kw_expr. reflexivity.
    - (* SBranch *) apply inv_out_semi; auto.
    - (* SEmpty *) exact HI.
    - (* SBlock *)
      apply inv_out_punct; [|reflexivity|reflexivity]. apply fold_inv; [exact IH|].
      apply inv_out_punct; auto.
    - (* SOpaque *) apply inv_out_semi; auto.
  Qed.

  Theorem print_list_adj l : adj_all (print_list T efuel l) = true.
  Proof.
    unfold print_list.
    assert (forall acc, Inv acc ->
            Inv (fold_left (fun acc x => print_stmt T efuel (S (stmt_size x)) x (write_semi acc)) l acc)) as H.
    { induction l as [|x r IHl]; intros acc HI; [exact HI|]. cbn [fold_left]. apply IHl.
      destruct (inv_write_semi acc HI) as [A B]. apply print_stmt_inv; auto. }
    apply (H ([], false)). split; [reflexivity|]. intros _. reflexivity.
  Qed.

  (* TARGET C: every token of the list well formed (each expression chunk is emit of an expr_ok tree, each keyword a word
     or one of ( ) { } ;) => the bytes lex back *)
  Theorem print_list_lexes_back l :
    Forall stok_wf (print_list T efuel l) ->
    lexs_bytes (render_stoks (print_list T efuel l)) = Some (stok_surfaces (print_list T efuel l)).
  Proof. intros H. apply stoks_lex_back. split; [exact H | apply print_list_adj]. Qed.

  Theorem render_body_lexes_back function l :
    Forall stok_wf (print_body T efuel function l) ->
    lexs_bytes (render_body T efuel function l) = Some (stok_surfaces (print_body T efuel function l)).
  Proof. intros H. unfold render_body. unfold print_body in *. apply print_list_lexes_back, H. Qed.
End Adj.

(* ================================================================================================================== *)
(* Checks: not vacuous; the adjacency hypothesis of B is needed                                                        *)
(* ================================================================================================================== *)
Module StmtChecks.
  Local Open Scope string_scope.
  Definition a := EAtom "a". Definition b := EAtom "b". Definition c := EAtom "c".
  Definition ts1 : list stok :=
    [SK "if"; SK "("; SE (emit a); SK ")"; SK "return"; SE (emit (EBin "AddToken" b (EPre "PosToken" c))); SK ";";
     SK "else"; SK "if"; SK "("; SE (emit c); SK ")"; SK "{"; SK "throw"; SE (emit (EPre "NotToken" (EGroup a))); SK ";";
     SK "break"; SK "}"; SK "return"; SE (emit (EPre "TypeofToken" a)); SK ";"; SK "return"; SE (emit (EGroup b))].
  Example ts1_ok : stoks_ok ts1.
  Proof.
    split; [|vm_compute; reflexivity].
    repeat (apply Forall_cons; [first [ reflexivity | eexists; split; [|reflexivity]; reflexivity ]|]). apply Forall_nil.
  Qed.
  Example ts1_bytes :
    render_stoks ts1 = bytes_of_string "if(a)return b+ +c;else if(c){throw!(a);break}return typeof a;return(b)" /\
    lexs_bytes (render_stoks ts1) = Some (stok_surfaces ts1).
  Proof. vm_compute. auto. Qed.

  (* a word directly after a word that owes no space fuses: `if` then an expression, an expression then a keyword *)
  Example adj_needed :
    let ts := [SK "if"; SE (emit a)] in
    Forall stok_wf ts /\ adj_all ts = false /\ render_stoks ts = bytes_of_string "ifa" /\
    lexs_bytes (render_stoks ts) = Some [bytes_of_string "ifa"] /\ stok_surfaces ts = map bytes_of_string ["if"; "a"].
  Proof.
    split; [|vm_compute; auto].
    apply Forall_cons; [reflexivity|]. apply Forall_cons; [exists a; split; reflexivity|]. apply Forall_nil.
  Qed.
  Example adj_needed2 :
    let ts := [SE (emit a); SK "else"] in
    adj_all ts = false /\ lexs_bytes (render_stoks ts) = Some [bytes_of_string "aelse"].
  Proof. vm_compute. auto. Qed.

  (* the whole pipeline on the generated tables: optimiser, statement printer, writer, lexer *)
  Definition l1 : list stmt :=
    [SIf a (SBlock [SExpr (ECall c a); SReturn (Some b)]) (Some (SIf b (SBranch "break") None));
     SExpr (EPre "TypeofToken" c); SThrow (EBin "InToken" a b)].
  Example l1_wf : Forall stok_wf (print_body PrintGen.T_gen 50 true l1).
  Proof.
    vm_compute print_body.
    repeat (apply Forall_cons; [first [ reflexivity
      | exists a; split; reflexivity | exists b; split; reflexivity
      | exists (EBin "CommaToken" (ECall c a) b); split; reflexivity
      | exists (EBin "CommaToken" (EPre "TypeofToken" c) (EBin "InToken" a b)); split; reflexivity ]|]).
    apply Forall_nil.
  Qed.
  Example l1_bytes :
    render_body PrintGen.T_gen 50 true l1 = bytes_of_string "if(a)return c(a),b;if(b)break;throw typeof c,a in b".
  Proof. vm_compute. reflexivity. Qed.
  Example l1_lexes : lexs_bytes (render_body PrintGen.T_gen 50 true l1) = Some (stok_surfaces (print_body PrintGen.T_gen 50 true l1)).
  Proof. apply render_body_lexes_back, l1_wf. Qed.
End StmtChecks.

Print Assumptions emit_lexes_back.
Print Assumptions stoks_lex_back.
Print Assumptions render_body_lexes_back.
