(* Js/StmtSem.v — a semantics for the statement fragment of Js/StmtModel.v over the expression semantics of
   Js/RewriteSem.v: a statement maps a store to a completion (normal, return v, throw v, break / continue) and a store.
   Expressions do not throw in RewriteSem (exceptions raised inside expressions are outside the model); `return;` returns
   undefined; a function body that runs off its end returns undefined.  Statements no rule touches are arbitrary
   store transformers with arbitrary completions ([opaque]). *)
From Coq Require Import List String Arith Bool.
Import ListNotations.
From MV Require Import Js.PrintModel Js.PrintGroup Js.RewriteModel Js.RewriteSem Js.StmtModel.
Local Open Scope string_scope.

Section StmtSem.
  Variable T : tables.
  Variables V S : Type.
  Variable truthy : V -> bool.
  Variables vtrue vfalse vundef vinf : V.
  Variable var : string -> S -> V.
  Variable assign : string -> V -> S -> S.
  Variable call : V -> V -> S -> V * S.
  Variable strict_eq : V -> V -> bool.
  Variable loose_eq : V -> V -> S -> bool * S.
  Variable compare : string -> V -> V -> S -> bool * S.
  Variable arith : string -> V -> V -> S -> V * S.
  Variable pure_unop : string -> V -> V.
  Variable unop : string -> V -> S -> V * S.
  Variable member : string -> V -> S -> V * S.
  Variable index : V -> V -> S -> V * S.
  Variable nullish : V -> bool.

  Inductive completion := CNormal | CReturn (v : V) | CThrow (v : V) | CBranch (k : string).
  Variable opaque : string -> S -> completion * S.

  Definition ev := eval T V S truthy vtrue vfalse vundef vinf var assign call strict_eq loose_eq compare arith pure_unop unop member index nullish.

  Fixpoint exec (st : stmt) (s : S) : completion * S :=
    match st with
    | SExpr e => (CNormal, snd (ev e s))
    | SIf c b e =>
        let '(v, s1) := ev c s in
        if truthy v then exec b s1
        else match e with Some x => exec x s1 | None => (CNormal, s1) end
    | SReturn None => (CReturn vundef, s)
    | SReturn (Some e) => let '(v, s1) := ev e s in (CReturn v, s1)
    | SThrow e => let '(v, s1) := ev e s in (CThrow v, s1)
    | SBranch k => (CBranch k, s)
    | SEmpty => (CNormal, s)
    | SBlock l =>
        (fix go (l : list stmt) (s : S) : completion * S :=
           match l with
           | [] => (CNormal, s)
           | x :: r => match exec x s with (CNormal, s1) => go r s1 | res => res end
           end) l s
    | SOpaque i => opaque i s
    end.

  Fixpoint exec_list (l : list stmt) (s : S) : completion * S :=
    match l with
    | [] => (CNormal, s)
    | x :: r => match exec x s with (CNormal, s1) => exec_list r s1 | res => res end
    end.

  (* what a caller observes of a function body: running off the end is `return undefined` *)
  Definition run_function (l : list stmt) (s : S) : completion * S :=
    match exec_list l s with (CNormal, s1) => (CReturn vundef, s1) | res => res end.

  Definition run (function : bool) (l : list stmt) (s : S) : completion * S :=
    if function then run_function l s else exec_list l s.
End StmtSem.
