(* Js/StrCat.v — F2 model of the string concatenation merge of /repo/js/util.go: mergeBinaryExpr joins the literals of
   "a" + 'b' + ... into ONE literal that keeps the delimiter of the first; the bodies are appended by appendStringPart,
   which rewrites a trailing \0 or legacy octal escape that would absorb a leading digit of the next part as \xHH.
   Unescaped delimiters of the other kind inside the joined body are repaired by minifyString afterwards (Js/StrLit.v).
   No proofs in this file; extracted and compared with the real functions through a verif hook. *)
From MV Require Import Base.MvBytes Js.StrLit.

Definition hex_char (v : Z) : byte := if v <? 10 then 48 + v else 55 + v.     (* 0-9 A-F *)

(* the trailing run of at most three octal digits of b, read from the reversed list *)
Fixpoint oct_run (n : nat) (rb : bytes) : bytes :=
  match n, rb with
  | S k, c :: r => if is_oct c then c :: oct_run k r else []
  | _, _ => []
  end.
Fixpoint count_bs (rb : bytes) : nat := match rb with c :: r => if c =? c_bs then S (count_bs r) else O | [] => O end.
Fixpoint oct_val (ds : bytes) (acc : Z) : Z := match ds with [] => acc | c :: r => oct_val r (acc * 8 + (c - 48)) end.

(* appendStringPart(b, part); b is the literal built so far INCLUDING its opening delimiter *)
Definition append_string_part (b part : bytes) : bytes :=
  match part with
  | p0 :: _ =>
    if (48 <=? p0) && (p0 <=? 57) then
      let rb := rev b in
      let rdigits := oct_run 3 rb in                      (* last digit first *)
      let n := length rdigits in
      match n with
      | O => b ++ part
      | _ =>
        let digits := rev rdigits in
        (* backslashes directly before the digits; the Go loop stops before index len(b)-n, i.e. never looks at b[0..] beyond the start *)
        let nbs := count_bs (skipn n rb) in
        let d0 := hd 0 digits in
        let is_null := Nat.eqb n 1 && (d0 =? 48) in
        let can_absorb := (p0 <=? 55) && (Nat.ltb n 2 || (Nat.ltb n 3 && (d0 <=? 51))) in
        if Nat.odd nbs && (is_null || can_absorb) then
          let v := oct_val digits 0 in
          firstn (length b - n) b ++ [120; hex_char (v / 16); hex_char (v mod 16)] ++ part
        else b ++ part
      end
    else b ++ part
  | [] => b ++ part
  end.

Definition body_of (lit : bytes) : bytes := removelast (tl lit).   (* a literal without its two delimiters *)

(* the literal mergeBinaryExpr builds for l1 + l2 + ... + lk (source order, k >= 2): opening delimiter and body of l1, the
   bodies of the others appended one by one, closed with the delimiter of l1 *)
Definition merge_strings (lits : list bytes) : bytes :=
  match lits with
  | l1 :: rest =>
    let q := hd 0 l1 in
    fold_left (fun b l => append_string_part b (body_of l)) rest (removelast l1) ++ [q]
  | [] => []
  end.
