(* Js/StrCatProofs.v — the string concatenation merge of Js/StrCat.v followed by the string-literal minifier of Js/StrLit.v
   keeps the value: the value of the merged-and-minified literal is the concatenation of the values of the parts.

   1. [decode_raw] (Js/StrLitProofs.v): the value of a raw body, both quote kinds ordinary; agrees with [decode] on valid bodies;
   2. [append_string_part_value]: appending a part (with the \xHH rewrite of a trailing octal escape) concatenates the values;
   3. [merge_strings_value]: the joined literal has a raw body whose value is the concatenation;
   4. [minify_string_raw_value]: minify_string repairs a raw body (generalisation of minify_string_value);
   5. [concatenation_value]. *)
From MV Require Import Base.MvBytes Js.StrLit Js.StrLitSpec Js.StrLitProofs Js.StrCat.

(* ---------- one escape: what it consumes, and on what of the following text it depends ---------- *)
Definition dclass (l : bytes) : bool * bool := match l with [] => (false, false) | c :: _ => (is_dec c, is_oct c) end.
Definition lf_next (l : bytes) : bool := match l with c :: _ => c =? 10 | [] => false end.
Definition ls_tail (l : bytes) : bool := (at_ 0 l =? 128) && ((at_ 1 l =? 168) || (at_ 1 l =? 169)) && (2 <=? zlen l).
(* the text X may stand for the text r' after the escape that starts with c1 *)
Definition ctx (c1 : byte) (r' X : bytes) : Prop :=
  (is_oct c1 = true -> dclass X = dclass r') /\ (c1 = 13 -> lf_next X = lf_next r') /\ (c1 = 226 -> ls_tail X = ls_tail r').

Definition nbs (x : byte) : Prop := x <> c_bs.
Definition octb (x : byte) : Prop := is_oct x = true.

Lemma oct_nbs x : octb x -> nbs x.
Proof. intros H. apply is_oct_rng in H. unfold nbs, c_bs. lia. Qed.
Lemma hexb_nbs ds : Forall hexb ds -> Forall nbs ds.
Proof. intros H. eapply Forall_impl; [|exact H]. intros a Ha. apply hex_inert in Ha. apply Ha. Qed.

Definition DEres (lg : bool) (c1 : byte) (r2 : bytes) (u : list unit) (r' : bytes) : Prop :=
  exists e, r2 = e ++ r' /\ Forall nbs e /\
    (is_oct c1 = true -> Forall octb e /\ (length e <= 2)%nat) /\
    forall X, ctx c1 r' X -> decode_escape lg false (c1 :: e ++ X) = Some (u, X).

Lemma DEres_nil lg c1 r2 u : is_oct c1 = false ->
  (forall X, (c1 = 13 -> lf_next X = lf_next r2) -> (c1 = 226 -> ls_tail X = ls_tail r2) ->
     decode_escape lg false (c1 :: X) = Some (u, X)) -> DEres lg c1 r2 u r2.
Proof.
  intros Ho H. exists []. split; [reflexivity|]. split; [constructor|]. split; [congruence|].
  intros X (_ & H1 & H2). apply H; assumption.
Qed.

Lemma DE_digit_ctx lg c1 r2 u r' : is_dec c1 = true ->
  decode_escape lg false (c1 :: r2) = Some (u, r') -> DEres lg c1 r2 u r'.
Proof.
  intros Hdec Ee. rewrite DE_digit in Ee by assumption. unfold digit_escape in Ee. cbv zeta in Ee.
  pose proof (is_dec_rng _ Hdec) as Hrng.
  assert (Hn13 : c1 <> 13) by lia. assert (Hn226 : c1 <> 226) by lia.
  destruct ((c1 =? 48) && negb (match r2 with [] => false | _ => true end && is_dec (at_ 0 r2))) eqn:Ez.
  { apply andb_true_iff in Ez as [Ez1 Ez2]. apply Z.eqb_eq in Ez1. subst c1. inversion Ee; subst.
    exists []. split; [reflexivity|]. split; [constructor|]. split; [intros _; split; [constructor|cbn; lia]|].
    intros X (Hc & _ & _). specialize (Hc eq_refl). cbn [app]. rewrite DE_digit by reflexivity. unfold digit_escape. cbv zeta.
    change (48 =? 48) with true. cbn [andb].
    assert (Hx : (match X with [] => false | _ => true end && is_dec (at_ 0 X)) = (match r' with [] => false | _ => true end && is_dec (at_ 0 r'))).
    { unfold dclass in Hc. destruct X, r'; cbn [at_ nth andb] in *; congruence. }
    rewrite Hx, Ez2. reflexivity. }
  destruct (false || negb lg) eqn:El; [discriminate|].
  destruct ((c1 =? 56) || (c1 =? 57)) eqn:E89.
  { inversion Ee; subst. exists []. split; [reflexivity|]. split; [constructor|].
    assert (Ho : is_oct c1 = false).
    { apply orb_true_iff in E89. rewrite !Z.eqb_eq in E89. destruct E89; subst c1; reflexivity. }
    split; [congruence|]. intros X _. cbn [app]. rewrite DE_digit by assumption. unfold digit_escape. cbv zeta.
    replace (c1 =? 48) with false by (symmetry; apply Z.eqb_neq; apply orb_true_iff in E89; rewrite !Z.eqb_eq in E89; lia).
    cbn [andb]. rewrite El, E89. reflexivity. }
  pose proof E89 as E89'. apply orb_false_iff in E89' as [E8 E9]. apply Z.eqb_neq in E8, E9.
  assert (Hoct : is_oct c1 = true).
  { unfold is_oct. apply andb_true_iff. rewrite !Z.leb_le. lia. }
  destruct r2 as [|d2 r3].
  { cbn [andb] in Ee. inversion Ee; subst.
    exists []. split; [reflexivity|]. split; [constructor|]. split; [intros _; split; [constructor|cbn; lia]|].
    intros X (Hc & _ & _). specialize (Hc Hoct). cbn [app]. rewrite DE_digit by assumption. unfold digit_escape. cbv zeta.
    unfold dclass in Hc. destruct X as [|x X].
    - rewrite Ez. rewrite El, E89. reflexivity.
    - injection Hc as Hc1 Hc2. cbn [at_ nth andb]. rewrite Hc1, Hc2. cbn [andb negb] in Ez. rewrite andb_true_r in Ez.
      cbn [negb]. rewrite andb_true_r, Ez.
      rewrite El, E89. reflexivity. }
  cbn [at_ nth andb] in Ee, Ez.
  destruct (is_oct d2) eqn:Eo2.
  - assert (Hd2 : is_dec d2 = true).
    { apply is_oct_rng in Eo2. unfold is_dec. apply andb_true_iff. rewrite !Z.leb_le. lia. }
    destruct r3 as [|d3 r4].
    + rewrite andb_false_r in Ee. cbn [andb] in Ee. inversion Ee; subst. cbn [skipn].
      exists [d2]. split; [reflexivity|]. split; [constructor; [apply oct_nbs; exact Eo2|constructor]|].
      split; [intros _; split; [constructor; [exact Eo2|constructor]|cbn; lia]|].
      intros X (Hc & _ & _). specialize (Hc Hoct). cbn [app]. rewrite DE_digit by assumption. unfold digit_escape. cbv zeta.
      cbn [at_ nth andb]. rewrite Hd2. cbn [negb]. rewrite andb_false_r. rewrite El, E89, Eo2.
      unfold dclass in Hc. destruct X as [|x X].
      * rewrite andb_false_r. reflexivity.
      * injection Hc as Hc1 Hc2. cbn [nth]. rewrite Hc2. rewrite andb_false_r. reflexivity.
    + cbn [nth] in Ee. rewrite andb_true_r in Ee.
      match type of Ee with (if ?b then _ else _) = _ => destruct b eqn:E3 end.
      * apply andb_true_iff in E3 as [E3a E3b].
        inversion Ee; subst. cbn [skipn].
        exists [d2; d3]. split; [reflexivity|].
        split; [apply Forall_two; apply oct_nbs; assumption|].
        split; [intros _; split; [apply Forall_two; assumption|cbn; lia]|].
        intros X _. cbn [app]. rewrite DE_digit by assumption. unfold digit_escape. cbv zeta.
        cbn [at_ nth andb]. rewrite Hd2. cbn [negb]. rewrite andb_false_r. rewrite El, E89, Eo2, E3a, E3b. reflexivity.
      * inversion Ee; subst. cbn [skipn].
        exists [d2]. split; [reflexivity|]. split; [constructor; [apply oct_nbs; exact Eo2|constructor]|].
        split; [intros _; split; [constructor; [exact Eo2|constructor]|cbn; lia]|].
        intros X (Hc & _ & _). specialize (Hc Hoct). cbn [app]. rewrite DE_digit by assumption. unfold digit_escape. cbv zeta.
        cbn [at_ nth andb]. rewrite Hd2. cbn [negb]. rewrite andb_false_r. rewrite El, E89, Eo2.
        unfold dclass in Hc. destruct X as [|x X].
        -- rewrite andb_false_r. reflexivity.
        -- injection Hc as Hc1 Hc2. cbn [nth]. rewrite Hc2. rewrite andb_true_r. rewrite E3. reflexivity.
  - inversion Ee; subst.
    exists []. split; [reflexivity|]. split; [constructor|]. split; [intros _; split; [constructor|cbn; lia]|].
    intros X (Hc & _ & _). specialize (Hc Hoct). cbn [app]. rewrite DE_digit by assumption. unfold digit_escape. cbv zeta.
    unfold dclass in Hc. destruct X as [|x X]; injection Hc as Hc1 Hc2.
    + cbn [andb negb]. rewrite <- Hc1 in Ez. cbn [negb] in Ez. rewrite Ez, El, E89. reflexivity.
    + cbn [at_ nth andb]. rewrite Hc1, Hc2. rewrite Ez, El, E89, Eo2. reflexivity.
Qed.

Lemma DE_ctx lg c1 r2 u r' :
  decode_escape lg false (c1 :: r2) = Some (u, r') -> DEres lg c1 r2 u r'.
Proof.
  intros Ee.
  destruct (is_dec c1) eqn:Edec; [apply DE_digit_ctx; assumption|].
  assert (Hoct : is_oct c1 = false) by (apply not_dec_not_oct; assumption).
  destruct (Z.eq_dec c1 98) as [E|N98].
  { subst c1. cbn in Ee. inversion Ee; subst. apply DEres_nil; [reflexivity|intros; reflexivity]. }
  destruct (Z.eq_dec c1 102) as [E|N102].
  { subst c1. cbn in Ee. inversion Ee; subst. apply DEres_nil; [reflexivity|intros; reflexivity]. }
  destruct (Z.eq_dec c1 110) as [E|N110].
  { subst c1. cbn in Ee. inversion Ee; subst. apply DEres_nil; [reflexivity|intros; reflexivity]. }
  destruct (Z.eq_dec c1 114) as [E|N114].
  { subst c1. cbn in Ee. inversion Ee; subst. apply DEres_nil; [reflexivity|intros; reflexivity]. }
  destruct (Z.eq_dec c1 116) as [E|N116].
  { subst c1. cbn in Ee. inversion Ee; subst. apply DEres_nil; [reflexivity|intros; reflexivity]. }
  destruct (Z.eq_dec c1 118) as [E|N118].
  { subst c1. cbn in Ee. inversion Ee; subst. apply DEres_nil; [reflexivity|intros; reflexivity]. }
  destruct (Z.eq_dec c1 10) as [E|N10].
  { subst c1. cbn in Ee. inversion Ee; subst. apply DEres_nil; [reflexivity|intros; reflexivity]. }
  destruct (Z.eq_dec c1 13) as [E|N13].
  { subst c1. unfold decode_escape in Ee. cbn [Z.eqb Pos.eqb andb] in Ee.
    destruct r2 as [|c r3].
    - inversion Ee; subst. apply DEres_nil; [reflexivity|]. intros X H1 _. specialize (H1 eq_refl).
      unfold decode_escape. cbn [Z.eqb Pos.eqb andb]. destruct X as [|x X]; [reflexivity|].
      cbn [lf_next] in H1. rewrite H1. reflexivity.
    - destruct (c =? 10) eqn:Ec.
      + inversion Ee; subst. apply Z.eqb_eq in Ec. subst c.
        exists [10]. split; [reflexivity|]. split; [constructor; [discriminate|constructor]|]. split; [discriminate|].
        intros X _. reflexivity.
      + inversion Ee; subst. apply DEres_nil; [reflexivity|]. intros X H1 _. specialize (H1 eq_refl).
        unfold decode_escape. cbn [Z.eqb Pos.eqb andb]. destruct X as [|x X]; [reflexivity|].
        cbn [lf_next] in H1. rewrite H1, Ec. reflexivity. }
  destruct (Z.eq_dec c1 226) as [E|N226].
  { subst c1. unfold decode_escape in Ee. cbn [Z.eqb Pos.eqb andb] in Ee. fold (ls_tail r2) in Ee.
    destruct (ls_tail r2) eqn:Els.
    - inversion Ee; subst. unfold ls_tail in Els.
      apply andb_true_iff in Els as [Els E4]. apply andb_true_iff in Els as [E2 E3].
      destruct r2 as [|x [|y r4]]; try (cbn in E4; discriminate).
      cbn [at_ nth] in E2, E3. apply Z.eqb_eq in E2. subst x.
      exists [128; y]. split; [reflexivity|]. split.
      { apply Forall_two; [discriminate|]. apply orb_true_iff in E3. rewrite !Z.eqb_eq in E3. destruct E3; subst y; discriminate. }
      split; [discriminate|]. intros X _. cbn [app]. unfold decode_escape. cbn [Z.eqb Pos.eqb andb at_ nth].
      rewrite E3. match goal with |- context[2 <=? ?z] => replace (2 <=? z) with true end; [reflexivity|].
      symmetry. apply Z.leb_le. rewrite !zlen_cons. pose proof (zlen_nonneg X). lia.
    - cbn in Ee. inversion Ee; subst. apply DEres_nil; [reflexivity|]. intros X _ H2. specialize (H2 eq_refl).
      unfold decode_escape. cbn [Z.eqb Pos.eqb andb]. fold (ls_tail X). rewrite H2, Els. reflexivity. }
  destruct (Z.eq_dec c1 120) as [E|N120].
  { subst c1. unfold decode_escape in Ee. cbn [Z.eqb Pos.eqb andb] in Ee.
    destruct r2 as [|h1 [|h2 r4]]; try discriminate.
    destruct (is_hex h1 && is_hex h2) eqn:Eh; [|discriminate]. pose proof Eh as Eh'. apply andb_true_iff in Eh' as [Eh1 Eh2].
    inversion Ee; subst.
    exists [h1; h2]. split; [reflexivity|]. split; [apply hexb_nbs; apply Forall_two; assumption|]. split; [discriminate|].
    intros X _. cbn [app]. unfold decode_escape. cbn [Z.eqb Pos.eqb andb]. rewrite Eh. reflexivity. }
  destruct (Z.eq_dec c1 117) as [E|N117].
  { subst c1. unfold decode_escape in Ee. cbn [Z.eqb Pos.eqb andb] in Ee.
    destruct r2 as [|c r3]; [discriminate|].
    destruct (c =? c_lbrace) eqn:Ebr.
    - apply Z.eqb_eq in Ebr. subst c. cbv zeta in Ee.
      pose proof (hex_run_prefix (length r3) r3) as Hp. pose proof (hex_run_hex (length r3) r3) as Hh.
      remember (hex_run (length r3) r3) as ds eqn:Hds. clear Hds.
      destruct ds as [|d ds]; [discriminate|].
      destruct (skipn (length (d :: ds)) r3) as [|e0 r4] eqn:Esk; [discriminate|].
      destruct ((e0 =? c_rbrace) && (hex_num (d :: ds) <=? 1114111)) eqn:Ec; [|discriminate].
      apply andb_true_iff in Ec as [Ec1 Ec2]. apply Z.eqb_eq in Ec1. apply Z.leb_le in Ec2. subst e0.
      injection Ee as <- <-.
      exists (c_lbrace :: (d :: ds) ++ [c_rbrace]). split; [|split; [|split; [discriminate|]]].
      + rewrite Hp at 1. cbn [app]. rewrite <- app_assoc. reflexivity.
      + constructor; [discriminate|]. apply Forall_app. split; [apply hexb_nbs; assumption|]. constructor; [discriminate|constructor].
      + intros X _.
        cbn [app]. rewrite <- app_assoc. cbn [app]. apply (DE_ub lg false (d :: ds) X); [assumption|discriminate|assumption].
    - cbv zeta in Ee.
      pose proof (hex_run_prefix 4 (c :: r3)) as Hp. pose proof (hex_run_hex 4 (c :: r3)) as Hh.
      remember (hex_run 4 (c :: r3)) as ds eqn:Hds. clear Hds.
      destruct (Nat.eqb (length ds) 4) eqn:El; [|discriminate]. apply Nat.eqb_eq in El.
      injection Ee as <- <-. rewrite El in Hp.
      exists ds. split; [exact Hp|]. split; [apply hexb_nbs; assumption|]. split; [discriminate|].
      intros X _. unfold decode_escape. cbn [Z.eqb Pos.eqb].
      destruct ds as [|h1 ds']; [discriminate|]. cbn [app].
      assert (Hb2 : (h1 =? c_lbrace) = false).
      { inversion Hh; subst. match goal with H : hexb h1 |- _ => apply is_hex_cases in H end. apply Z.eqb_neq. unfold c_lbrace. lia. }
      rewrite Hb2. cbv zeta.
      change (h1 :: ds' ++ X) with ((h1 :: ds') ++ X).
      assert (Hrun : hex_run 4 ((h1 :: ds') ++ X) = h1 :: ds') by (rewrite <- El; apply hex_run_exact; assumption).
      rewrite Hrun, El. cbn [Nat.eqb]. rewrite (skipn_exact _ _ 4%nat El). reflexivity. }
  assert (E226 : (c1 =? 226) = false) by (apply Z.eqb_neq; assumption).
  rewrite DE_other in Ee; try assumption.
  2:{ rewrite E226. reflexivity. }
  inversion Ee; subst. apply DEres_nil; [assumption|]. intros X _ _.
  apply DE_other; try assumption. rewrite E226. reflexivity.
Qed.

(* ---------- parity of the backslash run at the end of a text, computed from the left ---------- *)
Definition bsp (st : bool) (c : byte) : bool := if c =? c_bs then negb st else false.
Definition par (l : bytes) : bool := fold_left bsp l false.

Lemma par_rev l : Nat.odd (count_bs (rev l)) = par l.
Proof.
  induction l as [|c l IH] using rev_ind; [reflexivity|].
  rewrite rev_unit. cbn [count_bs]. unfold par. rewrite fold_left_app. cbn [fold_left]. fold (par l). rewrite <- IH.
  unfold bsp. destruct (c =? c_bs); [|reflexivity].
  rewrite Nat.odd_succ. rewrite <- Nat.negb_odd. reflexivity.
Qed.
Lemma fold_nbs e : Forall nbs e -> fold_left bsp e false = false.
Proof.
  induction 1 as [|x e Hx HF IH]; [reflexivity|]. cbn [fold_left]. unfold bsp at 2.
  apply Z.eqb_neq in Hx. rewrite Hx. exact IH.
Qed.
Lemma par_tok c1 e l : Forall nbs e -> par (c_bs :: c1 :: e ++ l) = par l.
Proof.
  intros He. unfold par. cbn [fold_left]. 
  assert (E : bsp (bsp false c_bs) c1 = false) by (unfold bsp; change (c_bs =? c_bs) with true; destruct (c1 =? c_bs); reflexivity).
  rewrite E. rewrite fold_left_app. rewrite fold_nbs by assumption. reflexivity.
Qed.
Lemma par_plain c l : c <> c_bs -> par (c :: l) = par l.
Proof. intros H. unfold par. cbn [fold_left]. unfold bsp at 2. apply Z.eqb_neq in H. rewrite H. reflexivity. Qed.

Lemma app_split_nbs : forall (e p2 Y r' : bytes), p2 ++ c_bs :: Y = e ++ r' -> Forall nbs e ->
  exists p3, p2 = e ++ p3 /\ r' = p3 ++ c_bs :: Y.
Proof.
  induction e as [|x e IH]; intros p2 Y r' H He.
  - exists p2. split; [reflexivity|]. symmetry. exact H.
  - inversion He; subst. destruct p2 as [|y p2].
    + cbn [app] in H. injection H as Hx _. congruence.
    + cbn [app] in H. injection H as Hy H. subst y. destruct (IH p2 Y r' H) as (p3 & -> & ->); [assumption|].
      exists p3. split; reflexivity.
Qed.

(* ---------- what may follow ---------- *)
Definition Wok (W : bytes) : Prop := match W with [] => True | w :: _ => w <> 10 /\ w <> 128 /\ w <> 168 /\ w <> 169 end.
Definition dstart (W : bytes) : bool := match W with [] => false | w :: _ => is_dec w end.

Lemma ls_tail_one a : ls_tail [a] = false.
Proof. unfold ls_tail. cbn. rewrite andb_false_r. reflexivity. Qed.
Lemma ls_tail_hd a l : a <> 128 -> ls_tail (a :: l) = false.
Proof. intros H. unfold ls_tail. cbn [at_ nth]. apply Z.eqb_neq in H. rewrite H. reflexivity. Qed.
Lemma ls_tail_snd a b l : b <> 168 -> b <> 169 -> ls_tail (a :: b :: l) = false.
Proof. intros H1 H2. unfold ls_tail. cbn [at_ nth]. apply Z.eqb_neq in H1, H2. rewrite H1, H2. rewrite andb_false_r. reflexivity. Qed.
Lemma ls_tail_two a b l l' : ls_tail (a :: b :: l) = ls_tail (a :: b :: l').
Proof.
  unfold ls_tail. cbn [at_ nth]. f_equal.
  rewrite !zlen_cons. pose proof (zlen_nonneg l). pose proof (zlen_nonneg l').
  transitivity true; [|symmetry]; apply Z.leb_le; lia.
Qed.

Lemma ctx_trunc c1 p3 Y : ctx c1 (p3 ++ c_bs :: Y) p3.
Proof.
  unfold ctx. destruct p3 as [|a [|b p]]; cbn [app]; repeat split; intros; try reflexivity.
  - rewrite ls_tail_one. symmetry. apply ls_tail_snd; discriminate.
  - apply ls_tail_two.
Qed.
Lemma ctx_ext c1 a r'' W : Wok W -> ctx c1 (a :: r'') ((a :: r'') ++ W).
Proof.
  intros HW. unfold ctx. repeat split; intros; try reflexivity.
  destruct r'' as [|b r3]; [|apply ls_tail_two].
  rewrite ls_tail_one. destruct W as [|w W]; [apply ls_tail_one|].
  destruct HW as (_ & _ & H1 & H2). cbn [app]. apply ls_tail_snd; assumption.
Qed.
Lemma ctx_nil c1 W : is_oct c1 && dstart W = false -> Wok W -> ctx c1 [] W.
Proof.
  intros H HW. unfold ctx. destruct W as [|w W]; [repeat split; reflexivity|].
  destruct HW as (H10 & H128 & _). repeat split; intros.
  - rewrite H0 in H. cbn [andb dstart] in H. cbn [dclass]. rewrite H. rewrite (not_dec_not_oct _ H). reflexivity.
  - cbn. apply Z.eqb_neq. assumption.
  - apply ls_tail_hd. assumption.
Qed.

Lemma omap_app_app (u v : list unit) o : omap (app u) (omap (app v) o) = omap (app (u ++ v)) o.
Proof. destruct o; cbn; [rewrite app_assoc|]; reflexivity. Qed.

Section Cat.
  Variable q : byte.
  Variable lg : bool.
  Hypothesis Hqt : (q =? c_bt) = false.

  Lemma decode_bs r : decode lg q (c_bs :: r) =
    match decode_escape lg false r with Some (u, r') => omap (app u) (decode lg q r') | None => None end.
  Proof.
    rewrite decode_cons. unfold decode_step. rewrite Hqt. change (c_bs =? c_bs) with true. cbv iota.
    destruct (decode_escape lg false r) as [[u r']|]; [|reflexivity]. destruct (decode lg q r'); reflexivity.
  Qed.

  Definition plain_bad (c : byte) : bool := (c =? q) || (c =? 10) || (c =? 13).
  Lemma decode_pl c r : c <> c_bs ->
    decode lg q (c :: r) = if plain_bad c then None else omap (cons (UByte c)) (decode lg q r).
  Proof.
    intros H. rewrite decode_cons. unfold decode_step, plain_bad. apply Z.eqb_neq in H. rewrite H, Hqt.
    destruct (c =? q); [reflexivity|]. cbn [orb]. destruct ((c =? 10) || (c =? 13)); [reflexivity|].
    destruct (decode lg q r); reflexivity.
  Qed.

  (* an even run of backslashes ends at a token boundary *)
  Lemma split_bs : forall n b1 v1, (length b1 <= n)%nat -> decode lg q b1 = Some v1 ->
    forall pre Y, b1 = pre ++ c_bs :: Y -> par pre = false ->
    exists v0 vy, decode lg q pre = Some v0 /\ decode lg q (c_bs :: Y) = Some vy /\ v1 = v0 ++ vy.
  Proof.
    induction n as [|n IH]; intros b1 v1 Hlen Hd pre Y Hb Hp.
    - destruct b1; [destruct pre; discriminate|cbn in Hlen; lia].
    - destruct pre as [|c p1].
      + cbn [app] in Hb. subst b1. exists [], v1. split; [reflexivity|]. split; [assumption|reflexivity].
      + cbn [app] in Hb. subst b1. cbn [length] in Hlen.
        destruct (Z.eq_dec c c_bs) as [->|Nc].
        * rewrite decode_bs in Hd.
          destruct (decode_escape lg false (p1 ++ c_bs :: Y)) as [[u r']|] eqn:Ee; [|discriminate].
          destruct (decode lg q r') as [v'|] eqn:Ed'; [|discriminate]. cbn in Hd. inversion Hd; subst v1.
          destruct p1 as [|c1 p2]; [cbn in Hp; discriminate|].
          cbn [app] in Ee. destruct (DE_ctx _ _ _ _ _ Ee) as (e & Hr & He & _ & Hx).
          destruct (app_split_nbs _ _ _ _ Hr He) as (p3 & -> & ->).
          rewrite par_tok in Hp by assumption.
          pose proof (decode_escape_shorter _ _ _ _ _ Ee) as Hs. cbn [length] in Hs.
          assert (Hl : (length (p3 ++ c_bs :: Y) <= n)%nat).
          { cbn [app length] in Hlen. lia. }
          destruct (IH (p3 ++ c_bs :: Y) v' Hl Ed' p3 Y eq_refl Hp) as (v0 & vy & D0 & Dy & ->).
          exists (u ++ v0), vy. split; [|split; [assumption|apply app_assoc]].
          rewrite decode_bs. rewrite (Hx p3 (ctx_trunc c1 p3 Y)). rewrite D0. reflexivity.
        * rewrite decode_pl in Hd by assumption. destruct (plain_bad c) eqn:Eb; [discriminate|].
          destruct (decode lg q (p1 ++ c_bs :: Y)) as [v'|] eqn:Ed'; [|discriminate]. cbn in Hd. inversion Hd; subst v1.
          rewrite par_plain in Hp by assumption.
          destruct (IH (p1 ++ c_bs :: Y) v' ltac:(lia) Ed' p1 Y eq_refl Hp) as (v0 & vy & D0 & Dy & ->).
          exists (UByte c :: v0), vy. split; [|split; [assumption|reflexivity]].
          rewrite decode_pl by assumption. rewrite Eb, D0. reflexivity.
  Qed.

  (* the body ends with an octal escape (one token) *)
  Definition Form (b1 : bytes) : Prop := exists pre E u,
    b1 = pre ++ c_bs :: E /\ par pre = false /\ E <> [] /\ Forall octb E /\ (length E <= 3)%nat /\
    decode_escape lg false E = Some (u, []).

  Lemma Form_tok c1 e r : Forall nbs e -> Form r -> Form (c_bs :: c1 :: e ++ r).
  Proof.
    intros He (pre & E & u & -> & Hp & H). exists (c_bs :: c1 :: e ++ pre), E, u. split; [|split; [|exact H]].
    - cbn [app]. rewrite <- app_assoc. reflexivity.
    - rewrite par_tok by assumption. exact Hp.
  Qed.
  Lemma Form_plain c r : c <> c_bs -> Form r -> Form (c :: r).
  Proof.
    intros Hc (pre & E & u & -> & Hp & H). exists (c :: pre), E, u. split; [reflexivity|]. split; [|exact H].
    rewrite par_plain by assumption. exact Hp.
  Qed.

  (* a text appended to a valid body is read on its own, unless the body ends with an octal escape and the text starts
     with a digit *)
  Lemma ext : forall n b1 v1 W, (length b1 <= n)%nat -> decode lg q b1 = Some v1 -> Wok W ->
    decode lg q (b1 ++ W) = omap (app v1) (decode lg q W) \/ (Form b1 /\ dstart W = true).
  Proof.
    induction n as [|n IH]; intros b1 v1 W Hlen Hd HW.
    - destruct b1; [|cbn in Hlen; lia]. cbn in Hd. inversion Hd; subst. left. cbn [app]. destruct (decode lg q W); reflexivity.
    - destruct b1 as [|c r].
      { cbn in Hd. inversion Hd; subst. left. cbn [app]. destruct (decode lg q W); reflexivity. }
      cbn [length] in Hlen.
      destruct (Z.eq_dec c c_bs) as [->|Nc].
      + rewrite decode_bs in Hd.
        destruct (decode_escape lg false r) as [[u r']|] eqn:Ee; [|discriminate].
        destruct (decode lg q r') as [v'|] eqn:Ed'; [|discriminate]. cbn in Hd. inversion Hd; subst v1.
        destruct r as [|c1 r2]; [cbn in Ee; discriminate|].
        destruct (DE_ctx _ _ _ _ _ Ee) as (e & Hr & He & Ho & Hx). subst r2.
        pose proof (decode_escape_shorter _ _ _ _ _ Ee) as Hs. cbn [length] in Hs.
        destruct r' as [|a r''].
        * cbn in Ed'. inversion Ed'; subst v'. rewrite app_nil_r in *.
          destruct (is_oct c1 && dstart W) eqn:Eo.
          -- right. apply andb_true_iff in Eo as [Eo1 Eo2]. split; [|assumption].
             destruct (Ho Eo1) as [Ho1 Ho2].
             exists [], (c1 :: e), u. split; [reflexivity|]. split; [reflexivity|]. split; [discriminate|].
             split; [constructor; assumption|]. split; [cbn [length]; lia|assumption].
          -- left. cbn [app]. rewrite decode_bs. rewrite (Hx W (ctx_nil c1 W Eo HW)). rewrite app_nil_r. reflexivity.
        * assert (Hl : (length (a :: r'') <= n)%nat) by (cbn [length] in *; rewrite app_length in Hlen; cbn [length] in Hlen; lia).
          destruct (IH (a :: r'') v' W Hl Ed' HW) as [IHl|[IHf IHd]].
          -- left. cbn [app]. rewrite <- app_assoc. rewrite decode_bs.
             rewrite (Hx ((a :: r'') ++ W) (ctx_ext c1 a r'' W HW)). rewrite IHl. apply omap_app_app.
          -- right. split; [|assumption]. apply Form_tok; assumption.
      + rewrite decode_pl in Hd by assumption. destruct (plain_bad c) eqn:Eb; [discriminate|].
        destruct (decode lg q r) as [v'|] eqn:Ed'; [|discriminate]. cbn in Hd. inversion Hd; subst v1.
        destruct (IH r v' W ltac:(lia) Ed' HW) as [IHl|[IHf IHd]].
        * left. cbn [app]. rewrite decode_pl by assumption. rewrite Eb, IHl. destruct (decode lg q W); reflexivity.
        * right. split; [|assumption]. apply Form_plain; assumption.
  Qed.

  Lemma ext_nd b1 v1 W : decode lg q b1 = Some v1 -> Wok W -> dstart W = false ->
    decode lg q (b1 ++ W) = omap (app v1) (decode lg q W).
  Proof.
    intros Hd HW Hs. destruct (ext (length b1) b1 v1 W (le_n _) Hd HW) as [H|[_ H]]; [exact H|congruence].
  Qed.
End Cat.

(* ---------- 1. the value of a raw body agrees with the value of a valid body ---------- *)
Lemma decode_other_q lg q1 q2 : (q1 =? c_bt) = false -> (q2 =? c_bt) = false ->
  forall n body v, (length body <= n)%nat -> Forall (fun c => c <> q2) body ->
  decode lg q1 body = Some v -> decode lg q2 body = Some v.
Proof.
  intros H1 H2. induction n as [|n IH]; intros body v Hlen HF Hd.
  - destruct body; [|cbn in Hlen; lia]. exact Hd.
  - destruct body as [|c r]; [exact Hd|]. cbn [length] in Hlen. inversion HF as [|x l Hc HFr]; subst.
    destruct (Z.eq_dec c c_bs) as [->|Nc].
    + rewrite decode_bs in Hd |- * by assumption.
      destruct (decode_escape lg false r) as [[u r']|] eqn:Ee; [|discriminate].
      destruct (decode lg q1 r') as [v'|] eqn:Ed'; [|discriminate].
      destruct r as [|c1 r2]; [cbn in Ee; discriminate|].
      destruct (DE_ctx _ _ _ _ _ Ee) as (e & Hr & _). subst r2.
      pose proof (decode_escape_shorter _ _ _ _ _ Ee) as Hs.
      inversion HFr as [|x l _ HFr']; subst. apply Forall_app in HFr' as [_ HFr'].
      cbn [length] in *. unfold bytes, byte in *.
      rewrite (IH r' v'); [exact Hd|lia|assumption|assumption].
    + rewrite decode_pl in Hd |- * by assumption. unfold plain_bad in *.
      apply Z.eqb_neq in Hc. rewrite Hc. destruct (c =? q1); [discriminate|]. cbn [orb] in *.
      destruct ((c =? 10) || (c =? 13)); [discriminate|].
      destruct (decode lg q1 r) as [v'|] eqn:Ed'; [|discriminate].
      rewrite (IH r v'); [exact Hd|lia|assumption|assumption].
Qed.

Theorem decode_raw_of_valid : forall lg q body v, (q = c_dq \/ q = c_sq) -> bytes_ok body ->
  decode lg q body = Some v -> decode_raw lg body = Some v.
Proof.
  intros lg q body v Hq Hb Hd. unfold decode_raw.
  apply (decode_other_q lg q q_none) with (n := length body); try assumption.
  - destruct Hq as [-> | ->]; reflexivity.
  - reflexivity.
  - apply le_n.
  - eapply Forall_impl; [|exact Hb]. intros a Ha. unfold byte_ok in Ha. unfold q_none. lia.
Qed.

(* ---------- 2. appendStringPart ---------- *)
Definition asp_rw (D : bytes) (p0 : byte) : bool :=
  let n := length D in let d0 := hd 0 D in
  (Nat.eqb n 1 && (d0 =? 48)) || ((p0 <=? 55) && (Nat.ltb n 2 || (Nat.ltb n 3 && (d0 <=? 51)))).
Definition asp_hex (D : bytes) : bytes :=
  let v := oct_val D 0 in [120; hex_char (v / 16); hex_char (v mod 16)].

Lemma oct_run_prefix k l : l = oct_run k l ++ skipn (length (oct_run k l)) l.
Proof.
  revert l; induction k as [|k IH]; intros [|c r]; try reflexivity.
  cbn [oct_run]. destruct (is_oct c); [|reflexivity]. cbn [length skipn app]. f_equal. apply IH.
Qed.
Lemma oct_run_oct k l : Forall octb (oct_run k l).
Proof.
  revert l; induction k as [|k IH]; intros [|c r]; try constructor.
  cbn [oct_run]. destruct (is_oct c) eqn:E; constructor; [exact E|apply IH].
Qed.
Lemma oct_run_len k l : (length (oct_run k l) <= k)%nat.
Proof.
  revert l; induction k as [|k IH]; intros [|c r]; cbn [oct_run length]; try lia.
  destruct (is_oct c); cbn [length]; [specialize (IH r)|]; lia.
Qed.
Lemma oct_run_stop ds x l k : Forall octb ds -> is_oct x = false -> (length ds <= k)%nat ->
  oct_run k (ds ++ x :: l) = ds.
Proof.
  intros H Hx. revert k. induction H as [|y ds Hy HF IH]; intros k Hk.
  - cbn [app]. destruct k; [reflexivity|]. cbn [oct_run]. rewrite Hx. reflexivity.
  - destruct k; [cbn in Hk; lia|]. cbn [app oct_run]. rewrite Hy. f_equal. apply IH. cbn in Hk. lia.
Qed.
Lemma Forall_rev' {A} (P : A -> Prop) l : Forall P l -> Forall P (rev l).
Proof. intros H. apply Forall_forall. intros x Hx. apply in_rev in Hx. rewrite Forall_forall in H. auto. Qed.

(* either nothing is rewritten, or the text ends with an odd run of backslashes and one to three octal digits *)
Lemma asp_cases b part :
  append_string_part b part = b ++ part \/
  exists pre D, b = pre ++ c_bs :: D /\ par pre = false /\ D <> [] /\ Forall octb D /\ (length D <= 3)%nat /\ dstart part = true.
Proof.
  unfold append_string_part. destruct part as [|p0 part']; [left; reflexivity|].
  destruct ((48 <=? p0) && (p0 <=? 57)) eqn:Edp; [|left; reflexivity]. cbv zeta.
  pose proof (oct_run_prefix 3 (rev b)) as Hp. pose proof (oct_run_oct 3 (rev b)) as Ho. pose proof (oct_run_len 3 (rev b)) as Hl.
  remember (oct_run 3 (rev b)) as rd eqn:Hrd. clear Hrd.
  destruct (length rd) as [|k] eqn:En; [left; reflexivity|].
  match goal with |- (if ?c then _ else _) = _ \/ _ => destruct c eqn:Ec end; [|left; reflexivity].
  right. apply andb_true_iff in Ec as [Ec _].
  remember (skipn (S k) (rev b)) as s eqn:Hs. clear Hs.
  destruct s as [|c s']; [discriminate|]. cbn [count_bs] in Ec.
  destruct (c =? c_bs) eqn:Ecb; [|discriminate]. apply Z.eqb_eq in Ecb. subst c.
  rewrite Nat.odd_succ, <- Nat.negb_odd in Ec. apply negb_true_iff in Ec.
  exists (rev s'), (rev rd). split; [|split; [|split; [|split; [|split; [|exact Edp]]]]].
  - rewrite <- (rev_involutive b). rewrite Hp. rewrite rev_app_distr. cbn [rev]. rewrite <- app_assoc. reflexivity.
  - rewrite <- par_rev. rewrite rev_involutive. exact Ec.
  - destruct rd; [discriminate|]. cbn [rev]. apply app_nonnil. discriminate.
  - apply Forall_rev'. exact Ho.
  - rewrite rev_length, En. exact Hl.
Qed.

Lemma firstn_exact {A} (a l : list A) k : k = length a -> firstn k (a ++ l) = a.
Proof. intros ->. rewrite firstn_app. rewrite Nat.sub_diag. cbn [firstn]. rewrite firstn_all. apply app_nil_r. Qed.

Lemma asp_form pre D p0 part' : par pre = false -> D <> [] -> Forall octb D -> (length D <= 3)%nat -> is_dec p0 = true ->
  append_string_part (pre ++ c_bs :: D) (p0 :: part') =
    if asp_rw D p0 then pre ++ c_bs :: asp_hex D ++ p0 :: part' else (pre ++ c_bs :: D) ++ p0 :: part'.
Proof.
  intros Hp Hne Ho Hl Hd. unfold append_string_part. unfold is_dec in Hd. rewrite Hd. cbv zeta.
  assert (Hrev : rev (pre ++ c_bs :: D) = rev D ++ c_bs :: rev pre).
  { rewrite rev_app_distr. cbn [rev]. rewrite <- app_assoc. reflexivity. }
  rewrite Hrev.
  rewrite (oct_run_stop (rev D) c_bs (rev pre) 3) by (try apply Forall_rev'; try rewrite rev_length; auto).
  rewrite rev_involutive. rewrite rev_length.
  rewrite (skipn_exact (rev D) (c_bs :: rev pre) (length D)) by apply rev_length.
  cbn [count_bs]. change (c_bs =? c_bs) with true. cbv iota.
  rewrite Nat.odd_succ, <- Nat.negb_odd, par_rev, Hp. cbn [negb andb].
  destruct (length D) as [|k] eqn:En; [destruct D; [congruence|discriminate]|].
  fold (asp_hex D). unfold asp_rw. rewrite En.
  match goal with |- (if ?c then _ else _) = (if ?c' then _ else _) => change c' with c; destruct c end; [|reflexivity].
  assert (Hf : firstn (length (pre ++ c_bs :: D) - S k) (pre ++ c_bs :: D) = pre ++ [c_bs]).
  { replace (pre ++ c_bs :: D) with ((pre ++ [c_bs]) ++ D) by (rewrite <- app_assoc; reflexivity).
    apply firstn_exact. rewrite !app_length. cbn [length]. lia. }
  rewrite Hf. rewrite <- app_assoc. reflexivity.
Qed.

Lemma hex_char_ok d : 0 <= d < 16 -> is_hex (hex_char d) = true /\ hex_val (hex_char d) = d.
Proof.
  intros H.
  assert (Hc : d = 0 \/ d = 1 \/ d = 2 \/ d = 3 \/ d = 4 \/ d = 5 \/ d = 6 \/ d = 7 \/ d = 8 \/ d = 9 \/
               d = 10 \/ d = 11 \/ d = 12 \/ d = 13 \/ d = 14 \/ d = 15) by lia.
  repeat (destruct Hc as [Hc|Hc]; [subst d; split; reflexivity|]). subst d; split; reflexivity.
Qed.

Lemma DE_hex lg v X : 0 <= v < 256 ->
  decode_escape lg false (120 :: hex_char (v / 16) :: hex_char (v mod 16) :: X) = Some (cp_units v, X).
Proof.
  intros Hv.
  assert (H1 : 0 <= v / 16 < 16) by (split; [apply Z.div_pos; lia|apply Z.div_lt_upper_bound; lia]).
  assert (H2 : 0 <= v mod 16 < 16) by (apply Z.mod_pos_bound; lia).
  destruct (hex_char_ok _ H1) as [Ha Hb]. destruct (hex_char_ok _ H2) as [Hc Hd].
  unfold decode_escape. cbn [Z.eqb Pos.eqb andb]. rewrite Ha, Hc, Hb, Hd. cbn [andb].
  replace (v / 16 * 16 + v mod 16) with v; [reflexivity|].
  pose proof (Z.div_mod v 16). lia.
Qed.

Section Append.
  Variable lg : bool.
  Let q := q_none.
  Let Hqt : (q =? c_bt) = false := eq_refl.

  Lemma oct_rng2 x : octb x -> 48 <= x <= 55 /\ is_dec x = true.
  Proof.
    intros H. apply is_oct_rng in H. split; [assumption|]. unfold is_dec. apply andb_true_iff. rewrite !Z.leb_le. lia.
  Qed.

  (* the escape made of the digits D, when the rewrite condition holds: one token, of value oct_val D *)
  Lemma DE_rw D p0 u r'' : Forall octb D -> asp_rw D p0 = true -> D <> [] ->
    decode_escape lg false D = Some (u, r'') -> r'' = [] /\ u = cp_units (oct_val D 0) /\ 0 <= oct_val D 0 < 256.
  Proof.
    intros Ho Hc Hne Ee. destruct D as [|d0 [|d1 [|d2 D']]]; [congruence|..].
    - inversion Ho as [|x l Hd0 _]; subst. destruct (oct_rng2 _ Hd0) as [Hr Hdec].
      rewrite DE_digit in Ee by assumption. unfold digit_escape in Ee. cbn [at_ nth andb negb] in Ee. cbv zeta in Ee.
      rewrite andb_true_r in Ee. cbn [oct_val].
      destruct (d0 =? 48) eqn:E48.
      + apply Z.eqb_eq in E48. subst d0. inversion Ee; subst. split; [reflexivity|]. split; [reflexivity|]. lia.
      + destruct (false || negb lg); [discriminate|].
        replace ((d0 =? 56) || (d0 =? 57)) with false in Ee
          by (symmetry; apply orb_false_iff; split; apply Z.eqb_neq; lia).
        inversion Ee; subst. split; [reflexivity|]. split; [f_equal; lia|lia].
    - inversion Ho as [|x l Hd0 Ho']; subst. inversion Ho' as [|x l Hd1 _]; subst.
      destruct (oct_rng2 _ Hd0) as [Hr0 Hdec0]. destruct (oct_rng2 _ Hd1) as [Hr1 Hdec1].
      rewrite DE_digit in Ee by assumption. unfold digit_escape in Ee. cbn [at_ nth andb negb] in Ee. cbv zeta in Ee.
      rewrite Hdec1 in Ee. cbn [negb] in Ee. rewrite andb_false_r in Ee.
      destruct (false || negb lg); [discriminate|].
      replace ((d0 =? 56) || (d0 =? 57)) with false in Ee
        by (symmetry; apply orb_false_iff; split; apply Z.eqb_neq; lia).
      rewrite Hd1 in Ee. rewrite andb_false_r in Ee. cbn [skipn] in Ee.
      inversion Ee; subst. cbn [oct_val]. split; [reflexivity|]. split; [f_equal; lia|lia].
    - exfalso. unfold asp_rw in Hc. cbn [length hd Nat.eqb Nat.ltb Nat.leb andb orb] in Hc.
      rewrite andb_false_r in Hc. discriminate.
  Qed.

  (* the escape made of the digits E (one token at the end of the body), when the rewrite condition does not hold: the
     digit p0 that follows does not change it *)
  Lemma DE_norw E p0 part' u : Forall octb E -> (length E <= 3)%nat -> asp_rw E p0 = false -> is_dec p0 = true ->
    decode_escape lg false E = Some (u, []) -> decode_escape lg false (E ++ p0 :: part') = Some (u, p0 :: part').
  Proof.
    intros Ho Hl Hc Hp Ee. pose proof (is_dec_rng _ Hp) as Hpr.
    destruct E as [|d0 [|d1 [|d2 [|d3 E']]]]; [discriminate|..|cbn in Hl; lia].
    - inversion Ho as [|x l Hd0 _]; subst. destruct (oct_rng2 _ Hd0) as [Hr Hdec].
      unfold asp_rw in Hc. cbn [length hd Nat.eqb Nat.ltb Nat.leb andb orb] in Hc. rewrite andb_true_r in Hc.
      apply orb_false_iff in Hc as [Hc1 Hc2]. apply Z.leb_gt in Hc2.
      cbn [app]. rewrite DE_digit in Ee |- * by assumption. unfold digit_escape in *. cbn [app at_ nth andb negb] in *. cbv zeta in *.
      rewrite Hc1 in *. cbn [andb] in *.
      destruct (false || negb lg); [discriminate|].
      destruct ((d0 =? 56) || (d0 =? 57)); [inversion Ee; reflexivity|].
      replace (is_oct p0) with false by (symmetry; unfold is_oct; apply andb_false_iff; right; apply Z.leb_gt; lia).
      inversion Ee; reflexivity.
    - inversion Ho as [|x l Hd0 Ho']; subst. inversion Ho' as [|x l Hd1 _]; subst.
      destruct (oct_rng2 _ Hd0) as [Hr0 Hdec0]. destruct (oct_rng2 _ Hd1) as [Hr1 Hdec1].
      unfold asp_rw in Hc. cbn [length hd Nat.eqb Nat.ltb Nat.leb andb orb] in Hc.
      cbn [app]. rewrite DE_digit in Ee |- * by assumption. unfold digit_escape in *. cbn [app at_ nth andb negb] in *. cbv zeta in *.
      rewrite Hdec1 in *. cbn [negb] in *. rewrite andb_false_r in *.
      destruct (false || negb lg); [discriminate|].
      destruct ((d0 =? 56) || (d0 =? 57)); [inversion Ee|].
      rewrite Hd1 in *. rewrite andb_false_r in Ee. cbn [skipn] in *.
      rewrite andb_true_r.
      replace ((d0 <=? 51) && is_oct p0) with false; [inversion Ee; reflexivity|].
      symmetry. rewrite andb_comm. unfold is_oct.
      replace (48 <=? p0) with true by (symmetry; apply Z.leb_le; lia). cbn [andb]. exact Hc.
    - inversion Ho as [|x l Hd0 Ho']; subst. inversion Ho' as [|x l Hd1 Ho'']; subst. inversion Ho'' as [|x l Hd2 _]; subst.
      destruct (oct_rng2 _ Hd0) as [Hr0 Hdec0]. destruct (oct_rng2 _ Hd1) as [Hr1 Hdec1].
      cbn [app]. rewrite DE_digit in Ee |- * by assumption. unfold digit_escape in *. cbn [app at_ nth andb negb] in *. cbv zeta in *.
      rewrite Hdec1 in *. cbn [negb] in *. rewrite andb_false_r in *.
      destruct (false || negb lg); [discriminate|].
      destruct ((d0 =? 56) || (d0 =? 57)); [inversion Ee|].
      rewrite Hd1, Hd2 in *. rewrite andb_true_r in *.
      destruct (d0 <=? 51); cbn [skipn] in *; [|inversion Ee]. inversion Ee; reflexivity.
  Qed.
End Append.

(* the one thing the raw append cannot see: a part that starts with a UTF-8 continuation byte of the line separators
   (E2 80 A8 / E2 80 A9) could complete one behind a backslash (see continuation_byte_wrong below).  Every part that
   is well-formed UTF-8 starts with a byte below 128 or from 192 on. *)
Definition cont_ok (part : bytes) : Prop :=
  match part with [] => True | w :: _ => w <> 128 /\ w <> 168 /\ w <> 169 end.
Lemma cont_ok_utf8 w r : (w < 128 \/ 192 <= w) -> cont_ok (w :: r).
Proof. intros H. cbn. lia. Qed.
Lemma Wok_of lg part v : decode_raw lg part = Some v -> cont_ok part -> Wok part.
Proof.
  intros Hd Hc. destruct part as [|w r]; [exact I|]. destruct Hc as (H1 & H2 & H3). cbn. repeat split; try assumption.
  intros E. subst w. unfold decode_raw in Hd. rewrite decode_pl in Hd by (reflexivity || discriminate). discriminate.
Qed.

(* b1: the body built so far (raw: it may already hold unescaped quotes of earlier parts), q0 its opening delimiter (any
   byte but the backslash), part: the next body.  Both modes: with lg = false (strict-mode code) a valid body ends with no
   other digit escape than \0, which is rewritten in front of every digit (\08 is not a strict-mode escape either);
   with lg = true the octal escapes are rewritten exactly when the next digit would be absorbed. *)
Theorem append_string_part_value : forall lg q0 b1 part v1 v2,
  q0 <> c_bs -> cont_ok part ->
  decode_raw lg b1 = Some v1 -> decode_raw lg part = Some v2 ->
  exists B, append_string_part (q0 :: b1) part = q0 :: B /\ decode_raw lg B = Some (v1 ++ v2).
Proof.
  intros lg q0 b1 part v1 v2 Hq0 Hco Hd1 Hd2. pose proof (Wok_of lg part v2 Hd2 Hco) as HW. unfold decode_raw in *.
  assert (Hqt : (q_none =? c_bt) = false) by reflexivity.
  assert (RW : forall pre' D p0, b1 = pre' ++ c_bs :: D -> par pre' = false -> D <> [] -> Forall octb D ->
             asp_rw D p0 = true -> decode lg q_none (pre' ++ c_bs :: asp_hex D ++ part) = Some (v1 ++ v2)).
  { intros pre' D p0 Hb Hp Hne Ho Hrw.
    destruct (split_bs q_none lg Hqt (length b1) b1 v1 (le_n _) Hd1 pre' D Hb Hp) as (v0 & vy & D0 & Dy & ->).
    rewrite decode_bs in Dy by assumption.
    destruct (decode_escape lg false D) as [[u r'']|] eqn:Ee; [|discriminate].
    destruct (DE_rw lg D p0 u r'' Ho Hrw Hne Ee) as (-> & -> & Hv).
    cbn in Dy. inversion Dy; subst vy.
    rewrite (ext_nd q_none lg Hqt pre' v0 _ D0); [|cbn; repeat split; discriminate|reflexivity].
    rewrite decode_bs by assumption. unfold asp_hex. cbn [app]. rewrite DE_hex by assumption. rewrite Hd2.
    cbn. rewrite app_nil_r, app_assoc. reflexivity. }
  destruct part as [|p0 part'].
  { exists (b1 ++ []). split; [reflexivity|]. cbn in Hd2. inversion Hd2; subst. rewrite !app_nil_r. assumption. }
  destruct (ext q_none lg Hqt (length b1) b1 v1 (p0 :: part') (le_n _) Hd1 HW) as [HL|[HF Hds]].
  - destruct (asp_cases (q0 :: b1) (p0 :: part')) as [Ea|(pre & D & Hb & Hp & Hne & Ho & Hl & Hds)].
    + exists (b1 ++ p0 :: part'). split; [exact Ea|]. rewrite HL, Hd2. reflexivity.
    + destruct pre as [|x pre']; cbn [app] in Hb; injection Hb as Hx Hb; [congruence|]. subst x.
      subst b1. change (q0 :: pre' ++ c_bs :: D) with ((q0 :: pre') ++ c_bs :: D).
      rewrite asp_form by assumption. rewrite par_plain in Hp by assumption.
      destruct (asp_rw D p0) eqn:Erw.
      * exists (pre' ++ c_bs :: asp_hex D ++ p0 :: part'). split; [reflexivity|]. eapply RW; eauto.
      * exists ((pre' ++ c_bs :: D) ++ p0 :: part'). split; [reflexivity|]. rewrite HL, Hd2. reflexivity.
  - destruct HF as (pre' & E & u & Hb & Hp & Hne & Ho & Hl & Ee). cbn [dstart] in Hds.
    subst b1. change (q0 :: pre' ++ c_bs :: E) with ((q0 :: pre') ++ c_bs :: E).
    rewrite asp_form; try assumption; [|rewrite par_plain by assumption; assumption].
    destruct (asp_rw E p0) eqn:Erw.
    + exists (pre' ++ c_bs :: asp_hex E ++ p0 :: part'). split; [reflexivity|]. eapply RW; eauto.
    + exists ((pre' ++ c_bs :: E) ++ p0 :: part'). split; [reflexivity|].
      destruct (split_bs q_none lg Hqt _ _ v1 (le_n _) Hd1 pre' E eq_refl Hp) as (v0 & vy & D0 & Dy & ->).
      rewrite decode_bs in Dy by assumption. rewrite Ee in Dy. cbn in Dy. inversion Dy; subst vy.
      rewrite <- app_assoc. cbn [app].
      rewrite (ext_nd q_none lg Hqt pre' v0 _ D0); [|cbn; repeat split; discriminate|reflexivity].
      rewrite decode_bs by assumption. rewrite (DE_norw lg E p0 part' u Ho Hl Erw Hds Ee). rewrite Hd2.
      cbn. rewrite app_nil_r, app_assoc. reflexivity.
Qed.

(* without the rewrite the equation is false: NUL then the digit one would read as the octal escape \01 *)
Example plain_append_wrong :
  decode_raw true [92; 48] = Some [UByte 0] /\ decode_raw true [49] = Some [UByte 49] /\
  decode_raw true ([92; 48] ++ [49]) = Some [UByte 1] /\
  decode_raw false ([92; 48] ++ [49]) = None /\
  append_string_part [34; 92; 48] [49] = [34; 92; 120; 48; 48; 49] /\
  decode_raw false [92; 120; 48; 48; 49] = Some [UByte 0; UByte 49].
Proof. vm_compute. repeat split. Qed.

(* a part that starts with a UTF-8 continuation byte can complete a line separator (E2 80 A8) behind a backslash, which
   is a line continuation (no value): the hypothesis [cont_ok part] is needed, for each of the three bytes *)
Example continuation_byte_wrong :
  decode_raw true [92; 226; 128] = Some [UByte 226; UByte 128] /\ decode_raw true [168] = Some [UByte 168] /\
  append_string_part [34; 92; 226; 128] [168] = [34; 92; 226; 128; 168] /\
  decode_raw true [92; 226; 128; 168] = Some [] /\
  decode_raw true [92; 226; 128; 169] = Some [] /\
  decode_raw true [92; 226] = Some [UByte 226] /\ decode_raw true [128; 168] = Some [UByte 128; UByte 168] /\
  append_string_part [34; 92; 226] [128; 168] = [34; 92; 226; 128; 168].
Proof. vm_compute. repeat split. Qed.

Print Assumptions decode_raw_of_valid.
Print Assumptions append_string_part_value.

(* ---------- 3. merge_strings ---------- *)
Definition valid_lit (lg : bool) (l : bytes) (v : list unit) : Prop :=
  exists q b, l = literal q b /\ (q = c_dq \/ q = c_sq) /\ bytes_ok b /\ decode lg q b = Some v.

Lemma body_of_literal q b : body_of (literal q b) = b.
Proof. unfold body_of, literal. cbn [tl]. apply removelast_last. Qed.
Lemma removelast_literal q b : removelast (literal q b) = q :: b.
Proof. unfold literal. change (q :: b ++ [q]) with ((q :: b) ++ [q]). apply removelast_last. Qed.

Lemma merge_fold lg q1 : q1 <> c_bs -> forall ls vs, Forall2 (valid_lit lg) ls vs -> Forall (fun l => cont_ok (body_of l)) ls ->
  forall B V, decode_raw lg B = Some V ->
  exists B', fold_left (fun b l => append_string_part b (body_of l)) ls (q1 :: B) = q1 :: B' /\
             decode_raw lg B' = Some (V ++ concat vs).
Proof.
  intros Hq1. induction 1 as [|l v ls vs Hl HF IH]; intros HW B V HB.
  - exists B. split; [reflexivity|]. cbn [concat]. rewrite app_nil_r. assumption.
  - inversion HW as [|x y HWl HWr]; subst.
    destruct Hl as (q & b & -> & Hq & Hb & Hd). rewrite body_of_literal in HWl.
    pose proof (decode_raw_of_valid lg q b v Hq Hb Hd) as Hd'.
    destruct (append_string_part_value lg q1 B b V v Hq1 HWl HB Hd') as (B1 & E1 & D1).
    destruct (IH HWr B1 (V ++ v) D1) as (B' & E' & D').
    exists B'. split.
    + cbn [fold_left]. rewrite body_of_literal, E1. exact E'.
    + rewrite D'. cbn [concat]. rewrite app_assoc. reflexivity.
Qed.

Theorem merge_strings_value : forall lg l1 ls v1 vs,
  valid_lit lg l1 v1 -> Forall2 (valid_lit lg) ls vs -> Forall (fun l => cont_ok (body_of l)) ls ->
  exists B, merge_strings (l1 :: ls) = literal (hd 0 l1) B /\ (hd 0 l1 = c_dq \/ hd 0 l1 = c_sq) /\
            decode_raw lg B = Some (concat (v1 :: vs)).
Proof.
  intros lg l1 ls v1 vs (q1 & b1 & -> & Hq1 & Hb1 & Hd1) HF HW.
  pose proof (decode_raw_of_valid lg q1 b1 v1 Hq1 Hb1 Hd1) as Hd1'.
  assert (Hq : q1 <> c_bs) by (destruct Hq1 as [-> | ->]; discriminate).
  destruct (merge_fold lg q1 Hq ls vs HF HW b1 v1 Hd1') as (B' & E' & D').
  exists B'. split; [|split; [exact Hq1|exact D']].
  unfold merge_strings. rewrite removelast_literal. cbn [hd literal]. rewrite E'. reflexivity.
Qed.

(* ---------- 4. minify_string repairs a raw body ---------- *)
Theorem minify_string_raw_value : forall q body tmpl legacy v,
  decode_raw legacy body = Some v ->
  exists q' body',
    minify_string (literal q body) tmpl = literal q' body' /\
    (q' = c_dq \/ q' = c_sq \/ (tmpl = true /\ q' = c_bt)) /\
    decode (legacy && negb (q' =? c_bt)) q' body' = Some v.
Proof.
  intros q body tmpl legacy v Hd.
  destruct body as [|c r].
  - exists c_dq, []. cbn in Hd. inversion Hd; subst. split; [reflexivity|]. split; [auto|reflexivity].
  - unfold minify_string, literal.
    assert (Hl : zlen (q :: (c :: r) ++ [q]) <? 3 = false).
    { apply Z.ltb_ge. rewrite zlen_cons, zlen_app, zlen_cons, zlen_cons. pose proof (zlen_nonneg r). pose proof (@zlen_nonneg byte []). lia. }
    rewrite Hl. rewrite removelast_last.
    set (q' := choose_quote _ tmpl).
    assert (Hq' : q' = c_dq \/ q' = c_sq \/ (tmpl = true /\ q' = c_bt)) by apply choose_quote_cases.
    assert (Hq'3 : q' = c_dq \/ q' = c_sq \/ q' = c_bt) by tauto.
    destruct (scan_mid_raw q' legacy Hq'3 (length (c :: r)) (c :: r) v (le_n _) Hd) as (mid & Es & HM).
    destruct (post_pass_mid q' Hq'3 (legacy && negb (q' =? c_bt)) mid v HM) as (body' & Ep & Dp & _).
    exists q', body'. split; [|split; assumption].
    unfold replace_escapes. fold (scanL q' ((c :: r) ++ [q'])). rewrite Es, Ep. reflexivity.
Qed.

(* ---------- 5. the concatenation ---------- *)
Theorem concatenation_value : forall legacy tmpl l1 l2 ls v1 v2 vs,
  valid_lit legacy l1 v1 -> Forall2 (valid_lit legacy) (l2 :: ls) (v2 :: vs) ->
  Forall (fun l => cont_ok (body_of l)) (l2 :: ls) ->
  exists q' body',
    minify_string (merge_strings (l1 :: l2 :: ls)) tmpl = literal q' body' /\
    (q' = c_dq \/ q' = c_sq \/ (tmpl = true /\ q' = c_bt)) /\
    decode (legacy && negb (q' =? c_bt)) q' body' = Some (concat (v1 :: v2 :: vs)).
Proof.
  intros legacy tmpl l1 l2 ls v1 v2 vs H1 HF HW.
  destruct (merge_strings_value legacy l1 (l2 :: ls) v1 (v2 :: vs) H1 HF HW) as (B & E & _ & D).
  rewrite E. apply minify_string_raw_value. exact D.
Qed.

Print Assumptions merge_strings_value.
Print Assumptions minify_string_raw_value.
Print Assumptions concatenation_value.

(* ---------- examples ---------- *)
Definition unit_eqb (a c : unit) : bool :=
  match a, c with UByte x, UByte y => x =? y | USurr x, USurr y => x =? y | _, _ => false end.
Fixpoint units_eqb (a c : list unit) : bool :=
  match a, c with [], [] => true | x :: a', y :: c' => unit_eqb x y && units_eqb a' c' | _, _ => false end.
Fixpoint cat_values (lg : bool) (ls : list bytes) : option (list unit) :=
  match ls with
  | [] => Some []
  | l :: r => match decode lg (hd 0 l) (body_of l), cat_values lg r with Some v, Some w => Some (v ++ w) | _, _ => None end
  end.
(* the parts are valid, and the merged and minified literal is a valid literal with the value of the concatenation *)
Definition cat_ok (lg tmpl : bool) (ls : list bytes) : bool :=
  let m := minify_string (merge_strings ls) tmpl in
  let q' := hd 0 m in
  match cat_values lg ls, decode (lg && negb (q' =? c_bt)) q' (body_of m) with
  | Some v, Some w => units_eqb v w && ((q' =? c_dq) || (q' =? c_sq) || (tmpl && (q' =? c_bt)))
  | _, _ => false
  end.

(* single-quoted a + double-quoted it's (34 = double quote, 39 = single quote, 92 = backslash) *)
Example ex_quote_mix :
  merge_strings [[39; 97; 39]; [34; 105; 116; 39; 115; 34]] = [39; 97; 105; 116; 39; 115; 39] /\
  minify_string (merge_strings [[39; 97; 39]; [34; 105; 116; 39; 115; 34]]) false = [34; 97; 105; 116; 39; 115; 34] /\
  cat_ok true false [[39; 97; 39]; [34; 105; 116; 39; 115; 34]] = true.
Proof. vm_compute. repeat split. Qed.
(* \0 + 1: NUL then the digit one must not become \01 *)
Example ex_nul_digit :
  merge_strings [[34; 92; 48; 34]; [34; 49; 34]] = [34; 92; 120; 48; 48; 49; 34] /\
  minify_string (merge_strings [[34; 92; 48; 34]; [34; 49; 34]]) false = [34; 92; 120; 48; 48; 49; 34] /\
  cat_ok true false [[34; 92; 48; 34]; [34; 49; 34]] = true.
Proof. vm_compute. repeat split. Qed.
(* \1 + 2 *)
Example ex_oct1_digit :
  merge_strings [[34; 92; 49; 34]; [34; 50; 34]] = [34; 92; 120; 48; 49; 50; 34] /\
  minify_string (merge_strings [[34; 92; 49; 34]; [34; 50; 34]]) false = [34; 1; 50; 34] /\
  cat_ok true false [[34; 92; 49; 34]; [34; 50; 34]] = true.
Proof. vm_compute. repeat split. Qed.
(* \12 + 3: a two-digit escape that starts with 0-3 would absorb a third digit *)
Example ex_oct2_low_digit :
  merge_strings [[34; 92; 49; 50; 34]; [34; 51; 34]] = [34; 92; 120; 48; 65; 51; 34] /\
  minify_string (merge_strings [[34; 92; 49; 50; 34]; [34; 51; 34]]) false = [34; 92; 110; 51; 34] /\
  cat_ok true false [[34; 92; 49; 50; 34]; [34; 51; 34]] = true.
Proof. vm_compute. repeat split. Qed.
(* \42 + 3: a two-digit escape that starts with 4-7 is complete, no rewrite *)
Example ex_oct2_high_digit :
  merge_strings [[34; 92; 52; 50; 34]; [34; 51; 34]] = [34; 92; 52; 50; 51; 34] /\
  minify_string (merge_strings [[34; 92; 52; 50; 34]; [34; 51; 34]]) false = [39; 34; 51; 39] /\
  cat_ok true false [[34; 92; 52; 50; 34]; [34; 51; 34]] = true.
Proof. vm_compute. repeat split. Qed.
(* a\\ + 1: an escaped backslash then a digit, no rewrite *)
Example ex_escaped_bs_digit :
  merge_strings [[34; 97; 92; 92; 34]; [34; 49; 34]] = [34; 97; 92; 92; 49; 34] /\
  minify_string (merge_strings [[34; 97; 92; 92; 34]; [34; 49; 34]]) false = [34; 97; 92; 92; 49; 34] /\
  cat_ok true false [[34; 97; 92; 92; 34]; [34; 49; 34]] = true.
Proof. vm_compute. repeat split. Qed.
(* a double quote in single quotes + a single quote in double quotes *)
Example ex_both_quotes :
  merge_strings [[39; 34; 39]; [34; 39; 34]] = [39; 34; 39; 39] /\
  minify_string (merge_strings [[39; 34; 39]; [34; 39; 34]]) false = [34; 92; 34; 39; 34] /\
  cat_ok true false [[39; 34; 39]; [34; 39; 34]] = true.
Proof. vm_compute. repeat split. Qed.
(* three parts: a + b + c with alternating delimiters *)
Example ex_three_parts :
  merge_strings [[39; 97; 39]; [34; 98; 34]; [39; 99; 39]] = [39; 97; 98; 99; 39] /\
  minify_string (merge_strings [[39; 97; 39]; [34; 98; 34]; [39; 99; 39]]) false = [34; 97; 98; 99; 34] /\
  cat_ok true false [[39; 97; 39]; [34; 98; 34]; [39; 99; 39]] = true.
Proof. vm_compute. repeat split. Qed.

(* a few dozen more combinations, sloppy mode (legacy escapes allowed), with and without template output *)
Definition cat_samples : list (list bytes) := [
  [[39; 97; 39]; [34; 105; 116; 39; 115; 34]];
  [[34; 92; 48; 34]; [34; 49; 34]];
  [[34; 92; 49; 34]; [34; 50; 34]];
  [[34; 92; 49; 50; 34]; [34; 51; 34]];
  [[34; 92; 52; 50; 34]; [34; 51; 34]];
  [[34; 97; 92; 92; 34]; [34; 49; 34]];
  [[39; 34; 39]; [34; 39; 34]];
  [[39; 97; 39]; [34; 98; 34]; [39; 99; 39]];
  [[34; 92; 48; 34]; [39; 56; 39]];
  [[34; 92; 48; 34]; [39; 57; 39]];
  [[34; 92; 55; 34]; [39; 56; 39]];
  [[34; 92; 55; 34]; [39; 55; 39]];
  [[34; 92; 51; 55; 34]; [39; 55; 39]];
  [[34; 92; 51; 55; 34]; [39; 56; 39]];
  [[34; 92; 52; 48; 34]; [39; 48; 39]];
  [[34; 92; 51; 55; 55; 34]; [39; 48; 39]];
  [[34; 92; 92; 92; 48; 34]; [39; 48; 39]];
  [[34; 92; 92; 92; 92; 48; 34]; [39; 48; 39]];
  [[34; 92; 48; 48; 34]; [39; 48; 39]];
  [[34; 92; 48; 48; 48; 34]; [39; 48; 39]];
  [[34; 92; 56; 34]; [39; 48; 39]];
  [[34; 92; 48; 56; 34]; [39; 48; 39]];
  [[34; 92; 49; 34]; [39; 39]; [39; 50; 39]];
  [[34; 92; 48; 34]; [39; 92; 48; 39]; [39; 50; 39]];
  [[34; 92; 48; 34]; [39; 48; 39]; [39; 50; 39]];
  [[34; 36; 34]; [39; 123; 39]];
  [[34; 60; 34]; [39; 47; 115; 99; 114; 105; 112; 116; 62; 120; 39]];
  [[39; 92; 39; 39]; [34; 92; 34; 34]; [39; 96; 39]];
  [[39; 92; 48; 39]; [34; 92; 48; 34]; [39; 48; 39]];
  [[39; 92; 51; 39]; [34; 92; 51; 34]; [39; 48; 39]];
  [[39; 92; 48; 51; 39]; [34; 55; 34]; [39; 48; 39]];
  [[39; 92; 48; 48; 51; 39]; [34; 55; 34]; [39; 48; 39]];
  [[34; 92; 52; 55; 34]; [39; 49; 39]; [34; 50; 34]];
  [[34; 105; 116; 39; 115; 34]; [39; 115; 97; 121; 32; 34; 104; 105; 34; 39]; [34; 96; 36; 123; 120; 125; 96; 34]];
  [[34; 92; 13; 10; 34]; [39; 49; 39]];
  [[34; 92; 117; 123; 48; 125; 34]; [39; 49; 39]];
  [[34; 92; 120; 48; 48; 34]; [39; 49; 39]];
  [[39; 92; 117; 48; 48; 48; 48; 39]; [34; 55; 34]]
].
Example ex_samples : forallb (cat_ok true false) cat_samples = true /\ forallb (cat_ok true true) cat_samples = true.
Proof. vm_compute. split; reflexivity. Qed.
(* strict mode: the parts without legacy octal escapes *)
Definition strict_part_ok (l : bytes) : bool := match decode false (hd 0 l) (body_of l) with Some _ => true | None => false end.
Definition cat_samples_strict : list (list bytes) := filter (forallb strict_part_ok) cat_samples.
Example ex_samples_strict :
  Nat.ltb 15 (length cat_samples_strict) = true /\
  forallb (cat_ok false false) cat_samples_strict = true /\ forallb (cat_ok false true) cat_samples_strict = true.
Proof. vm_compute. repeat split. Qed.
