(* Js/StrLit.v — F2 model (functional restatement with the code's case analysis) of the string-literal minifier of
   /repo/js/util.go: minifyString (quote selection by counting quotes / newlines / `${`) and replaceEscapes (unnecessary
   escapes removed, escapes decoded where the character can stand for itself, the chosen quote and `${` escaped,
   `</script>` protected).  The Go code rewrites the literal in place while scanning; since it never looks back at bytes it
   has already passed, the model is a left-to-right transducer over the remaining input [rest] = b[i:], with the code's
   index conditions restated on the remaining length (len(b) - i = zlen rest).
   No proofs in this file; extracted and compared with the Go code (verif hook VerifMinifyString) on every run. *)
From MV Require Import Base.MvBytes.

Definition c_bs : byte := 92.      (* \ *)
Definition c_dq : byte := 34.
Definition c_sq : byte := 39.
Definition c_bt : byte := 96.      (* backtick *)
Definition c_dollar : byte := 36.
Definition c_lbrace : byte := 123.
Definition c_rbrace : byte := 125.

Definition at_ (k : nat) (l : bytes) : byte := nth k l 0.
Definition is_hex (c : byte) : bool := ((48 <=? c) && (c <=? 57)) || ((65 <=? c) && (c <=? 70)) || ((97 <=? c) && (c <=? 102)).
Definition hex_val (c : byte) : Z := if c <=? 57 then c - 48 else if c <=? 70 then c - 55 else c - 87.
Definition is_oct (c : byte) : bool := (48 <=? c) && (c <=? 55).

(* utf8.RuneLen / utf8.EncodeRune for the values that reach them *)
Definition rune_len (n : Z) : Z :=
  if n <? 0 then -1 else if n <? 128 then 1 else if n <? 2048 then 2
  else if (55296 <=? n) && (n <=? 57343) then -1
  else if n <? 65536 then 3 else if n <=? 1114111 then 4 else -1.
Definition utf8_encode (n : Z) : bytes :=
  if n <? 128 then [n]
  else if n <? 2048 then [192 + n / 64; 128 + n mod 64]
  else if n <? 65536 then [224 + n / 4096; 128 + (n / 64) mod 64; 128 + n mod 64]
  else [240 + n / 262144; 128 + (n / 4096) mod 64; 128 + (n / 64) mod 64; 128 + n mod 64].

Fixpoint hex_run (limit : nat) (l : bytes) : bytes :=
  match limit, l with
  | S k, c :: r => if is_hex c then c :: hex_run k r else []
  | _, _ => []
  end.
Definition hex_num (l : bytes) : Z := fold_left (fun n c => n * 16 + hex_val c) l 0.

Definition script_end : bytes := [47; 115; 99; 114; 105; 112; 116; 62].   (* /script> *)
Fixpoint bytes_eqb (a b : bytes) : bool :=
  match a, b with
  | [], [] => true
  | x :: a', y :: b' => (x =? y) && bytes_eqb a' b'
  | _, _ => false
  end.

(* must the decoded character v stay escaped, and as what *)
Definition escaped_form (quote v : byte) : option bytes :=
  if v =? 0 then Some [c_bs; 48]
  else if v =? 10 then (if quote =? c_bt then None else Some [c_bs; 110])
  else if v =? 13 then Some [c_bs; 114]
  else if (v =? c_bs) || (v =? quote) then Some [c_bs; v]
  else None.

Section Scan.
  Variable quote : byte.

  (* one step at rest = c :: c1 :: ... (at least two bytes: the loop runs while i < len(b)-1): the bytes written and the
     number of input bytes consumed *)
  Definition step_escape (rest : bytes) : bytes * nat :=
    let len := zlen rest in
    let c1 := at_ 1 rest in let b2 := at_ 2 rest in let b3 := at_ 3 rest in
    (* kept as they are *)
    if (c1 =? quote) || (c1 =? c_bs) || (c1 =? 114) || (negb (quote =? c_bt) && (c1 =? 110)) ||
       ((c1 =? 48) && ((len <=? 3) || (b2 <? 48) || (55 <? b2)))
    then ([c_bs; c1], 2%nat)
    (* line continuations *)
    else if (c1 =? 10) || (c1 =? 13) || ((c1 =? 226) && (5 <=? len) && (b2 =? 128) && ((b3 =? 168) || (b3 =? 169)))
    then ([], if c1 =? 226 then 4%nat else if (c1 =? 13) && (4 <=? len) && (b2 =? 10) then 3%nat else 2%nat)
    else if c1 =? 120 then     (* \xHH below 0x80, except \x00 *)
      if (5 <=? len) && is_hex b2 && (b2 <? 56) && is_hex b3 && negb ((b2 =? 48) && (b3 =? 48))
      then let v := hex_val b2 * 16 + hex_val b3 in
           (match escaped_form quote v with Some e => e | None => [v] end, 4%nat)
      else ([c_bs; c1], 2%nat)
    else if (c1 =? 117) && (3 <=? len) then     (* \uHHHH and \u{H..} *)
      let brace := b2 =? c_lbrace in
      let l := if brace then 3%nat else 2%nat in
      let digits := hex_run (if brace then length rest else 4%nat) (skipn l rest) in
      let cnt := length digits in
      let after := at_ (l + cnt) rest in
      if (brace && ((6 <? Z.of_nat cnt) || (len <=? Z.of_nat (l + cnt)) || negb (after =? c_rbrace))) ||
         (negb brace && negb (Nat.eqb cnt 4))
      then ([c_bs; c1], 2%nat)
      else if Nat.eqb cnt 0 then ([c_bs; c1], 2%nat)       (* ParseInt of no digits fails *)
      else
        let num := hex_num digits in
        let n := (2 + cnt + (if brace then 2 else 0))%nat in
        if 1114111 <=? num then ([c_bs; c1], 2%nat)
        else if num =? 0 then
          (if len =? Z.of_nat (l + cnt) then [c_bs; 48] else [c_bs; 120; 48; 48], n)
        else if negb (num =? 13) && ((quote =? c_bt) || negb (num =? 10)) then
          if rune_len num =? -1 then ([c_bs; c1], 2%nat)
          else ((if (num <? 256) && ((quote =? num) || (num =? c_bs)) then [c_bs] else []) ++ utf8_encode num, n)
        else ([c_bs; if num =? 10 then 110 else 114], n)
    else if is_oct c1 then      (* legacy octal escapes *)
      let n1 := c1 - 48 in
      let '(num, n) :=
        if (4 <=? len) && is_oct b2 then
          let n2 := n1 * 8 + (b2 - 48) in
          if (n2 <? 32) && (5 <=? len) && is_oct b3 then (n2 * 8 + (b3 - 48), 4%nat) else (n2, 3%nat)
        else (n1, 2%nat) in
      if 128 <=? num then (utf8_encode num, n)
      else (match escaped_form quote num with Some e => e | None => [num] end, n)
    else if (quote =? c_bt) && (c1 =? 110) then ([10], 2%nat)
    else if c1 =? 116 then ([9], 2%nat)
    else if c1 =? 102 then ([12], 2%nat)
    else if c1 =? 118 then ([11], 2%nat)
    else if c1 =? 98 then ([8], 2%nat)
    else ([], 1%nat).          (* an unnecessary backslash: dropped, the next byte is looked at on its own *)

  Definition step_plain (rest : bytes) : bytes * nat :=
    let len := zlen rest in
    let c := at_ 0 rest in let b1 := at_ 1 rest in let b2 := at_ 2 rest in
    if (c =? quote) || ((c =? c_dollar) && (quote =? c_bt) && ((b1 =? c_lbrace) || ((3 <=? len) && (b1 =? c_bs) && (b2 =? c_lbrace))))
    then ([c_bs; c], 1%nat)
    else if (c =? 60) && (10 <=? len) then
      if (b1 =? c_bs) && (11 <=? len) && bytes_eqb (firstn 8 (skipn 2 rest)) script_end then (firstn 10 rest, 10%nat)
      else if bytes_eqb (firstn 8 (skipn 1 rest)) script_end then ([c; c_bs], 1%nat)
      else ([c], 1%nat)
    else ([c], 1%nat).

  Fixpoint scan (fuel : nat) (rest : bytes) : bytes :=
    match fuel with
    | O => rest
    | S k =>
      match rest with
      | [] => []
      | [c] => [c]
      | c :: _ :: _ =>
          let '(o, n) := if c =? c_bs then step_escape rest else step_plain rest in
          o ++ scan k (skipn n rest)
      end
    end.
End Scan.

(* the closing pass of replaceEscapes over what the scan wrote (from index 1 on): a null escape in front of a digit is
   written \x00; with the backtick as delimiter a `$` in front of `{` (which can only come from a decoded escape: the scan
   escapes the raw ones) is escaped; `</script>` that appears in the written text (after decoding) gets its backslash.
   The last byte is the closing delimiter (suffix 1). *)
Fixpoint post_pass (quote : byte) (l : bytes) : bytes :=
  match l with
  | c :: ((c1 :: ((c2 :: _) as t2)) as t1) =>
      if c =? c_bs then
        if (c1 =? 48) && (48 <=? c2) && (c2 <=? 57) then c_bs :: 120 :: 48 :: 48 :: post_pass quote t2
        else c :: c1 :: post_pass quote t2
      else if (quote =? c_bt) && (c =? c_dollar) && (c1 =? c_lbrace) then c_bs :: c :: post_pass quote t1
      else if (c =? 60) && (10 <=? zlen l) && bytes_eqb (firstn 8 t1) script_end then c :: c_bs :: post_pass quote t1
      else c :: post_pass quote t1
  | _ => l
  end.

(* replaceEscapes(b, quote, 1, 1) *)
Definition replace_escapes (b : bytes) (quote : byte) : bytes :=
  match b with
  | [] => []
  | q :: rest => q :: post_pass quote (scan quote (length rest) rest)
  end.

(* the counting pass of minifyString over b[1 .. len-2] *)
Record counts := { n_sq : Z; n_dq : Z; n_bt : Z; n_nl : Z; n_dollar : Z }.
Definition bump (c : counts) (k : Z) : counts :=
  if k =? 1 then {| n_sq := n_sq c + 1; n_dq := n_dq c; n_bt := n_bt c; n_nl := n_nl c; n_dollar := n_dollar c |}
  else if k =? 2 then {| n_sq := n_sq c; n_dq := n_dq c + 1; n_bt := n_bt c; n_nl := n_nl c; n_dollar := n_dollar c |}
  else if k =? 3 then {| n_sq := n_sq c; n_dq := n_dq c; n_bt := n_bt c + 1; n_nl := n_nl c; n_dollar := n_dollar c |}
  else if k =? 4 then {| n_sq := n_sq c; n_dq := n_dq c; n_bt := n_bt c; n_nl := n_nl c + 1; n_dollar := n_dollar c |}
  else if k =? 5 then {| n_sq := n_sq c; n_dq := n_dq c; n_bt := n_bt c; n_nl := n_nl c; n_dollar := n_dollar c + 1 |}
  else c.
(* which counter the pair of hex digits (x, y) of an escape bumps: 0a -> newline, 22 -> double quote, 27 -> single quote,
   60 -> backtick *)
Definition pair_kind (x y : byte) : Z :=
  if (x =? 48) && ((y =? 65) || (y =? 97)) then 4
  else if (x =? 50) && (y =? 50) then 2
  else if (x =? 50) && (y =? 55) then 1
  else if (x =? 54) && (y =? 48) then 3
  else 0.
Fixpoint skip_zeros (l : bytes) : bytes := match l with c :: r => if c =? 48 then skip_zeros r else l | [] => [] end.

Definition count_at (rest : bytes) : Z :=      (* rest = b[i:], at least two bytes *)
  let len := zlen rest in
  let c := at_ 0 rest in let b1 := at_ 1 rest in let b2 := at_ 2 rest in let b3 := at_ 3 rest in
  if c =? c_sq then 1 else if c =? c_dq then 2 else if c =? c_bt then 3
  else if (c =? c_dollar) && (b1 =? c_lbrace) then 5
  else if c =? c_bs then
    if b1 =? 110 then 4
    else if (49 <=? b1) && (b1 <=? 57) && (3 <=? len) then
      if (b1 =? 49) && (b2 =? 50) then 4
      else if (b1 =? 52) && (b2 =? 50) then 2
      else if (b1 =? 52) && (b2 =? 55) then 1
      else if (4 <=? len) && (b1 =? 49) && (b2 =? 52) && (b3 =? 48) then 3
      else 0
    else if (b1 =? 120) && (4 <=? len) then pair_kind b2 b3
    else if (b1 =? 117) && (6 <=? len) && (b2 =? 48) && (b3 =? 48) then pair_kind (at_ 4 rest) (at_ 5 rest)
    else if (b1 =? 117) && (5 <=? len) && (b2 =? c_lbrace) then
      let z := skip_zeros (skipn 3 rest) in       (* b[j:] *)
      let zl := zlen z in
      if (2 <=? zl) && ((at_ 0 z =? 65) || (at_ 0 z =? 97)) && (at_ 1 z =? c_rbrace) then 4
      else if (3 <=? zl) && (at_ 2 z =? c_rbrace) then
        (let k := pair_kind (at_ 0 z) (at_ 1 z) in if k =? 4 then 0 else k)
      else 0
    else 0
  else 0.

Fixpoint count_loop (fuel : nat) (rest : bytes) (c : counts) : counts :=
  match fuel with
  | O => c
  | S k =>
    match rest with
    | _ :: ((_ :: _) as r) => count_loop k r (bump c (count_at rest))
    | _ => c
    end
  end.

Definition choose_quote (c : counts) (allow_template : bool) : byte :=
  let '(quote, quotes) :=
    if n_dq c <? n_sq c then (c_dq, n_dq c)
    else if n_sq c <? n_dq c then (c_sq, n_sq c)
    else (c_dq, n_dq c) in
  if allow_template && (n_bt c + n_dollar c <? quotes + n_nl c) then c_bt else quote.

Definition minify_string (b : bytes) (allow_template : bool) : bytes :=
  if zlen b <? 3 then [c_dq; c_dq]
  else
    match b with
    | _ :: rest =>
        let cs := count_loop (length rest) rest {| n_sq := 0; n_dq := 0; n_bt := 0; n_nl := 0; n_dollar := 0 |} in
        let quote := choose_quote cs allow_template in
        let body := removelast rest in
        replace_escapes (quote :: body ++ [quote]) quote
    | [] => [c_dq; c_dq]
    end.
