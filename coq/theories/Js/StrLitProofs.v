(* Js/StrLitProofs.v — the string-literal minifier of Js/StrLit.v keeps the string value of every valid literal and writes a
   valid literal (for the delimiter it chose; in strict-mode code when the input was valid there).

   Architecture of the proof
     1. fuel independence of the specification decoder and of the scan (one-step unfolding lemmas decode_cons, scanL_cons);
     2. [Mid q t v]: the intermediate text t written by the scan (before the closing pass) has value v.  It is the
        grammar of what the scan emits: plain bytes (a `$` may stand in front of `{`), a null escape (always NUL, whatever
        follows), and compositional escapes (backslash, a non-digit, a tail that no following text can extend);
     3. post_pass_mid: the closing pass turns an intermediate text into a valid body of the same value;
     4. scan_mid: the scan of a valid body (for either input quote) is an intermediate text of the same value, for an
        arbitrary target delimiter (case analysis on the escape kind);
     5. minify_string_value: the choice of the delimiter does not matter. *)
From MV Require Import Base.MvBytes Js.StrLit Js.StrLitSpec.

Lemma skipn_len_le {A} n (l : list A) : (length (skipn n l) <= length l)%nat.
Proof. rewrite skipn_length. lia. Qed.

Ltac dm H := repeat match type of H with
  | context[if ?b then _ else _] => destruct b eqn:?
  | context[match ?x with _ => _ end] => destruct x eqn:?
  end.

Lemma decode_escape_shorter lg t r u r' :
  decode_escape lg t r = Some (u, r') -> (length r' < length r)%nat.
Proof.
  destruct r as [|c1 r2]; [discriminate|]. unfold decode_escape.
  intros H. cbv zeta in H. dm H; try discriminate;
  repeat match goal with E : skipn ?n ?l = _ :: _ |- _ =>
     apply (f_equal (@length _)) in E; rewrite skipn_length in E; cbn [length] in E end;
  repeat (match type of H with context[skipn ?n ?l] =>
     let s := fresh "s" in let Hs := fresh "Hs" in
     pose proof (skipn_len_le n l); remember (skipn n l) as s eqn:Hs; clear Hs end);
  inversion H; subst; cbn [length] in *; lia.
Qed.

Lemma decode_fuel_indep lg q : forall f1 f2 l,
  (length l <= f1)%nat -> (length l <= f2)%nat -> decode_fuel f1 lg q l = decode_fuel f2 lg q l.
Proof.
  induction f1 as [|f1 IH]; intros f2 l H1 H2.
  - destruct l; [|simpl in H1; lia]. destruct f2; reflexivity.
  - destruct f2 as [|f2].
    + destruct l; [reflexivity|simpl in H2; lia].
    + destruct l as [|c r]; [reflexivity|]. cbn [decode_fuel]. cbn [length] in *.
      destruct (c =? c_bs).
      * destruct (decode_escape lg (q =? c_bt) r) as [[u r']|] eqn:E; [|reflexivity].
        apply decode_escape_shorter in E. rewrite (IH f2 r') by lia. reflexivity.
      * destruct (c =? q); [reflexivity|].
        destruct (q =? c_bt).
        -- destruct (_ && _); [reflexivity|]. destruct (c =? 13).
           ++ destruct r as [|c2 r2]; [rewrite (IH f2) by (simpl; lia); reflexivity|].
              destruct (c2 =? 10); rewrite (IH f2) by (cbn [length] in *; lia); reflexivity.
           ++ rewrite (IH f2) by lia. reflexivity.
        -- destruct (_ || _); [reflexivity|]. rewrite (IH f2) by lia. reflexivity.
Qed.

(* one-step unfolding of [decode] *)
Definition decode_step (lg : bool) (q : byte) (c : byte) (r : bytes) : option (list unit) :=
  let template := q =? c_bt in
  if c =? c_bs then
    match decode_escape lg template r with
    | Some (u, r') => match decode lg q r' with Some v => Some (u ++ v) | None => None end
    | None => None
    end
  else if c =? q then None
  else if template then
    if (c =? c_dollar) && (at_ 0 r =? c_lbrace) && (1 <=? zlen r) then None
    else if c =? 13 then
      match decode lg q (match r with c2 :: r2 => if c2 =? 10 then r2 else r | [] => r end) with
      | Some v => Some (UByte 10 :: v) | None => None end
    else match decode lg q r with Some v => Some (UByte c :: v) | None => None end
  else if (c =? 10) || (c =? 13) then None
  else match decode lg q r with Some v => Some (UByte c :: v) | None => None end.

Lemma decode_cons lg q c r : decode lg q (c :: r) = decode_step lg q c r.
Proof.
  unfold decode, decode_step. cbn [length decode_fuel].
  destruct (c =? c_bs).
  - destruct (decode_escape lg (q =? c_bt) r) as [[u r']|] eqn:E; [|reflexivity].
    apply decode_escape_shorter in E. rewrite (decode_fuel_indep lg q (length r) (length r') r') by lia. reflexivity.
  - destruct (c =? q); [reflexivity|]. destruct (q =? c_bt); [|reflexivity].
    destruct (_ && _); [reflexivity|]. destruct (c =? 13); [|reflexivity].
    destruct r as [|c2 r2]; [reflexivity|]. destruct (c2 =? 10); [|reflexivity].
    rewrite (decode_fuel_indep lg q (length (c2 :: r2)) (length r2) r2) by (simpl; lia). reflexivity.
Qed.
Lemma decode_nil lg q : decode lg q [] = Some [].
Proof. reflexivity. Qed.

(* ---------- fuel independence of the scan ---------- *)
Lemma step_escape_pos q rest : (1 <= snd (step_escape q rest))%nat.
Proof.
  unfold step_escape. cbv zeta.
  repeat match goal with
  | |- context[if ?b then _ else _] => destruct b
  | |- context[match ?x with _ => _ end] => destruct x
  end; cbn [snd]; lia.
Qed.
Lemma step_plain_pos q rest : (1 <= snd (step_plain q rest))%nat.
Proof.
  unfold step_plain. cbv zeta.
  repeat match goal with
  | |- context[if ?b then _ else _] => destruct b
  end; cbn [snd]; lia.
Qed.

Definition step (q : byte) (rest : bytes) : bytes * nat :=
  if at_ 0 rest =? c_bs then step_escape q rest else step_plain q rest.
Lemma step_pos q rest : (1 <= snd (step q rest))%nat.
Proof. unfold step. destruct (_ =? _); [apply step_escape_pos | apply step_plain_pos]. Qed.

Lemma scan_fuel_indep q : forall f1 f2 rest,
  (length rest <= f1)%nat -> (length rest <= f2)%nat -> scan q f1 rest = scan q f2 rest.
Proof.
  induction f1 as [|f1 IH]; intros f2 rest H1 H2.
  - destruct rest; [|simpl in H1; lia]. destruct f2; reflexivity.
  - destruct f2 as [|f2]; [destruct rest; [reflexivity|simpl in H2; lia]|].
    destruct rest as [|c [|c1 r]]; try reflexivity.
    cbn [scan].
    pose proof (step_pos q (c :: c1 :: r)) as P. unfold step in P. cbn [at_ nth] in P.
    destruct (if c =? c_bs then _ else _) as [o n]. cbn [snd] in P.
    f_equal. apply IH; rewrite skipn_length; cbn [length] in *; lia.
Qed.

Definition scanL (q : byte) (rest : bytes) : bytes := scan q (length rest) rest.

Lemma scanL_one q c : scanL q [c] = [c].
Proof. reflexivity. Qed.
Lemma scanL_cons q c c1 r :
  scanL q (c :: c1 :: r) =
  fst (step q (c :: c1 :: r)) ++ scanL q (skipn (snd (step q (c :: c1 :: r))) (c :: c1 :: r)).
Proof.
  unfold scanL. change (length (c :: c1 :: r)) with (S (length (c1 :: r))). cbn [scan]. unfold step. cbn [at_ nth].
  pose proof (step_pos q (c :: c1 :: r)) as P. unfold step in P. cbn [at_ nth] in P.
  destruct (if c =? c_bs then _ else _) as [o n]. cbn [fst snd] in *.
  f_equal. apply scan_fuel_indep; rewrite ?skipn_length; cbn [length]; lia.
Qed.

(* ---------- the intermediate text (what the scan writes) ---------- *)
Definition inert (x : byte) : Prop := x <> c_bs /\ x <> c_dollar /\ x <> 60.

Inductive Mid (q : byte) : bytes -> list unit -> Prop :=
| Mid_nil : Mid q [] []
| Mid_plain c t v : c <> c_bs -> c <> q -> c <> 13 -> (q = c_bt \/ c <> 10) ->
    Mid q t v -> Mid q (c :: t) (UByte c :: v)
| Mid_zero t v : Mid q t v -> Mid q (c_bs :: 48 :: t) (UByte 0 :: v)
| Mid_esc c1 e u t v : is_dec c1 = false -> Forall inert e ->
    (forall lg X, decode_escape lg (q =? c_bt) (c1 :: e ++ X) = Some (u, X)) ->
    Mid q t v -> Mid q (c_bs :: c1 :: e ++ t) (u ++ v).

Definition hd_ok (a b : byte) : Prop := a = b \/ (a = c_dollar /\ b = c_bs).

(* the closing pass puts a backslash after a `<` that is followed by `/script>` (and at least one more byte) *)
Definition script_at (c : byte) (l : bytes) : bool :=
  (c =? 60) && (10 <=? zlen (c :: l)) && bytes_eqb (firstn 8 l) script_end.

Lemma post_pass_plain q c l : c <> c_bs ->
  (q =? c_bt) && (c =? c_dollar) && (at_ 0 l =? c_lbrace) = false ->
  script_at c l = false ->
  post_pass q (c :: l) = c :: post_pass q l.
Proof.
  intros Hc H Hs. apply Z.eqb_neq in Hc.
  destruct l as [|c1 [|c2 l]]; try reflexivity.
  cbn [post_pass]. rewrite Hc. cbn [at_ nth] in H. rewrite H. unfold script_at in Hs. rewrite Hs. reflexivity.
Qed.
Lemma post_pass_script q c l : script_at c l = true ->
  c = 60 /\ (exists l', l = script_end ++ l') /\ post_pass q (c :: l) = c :: c_bs :: post_pass q l.
Proof.
  intros Hs. pose proof Hs as Hs'. unfold script_at in Hs'.
  apply andb_true_iff in Hs' as [Hs' H3]. apply andb_true_iff in Hs' as [H1 H2].
  apply Z.eqb_eq in H1. subst c.
  assert (E : firstn 8 l = script_end).
  { revert H3. generalize (firstn 8 l) script_end. induction l0 as [|x a IH]; intros [|y b] H; try discriminate; [reflexivity|].
    cbn in H. apply andb_true_iff in H as [Ha Hb]. apply Z.eqb_eq in Ha. f_equal; auto. }
  split; [reflexivity|]. split.
  - exists (skipn 8 l). rewrite <- E. symmetry. apply firstn_skipn.
  - destruct l as [|c1 [|c2 l]]; try discriminate.
    cbn [post_pass]. change (60 =? c_bs) with false. change (60 =? c_dollar) with false.
    rewrite andb_false_r. cbn [andb]. unfold script_at in Hs. rewrite Hs. reflexivity.
Qed.

Lemma decode_lt_esc lg q b v : (q = c_dq \/ q = c_sq \/ q = c_bt) ->
  decode lg q (47 :: b) = Some v -> decode lg q (60 :: c_bs :: 47 :: b) = Some (UByte 60 :: v).
Proof.
  intros Hq D.
  assert (E : decode lg q (c_bs :: 47 :: b) = decode lg q (47 :: b)).
  { rewrite !decode_cons. unfold decode_step.
    destruct Hq as [-> | [-> | ->]]; cbn [Z.eqb Pos.eqb andb orb c_bs c_dq c_sq c_bt c_dollar];
      unfold decode_escape; cbn [Z.eqb Pos.eqb andb orb is_dec Z.leb Z.compare Pos.compare Pos.compare_cont];
      destruct (decode lg _ b); reflexivity. }
  rewrite decode_cons. unfold decode_step. rewrite E, D.
  destruct Hq as [-> | [-> | ->]]; reflexivity.
Qed.

Lemma post_pass_dollar c2 l :
  post_pass c_bt (c_dollar :: c_lbrace :: c2 :: l) = c_bs :: c_dollar :: post_pass c_bt (c_lbrace :: c2 :: l).
Proof. reflexivity. Qed.
Lemma post_pass_esc q c1 l : (c1 =? 48) && is_dec (at_ 0 l) = false ->
  post_pass q (c_bs :: c1 :: l) = c_bs :: c1 :: post_pass q l.
Proof.
  intros H. destruct l as [|c2 l]; [reflexivity|].
  cbn [post_pass]. change (c_bs =? c_bs) with true. cbv iota.
  cbn [at_ nth] in H. unfold is_dec in H. rewrite andb_assoc in H. rewrite H. reflexivity.
Qed.
Lemma post_pass_zero q c2 l : is_dec c2 = true ->
  post_pass q (c_bs :: 48 :: c2 :: l) = c_bs :: 120 :: 48 :: 48 :: post_pass q (c2 :: l).
Proof.
  intros H. cbn [post_pass]. change (c_bs =? c_bs) with true. cbv iota.
  unfold is_dec in H. change (48 =? 48) with true. cbn [andb]. rewrite H. reflexivity.
Qed.
Lemma post_pass_inert q e l : Forall inert e -> post_pass q (e ++ l) = e ++ post_pass q l.
Proof.
  induction 1 as [|x e Hx HF IH]; [reflexivity|]. destruct Hx as (Hx1 & Hx2 & Hx3).
  cbn [app]. rewrite post_pass_plain; [rewrite IH; reflexivity|assumption| |].
  - apply Z.eqb_neq in Hx2. rewrite Hx2. rewrite andb_false_r. reflexivity.
  - unfold script_at. apply Z.eqb_neq in Hx3. rewrite Hx3. reflexivity.
Qed.

Lemma at0_app (a : bytes) x : a <> [] -> at_ 0 (a ++ [x]) = at_ 0 a.
Proof. destruct a; [congruence|reflexivity]. Qed.

Section PostPass.
  Variable q : byte.
  Hypothesis Hq : q = c_dq \/ q = c_sq \/ q = c_bt.
  Variable lg : bool.

  Lemma q_not_dec : is_dec q = false.
  Proof. destruct Hq as [-> | [-> | ->]]; reflexivity. Qed.
  Lemma q_not_lbrace : (q =? c_lbrace) = false.
  Proof. destruct Hq as [-> | [-> | ->]]; reflexivity. Qed.

  Lemma post_pass_mid : forall t v, Mid q t v ->
    exists body', post_pass q (t ++ [q]) = body' ++ [q] /\ decode lg q body' = Some v /\
                  hd_ok (at_ 0 (t ++ [q])) (at_ 0 (body' ++ [q])).
  Proof.
    induction 1 as [|c t v Hc1 Hc2 Hc3 Hc4 HM IH|t v HM IH|c1 e u t v Hc1 He Hd HM IH].
    - exists []. split; [reflexivity|]. split; [reflexivity|left; reflexivity].
    - destruct IH as (b' & E & D & Hh).
      destruct ((q =? c_bt) && (c =? c_dollar) && (at_ 0 (t ++ [q]) =? c_lbrace)) eqn:Ec.
      + apply andb_true_iff in Ec as [Ec Ec3]. apply andb_true_iff in Ec as [Ec1 Ec2].
        apply Z.eqb_eq in Ec1, Ec2, Ec3. subst c.
        destruct t as [|c1 t]; [cbn in Ec3; rewrite Ec3 in *; discriminate|].
        cbn [app at_ nth] in Ec3. subst c1.
        exists (c_bs :: c_dollar :: b'). split; [|split].
        * cbn [app]. rewrite Ec1 at 1.
          destruct (t ++ [q]) as [|c2 l] eqn:Et; [destruct t; discriminate|].
          rewrite post_pass_dollar. rewrite <- Ec1 at 1. rewrite <- Et. cbn [app] in E. rewrite E. reflexivity.
        * rewrite decode_cons. unfold decode_step. change (c_bs =? c_bs) with true. cbv iota.
          rewrite Ec1. cbn. rewrite <- Ec1. rewrite D. reflexivity.
        * right. split; reflexivity.
      + destruct (script_at c (t ++ [q])) eqn:Esc.
        { (* `<` in front of `/script>`: a backslash goes in front of the slash *)
          destruct (post_pass_script q c (t ++ [q]) Esc) as (Ec60 & (l' & El') & Epp). subst c.
          assert (H47 : at_ 0 (t ++ [q]) = 47) by (rewrite El'; reflexivity).
          rewrite H47 in Hh.
          destruct b' as [|x b''].
          { cbn [app at_ nth] in Hh. destruct Hh as [Hh|[Hh _]]; [|unfold c_dollar in Hh; discriminate].
            exfalso. destruct Hq as [Hq1|[Hq1|Hq1]]; rewrite Hq1 in Hh; discriminate. }
          cbn [app at_ nth] in Hh. destruct Hh as [Hh|[Hh _]]; [|unfold c_dollar in Hh; discriminate]. subst x.
          exists (60 :: c_bs :: 47 :: b''). split; [|split].
          - cbn [app]. rewrite Epp. rewrite E. reflexivity.
          - apply decode_lt_esc; assumption.
          - left; reflexivity. }
        exists (c :: b'). split; [|split].
        * cbn [app]. rewrite post_pass_plain by assumption. rewrite E. reflexivity.
        * rewrite decode_cons. unfold decode_step.
          apply Z.eqb_neq in Hc1, Hc2, Hc3. rewrite Hc1, Hc2, Hc3.
          assert (Hx : (q =? c_bt) && ((c =? c_dollar) && (at_ 0 b' =? c_lbrace) && (1 <=? zlen b')) = false).
          { destruct (q =? c_bt) eqn:Eq; [|reflexivity]. destruct (c =? c_dollar) eqn:Ed; [|reflexivity].
            cbn [andb] in *. destruct b' as [|x b']; [reflexivity|].
            cbn [app at_ nth] in *. destruct Hh as [Hh|[Hh1 Hh2]].
            - rewrite <- Hh. rewrite Ec. reflexivity.
            - subst x. reflexivity. }
          destruct (q =? c_bt) eqn:Eq.
          -- cbn [andb] in Hx. rewrite Hx. rewrite D. reflexivity.
          -- destruct Hc4 as [Hc4|Hc4]; [subst q; discriminate|].
             apply Z.eqb_neq in Hc4. rewrite Hc4. cbn [orb]. rewrite D. reflexivity.
        * left. reflexivity.
    - destruct IH as (b' & E & D & Hh).
      destruct (is_dec (at_ 0 (t ++ [q]))) eqn:Ed.
      + exists (c_bs :: 120 :: 48 :: 48 :: b'). split; [|split].
        * cbn [app]. destruct (t ++ [q]) as [|c2 l] eqn:Et; [destruct t; discriminate|].
          cbn [at_ nth] in Ed. rewrite post_pass_zero by assumption. rewrite E. reflexivity.
        * rewrite decode_cons. unfold decode_step. change (c_bs =? c_bs) with true. cbv iota.
          destruct (q =? c_bt); cbn; rewrite D; reflexivity.
        * left; reflexivity.
      + exists (c_bs :: 48 :: b'). split; [|split].
        * cbn [app]. rewrite post_pass_esc by (rewrite Ed; reflexivity). rewrite E. reflexivity.
        * rewrite decode_cons. unfold decode_step. change (c_bs =? c_bs) with true. cbv iota.
          assert (Hx : (match b' with [] => false | _ => true end) && is_dec (at_ 0 b') = false).
          { destruct b' as [|x b']; [reflexivity|]. cbn [app at_ nth andb] in *.
            destruct Hh as [Hh|[Hh1 Hh2]]; [rewrite <- Hh; assumption|subst x; reflexivity]. }
          unfold decode_escape. change (48 =? 48) with true. cbn -[is_dec at_]. rewrite Hx. cbn. rewrite D. reflexivity.
        * left; reflexivity.
    - destruct IH as (b' & E & D & Hh).
      exists (c_bs :: c1 :: e ++ b'). split; [|split].
      + cbn [app]. rewrite <- app_assoc. rewrite post_pass_esc.
        * rewrite post_pass_inert by assumption. rewrite E. rewrite app_assoc. reflexivity.
        * destruct (c1 =? 48) eqn:E1; [|reflexivity]. apply Z.eqb_eq in E1. subst c1. discriminate.
      + rewrite decode_cons. unfold decode_step. change (c_bs =? c_bs) with true. cbv iota.
        rewrite Hd. rewrite D. reflexivity.
      + left; reflexivity.
  Qed.
End PostPass.

(* ---------- the scan step, case by case (boolean level, arbitrary [rest]) ---------- *)
Ltac q3 H := destruct H as [-> | [-> | ->]].

Section StepEscape.
  Variable q' : byte.
  Hypothesis Hq' : q' = c_dq \/ q' = c_sq \/ q' = c_bt.
  Variable rest : bytes.
  Let c1 := at_ 1 rest.
  Let b2 := at_ 2 rest.
  Let b3 := at_ 3 rest.
  Let len := zlen rest.

  Lemma SE_keep : c1 = q' \/ c1 = 92 \/ c1 = 114 \/ (q' <> c_bt /\ c1 = 110) ->
    step_escape q' rest = ([c_bs; c1], 2%nat).
  Proof.
    intros H. unfold step_escape. cbv zeta. fold c1.
    assert (X : (c1 =? q') || (c1 =? c_bs) || (c1 =? 114) || (negb (q' =? c_bt) && (c1 =? 110)) = true).
    { destruct H as [H|[H|[H|[H1 H]]]]; rewrite H; rewrite ?Z.eqb_refl, ?orb_true_r; try reflexivity.
      apply Z.eqb_neq in H1. rewrite H1. rewrite ?orb_true_r; reflexivity. }
    rewrite X. reflexivity.
  Qed.

  Lemma SE_zero : c1 = 48 -> (len <= 3 \/ b2 < 48 \/ 55 < b2) ->
    step_escape q' rest = ([c_bs; 48], 2%nat).
  Proof.
    intros H1 H. unfold step_escape. cbv zeta. fold c1 b2 len. rewrite H1.
    assert (X : (len <=? 3) || (b2 <? 48) || (55 <? b2) = true).
    { destruct H as [H|[H|H]]; [apply Z.leb_le in H|apply Z.ltb_lt in H|apply Z.ltb_lt in H]; rewrite H; rewrite ?orb_true_r; reflexivity. }
    rewrite X. change (48 =? 48) with true. cbn [andb]. rewrite orb_true_r. reflexivity.
  Qed.

  Lemma SE_lf : c1 = 10 -> step_escape q' rest = ([], 2%nat).
  Proof. intros H. unfold step_escape. cbv zeta. fold c1. rewrite H. q3 Hq'; reflexivity. Qed.

  Lemma SE_cr : c1 = 13 ->
    step_escape q' rest = ([], if (4 <=? len) && (b2 =? 10) then 3%nat else 2%nat).
  Proof. intros H. unfold step_escape. cbv zeta. fold c1 b2 len. rewrite H. q3 Hq'; reflexivity. Qed.

  Lemma SE_ls : c1 = 226 -> 5 <= len -> b2 = 128 -> (b3 = 168 \/ b3 = 169) ->
    step_escape q' rest = ([], 4%nat).
  Proof.
    intros H1 H2 H3 H4. unfold step_escape. cbv zeta. fold c1 b2 b3 len. rewrite H1, H3.
    apply Z.leb_le in H2. rewrite H2.
    assert (X : (b3 =? 168) || (b3 =? 169) = true) by (destruct H4 as [-> | ->]; reflexivity).
    rewrite X. q3 Hq'; reflexivity.
  Qed.

  Definition x_dec_cond : bool :=
    (5 <=? len) && is_hex b2 && (b2 <? 56) && is_hex b3 && negb ((b2 =? 48) && (b3 =? 48)).
  Lemma SE_x : c1 = 120 ->
    step_escape q' rest =
      if x_dec_cond then
        (match escaped_form q' (hex_val b2 * 16 + hex_val b3) with Some e => e | None => [hex_val b2 * 16 + hex_val b3] end, 4%nat)
      else ([c_bs; 120], 2%nat).
  Proof.
    intros H. unfold step_escape, x_dec_cond. cbv zeta. fold c1 b2 b3 len. rewrite H. q3 Hq'; reflexivity.
  Qed.

  Lemma SE_simple : (q' = c_bt /\ c1 = 110) \/ c1 = 116 \/ c1 = 102 \/ c1 = 118 \/ c1 = 98 ->
    step_escape q' rest =
      ([if c1 =? 110 then 10 else if c1 =? 116 then 9 else if c1 =? 102 then 12 else if c1 =? 118 then 11 else 8], 2%nat).
  Proof.
    intros H. unfold step_escape. cbv zeta. fold c1 b2 b3 len.
    destruct H as [[H1 H]|[H|[H|[H|H]]]]; rewrite H; [subst q'; reflexivity|..]; q3 Hq'; reflexivity.
  Qed.

  (* the line-separator continuation condition *)
  Definition ls_cond : bool := (c1 =? 226) && (5 <=? len) && (b2 =? 128) && ((b3 =? 168) || (b3 =? 169)).

  Lemma SE_other :
    c1 <> q' -> c1 <> 92 -> c1 <> 114 -> c1 <> 110 -> is_oct c1 = false -> c1 <> 10 -> c1 <> 13 ->
    ls_cond = false -> c1 <> 120 -> c1 <> 117 -> c1 <> 116 -> c1 <> 102 -> c1 <> 118 -> c1 <> 98 ->
    step_escape q' rest = ([], 1%nat).
  Proof.
    intros. unfold step_escape. cbv zeta. fold c1 b2 b3 len. fold ls_cond. change c_bs with 92.
    repeat match goal with H : _ <> _ |- _ => apply Z.eqb_neq in H; rewrite ?H end.
    assert (E48 : (c1 =? 48) = false).
    { apply Z.eqb_neq. intros E. rewrite E in *. discriminate. }
    rewrite E48. cbn [andb orb]. rewrite ?andb_false_r. cbn [andb orb].
    match goal with H : ls_cond = false |- _ => rewrite H end.
    match goal with H : is_oct c1 = false |- _ => rewrite H end. reflexivity.
  Qed.
End StepEscape.

Definition keep_u : bytes * nat := ([c_bs; 117], 2%nat).
Definition u_emit (q' : byte) (len_eq : bool) (num : Z) (n : nat) : bytes * nat :=
  if 1114111 <=? num then keep_u
  else if num =? 0 then (if len_eq then [c_bs; 48] else [c_bs; 120; 48; 48], n)
  else if negb (num =? 13) && ((q' =? c_bt) || negb (num =? 10)) then
    if rune_len num =? -1 then keep_u
    else ((if (num <? 256) && ((q' =? num) || (num =? c_bs)) then [c_bs] else []) ++ utf8_encode num, n)
  else ([c_bs; if num =? 10 then 110 else 114], n).

Definition oct_parse (c1 b2 b3 len : Z) : Z * nat :=
  let n1 := c1 - 48 in
  if (4 <=? len) && is_oct b2 then
    let n2 := n1 * 8 + (b2 - 48) in
    if (n2 <? 32) && (5 <=? len) && is_oct b3 then (n2 * 8 + (b3 - 48), 4%nat) else (n2, 3%nat)
  else (n1, 2%nat).
Definition low_emit (q' : byte) (v : Z) : bytes :=
  match escaped_form q' v with Some e => e | None => [v] end.
Definition oct_emit (q' : byte) (num : Z) (n : nat) : bytes * nat :=
  if 128 <=? num then (utf8_encode num, n) else (low_emit q' num, n).

Section StepEscape2.
  Variable q' : byte.
  Hypothesis Hq' : q' = c_dq \/ q' = c_sq \/ q' = c_bt.
  Variable rest : bytes.
  Let c1 := at_ 1 rest.
  Let b2 := at_ 2 rest.
  Let b3 := at_ 3 rest.
  Let len := zlen rest.

  Lemma SE_u4 ds : c1 = 117 -> 3 <= len -> b2 <> c_lbrace ->
    hex_run 4 (skipn 2 rest) = ds -> length ds = 4%nat ->
    step_escape q' rest = u_emit q' (len =? 6) (hex_num ds) 6%nat.
  Proof.
    intros H1 H2 H3 H4 H5. unfold step_escape. cbv zeta. fold c1 b2 b3 len. rewrite H1.
    apply Z.leb_le in H2. rewrite H2. apply Z.eqb_neq in H3. rewrite H3. rewrite H4, H5.
    q3 Hq'; reflexivity.
  Qed.

  Lemma SE_ub ds : c1 = 117 -> 3 <= len -> b2 = c_lbrace ->
    hex_run (length rest) (skipn 3 rest) = ds -> ds <> [] ->
    step_escape q' rest =
      if (6 <? Z.of_nat (length ds)) || (len <=? Z.of_nat (3 + length ds)) || negb (at_ (3 + length ds) rest =? c_rbrace)
      then keep_u
      else u_emit q' (len =? Z.of_nat (3 + length ds)) (hex_num ds) (2 + length ds + 2)%nat.
  Proof.
    intros H1 H2 H3 H4 H5. unfold step_escape. cbv zeta. fold c1 b2 b3 len. rewrite H1.
    apply Z.leb_le in H2. rewrite H2. rewrite H3. change (c_lbrace =? c_lbrace) with true. cbv iota. rewrite H4.
    destruct ds as [|d ds]; [congruence|].
    q3 Hq'; cbn [andb orb negb Z.eqb Pos.eqb]; rewrite ?orb_false_r;
      (destruct (_ || _ || _); [reflexivity|]); reflexivity.
  Qed.

  Lemma SE_oct : is_oct c1 = true -> (c1 = 48 -> 3 < len /\ 48 <= b2 <= 55) ->
    step_escape q' rest = let '(num, n) := oct_parse c1 b2 b3 len in oct_emit q' num n.
  Proof.
    intros H1 H2. unfold step_escape, oct_parse, oct_emit, low_emit. cbv zeta. fold c1 b2 b3 len.
    unfold is_oct in H1. apply andb_true_iff in H1 as [Ha Hb]. apply Z.leb_le in Ha, Hb.
    assert (Hc : c1 = 48 \/ c1 = 49 \/ c1 = 50 \/ c1 = 51 \/ c1 = 52 \/ c1 = 53 \/ c1 = 54 \/ c1 = 55) by lia.
    destruct Hc as [Hc|Hc].
    - destruct (H2 Hc) as [Hl [Hb1 Hb2]]. rewrite Hc.
      assert (X : (len <=? 3) || (b2 <? 48) || (55 <? b2) = false).
      { apply orb_false_iff; split; [apply orb_false_iff; split|]; [apply Z.leb_gt|apply Z.ltb_ge|apply Z.ltb_ge]; lia. }
      rewrite X. q3 Hq'; reflexivity.
    - clear H2. repeat (destruct Hc as [Hc|Hc]; [rewrite Hc; q3 Hq'; reflexivity|]).
      rewrite Hc; q3 Hq'; reflexivity.
  Qed.
End StepEscape2.

Section StepPlain.
  Variable q' : byte.
  Variable rest : bytes.
  Let c := at_ 0 rest.
  Let b1 := at_ 1 rest.
  Let b2 := at_ 2 rest.
  Let len := zlen rest.

  Definition dollar_cond : bool :=
    (c =? c_dollar) && (q' =? c_bt) && ((b1 =? c_lbrace) || ((3 <=? len) && (b1 =? c_bs) && (b2 =? c_lbrace))).

  Lemma SP_quote : c = q' -> step_plain q' rest = ([c_bs; c], 1%nat).
  Proof. intros H. unfold step_plain. cbv zeta. fold c. rewrite H, Z.eqb_refl. reflexivity. Qed.
  Lemma SP_dollar : dollar_cond = true -> step_plain q' rest = ([c_bs; c], 1%nat).
  Proof.
    intros H. unfold step_plain. cbv zeta. fold c b1 b2 len. unfold dollar_cond in H. rewrite H.
    rewrite orb_true_r. reflexivity.
  Qed.
  Lemma SP_other : c <> q' -> dollar_cond = false -> c <> 60 -> step_plain q' rest = ([c], 1%nat).
  Proof.
    intros H1 H2 H3. unfold step_plain. cbv zeta. fold c b1 b2 len. unfold dollar_cond in H2. rewrite H2.
    apply Z.eqb_neq in H1, H3. rewrite H1, H3. reflexivity.
  Qed.
  Lemma SP_lt : c = 60 -> q' <> 60 ->
    step_plain q' rest =
      if 10 <=? len then
        if (b1 =? c_bs) && (11 <=? len) && bytes_eqb (firstn 8 (skipn 2 rest)) script_end then (firstn 10 rest, 10%nat)
        else if bytes_eqb (firstn 8 (skipn 1 rest)) script_end then ([c; c_bs], 1%nat)
        else ([c], 1%nat)
      else ([c], 1%nat).
  Proof.
    intros H1 H2. unfold step_plain. cbv zeta. fold c b1 b2 len. rewrite H1.
    assert (E : (60 =? q') = false) by (apply Z.eqb_neq; congruence). rewrite E. reflexivity.
  Qed.
End StepPlain.

(* ---------- what the emitted bytes mean ---------- *)
Lemma cp_units_low n : n < 128 -> cp_units n = [UByte n].
Proof.
  intros H. unfold cp_units, is_surrogate, utf8_encode.
  replace (55296 <=? n) with false by (symmetry; apply Z.leb_gt; lia).
  replace (n <? 128) with true by (symmetry; apply Z.ltb_lt; lia). reflexivity.
Qed.
Lemma cp_units_utf8 n : is_surrogate n = false -> cp_units n = map UByte (utf8_encode n).
Proof. intros H. unfold cp_units. rewrite H. reflexivity. Qed.

Lemma utf8_high n : 128 <= n -> Forall (fun b => 128 <= b) (utf8_encode n).
Proof.
  intros H. unfold utf8_encode.
  replace (n <? 128) with false by (symmetry; apply Z.ltb_ge; lia).
  assert (0 <= n mod 64) by (apply Z.mod_pos_bound; lia).
  assert (0 <= (n / 64) mod 64) by (apply Z.mod_pos_bound; lia).
  assert (0 <= (n / 4096) mod 64) by (apply Z.mod_pos_bound; lia).
  assert (0 <= n / 64) by (apply Z.div_pos; lia).
  assert (0 <= n / 4096) by (apply Z.div_pos; lia).
  assert (0 <= n / 262144) by (apply Z.div_pos; lia).
  destruct (n <? 2048); [|destruct (n <? 65536)]; repeat constructor; lia.
Qed.

Section Emit.
  Variable q' : byte.
  Hypothesis Hq' : q' = c_dq \/ q' = c_sq \/ q' = c_bt.

  Lemma Mid_raw l t v : Forall (fun b => 128 <= b) l -> Mid q' t v -> Mid q' (l ++ t) (map UByte l ++ v).
  Proof.
    induction 1 as [|x l Hx HF IH]; intros HM; [assumption|].
    cbn [app map]. apply Mid_plain; [unfold c_bs; lia|q3 Hq'; unfold c_dq, c_sq, c_bt; lia|lia|right; lia|auto].
  Qed.

  Lemma Mid_esc0 c1 u t v : is_dec c1 = false ->
    (forall lg X, decode_escape lg (q' =? c_bt) (c1 :: X) = Some (u, X)) ->
    Mid q' t v -> Mid q' (c_bs :: c1 :: t) (u ++ v).
  Proof. intros H1 H2 HM. apply (Mid_esc q' c1 [] u t v H1 (Forall_nil _) H2 HM). Qed.

  Lemma Mid_low num t v : 0 <= num < 128 -> Mid q' t v -> Mid q' (low_emit q' num ++ t) (UByte num :: v).
  Proof.
    intros Hn HM. unfold low_emit, escaped_form.
    destruct (num =? 0) eqn:E0.
    { apply Z.eqb_eq in E0. subst num. apply Mid_zero. assumption. }
    destruct (num =? 10) eqn:E10.
    { apply Z.eqb_eq in E10. subst num. destruct (q' =? c_bt) eqn:Eq.
      - apply Z.eqb_eq in Eq. cbn [app]. apply Mid_plain; [unfold c_bs; lia|rewrite Eq; unfold c_bt; lia|lia|auto|auto].
      - apply (Mid_esc0 110 [UByte 10] t v); [reflexivity| |assumption]. intros. rewrite Eq. reflexivity. }
    destruct (num =? 13) eqn:E13.
    { apply Z.eqb_eq in E13. subst num.
      apply (Mid_esc0 114 [UByte 13] t v); [reflexivity| |assumption]. intros. reflexivity. }
    apply Z.eqb_neq in E0, E10, E13.
    destruct ((num =? c_bs) || (num =? q')) eqn:Eb.
    - apply orb_true_iff in Eb. destruct Eb as [Eb|Eb]; apply Z.eqb_eq in Eb; subst num.
      + apply (Mid_esc0 c_bs [UByte c_bs] t v); [reflexivity| |assumption]. intros. reflexivity.
      + apply (Mid_esc0 q' [UByte q'] t v); [q3 Hq'; reflexivity| |assumption]. intros. q3 Hq'; reflexivity.
    - apply orb_false_iff in Eb as [Eb1 Eb2]. apply Z.eqb_neq in Eb1, Eb2.
      cbn [app]. apply Mid_plain; auto.
  Qed.
End Emit.

(* ---------- runs of bytes the scan copies ---------- *)
Definition dull (q' x : byte) : Prop := x <> c_bs /\ x <> q' /\ x <> c_dollar /\ x <> 60.

Lemma scanL_step q' c t : t <> [] ->
  scanL q' (c :: t) = fst (step q' (c :: t)) ++ scanL q' (skipn (snd (step q' (c :: t))) (c :: t)).
Proof. destruct t as [|c1 l]; [congruence|]. intros _. apply scanL_cons. Qed.

Lemma one_step q' c t o n r' mid' : t <> [] -> step q' (c :: t) = (o, n) ->
  skipn n (c :: t) = r' ++ [q'] -> scanL q' (r' ++ [q']) = mid' ++ [q'] ->
  scanL q' (c :: t) = (o ++ mid') ++ [q'].
Proof.
  intros Ht Hs Hk He. rewrite scanL_step by assumption. rewrite Hs. cbn [fst snd].
  rewrite Hk, He. apply app_assoc.
Qed.

Lemma step_dull q' x t : dull q' x -> step q' (x :: t) = ([x], 1%nat).
Proof.
  intros (H1 & H2 & H3 & H4). unfold step. cbn [at_ nth].
  apply Z.eqb_neq in H1. rewrite H1.
  apply (SP_other q' (x :: t)); cbn [at_ nth]; try assumption.
  unfold dollar_cond. cbn [at_ nth]. apply Z.eqb_neq in H3. rewrite H3. reflexivity.
Qed.

Lemma app_nonnil {A} (a b : list A) : b <> [] -> a ++ b <> [].
Proof. destruct a; [auto|discriminate]. Qed.

Lemma scanL_dull q' e l : Forall (dull q') e -> l <> [] -> scanL q' (e ++ l) = e ++ scanL q' l.
Proof.
  intros H Hl. induction H as [|x e Hx HF IH]; [reflexivity|].
  cbn [app]. rewrite scanL_step by (apply app_nonnil; assumption).
  rewrite step_dull by assumption. cbn [fst snd skipn app]. rewrite IH. reflexivity.
Qed.

(* ---------- decoding plain input ---------- *)
Definition omap {A B} (f : A -> B) (o : option A) : option B := match o with Some x => Some (f x) | None => None end.

Lemma decode_plain lg q c r : q <> c_bt -> c <> c_bs -> c <> q -> c <> 10 -> c <> 13 ->
  decode lg q (c :: r) = omap (cons (UByte c)) (decode lg q r).
Proof.
  intros H0 H1 H2 H3 H4. rewrite decode_cons. unfold decode_step.
  apply Z.eqb_neq in H0, H1, H2, H3, H4. rewrite H0, H1, H2, H3, H4. reflexivity.
Qed.
Lemma decode_id_esc lg q c1 r : q <> c_bt ->
  (forall X, decode_escape lg false (c1 :: X) = Some ([UByte c1], X)) ->
  decode lg q (c_bs :: c1 :: r) = omap (cons (UByte c1)) (decode lg q r).
Proof.
  intros H0 H. rewrite decode_cons. unfold decode_step. change (c_bs =? c_bs) with true. cbv iota.
  apply Z.eqb_neq in H0. rewrite H0, H. destruct (decode lg q r); reflexivity.
Qed.

Lemma bytes_eqb_eq a b : bytes_eqb a b = true -> a = b.
Proof.
  revert b; induction a as [|x a IH]; intros [|y b] H; try discriminate; [reflexivity|].
  cbn in H. apply andb_true_iff in H as [H1 H2]. apply Z.eqb_eq in H1. f_equal; auto.
Qed.
Lemma firstn_eq_app {A} n (l a : list A) : firstn n l = a -> length a = n -> l = a ++ skipn n l.
Proof. intros H _. rewrite <- H. symmetry. apply firstn_skipn. Qed.

Lemma split_tail {A} (r a l' : list A) x : r ++ [x] = a ++ l' -> l' <> [] ->
  exists r9, r = a ++ r9 /\ l' = r9 ++ [x].
Proof.
  intros H Hl. destruct (exists_last Hl) as (r9 & y & ->).
  rewrite app_assoc in H. apply app_inj_tail in H as [H1 H2]. subst. eauto.
Qed.

(* ---------- hexadecimal digits ---------- *)
Lemma is_hex_cases c : is_hex c = true -> (48 <= c <= 57) \/ (65 <= c <= 70) \/ (97 <= c <= 102).
Proof.
  unfold is_hex. rewrite !orb_true_iff, !andb_true_iff, !Z.leb_le. tauto.
Qed.
Lemma hex_val_range c : is_hex c = true -> 0 <= hex_val c <= 15.
Proof.
  intros H. apply is_hex_cases in H. unfold hex_val.
  destruct (c <=? 57) eqn:E1; [apply Z.leb_le in E1; lia|apply Z.leb_gt in E1].
  destruct (c <=? 70) eqn:E2; [apply Z.leb_le in E2; lia|apply Z.leb_gt in E2]. lia.
Qed.
Lemma hex_val_low c : is_hex c = true -> c < 56 -> 0 <= hex_val c <= 7.
Proof.
  intros H L. apply is_hex_cases in H. unfold hex_val.
  replace (c <=? 57) with true by (symmetry; apply Z.leb_le; lia). lia.
Qed.
Lemma hex_dull q' c : (q' = c_dq \/ q' = c_sq \/ q' = c_bt) -> is_hex c = true -> dull q' c.
Proof.
  intros Hq H. apply is_hex_cases in H. unfold dull, c_bs, c_dollar.
  destruct Hq as [-> | [-> | ->]]; unfold c_dq, c_sq, c_bt; lia.
Qed.
Lemma hex_inert c : is_hex c = true -> inert c.
Proof. intros H. apply is_hex_cases in H. unfold inert, c_bs, c_dollar. lia. Qed.
Lemma Forall_two {A} (P : A -> Prop) a b : P a -> P b -> Forall P [a; b].
Proof. intros. constructor; [assumption|constructor; [assumption|constructor]]. Qed.

Definition hexb (c : byte) : Prop := is_hex c = true.

Lemma hex_run_prefix k l : l = hex_run k l ++ skipn (length (hex_run k l)) l.
Proof.
  revert l; induction k as [|k IH]; intros [|c r]; try reflexivity.
  cbn [hex_run]. destruct (is_hex c); [|reflexivity].
  cbn [length skipn app]. f_equal. apply IH.
Qed.
Lemma hex_run_hex k l : Forall hexb (hex_run k l).
Proof.
  revert l; induction k as [|k IH]; intros [|c r]; try constructor.
  cbn [hex_run]. destruct (is_hex c) eqn:E; constructor; [exact E|apply IH].
Qed.
Lemma hex_run_exact ds l : Forall hexb ds -> hex_run (length ds) (ds ++ l) = ds.
Proof.
  induction 1 as [|x ds Hx HF IH]; [destruct l; reflexivity|].
  cbn [length app hex_run]. rewrite Hx. f_equal. exact IH.
Qed.
Lemma hex_run_stop ds x l k : Forall hexb ds -> is_hex x = false -> (length ds <= k)%nat ->
  hex_run k (ds ++ x :: l) = ds.
Proof.
  intros H Hx. revert k. induction H as [|y ds Hy HF IH]; intros k Hk.
  - cbn [app]. destruct k; [reflexivity|]. cbn [hex_run]. rewrite Hx. reflexivity.
  - destruct k; [cbn in Hk; lia|]. cbn [app hex_run]. rewrite Hy. f_equal. apply IH. cbn in Hk. lia.
Qed.
Lemma hex_num_acc ds : forall acc, 0 <= acc -> Forall hexb ds ->
  0 <= fold_left (fun n c => n * 16 + hex_val c) ds acc.
Proof.
  induction ds as [|x ds IH]; intros acc Ha H; [exact Ha|].
  inversion H; subst. cbn [fold_left]. apply IH; [|assumption].
  pose proof (hex_val_range x H2). lia.
Qed.
Lemma hex_num_nonneg ds : Forall hexb ds -> 0 <= hex_num ds.
Proof. intros H. unfold hex_num. apply hex_num_acc; [lia|assumption]. Qed.

Lemma skipn_len_app {A} (a l : list A) k : skipn (length a + k) (a ++ l) = skipn k l.
Proof. induction a; [reflexivity|exact IHa]. Qed.
Lemma skipn_exact {A} (a l : list A) k : length a = k -> skipn k (a ++ l) = l.
Proof. intros <-. replace (length a) with (length a + 0)%nat by lia. apply skipn_len_app. Qed.

Lemma DE_ub lg t ds X : Forall hexb ds -> ds <> [] -> hex_num ds <= 1114111 ->
  decode_escape lg t (117 :: c_lbrace :: ds ++ c_rbrace :: X) = Some (cp_units (hex_num ds), X).
Proof.
  intros Hh Hne Hn. unfold decode_escape. cbn [Z.eqb Pos.eqb andb].
  change (c_lbrace =? c_lbrace) with true. cbv iota zeta.
  rewrite (hex_run_stop ds c_rbrace X _ Hh eq_refl) by (rewrite app_length; lia).
  rewrite (skipn_exact ds _ (length ds) eq_refl).
  destruct ds as [|d ds]; [congruence|].
  change (c_rbrace =? c_rbrace) with true. apply Z.leb_le in Hn. rewrite Hn. reflexivity.
Qed.

(* ---------- octal escapes: the code's parse ---------- *)
Lemma is_oct_rng c : is_oct c = true -> 48 <= c <= 55.
Proof. unfold is_oct. rewrite andb_true_iff, !Z.leb_le. tauto. Qed.

Lemma oct_parse3 c1 b2 b3 len : is_oct c1 = true -> c1 <= 51 -> is_oct b2 = true -> is_oct b3 = true -> 5 <= len ->
  oct_parse c1 b2 b3 len = (((c1 - 48) * 8 + (b2 - 48)) * 8 + (b3 - 48), 4%nat).
Proof.
  intros H1 H1' H2 H3 Hl. unfold oct_parse. cbv zeta. rewrite H2, H3.
  apply is_oct_rng in H1, H2.
  replace (4 <=? len) with true by (symmetry; apply Z.leb_le; lia).
  replace (5 <=? len) with true by (symmetry; apply Z.leb_le; lia).
  replace ((c1 - 48) * 8 + (b2 - 48) <? 32) with true by (symmetry; apply Z.ltb_lt; lia).
  reflexivity.
Qed.
Lemma oct_parse2 c1 b2 b3 len : is_oct c1 = true -> is_oct b2 = true -> 4 <= len ->
  (51 < c1 \/ len < 5 \/ is_oct b3 = false) ->
  oct_parse c1 b2 b3 len = ((c1 - 48) * 8 + (b2 - 48), 3%nat).
Proof.
  intros H1 H2 Hl H. unfold oct_parse. cbv zeta. rewrite H2.
  apply is_oct_rng in H1, H2.
  replace (4 <=? len) with true by (symmetry; apply Z.leb_le; lia). cbn [andb].
  replace (((c1 - 48) * 8 + (b2 - 48) <? 32) && (5 <=? len) && is_oct b3) with false; [reflexivity|].
  symmetry. destruct H as [H|[H|H]].
  - replace ((c1 - 48) * 8 + (b2 - 48) <? 32) with false by (symmetry; apply Z.ltb_ge; lia). reflexivity.
  - replace (5 <=? len) with false by (symmetry; apply Z.leb_gt; lia). rewrite andb_false_r. reflexivity.
  - rewrite H. rewrite andb_false_r. reflexivity.
Qed.
Lemma oct_parse1 c1 b2 b3 len : (len < 4 \/ is_oct b2 = false) ->
  oct_parse c1 b2 b3 len = (c1 - 48, 2%nat).
Proof.
  intros H. unfold oct_parse. cbv zeta.
  replace ((4 <=? len) && is_oct b2) with false; [reflexivity|].
  symmetry. destruct H as [H|H]; [|rewrite H; apply andb_false_r].
  replace (4 <=? len) with false by (symmetry; apply Z.leb_gt; lia). reflexivity.
Qed.

Lemma is_dec_rng c : is_dec c = true -> 48 <= c <= 57.
Proof. unfold is_dec. rewrite andb_true_iff, !Z.leb_le. tauto. Qed.

Definition digit_escape (lg t : bool) (c1 : byte) (r2 : bytes) : option (list unit * bytes) :=
  let d2 := at_ 0 r2 in let d3 := at_ 1 r2 in
  let has2 := match r2 with [] => false | _ => true end in
  let has3 := match r2 with _ :: _ :: _ => true | _ => false end in
  if (c1 =? 48) && negb (has2 && is_dec d2) then Some ([UByte 0], r2)
  else if t || negb lg then None
  else if (c1 =? 56) || (c1 =? 57) then Some ([UByte c1], r2)
  else if has2 && is_oct d2 then
    if (c1 <=? 51) && has3 && is_oct d3
    then Some (cp_units (((c1 - 48) * 8 + (d2 - 48)) * 8 + (d3 - 48)), skipn 2 r2)
    else Some (cp_units ((c1 - 48) * 8 + (d2 - 48)), skipn 1 r2)
  else Some (cp_units (c1 - 48), r2).

Lemma DE_digit lg t c1 r2 : is_dec c1 = true -> decode_escape lg t (c1 :: r2) = digit_escape lg t c1 r2.
Proof.
  intros H. apply is_dec_rng in H.
  assert (Hc : c1 = 48 \/ c1 = 49 \/ c1 = 50 \/ c1 = 51 \/ c1 = 52 \/ c1 = 53 \/ c1 = 54 \/ c1 = 55 \/ c1 = 56 \/ c1 = 57) by lia.
  repeat (destruct Hc as [Hc|Hc]; [subst c1; reflexivity|]). subst c1; reflexivity.
Qed.

(* any other character after the backslash stands for itself *)
Lemma DE_other lg t c1 r2 :
  c1 <> 98 -> c1 <> 102 -> c1 <> 110 -> c1 <> 114 -> c1 <> 116 -> c1 <> 118 -> c1 <> 10 -> c1 <> 13 ->
  (c1 =? 226) && (at_ 0 r2 =? 128) && ((at_ 1 r2 =? 168) || (at_ 1 r2 =? 169)) && (2 <=? zlen r2) = false ->
  c1 <> 120 -> c1 <> 117 -> is_dec c1 = false ->
  decode_escape lg t (c1 :: r2) = Some ([UByte c1], r2).
Proof.
  intros. unfold decode_escape.
  repeat match goal with H : _ <> _ |- _ => apply Z.eqb_neq in H; rewrite ?H end.
  match goal with H : _ && _ = false |- _ => rewrite H end.
  match goal with H : is_dec _ = false |- _ => rewrite H end. reflexivity.
Qed.

Ltac se L := let S := fresh "S" in pose proof L as S; cbv zeta in S; cbn [at_ nth] in S;
  repeat match type of S with context[nth ?k ?l 0] => change (nth k l 0) with (at_ k l) in S end.

Ltac dS S E := match type of S with _ = (if ?b then _ else _) => destruct b eqn:E; try rewrite E in S end.

Lemma step_bs q' t : step q' (c_bs :: t) = step_escape q' (c_bs :: t).
Proof. reflexivity. Qed.

Lemma zlen1 {A} (x : A) : zlen [x] = 1. Proof. reflexivity. Qed.
Ltac zl := unfold bytes, byte in *; repeat (rewrite zlen_cons in * || rewrite zlen_app in * || rewrite zlen_nil in *).

(* the delimiter "that cannot occur": [decode lg q_none body] is the value of a RAW body, in which both quote kinds are
   ordinary characters (the joined body of a concatenation before minify_string repairs it, Js/StrCat.v) *)
Definition q_none : byte := -1.
Definition decode_raw (lg : bool) (body : bytes) : option (list unit) := decode lg q_none body.

Section ScanMid.
  Variables q q' : byte.
  Variable legacy : bool.
  Hypothesis Hq : q = c_dq \/ q = c_sq \/ q = q_none.
  Hypothesis Hq' : q' = c_dq \/ q' = c_sq \/ q' = c_bt.

  Definition Goal_ (rest : bytes) (v : list unit) : Prop :=
    exists mid, scanL q' rest = mid ++ [q'] /\ Mid q' mid v.
  Definition IHP (n : nat) : Prop := forall body v,
    (length body <= n)%nat -> decode legacy q body = Some v -> Goal_ (body ++ [q']) v.

  Lemma close1 c t o n r' u v' : t <> [] -> step q' (c :: t) = (o, n) -> skipn n (c :: t) = r' ++ [q'] ->
    Goal_ (r' ++ [q']) v' -> (forall m, Mid q' m v' -> Mid q' (o ++ m) (u ++ v')) -> Goal_ (c :: t) (u ++ v').
  Proof.
    intros Ht Hs Hk (mid' & Es & HM) Hm. exists (o ++ mid'). split; [|auto].
    eapply one_step; eauto.
  Qed.

  Lemma tl_nonnil (r2 : bytes) c1 : c1 :: r2 ++ [q'] <> [].
  Proof. discriminate. Qed.

  Lemma q'_vals : q' = 34 \/ q' = 39 \/ q' = 96.
  Proof. exact Hq'. Qed.

  (* kept escapes *)
  Lemma esc_keep c1 r2 u v' :
    c1 = q' \/ c1 = 92 \/ c1 = 114 \/ (q' <> c_bt /\ c1 = 110) ->
    (forall lg X, decode_escape lg (q' =? c_bt) (c1 :: X) = Some (u, X)) -> is_dec c1 = false ->
    Goal_ (r2 ++ [q']) v' -> Goal_ (c_bs :: c1 :: r2 ++ [q']) (u ++ v').
  Proof.
    intros Hc Hd Hdec HG.
    eapply close1 with (r' := r2); [discriminate| | |exact HG|].
    - rewrite step_bs. se (SE_keep q' (c_bs :: c1 :: r2 ++ [q'])). apply S. exact Hc.
    - reflexivity.
    - intros m HM. apply Mid_esc0; assumption.
  Qed.

  Lemma q_ne_bt : q <> c_bt.
  Proof. destruct Hq as [-> | [-> | ->]]; discriminate. Qed.

  Lemma Mid_plain1 c m v : c <> c_bs -> c <> q' -> c <> 13 -> c <> 10 -> Mid q' m v -> Mid q' ([c] ++ m) ([UByte c] ++ v).
  Proof. intros. apply Mid_plain; auto. Qed.

  Lemma plain_case n c r v' : IHP n -> (length r <= n)%nat -> decode legacy q r = Some v' ->
    c <> c_bs -> c <> 10 -> c <> 13 -> Goal_ (c :: r ++ [q']) (UByte c :: v').
  Proof.
    intros IH Hlen Hd Hc1 Hc2 Hc3.
    assert (HG : Goal_ (r ++ [q']) v') by (apply IH; assumption).
    assert (Hne : r ++ [q'] <> []) by (apply app_nonnil; discriminate).
    change (UByte c :: v') with ([UByte c] ++ v').
    destruct (Z.eq_dec c q') as [Eq|Nq].
    { eapply close1 with (r' := r); [exact Hne| | |exact HG|].
      - unfold step. cbn [at_ nth]. apply Z.eqb_neq in Hc1. rewrite Hc1.
        se (SP_quote q' (c :: r ++ [q'])). apply S. exact Eq.
      - reflexivity.
      - intros m HM. subst c. cbn [app]. apply (Mid_esc0 q' q' [UByte q']); [q3 Hq'; reflexivity| |assumption].
        intros. q3 Hq'; reflexivity. }
    destruct (dollar_cond q' (c :: r ++ [q'])) eqn:Edc.
    { eapply close1 with (r' := r); [exact Hne| | |exact HG|].
      - unfold step. cbn [at_ nth]. apply Z.eqb_neq in Hc1. rewrite Hc1.
        apply SP_dollar. exact Edc.
      - reflexivity.
      - unfold dollar_cond in Edc. cbn [at_ nth] in Edc. apply andb_true_iff in Edc as [Edc _].
        apply andb_true_iff in Edc as [Edc _]. apply Z.eqb_eq in Edc. subst c.
        intros m HM. cbn [app]. apply (Mid_esc0 q' c_dollar [UByte c_dollar]); [reflexivity| |assumption].
        intros. destruct (q' =? c_bt); reflexivity. }
    destruct (Z.eq_dec c 60) as [E60|N60].
    2:{ eapply close1 with (r' := r); [exact Hne| | |exact HG|].
      - unfold step. cbn [at_ nth]. apply Z.eqb_neq in Hc1. rewrite Hc1.
        apply SP_other; cbn [at_ nth]; assumption.
      - reflexivity.
      - intros m HM. apply Mid_plain1; assumption. }
    subst c.
    assert (Hst : step q' (60 :: r ++ [q']) = step_plain q' (60 :: r ++ [q'])) by reflexivity.
    se (SP_lt q' (60 :: r ++ [q'])). rewrite <- Hst in S.
    assert (Hq60 : q' <> 60) by (q3 Hq'; discriminate).
    specialize (S eq_refl Hq60).
    assert (Hdef : step q' (60 :: r ++ [q']) = ([60], 1%nat) -> Goal_ (60 :: r ++ [q']) ([UByte 60] ++ v')).
    { intros S1. eapply close1 with (r' := r); [exact Hne|exact S1|reflexivity|exact HG|].
      intros m HM. apply Mid_plain1; assumption. }
    dS S E10.
    2:{ apply Hdef. exact S. }
    dS S Ecopy.
    { (* <\/script> copied *)
      apply andb_true_iff in Ecopy as [Ecopy E3]. apply andb_true_iff in Ecopy as [E1 E2].
      apply Z.eqb_eq in E1. apply Z.leb_le in E2. apply bytes_eqb_eq in E3.
      cbn [skipn] in E3. destruct (r ++ [q']) as [|x t] eqn:Er; [congruence|]. cbn [at_ nth] in E1. subst x.
      apply firstn_eq_app in E3; [|reflexivity].
      remember (skipn 8 t) as t9 eqn:Ht9. clear Ht9. subst t.
      assert (Hl' : t9 <> []).
      { intros E. subst t9. zl. change (zlen script_end) with 8 in E2. lia. }
      assert (Er' : r ++ [q'] = (c_bs :: script_end) ++ t9) by exact Er.
      destruct (split_tail _ _ _ _ Er' Hl') as (r9 & Hr & Hl9).
      subst r. pose proof q_ne_bt as Hqb.
      assert (Hd9 : exists v9, decode legacy q r9 = Some v9 /\ v' = map UByte script_end ++ v9).
      { cbn [app script_end] in Hd.
        rewrite decode_id_esc in Hd by (auto; intros; reflexivity).
        rewrite !decode_plain in Hd by (auto; destruct Hq as [-> | [-> | ->]]; discriminate).
        destruct (decode legacy q r9) as [v9|]; [|discriminate]. exists v9. split; [reflexivity|].
        cbn in Hd. inversion Hd. reflexivity. }
      destruct Hd9 as (v9 & Hd9 & ->).
      assert (HG9 : Goal_ (r9 ++ [q']) v9).
      { apply IH; [|assumption]. rewrite app_length in Hlen. lia. }
      destruct HG9 as (mid9 & Es9 & HM9).
      exists ((60 :: c_bs :: script_end) ++ mid9). split.
      - eapply one_step; [discriminate|exact S| |exact Es9].
        rewrite Hl9. reflexivity.
      - cbn [app script_end map].
        apply (Mid_plain1 60); [discriminate|assumption|discriminate|discriminate|].
        apply (Mid_esc0 q' 47 [UByte 47]); [reflexivity|intros; destruct (q' =? c_bt); reflexivity|].
        repeat (apply Mid_plain; [discriminate|q3 Hq'; discriminate|discriminate|right; discriminate|]).
        exact HM9. }
    dS S Escr.
    2:{ apply Hdef. exact S. }
    (* </script> : a backslash is put in front of the slash *)
    apply bytes_eqb_eq in Escr. cbn [skipn] in Escr. apply firstn_eq_app in Escr; [|reflexivity].
    remember (skipn 8 (r ++ [q'])) as t9 eqn:Ht9. clear Ht9.
    destruct HG as (mid' & Es & HM).
    assert (Esc : exists t, scanL q' (r ++ [q']) = 47 :: t).
    { rewrite Escr. cbn [script_end app]. rewrite scanL_step by discriminate.
      rewrite step_dull by (unfold dull; q3 Hq'; repeat split; discriminate).
      cbn [fst snd skipn app]. eauto. }
    destruct Esc as (t & Esc). rewrite Es in Esc.
    destruct mid' as [|x mid'']; [cbn in Esc; inversion Esc; q3 Hq'; discriminate|].
    cbn [app] in Esc. injection Esc as Ex _. subst x.
    inversion HM as [|c t0 v Hc1' Hc2' Hc3' Hc4' HM'| |]; subst.
    exists ([60; c_bs] ++ 47 :: mid''). split.
    - eapply one_step with (r' := r); [exact Hne|exact S|reflexivity|exact Es].
    - cbn [app]. apply (Mid_plain1 60); [discriminate|assumption|discriminate|discriminate|].
      apply (Mid_esc0 q' 47 [UByte 47]); [reflexivity| |assumption].
      intros. destruct (q' =? c_bt); reflexivity.
  Qed.

  Lemma zlen_rest c1 (r2 : bytes) : zlen (c_bs :: c1 :: r2 ++ [q']) = zlen r2 + 3.
  Proof. zl. lia. Qed.

  (* escapes written as the raw character *)
  Lemma esc_simple c1 r2 v' :
    (q' = c_bt /\ c1 = 110) \/ c1 = 116 \/ c1 = 102 \/ c1 = 118 \/ c1 = 98 ->
    Goal_ (r2 ++ [q']) v' ->
    Goal_ (c_bs :: c1 :: r2 ++ [q'])
      ([UByte (if c1 =? 110 then 10 else if c1 =? 116 then 9 else if c1 =? 102 then 12 else if c1 =? 118 then 11 else 8)] ++ v').
  Proof.
    intros Hc HG.
    eapply close1 with (r' := r2); [discriminate| | |exact HG|].
    - rewrite step_bs. se (SE_simple q' Hq' (c_bs :: c1 :: r2 ++ [q'])). apply S. exact Hc.
    - reflexivity.
    - intros m HM.
      destruct Hc as [[H1 H]|Hc].
      { subst c1. cbn [Z.eqb Pos.eqb app]. apply Mid_plain; [discriminate|rewrite H1; discriminate|discriminate|auto|assumption]. }
      destruct Hc as [H|[H|[H|H]]]; subst c1; cbn [Z.eqb Pos.eqb];
        (apply Mid_plain1; [discriminate|q3 Hq'; discriminate|discriminate|discriminate|assumption]).
  Qed.

  (* line continuations *)
  Lemma esc_lf r2 v' : Goal_ (r2 ++ [q']) v' -> Goal_ (c_bs :: 10 :: r2 ++ [q']) v'.
  Proof.
    intros HG. change v' with ([] ++ v').
    eapply close1 with (r' := r2); [discriminate| | |exact HG|].
    - rewrite step_bs. se (SE_lf q' Hq' (c_bs :: 10 :: r2 ++ [q'])). apply S. reflexivity.
    - reflexivity.
    - intros m HM. exact HM.
  Qed.

  Lemma esc_cr r2 v' :
    Goal_ (match r2 with c :: r3 => if c =? 10 then r3 else r2 | [] => r2 end ++ [q']) v' ->
    Goal_ (c_bs :: 13 :: r2 ++ [q']) v'.
  Proof.
    intros HG. change v' with ([] ++ v').
    se (SE_cr q' Hq' (c_bs :: 13 :: r2 ++ [q'])). specialize (S eq_refl). rewrite <- step_bs in S.
    eapply close1; [discriminate|exact S| |exact HG|intros m HM; exact HM].
    destruct r2 as [|c r3].
    - cbn [app at_ nth]. replace (q' =? 10) with false by (q3 Hq'; reflexivity). rewrite andb_false_r. reflexivity.
    - cbn [app at_ nth]. replace (4 <=? zlen (c_bs :: 13 :: c :: r3 ++ [q'])) with true.
      + cbn [andb]. destruct (c =? 10); reflexivity.
      + symmetry. apply Z.leb_le. zl. pose proof (zlen_nonneg r3). lia.
  Qed.

  Lemma esc_ls y r4 v' : y = 168 \/ y = 169 ->
    Goal_ (r4 ++ [q']) v' -> Goal_ (c_bs :: 226 :: 128 :: y :: r4 ++ [q']) v'.
  Proof.
    intros Hy HG. change v' with ([] ++ v').
    eapply close1 with (r' := r4) (o := []); [discriminate| | |exact HG|intros m HM; exact HM].
    - rewrite step_bs. se (SE_ls q' Hq' (c_bs :: 226 :: 128 :: y :: r4 ++ [q'])). apply S; auto.
      zl. pose proof (zlen_nonneg r4). lia.
    - reflexivity.
  Qed.

  (* \xHH *)
  Lemma esc_x h1 h2 r4 v' : is_hex h1 = true -> is_hex h2 = true ->
    Goal_ (r4 ++ [q']) v' ->
    Goal_ (c_bs :: 120 :: h1 :: h2 :: r4 ++ [q']) (cp_units (hex_val h1 * 16 + hex_val h2) ++ v').
  Proof.
    intros H1 H2 HG.
    se (SE_x q' Hq' (c_bs :: 120 :: h1 :: h2 :: r4 ++ [q'])). specialize (S eq_refl). rewrite <- step_bs in S.
    dS S Ex.
    - unfold x_dec_cond in Ex. cbn [at_ nth] in Ex.
      repeat (apply andb_true_iff in Ex as [Ex ?]).
      match goal with H : (h1 <? 56) = true |- _ => apply Z.ltb_lt in H; pose proof (hex_val_low h1 H1 H) end.
      pose proof (hex_val_range h2 H2).
      rewrite cp_units_low by lia.
      eapply close1 with (r' := r4); [discriminate|exact S|reflexivity|exact HG|].
      intros m HM. apply Mid_low; [assumption|lia|assumption].
    - destruct HG as (mid' & Es & HM).
      exists (c_bs :: 120 :: [h1; h2] ++ mid'). split.
      + rewrite scanL_step by discriminate. rewrite S. cbn [fst snd skipn].
        change (h1 :: h2 :: r4 ++ [q']) with ([h1; h2] ++ (r4 ++ [q'])).
        rewrite scanL_dull; [|apply Forall_two; apply hex_dull; assumption|apply app_nonnil; discriminate].
        rewrite Es. reflexivity.
      + apply Mid_esc; [reflexivity|apply Forall_two; apply hex_inert; assumption| |assumption].
        intros lg X. unfold decode_escape. cbn [Z.eqb Pos.eqb app]. rewrite H1, H2. reflexivity.
  Qed.

  (* \u: what is written for the code point [num] *)
  Lemma rune_len_ok num : 0 <= num -> (rune_len num =? -1) = false -> is_surrogate num = false.
  Proof.
    intros H0 H. unfold rune_len in H. unfold is_surrogate.
    destruct (num <? 0) eqn:E0; [apply Z.ltb_lt in E0; lia|].
    destruct (num <? 128) eqn:E1; [apply Z.ltb_lt in E1|].
    { apply andb_false_iff. left. apply Z.leb_gt. lia. }
    destruct (num <? 2048) eqn:E2; [apply Z.ltb_lt in E2|].
    { apply andb_false_iff. left. apply Z.leb_gt. lia. }
    destruct ((55296 <=? num) && (num <=? 57343)); [discriminate|reflexivity].
  Qed.

  Lemma u_emit_spec len_eq num n : 0 <= num ->
    u_emit q' len_eq num n = keep_u \/
    exists o, u_emit q' len_eq num n = (o, n) /\
              forall m v, Mid q' m v -> Mid q' (o ++ m) (cp_units num ++ v).
  Proof.
    intros H0. unfold u_emit.
    destruct (1114111 <=? num); [left; reflexivity|].
    destruct (num =? 0) eqn:E0.
    { apply Z.eqb_eq in E0. subst num. right. eexists. split; [reflexivity|].
      intros m v HM. destruct len_eq.
      - apply Mid_zero. exact HM.
      - apply (Mid_esc q' 120 [48; 48] [UByte 0]); [reflexivity|apply Forall_two; repeat split; discriminate| |exact HM].
        intros. reflexivity. }
    apply Z.eqb_neq in E0.
    destruct (negb (num =? 13) && ((q' =? c_bt) || negb (num =? 10))) eqn:Ec.
    - destruct (rune_len num =? -1) eqn:Er; [left; reflexivity|].
      right. eexists. split; [reflexivity|]. intros m v HM.
      apply rune_len_ok in Er; [|assumption].
      apply andb_true_iff in Ec as [Ec1 Ec2]. apply negb_true_iff in Ec1. apply Z.eqb_neq in Ec1.
      destruct (num <? 128) eqn:E128.
      + apply Z.ltb_lt in E128. rewrite cp_units_low by assumption.
        assert (El : (if (num <? 256) && ((q' =? num) || (num =? c_bs)) then [c_bs] else []) ++ utf8_encode num
                     = low_emit q' num).
        { unfold utf8_encode. replace (num <? 128) with true by (symmetry; apply Z.ltb_lt; lia).
          replace (num <? 256) with true by (symmetry; apply Z.ltb_lt; lia). cbn [andb].
          unfold low_emit, escaped_form.
          replace (num =? 0) with false by (symmetry; apply Z.eqb_neq; lia).
          replace (num =? 13) with false by (symmetry; apply Z.eqb_neq; lia).
          rewrite (Z.eqb_sym q' num). rewrite (orb_comm (num =? q')).
          destruct (num =? 10) eqn:E10.
          - apply Z.eqb_eq in E10. subst num. cbn [negb orb] in Ec2. rewrite orb_false_r in Ec2. rewrite Ec2.
            apply Z.eqb_eq in Ec2. rewrite Ec2. reflexivity.
          - destruct ((num =? c_bs) || (num =? q')); reflexivity. }
        rewrite El. apply Mid_low; [assumption|lia|assumption].
      + apply Z.ltb_ge in E128. rewrite cp_units_utf8 by assumption.
        replace ((num <? 256) && ((q' =? num) || (num =? c_bs))) with false.
        * cbn [app]. apply Mid_raw; [assumption|apply utf8_high; assumption|assumption].
        * symmetry. apply andb_false_iff. right. apply orb_false_iff. split; apply Z.eqb_neq.
          -- q3 Hq'; unfold c_dq, c_sq, c_bt; lia.
          -- unfold c_bs; lia.
    - right. eexists. split; [reflexivity|]. intros m v HM.
      destruct (num =? 13) eqn:E13.
      + apply Z.eqb_eq in E13. subst num. cbn [Z.eqb Pos.eqb].
        apply (Mid_esc0 q' 114 [UByte 13]); [reflexivity|intros; reflexivity|exact HM].
      + cbn [negb andb] in Ec. apply orb_false_iff in Ec as [Ec1 Ec2].
        apply negb_false_iff in Ec2. rewrite Ec2. apply Z.eqb_eq in Ec2. subst num.
        apply (Mid_esc0 q' 110 [UByte 10]); [reflexivity|intros; rewrite Ec1; reflexivity|exact HM].
  Qed.

  (* an escape the scan leaves as it is: the backslash and the letter are written, the rest is copied *)
  Lemma keep_close c1 e r' u v' : is_dec c1 = false ->
    Forall (dull q') e -> Forall inert e ->
    (forall lg X, decode_escape lg (q' =? c_bt) (c1 :: e ++ X) = Some (u, X)) ->
    step q' (c_bs :: c1 :: e ++ r' ++ [q']) = ([c_bs; c1], 2%nat) ->
    Goal_ (r' ++ [q']) v' -> Goal_ (c_bs :: c1 :: e ++ r' ++ [q']) (u ++ v').
  Proof.
    intros Hdec Hdull Hin Hd S (mid' & Es & HM).
    exists (c_bs :: c1 :: e ++ mid'). split.
    - rewrite scanL_step by discriminate. rewrite S. cbn [fst snd skipn].
      rewrite scanL_dull; [|assumption|apply app_nonnil; discriminate].
      rewrite Es. cbn [app]. rewrite app_assoc. reflexivity.
    - apply Mid_esc; assumption.
  Qed.

  Lemma hexb_dull ds : Forall hexb ds -> Forall (dull q') ds.
  Proof. intros H. eapply Forall_impl; [|exact H]. intros a Ha. apply hex_dull; assumption. Qed.
  Lemma hexb_inert ds : Forall hexb ds -> Forall inert ds.
  Proof. intros H. eapply Forall_impl; [|exact H]. intros a Ha. apply hex_inert; assumption. Qed.

  Lemma esc_u4 ds r6 v' : Forall hexb ds -> length ds = 4%nat ->
    Goal_ (r6 ++ [q']) v' ->
    Goal_ (c_bs :: 117 :: ds ++ r6 ++ [q']) (cp_units (hex_num ds) ++ v').
  Proof.
    intros Hh Hl HG.
    assert (Hrun : forall X, hex_run 4 (ds ++ X) = ds) by (intros; rewrite <- Hl; apply hex_run_exact; assumption).
    assert (Hb2 : at_ 0 (ds ++ r6 ++ [q']) <> c_lbrace).
    { destruct ds as [|h1 ds]; [discriminate|]. inversion Hh; subst. cbn [app at_ nth].
      match goal with H : hexb h1 |- _ => apply is_hex_cases in H end. unfold c_lbrace. lia. }
    se (SE_u4 q' Hq' (c_bs :: 117 :: ds ++ r6 ++ [q']) ds). rewrite <- step_bs in S.
    specialize (S eq_refl).
    assert (Hlen : 3 <= zlen (c_bs :: 117 :: ds ++ r6 ++ [q'])).
    { zl. unfold zlen at 1. rewrite Hl. pose proof (zlen_nonneg r6). lia. }
    specialize (S Hlen Hb2 (Hrun _) Hl).
    destruct (u_emit_spec (zlen (c_bs :: 117 :: ds ++ r6 ++ [q']) =? 6) (hex_num ds) 6 (hex_num_nonneg _ Hh))
      as [Ek|(o & Eo & Ho)].
    - rewrite Ek in S. apply keep_close; try assumption; [reflexivity|apply hexb_dull; assumption|apply hexb_inert; assumption|].
      intros lg X. unfold decode_escape. cbn [Z.eqb Pos.eqb].
      destruct ds as [|h1 ds']; [discriminate|]. cbn [app].
      cbn [app at_ nth] in Hb2. apply Z.eqb_neq in Hb2. rewrite Hb2.
      change (h1 :: ds' ++ X) with ((h1 :: ds') ++ X). rewrite Hrun, Hl. cbn [Nat.eqb andb].
      rewrite (skipn_exact _ _ 4%nat Hl). reflexivity.
    - rewrite Eo in S. eapply close1 with (r' := r6); [discriminate|exact S| |exact HG|auto].
      change (skipn 6 (c_bs :: 117 :: ds ++ r6 ++ [q'])) with (skipn 4 (ds ++ r6 ++ [q'])).
      rewrite (skipn_exact _ _ 4%nat Hl). reflexivity.
  Qed.

  Lemma esc_ub ds r4 v' : Forall hexb ds -> ds <> [] -> hex_num ds <= 1114111 ->
    Goal_ (r4 ++ [q']) v' ->
    Goal_ (c_bs :: 117 :: c_lbrace :: ds ++ c_rbrace :: r4 ++ [q']) (cp_units (hex_num ds) ++ v').
  Proof.
    intros Hh Hne Hn HG.
    set (rest := c_bs :: 117 :: c_lbrace :: ds ++ c_rbrace :: r4 ++ [q']).
    assert (Hrun : hex_run (length rest) (skipn 3 rest) = ds).
    { unfold rest. cbn [skipn]. apply hex_run_stop; [assumption|reflexivity|].
      cbn [length]. rewrite app_length. lia. }
    assert (Hlen : zlen rest = 3 + Z.of_nat (length ds) + 2 + zlen r4).
    { unfold rest. zl. unfold zlen. lia. }
    assert (Hat : at_ (3 + length ds) rest = c_rbrace).
    { unfold rest, at_. cbn [Nat.add nth]. apply nth_middle. }
    se (SE_ub q' Hq' rest ds). change (step_escape q' rest) with (step q' rest) in S.
    specialize (S eq_refl). rewrite Hat in S. 
    assert (H3 : 3 <= zlen rest) by (rewrite Hlen; pose proof (zlen_nonneg r4); lia).
    specialize (S H3 eq_refl Hrun Hne).
    replace (zlen rest <=? Z.of_nat (3 + length ds)) with false in S
      by (symmetry; apply Z.leb_gt; rewrite Hlen; pose proof (zlen_nonneg r4); lia).
    change (c_rbrace =? c_rbrace) with true in S. cbn [negb] in S. rewrite !orb_false_r in S.
    assert (Hrest : rest = c_bs :: 117 :: (c_lbrace :: ds ++ [c_rbrace]) ++ r4 ++ [q']).
    { unfold rest. cbn [app]. rewrite <- app_assoc. reflexivity. }
    assert (Hkeep : step q' rest = keep_u -> Goal_ rest (cp_units (hex_num ds) ++ v')).
    { intros Sk. rewrite Hrest in *. apply keep_close; try assumption; [reflexivity| | |].
      - constructor; [unfold dull; q3 Hq'; repeat split; discriminate|].
        apply Forall_app. split; [apply hexb_dull; assumption|].
        constructor; [unfold dull; q3 Hq'; repeat split; discriminate|constructor].
      - constructor; [repeat split; discriminate|]. apply Forall_app. split; [apply hexb_inert; assumption|].
        constructor; [repeat split; discriminate|constructor].
      - intros lg X. cbn [app]. rewrite <- app_assoc. apply DE_ub; assumption. }
    dS S E6; [apply Hkeep; exact S|].
    destruct (u_emit_spec (zlen rest =? Z.of_nat (3 + length ds)) (hex_num ds) (2 + length ds + 2)
               (hex_num_nonneg _ Hh)) as [Ek|(o & Eo & Ho)].
    - apply Hkeep. rewrite S. exact Ek.
    - rewrite Eo in S. eapply close1 with (r' := r4); [discriminate|exact S| |exact HG|auto].
      unfold rest. replace (2 + length ds + 2)%nat with (Datatypes.S (Datatypes.S (Datatypes.S (length ds + 1))))%nat by lia.
      cbn [skipn]. rewrite skipn_len_app. reflexivity.
  Qed.

  (* legacy octal escapes *)
  Lemma Mid_oct num n m v : 0 <= num <= 255 -> Mid q' m v ->
    Mid q' (fst (oct_emit q' num n) ++ m) (cp_units num ++ v) /\ snd (oct_emit q' num n) = n.
  Proof.
    intros Hn HM. unfold oct_emit. destruct (128 <=? num) eqn:E.
    - apply Z.leb_le in E. split; [|reflexivity]. cbn [fst].
      rewrite cp_units_utf8.
      + apply Mid_raw; [assumption|apply utf8_high; assumption|assumption].
      + unfold is_surrogate. replace (55296 <=? num) with false by (symmetry; apply Z.leb_gt; lia). reflexivity.
    - apply Z.leb_gt in E. split; [|reflexivity]. cbn [fst]. rewrite cp_units_low by assumption.
      apply Mid_low; [assumption|lia|assumption].
  Qed.

  Lemma is_oct_range c : is_oct c = true -> 48 <= c <= 55.
  Proof. unfold is_oct. rewrite andb_true_iff, !Z.leb_le. tauto. Qed.
  Lemma is_oct_false c : is_oct c = false -> c < 48 \/ 55 < c.
  Proof. unfold is_oct. rewrite andb_false_iff, !Z.leb_gt. tauto. Qed.
  Lemma q'_not_oct : is_oct q' = false.
  Proof. q3 Hq'; reflexivity. Qed.

  Definition no_oct_next (r : bytes) : Prop := match r with [] => True | x :: _ => is_oct x = false end.
  Lemma no_oct_next_at r : no_oct_next r -> is_oct (at_ 0 (r ++ [q'])) = false.
  Proof. destruct r; [intros _; exact q'_not_oct|intros H; exact H]. Qed.

  Lemma oct_close c1 r2 num n r' v' : is_oct c1 = true ->
    (c1 = 48 -> 3 < zlen (c_bs :: c1 :: r2 ++ [q']) /\ 48 <= at_ 0 (r2 ++ [q']) <= 55) ->
    oct_parse c1 (at_ 0 (r2 ++ [q'])) (at_ 1 (r2 ++ [q'])) (zlen (c_bs :: c1 :: r2 ++ [q'])) = (num, n) ->
    0 <= num <= 255 -> skipn n (c_bs :: c1 :: r2 ++ [q']) = r' ++ [q'] ->
    Goal_ (r' ++ [q']) v' -> Goal_ (c_bs :: c1 :: r2 ++ [q']) (cp_units num ++ v').
  Proof.
    intros Ho H48 Hp Hn Hk HG.
    se (SE_oct q' Hq' (c_bs :: c1 :: r2 ++ [q'])). rewrite <- step_bs in S. specialize (S Ho H48).
    rewrite Hp in S.
    eapply close1 with (r' := r') (o := fst (oct_emit q' num n)) (n := n); [discriminate| |exact Hk|exact HG|].
    - rewrite S. destruct (oct_emit q' num n) as [o k] eqn:E.
      pose proof (Mid_oct num n [] [] Hn (Mid_nil q')) as [_ Hs]. rewrite E in Hs. cbn in Hs. subst k. reflexivity.
    - intros m HM. apply (Mid_oct num n m v' Hn HM).
  Qed.

  Lemma oct3 c1 d2 d3 r4 v' : is_oct c1 = true -> c1 <= 51 -> is_oct d2 = true -> is_oct d3 = true ->
    Goal_ (r4 ++ [q']) v' ->
    Goal_ (c_bs :: c1 :: (d2 :: d3 :: r4) ++ [q']) (cp_units (((c1 - 48) * 8 + (d2 - 48)) * 8 + (d3 - 48)) ++ v').
  Proof.
    intros H1 H1' H2 H3 HG.
    pose proof (is_oct_rng _ H1). pose proof (is_oct_rng _ H2). pose proof (is_oct_rng _ H3).
    pose proof (zlen_nonneg r4).
    eapply oct_close with (r' := r4); [exact H1| | | | |exact HG].
    - intros _. cbn [app at_ nth]. split; [zl; lia|lia].
    - cbn [app at_ nth]. apply oct_parse3; try assumption. zl. lia.
    - lia.
    - reflexivity.
  Qed.

  Lemma oct2 c1 d2 r3 v' : is_oct c1 = true -> is_oct d2 = true -> (51 < c1 \/ no_oct_next r3) ->
    Goal_ (r3 ++ [q']) v' ->
    Goal_ (c_bs :: c1 :: (d2 :: r3) ++ [q']) (cp_units ((c1 - 48) * 8 + (d2 - 48)) ++ v').
  Proof.
    intros H1 H2 H3 HG.
    pose proof (is_oct_rng _ H1). pose proof (is_oct_rng _ H2). pose proof (zlen_nonneg r3).
    eapply oct_close with (r' := r3); [exact H1| | | | |exact HG].
    - intros _. cbn [app at_ nth]. split; [zl; lia|lia].
    - cbn [app at_ nth]. apply oct_parse2; try assumption; [zl; lia|].
      destruct H3 as [H3|H3]; [left; assumption|]. right. right.
      change (nth 0 (r3 ++ [q']) 0) with (at_ 0 (r3 ++ [q'])). apply no_oct_next_at. assumption.
    - lia.
    - reflexivity.
  Qed.

  Lemma oct1 c1 r2 v' : is_oct c1 = true -> c1 <> 48 -> no_oct_next r2 ->
    Goal_ (r2 ++ [q']) v' ->
    Goal_ (c_bs :: c1 :: r2 ++ [q']) (cp_units (c1 - 48) ++ v').
  Proof.
    intros H1 H1' H2 HG.
    pose proof (is_oct_rng _ H1).
    eapply oct_close with (r' := r2); [exact H1| | | | |exact HG].
    - intros E. congruence.
    - apply oct_parse1. right. apply no_oct_next_at. assumption.
    - lia.
    - reflexivity.
  Qed.

  Lemma zero_keep r2 v' : no_oct_next r2 ->
    Goal_ (r2 ++ [q']) v' -> Goal_ (c_bs :: 48 :: r2 ++ [q']) ([UByte 0] ++ v').
  Proof.
    intros H2 HG.
    eapply close1 with (r' := r2) (n := 2%nat) (o := [c_bs; 48]); [discriminate| |reflexivity|exact HG|].
    - rewrite step_bs. se (SE_zero q' (c_bs :: 48 :: r2 ++ [q'])). apply S; [reflexivity|].
      right. apply no_oct_next_at in H2. apply is_oct_false in H2. exact H2.
    - intros m HM. apply Mid_zero. exact HM.
  Qed.

  (* an unnecessary backslash is dropped; the character is then treated as plain text *)
  Lemma esc_other n c1 r2 v' : IHP n -> (length r2 <= n)%nat -> decode legacy q r2 = Some v' ->
    c1 <> q' -> c1 <> 92 -> c1 <> 114 -> c1 <> 110 -> is_oct c1 = false -> c1 <> 10 -> c1 <> 13 ->
    ls_cond (c_bs :: c1 :: r2 ++ [q']) = false ->
    c1 <> 120 -> c1 <> 117 -> c1 <> 116 -> c1 <> 102 -> c1 <> 118 -> c1 <> 98 ->
    Goal_ (c_bs :: c1 :: r2 ++ [q']) ([UByte c1] ++ v').
  Proof.
    intros IH Hlen Hd. intros.
    se (SE_other q' (c_bs :: c1 :: r2 ++ [q'])). rewrite <- step_bs in S.
    assert (S' : step q' (c_bs :: c1 :: r2 ++ [q']) = ([], 1%nat)) by (apply S; assumption).
    destruct (plain_case n c1 r2 v' IH Hlen Hd) as (mid & Es & HM); try assumption.
    exists mid. split; [|exact HM].
    rewrite scanL_step by discriminate. rewrite S'. exact Es.
  Qed.

  Lemma is_dec_not_oct c : is_dec c = true -> is_oct c = false -> c = 56 \/ c = 57.
  Proof. intros H1 H2. apply is_dec_rng in H1. apply is_oct_false in H2. lia. Qed.
  Lemma not_dec_not_oct c : is_dec c = false -> is_oct c = false.
  Proof.
    unfold is_dec, is_oct. rewrite !andb_false_iff, !Z.leb_gt. intros [H|H]; [left; lia|right; lia].
  Qed.

  Lemma esc_89 n c1 r2 v' : IHP n -> (length r2 <= n)%nat -> decode legacy q r2 = Some v' ->
    c1 = 56 \/ c1 = 57 -> Goal_ (c_bs :: c1 :: r2 ++ [q']) ([UByte c1] ++ v').
  Proof.
    intros IH Hlen Hd Hc.
    apply (esc_other n c1 r2 v' IH Hlen Hd);
      try (destruct Hc; subst c1; q3 Hq'; (discriminate || reflexivity)).
  Qed.

  Lemma esc_digit n c1 r2 u r' v' : IHP n -> (length r2 <= n)%nat -> is_dec c1 = true ->
    decode_escape legacy false (c1 :: r2) = Some (u, r') -> decode legacy q r' = Some v' ->
    Goal_ (r' ++ [q']) v' -> Goal_ (c_bs :: c1 :: r2 ++ [q']) (u ++ v').
  Proof.
    intros IH Hlen Hdec Ee Hd HG.
    rewrite DE_digit in Ee by assumption. unfold digit_escape in Ee. cbv zeta in Ee.
    pose proof (is_dec_rng _ Hdec) as Hrng.
    destruct ((c1 =? 48) && negb (match r2 with [] => false | _ => true end && is_dec (at_ 0 r2))) eqn:Ez.
    { (* \0 not followed by a digit *)
      apply andb_true_iff in Ez as [Ez1 Ez2]. apply Z.eqb_eq in Ez1. subst c1.
      inversion Ee; subst. apply zero_keep; [|assumption].
      destruct r' as [|d2 r3]; [exact I|]. cbn [at_ nth andb negb] in Ez2. apply negb_true_iff in Ez2.
      apply not_dec_not_oct. assumption. }
    destruct (false || negb legacy) eqn:El; [discriminate|].
    destruct ((c1 =? 56) || (c1 =? 57)) eqn:E89.
    { inversion Ee; subst. apply orb_true_iff in E89. rewrite !Z.eqb_eq in E89.
      eapply esc_89; eauto. }
    apply orb_false_iff in E89 as [E8 E9]. apply Z.eqb_neq in E8, E9.
    assert (Hoct : is_oct c1 = true).
    { unfold is_oct. apply andb_true_iff. rewrite !Z.leb_le. lia. }
    destruct r2 as [|d2 r3].
    { (* nothing follows *)
      cbn [andb] in Ee. inversion Ee; subst.
      apply oct1; [assumption| |exact I|assumption].
      intros E. subst c1. discriminate. }
    cbn [at_ nth andb] in Ee, Ez.
    destruct (is_oct d2) eqn:Eo2.
    - destruct r3 as [|d3 r4].
      + rewrite andb_false_r in Ee. cbn [andb] in Ee. inversion Ee; subst. cbn [skipn].
        apply oct2; try assumption. right. exact I.
      + cbn [nth] in Ee. rewrite andb_true_r in Ee.
        match type of Ee with (if ?b then _ else _) = _ => destruct b eqn:E3 end.
        * apply andb_true_iff in E3 as [E3a E3b]. apply Z.leb_le in E3a.
          inversion Ee; subst. cbn [skipn]. apply oct3; assumption.
        * inversion Ee; subst. cbn [skipn]. apply oct2; try assumption.
          apply andb_false_iff in E3 as [E3|E3]; [left; apply Z.leb_gt in E3; lia|right; exact E3].
    - inversion Ee; subst.
      destruct (Z.eq_dec c1 48) as [E48|N48].
      + subst c1. change (cp_units (48 - 48)) with [UByte 0]. apply zero_keep; [exact Eo2|assumption].
      + apply oct1; assumption.
  Qed.

  Lemma ls_equiv c1 r2 :
    ls_cond (c_bs :: c1 :: r2 ++ [q']) =
    (c1 =? 226) && (at_ 0 r2 =? 128) && ((at_ 1 r2 =? 168) || (at_ 1 r2 =? 169)) && (2 <=? zlen r2).
  Proof.
    unfold ls_cond. cbn [at_ nth].
    destruct r2 as [|x [|y r4]].
    - cbn. rewrite !andb_false_r. reflexivity.
    - cbn. rewrite !andb_false_r. reflexivity.
    - cbn [app at_ nth].
      replace (5 <=? zlen (c_bs :: c1 :: x :: y :: r4 ++ [q'])) with true
        by (symmetry; apply Z.leb_le; zl; pose proof (zlen_nonneg r4); lia).
      replace (2 <=? zlen (x :: y :: r4)) with true
        by (symmetry; apply Z.leb_le; zl; pose proof (zlen_nonneg r4); lia).
      destruct (c1 =? 226), (x =? 128), ((y =? 168) || (y =? 169)); reflexivity.
  Qed.

  Lemma escape_case n r u r' v' : IHP n -> (length r <= n)%nat ->
    decode_escape legacy false r = Some (u, r') -> decode legacy q r' = Some v' ->
    Goal_ (c_bs :: r ++ [q']) (u ++ v').
  Proof.
    intros IH Hlen Ee Hd. destruct r as [|c1 r2]; [discriminate|].
    pose proof (decode_escape_shorter _ _ _ _ _ Ee) as Hs. cbn [length] in Hs, Hlen.
    assert (HG : Goal_ (r' ++ [q']) v') by (apply IH; [lia|assumption]).
    assert (Hlen2 : (length r2 <= n)%nat) by lia.
    cbn [app].
    destruct (is_dec c1) eqn:Edec; [eapply esc_digit; eauto|].
    destruct (Z.eq_dec c1 q') as [E|Nq'].
    { subst c1. assert (Ee' : u = [UByte q'] /\ r' = r2).
      { revert Ee. q3 Hq'; cbn; intros Ee; inversion Ee; auto. }
      destruct Ee' as [-> ->]. apply esc_keep; [auto| |assumption|assumption].
      intros. q3 Hq'; reflexivity. }
    destruct (Z.eq_dec c1 92) as [E|N92].
    { subst c1. cbn in Ee. inversion Ee; subst. apply esc_keep; [auto| |reflexivity|assumption].
      intros. reflexivity. }
    destruct (Z.eq_dec c1 114) as [E|N114].
    { subst c1. cbn in Ee. inversion Ee; subst. apply esc_keep; [auto| |reflexivity|assumption].
      intros. reflexivity. }
    destruct (Z.eq_dec c1 110) as [E|N110].
    { subst c1. cbn in Ee. inversion Ee; subst.
      destruct (Z.eq_dec q' c_bt) as [Eb|Nb].
      - apply (esc_simple 110); [left; auto|assumption].
      - apply esc_keep; [right; right; right; auto| |reflexivity|assumption].
        intros. apply Z.eqb_neq in Nb. rewrite Nb. reflexivity. }
    destruct (Z.eq_dec c1 116) as [E|N116].
    { subst c1. cbn in Ee. inversion Ee; subst. apply (esc_simple 116); [auto|assumption]. }
    destruct (Z.eq_dec c1 102) as [E|N102].
    { subst c1. cbn in Ee. inversion Ee; subst. apply (esc_simple 102); [auto|assumption]. }
    destruct (Z.eq_dec c1 118) as [E|N118].
    { subst c1. cbn in Ee. inversion Ee; subst. apply (esc_simple 118); [auto 6|assumption]. }
    destruct (Z.eq_dec c1 98) as [E|N98].
    { subst c1. cbn in Ee. inversion Ee; subst. apply (esc_simple 98); [auto 6|assumption]. }
    destruct (Z.eq_dec c1 10) as [E|N10].
    { subst c1. cbn in Ee. inversion Ee; subst. apply esc_lf. assumption. }
    destruct (Z.eq_dec c1 13) as [E|N13].
    { subst c1. unfold decode_escape in Ee. cbn [Z.eqb Pos.eqb andb] in Ee. inversion Ee; subst.
      apply esc_cr. assumption. }
    destruct (Z.eq_dec c1 120) as [E|N120].
    { subst c1. unfold decode_escape in Ee. cbn [Z.eqb Pos.eqb andb] in Ee.
      destruct r2 as [|h1 [|h2 r4]]; try discriminate.
      destruct (is_hex h1 && is_hex h2) eqn:Eh; [|discriminate]. apply andb_true_iff in Eh as [Eh1 Eh2].
      inversion Ee; subst. apply esc_x; assumption. }
    destruct (Z.eq_dec c1 117) as [E|N117].
    { subst c1. unfold decode_escape in Ee. cbn [Z.eqb Pos.eqb andb] in Ee.
      destruct r2 as [|c r3]; [discriminate|].
      destruct (c =? c_lbrace) eqn:Ebr.
      - apply Z.eqb_eq in Ebr. subst c. cbv zeta in Ee.
        pose proof (hex_run_prefix (length r3) r3) as Hp. pose proof (hex_run_hex (length r3) r3) as Hh.
        remember (hex_run (length r3) r3) as ds eqn:Hds. clear Hds.
        destruct ds as [|d ds]; [discriminate|].
        destruct (skipn (length (d :: ds)) r3) as [|e r4] eqn:Esk; [discriminate|].
        destruct ((e =? c_rbrace) && (hex_num (d :: ds) <=? 1114111)) eqn:Ec; [|discriminate].
        apply andb_true_iff in Ec as [Ec1 Ec2]. apply Z.eqb_eq in Ec1. apply Z.leb_le in Ec2. subst e.
        injection Ee as <- <-. rewrite Hp. rewrite <- app_comm_cons, <- app_assoc.
        apply (esc_ub (d :: ds)); [assumption|discriminate|assumption|assumption].
      - cbv zeta in Ee.
        pose proof (hex_run_prefix 4 (c :: r3)) as Hp. pose proof (hex_run_hex 4 (c :: r3)) as Hh.
        remember (hex_run 4 (c :: r3)) as ds eqn:Hds. clear Hds.
        destruct (Nat.eqb (length ds) 4) eqn:El; [|discriminate]. apply Nat.eqb_eq in El.
        injection Ee as <- <-. rewrite El in Hp. rewrite Hp at 1. rewrite <- app_assoc.
        apply esc_u4; assumption. }
    destruct ((c1 =? 226) && (at_ 0 r2 =? 128) && ((at_ 1 r2 =? 168) || (at_ 1 r2 =? 169)) && (2 <=? zlen r2)) eqn:Els.
    { apply andb_true_iff in Els as [Els E4]. apply andb_true_iff in Els as [Els E3].
      apply andb_true_iff in Els as [E1 E2]. apply Z.eqb_eq in E1, E2. subst c1.
      unfold decode_escape in Ee. cbn [Z.eqb Pos.eqb] in Ee. rewrite E2, E3, E4 in Ee. cbn in Ee.
      destruct r2 as [|x [|y r4]]; try (cbn in E4; discriminate).
      cbn [at_ nth] in E2, E3. subst x. apply orb_true_iff in E3. rewrite !Z.eqb_eq in E3.
      inversion Ee; subst. apply esc_ls; assumption. }
    assert (Hoct : is_oct c1 = false) by (apply not_dec_not_oct; assumption).
    rewrite DE_other in Ee by assumption. inversion Ee; subst.
    eapply esc_other; eauto. rewrite ls_equiv. exact Els.
  Qed.

  Lemma scan_mid_all : forall n, IHP n.
  Proof.
    induction n as [|n IH]; intros body v Hlen Hd.
    - destruct body; [|cbn in Hlen; lia]. cbn in Hd. inversion Hd; subst.
      exists []. split; [reflexivity|constructor].
    - destruct body as [|c r].
      { cbn in Hd. inversion Hd; subst. exists []. split; [reflexivity|constructor]. }
      cbn [length] in Hlen. assert (Hlen' : (length r <= n)%nat) by lia.
      rewrite decode_cons in Hd. unfold decode_step in Hd.
      pose proof q_ne_bt as Hqb. apply Z.eqb_neq in Hqb. rewrite Hqb in Hd.
      destruct (c =? c_bs) eqn:Ec.
      + apply Z.eqb_eq in Ec. subst c.
        destruct (decode_escape legacy false r) as [[u r']|] eqn:Ee; [|discriminate].
        destruct (decode legacy q r') as [v'|] eqn:Ed'; [|discriminate]. inversion Hd; subst.
        cbn [app]. eapply escape_case; eauto.
      + destruct (c =? q); [discriminate|].
        destruct ((c =? 10) || (c =? 13)) eqn:Enl; [discriminate|].
        destruct (decode legacy q r) as [v'|] eqn:Ed'; [|discriminate]. inversion Hd; subst.
        apply orb_false_iff in Enl as [E10 E13]. apply Z.eqb_neq in Ec, E10, E13.
        cbn [app]. eapply plain_case; eauto.
  Qed.
End ScanMid.

Lemma scan_mid q q' legacy : (q = c_dq \/ q = c_sq) -> (q' = c_dq \/ q' = c_sq \/ q' = c_bt) ->
  forall n body v, (length body <= n)%nat -> decode legacy q body = Some v ->
  exists mid, scanL q' (body ++ [q']) = mid ++ [q'] /\ Mid q' mid v.
Proof. intros Hq Hq' n. apply (scan_mid_all q q' legacy); tauto. Qed.

(* the same for a raw body: an unescaped quote of either kind is an ordinary character of the input; the scan escapes
   the ones that equal the target delimiter *)
Lemma scan_mid_raw q' legacy : (q' = c_dq \/ q' = c_sq \/ q' = c_bt) ->
  forall n body v, (length body <= n)%nat -> decode_raw legacy body = Some v ->
  exists mid, scanL q' (body ++ [q']) = mid ++ [q'] /\ Mid q' mid v.
Proof. intros Hq' n. apply (scan_mid_all q_none q' legacy); tauto. Qed.

(* ---------- the top level ---------- *)
Lemma choose_quote_cases c tmpl :
  choose_quote c tmpl = c_dq \/ choose_quote c tmpl = c_sq \/ (tmpl = true /\ choose_quote c tmpl = c_bt).
Proof.
  unfold choose_quote.
  destruct (n_dq c <? n_sq c); [|destruct (n_sq c <? n_dq c)];
  (destruct tmpl; cbn [andb]; [destruct (_ <? _)|]; auto).
Qed.

(* the core statement: for an ARBITRARY target delimiter q' (and whatever the delimiter q of the input was), rewriting a
   valid body keeps its value, and the result is valid in strict-mode as well as in sloppy-mode code (any [lg]) *)
Theorem replace_escapes_value : forall q q' body legacy lg v,
  (q = c_dq \/ q = c_sq) -> (q' = c_dq \/ q' = c_sq \/ q' = c_bt) ->
  decode legacy q body = Some v ->
  exists body', replace_escapes (literal q' body) q' = literal q' body' /\ decode lg q' body' = Some v.
Proof.
  intros q q' body legacy lg v Hq Hq' Hd.
  destruct (scan_mid q q' legacy Hq Hq' (length body) body v (le_n _) Hd) as (mid & Es & HM).
  destruct (post_pass_mid q' Hq' lg mid v HM) as (body' & Ep & Dp & _).
  exists body'. split; [|assumption].
  unfold replace_escapes, literal. fold (scanL q' (body ++ [q'])). rewrite Es, Ep. reflexivity.
Qed.

Theorem minify_string_value : forall q body tmpl legacy v,
  (q = c_dq \/ q = c_sq) ->
  bytes_ok body ->
  decode legacy q body = Some v ->
  exists q' body',
    minify_string (literal q body) tmpl = literal q' body' /\
    (q' = c_dq \/ q' = c_sq \/ (tmpl = true /\ q' = c_bt)) /\
    decode (legacy && negb (q' =? c_bt)) q' body' = Some v.
Proof.
  intros q body tmpl legacy v Hq _ Hd.
  destruct body as [|c r].
  - exists c_dq, []. cbn in Hd. inversion Hd; subst. split; [reflexivity|]. split; [auto|reflexivity].
  - unfold minify_string, literal.
    assert (Hl : zlen (q :: (c :: r) ++ [q]) <? 3 = false).
    { apply Z.ltb_ge. rewrite zlen_cons, zlen_app, zlen_cons, zlen_cons. pose proof (zlen_nonneg r). pose proof (@zlen_nonneg byte []). lia. }
    rewrite Hl. rewrite removelast_last.
    set (q' := choose_quote _ tmpl).
    assert (Hq' : q' = c_dq \/ q' = c_sq \/ (tmpl = true /\ q' = c_bt)) by apply choose_quote_cases.
    assert (Hq'3 : q' = c_dq \/ q' = c_sq \/ q' = c_bt) by tauto.
    destruct (scan_mid q q' legacy Hq Hq'3 (length (c :: r)) (c :: r) v (le_n _) Hd) as (mid & Es & HM).
    destruct (post_pass_mid q' Hq'3 (legacy && negb (q' =? c_bt)) mid v HM) as (body' & Ep & Dp & _).
    exists q', body'. split; [|split; assumption].
    unfold replace_escapes. fold (scanL q' ((c :: r) ++ [q'])). rewrite Es, Ep. reflexivity.
Qed.

Print Assumptions replace_escapes_value.
Print Assumptions minify_string_value.
