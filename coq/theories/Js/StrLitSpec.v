(* Js/StrLitSpec.v — specification side for JavaScript string literals (ECMA-262 12.9.4 String Literals, 12.9.6 Template
   Literal Lexical Components, Annex B.1.2 legacy octal escapes): the string value (SV / cooked TV) of the characters between
   the delimiters, as a list of units: a byte of the UTF-8 encoding of a code point, or a lone surrogate code unit written
   as a \u escape (the only code units UTF-8 cannot carry).  A code point escape and the same character written raw in
   the (UTF-8) source have the same units, which is what makes "decode the escape" a value-preserving rewrite.
   [decode legacy q body] is None when the characters are not a valid literal body for delimiter q:
     q = double or single quote: no unescaped q, no raw LF / CR; with legacy = false (strict mode code) no legacy octal escape, no \8 \9;
     q = backtick (a template without substitutions): no unescaped backtick, no unescaped ${, never a legacy escape;
       a raw CR or CRLF counts as LF. *)
From MV Require Import Base.MvBytes.
From MV Require Import Js.StrLit.

Inductive unit := UByte (b : byte) | USurr (n : Z).

Definition is_surrogate (n : Z) : bool := (55296 <=? n) && (n <=? 57343).
Definition cp_units (n : Z) : list unit := if is_surrogate n then [USurr n] else map UByte (utf8_encode n).
Definition is_dec (c : byte) : bool := (48 <=? c) && (c <=? 57).

(* after a backslash: the units and the rest of the input *)
Definition decode_escape (legacy template : bool) (r : bytes) : option (list unit * bytes) :=
  match r with
  | [] => None
  | c1 :: r2 =>
    if c1 =? 98 then Some ([UByte 8], r2)
    else if c1 =? 102 then Some ([UByte 12], r2)
    else if c1 =? 110 then Some ([UByte 10], r2)
    else if c1 =? 114 then Some ([UByte 13], r2)
    else if c1 =? 116 then Some ([UByte 9], r2)
    else if c1 =? 118 then Some ([UByte 11], r2)
    else if c1 =? 10 then Some ([], r2)                                    (* line continuations *)
    else if c1 =? 13 then Some ([], match r2 with c :: r3 => if c =? 10 then r3 else r2 | [] => r2 end)
    else if (c1 =? 226) && (at_ 0 r2 =? 128) && ((at_ 1 r2 =? 168) || (at_ 1 r2 =? 169)) && (2 <=? zlen r2)
      then Some ([], skipn 2 r2)
    else if c1 =? 120 then                                                 (* \xHH *)
      match r2 with
      | h1 :: h2 :: r4 => if is_hex h1 && is_hex h2 then Some (cp_units (hex_val h1 * 16 + hex_val h2), r4) else None
      | _ => None
      end
    else if c1 =? 117 then                                                 (* \uHHHH, \u{H+} *)
      match r2 with
      | c :: r3 =>
        if c =? c_lbrace then
          let ds := hex_run (length r3) r3 in
          let rest := skipn (length ds) r3 in
          match ds, rest with
          | _ :: _, e :: r4 => if (e =? c_rbrace) && (hex_num ds <=? 1114111) then Some (cp_units (hex_num ds), r4) else None
          | _, _ => None
          end
        else
          let ds := hex_run 4 r2 in
          if Nat.eqb (length ds) 4 then Some (cp_units (hex_num ds), skipn 4 r2) else None
      | [] => None
      end
    else if is_dec c1 then
      let d2 := at_ 0 r2 in let d3 := at_ 1 r2 in
      let has2 := match r2 with [] => false | _ => true end in
      let has3 := match r2 with _ :: _ :: _ => true | _ => false end in
      if (c1 =? 48) && negb (has2 && is_dec d2) then Some ([UByte 0], r2)  (* \0 not followed by a digit *)
      else if template || negb legacy then None
      else if (c1 =? 56) || (c1 =? 57) then Some ([UByte c1], r2)            (* \8 \9 *)
      else if has2 && is_oct d2 then
        if (c1 <=? 51) && has3 && is_oct d3
        then Some (cp_units (((c1 - 48) * 8 + (d2 - 48)) * 8 + (d3 - 48)), skipn 2 r2)
        else Some (cp_units ((c1 - 48) * 8 + (d2 - 48)), skipn 1 r2)
      else Some (cp_units (c1 - 48), r2)                                   (* one octal digit (a 0 here is followed by 8 / 9) *)
    else Some ([UByte c1], r2)                                             (* any other character stands for itself *)
  end.

Fixpoint decode_fuel (fuel : nat) (legacy : bool) (q : byte) (l : bytes) : option (list unit) :=
  match fuel with
  | O => match l with [] => Some [] | _ => None end
  | S k =>
    match l with
    | [] => Some []
    | c :: r =>
      let template := q =? c_bt in
      if c =? c_bs then
        match decode_escape legacy template r with
        | Some (u, r') => match decode_fuel k legacy q r' with Some v => Some (u ++ v) | None => None end
        | None => None
        end
      else if c =? q then None
      else if template then
        if (c =? c_dollar) && (at_ 0 r =? c_lbrace) && (1 <=? zlen r) then None
        else if c =? 13 then
          match decode_fuel k legacy q (match r with c2 :: r2 => if c2 =? 10 then r2 else r | [] => r end) with
          | Some v => Some (UByte 10 :: v) | None => None end
        else match decode_fuel k legacy q r with Some v => Some (UByte c :: v) | None => None end
      else if (c =? 10) || (c =? 13) then None
      else match decode_fuel k legacy q r with Some v => Some (UByte c :: v) | None => None end
    end
  end.
Definition decode (legacy : bool) (q : byte) (body : bytes) : option (list unit) := decode_fuel (length body) legacy q body.

(* a literal = delimiter, body, the same delimiter *)
Definition literal (q : byte) (body : bytes) : bytes := q :: body ++ [q].
