(* Json/JsonLength.v — the minified document is never longer than the compact rendering of the same tree with the
   original number lexemes: Number(text, 0) does not lengthen a lexeme, and the JSON repair of ".5" falls back to the
   input when the inserted zero would (7E-3 -> .007 -> 0.007 is written as 7E-3). *)
From MV Require Import Base.MvBytes Num.NumModel Num.NumSpec Num.NumProofs Num.NumberLemmas Num.NumberProofs
  Json.JsonModel Json.JsonSpec Json.JsonProofs Json.JsonNumber.

(* every number lexeme of the tree is in the number grammar and within the size bound of number0 *)
Fixpoint nums_ok (v : jvalue) : Prop :=
  match v with
  | JLit _ => True
  | JStr _ => True
  | JNum l => (exists p, lex_number l = Some p) /\ zlen l <= 10 ^ 25
  | JArr vs => (fix all (l : list jvalue) : Prop := match l with [] => True | x :: r => nums_ok x /\ all r end) vs
  | JObj ms => (fix all (l : list (bytes * jvalue)) : Prop :=
                  match l with [] => True | kv :: r => nums_ok (snd kv) /\ all r end) ms
  end.

Lemma zlen_le_length {A} (a b : list A) : zlen a <= zlen b -> (length a <= length b)%nat.
Proof. unfold zlen. lia. Qed.

(* ---------- one number ---------- *)
Lemma num_text_not_longer : forall l p, lex_number l = Some p -> starts_number l = true -> zlen l <= 10 ^ 25 ->
  (length (num_text false l) <= length l)%nat.
Proof.
  intros l p Hlex Hst Hlen.
  pose proof (zlen_le_length _ _ (number0_not_longer l p Hlex Hlen)) as H0.
  destruct (num_text_cases l Hst) as [E | [[E Er] | [E Hfit]]]; rewrite E.
  - apply Nat.le_refl.
  - rewrite Er. exact H0.
  - eapply Nat.le_trans; [apply repair_length | exact Hfit].
Qed.

(* ---------- monotonicity of the rendering ---------- *)
Lemma sepby_le s xs ys : Forall2 (fun a b : bytes => (length a <= length b)%nat) xs ys ->
  (length (sepby s xs) <= length (sepby s ys))%nat.
Proof.
  induction 1 as [|x y xs ys Hxy Hr IH]; [apply Nat.le_refl|].
  destruct Hr as [|x' y' xs' ys' Hxy' Hr'].
  - cbn [sepby]. exact Hxy.
  - change (sepby s (x :: x' :: xs')) with (x ++ s ++ sepby s (x' :: xs')).
    change (sepby s (y :: y' :: ys')) with (y ++ s ++ sepby s (y' :: ys')).
    rewrite !app_length. lia.
Qed.

Definition shrinks (v : jvalue) : Prop :=
  wf_jvalue v -> nums_ok v -> (length (compact (num_text false) v) <= length (compact (fun l => l) v))%nat.

Lemma elems_le vs : Forall shrinks vs ->
  (fix all (l : list jvalue) : Prop := match l with [] => True | x :: r => wf_jvalue x /\ all r end) vs ->
  (fix all (l : list jvalue) : Prop := match l with [] => True | x :: r => nums_ok x /\ all r end) vs ->
  Forall2 (fun a b : bytes => (length a <= length b)%nat)
    (map (compact (num_text false)) vs) (map (compact (fun l => l)) vs).
Proof.
  induction 1 as [|v vs Hv Hvs IH]; intros Hwf Hok; cbn [map]; [constructor|].
  destruct Hwf as [Hw1 Hw2]. destruct Hok as [Ho1 Ho2].
  constructor; [exact (Hv Hw1 Ho1) | exact (IH Hw2 Ho2)].
Qed.

Lemma members_le ms : Forall (fun kv : bytes * jvalue => shrinks (snd kv)) ms ->
  (fix all (l : list (bytes * jvalue)) : Prop :=
     match l with [] => True | kv :: r => starts_number (fst kv) = false /\ wf_jvalue (snd kv) /\ all r end) ms ->
  (fix all (l : list (bytes * jvalue)) : Prop :=
     match l with [] => True | kv :: r => nums_ok (snd kv) /\ all r end) ms ->
  Forall2 (fun a b : bytes => (length a <= length b)%nat)
    (map (fun kv : bytes * jvalue => fst kv ++ [58] ++ compact (num_text false) (snd kv)) ms)
    (map (fun kv : bytes * jvalue => fst kv ++ [58] ++ compact (fun l => l) (snd kv)) ms).
Proof.
  induction 1 as [|kv ms Hv Hvs IH]; intros Hwf Hok; cbn [map]; [constructor|].
  destruct Hwf as (_ & Hw1 & Hw2). destruct Hok as [Ho1 Ho2].
  constructor; [|exact (IH Hw2 Ho2)].
  assert (Hle : (length (compact (num_text false) (snd kv)) <= length (compact (fun l => l) (snd kv)))%nat)
    by exact (Hv Hw1 Ho1).
  rewrite !app_length. do 2 apply Nat.add_le_mono_l. exact Hle.
Qed.

Lemma compact_shrinks v : shrinks v.
Proof.
  induction v as [l|l|l|vs IH|ms IH] using jvalue_ind'; intros Hwf Hok.
  - cbn [compact]. apply Nat.le_refl.
  - cbn [compact]. cbn [wf_jvalue] in Hwf. cbn [nums_ok] in Hok. destruct Hok as [[p Hlex] Hlen].
    exact (num_text_not_longer l p Hlex Hwf Hlen).
  - cbn [compact]. apply Nat.le_refl.
  - cbn [compact]. rewrite !app_length. apply Nat.add_le_mono_l, Nat.add_le_mono_r.
    exact (sepby_le [44] _ _ (elems_le vs IH Hwf Hok)).
  - cbn [compact]. rewrite !app_length. apply Nat.add_le_mono_l, Nat.add_le_mono_r.
    exact (sepby_le [44] _ _ (members_le ms IH Hwf Hok)).
Qed.

(* ---------- the whole document ---------- *)
Theorem json_never_longer : forall v, wf_jvalue v -> nums_ok v ->
  (length (json_minify_events false (events_of SValue v)) <= length (compact (fun l => l) v))%nat.
Proof.
  intros v Hwf Hok. rewrite json_minify_compact by exact Hwf. exact (compact_shrinks v Hwf Hok).
Qed.

(* ---------- non-vacuity ---------- *)
(* the old counterexample: 7E-3 -> .007 -> 0.007 (5 bytes) is now written as 7E-3 *)
Example fallback_7Em3 : json_minify_events false (events_of SValue (JNum [55;69;45;51])) = [55;69;45;51].
Proof. vm_compute. reflexivity. Qed.

Example fallback_7Em3_hyps : wf_jvalue (JNum [55;69;45;51]) /\ nums_ok (JNum [55;69;45;51]).
Proof.
  split; [reflexivity|]. cbn [nums_ok]. split.
  - eexists. vm_compute. reflexivity.
  - vm_compute. discriminate.
Qed.

(* the repair still fires when it fits: 0.5000 -> .5 -> 0.5 *)
Example repair_0p5000 : json_minify_events false (events_of SValue (JNum [48;46;53;48;48;48])) = [48;46;53].
Proof. vm_compute. reflexivity. Qed.

Example repair_0p5000_hyps : wf_jvalue (JNum [48;46;53;48;48;48]) /\ nums_ok (JNum [48;46;53;48;48;48]).
Proof.
  split; [reflexivity|]. cbn [nums_ok]. split.
  - eexists. vm_compute. reflexivity.
  - vm_compute. discriminate.
Qed.

(* a nested document: [7E-3,{"a":0.5000}] -> [7E-3,{"a":0.5}] *)
Example nested_doc :
  json_minify_events false (events_of SValue
    (JArr [JNum [55;69;45;51]; JObj [([34;97;34], JNum [48;46;53;48;48;48])]])) =
  [91; 55;69;45;51; 44; 123; 34;97;34; 58; 48;46;53; 125; 93].
Proof. vm_compute. reflexivity. Qed.

Print Assumptions num_text_not_longer.
Print Assumptions json_never_longer.
Print Assumptions fallback_7Em3.
Print Assumptions repair_0p5000.
