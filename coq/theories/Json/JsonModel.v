(* Json/Model.v — F2 model of json.Minify (/repo/json/json.go) over the event stream of parse/json's parser:
   each event is (parser state before the token, grammar type, token text), which is exactly what the loop
   in json.Minify consumes. The parser itself (dependency parse/v2/json) is run by the harness. *)
From MV Require Import Base.MvBytes Num.NumModel.

Inductive pstate := SValue | SObjectKey | SObjectValue | SArray.
Inductive gtype := GLiteral | GNumber | GString | GStartObject | GEndObject | GStartArray | GEndArray.
Record event := { e_state : pstate; e_gt : gtype; e_text : bytes }.

Definition is_end (g : gtype) : bool := match g with GEndObject | GEndArray => true | _ => false end.
Definition is_start (g : gtype) : bool := match g with GStartObject | GStartArray => true | _ => false end.

(* the separator written before a token: from the state BEFORE the token and the skipComma flag *)
Definition sep (skip : bool) (e : event) : bytes :=
  if negb skip && negb (is_end (e_gt e)) then
    match e_state e with
    | SObjectKey | SArray => [44]       (* , *)
    | SObjectValue => [58]              (* : *)
    | SValue => []
    end
  else [].

Definition starts_number (t : bytes) : bool :=
  match t with c :: _ => is_digit c || (c =? 45) | [] => false end.

(* the number branch: Number(text, 0) and the JSON repair of ".5" / "-.5"; when the leading zero would make the result
   longer than the input (7E-3 -> .007 -> 0.007) the original text is written (json.go keeps a copy, Number works in place) *)
Definition num_text (keepnum : bool) (t : bytes) : bytes :=
  if negb keepnum && starts_number t then
    let u := number0 t in
    match u with
    | 46 :: _ => if Nat.ltb (length t) (S (length u)) then t else 48 :: u
    | 45 :: 46 :: r => if Nat.ltb (length t) (S (length u)) then t else 45 :: 48 :: 46 :: r
    | _ => u
    end
  else t.

Fixpoint minify_events (keepnum skip : bool) (evs : list event) : bytes :=
  match evs with
  | [] => []
  | e :: r => sep skip e ++ num_text keepnum (e_text e) ++ minify_events keepnum (is_start (e_gt e)) r
  end.

Definition json_minify_events (keepnum : bool) (evs : list event) : bytes := minify_events keepnum true evs.
