(* Json/JsonNumber.v — the number branch of json.Minify: Number(text, 0) followed by the JSON repair of a leading "."
   (".5" -> "0.5", "-.5" -> "-0.5") keeps the lexeme in the number grammar and denotes exactly the same rational.
   When the inserted zero would make the result longer than the input (7E-3 -> .007 -> 0.007) the input is written. *)
From MV Require Import Base.MvBytes Num.NumModel Num.NumSpec Num.NumProofs Num.NumberLemmas Num.NumberProofs Json.JsonModel.

(* ---------- the repair step in isolation ---------- *)
Definition repair (u : bytes) : bytes :=
  match u with
  | 46 :: _ => 48 :: u
  | 45 :: 46 :: r => 45 :: 48 :: 46 :: r
  | _ => u
  end.

(* the three ways num_text false ends: the input itself (fallback), number0's result untouched,
   or the repaired result, which then fits in the input's length *)
Lemma num_text_cases l : starts_number l = true ->
  num_text false l = l \/
  (num_text false l = repair (number0 l) /\ repair (number0 l) = number0 l) \/
  (num_text false l = repair (number0 l) /\ (S (length (number0 l)) <= length l)%nat).
Proof.
  intros Hst. unfold num_text. rewrite Hst. cbn [negb andb]. cbv zeta.
  generalize (number0 l). intros u.
  destruct (Nat.ltb (length l) (S (length u))) eqn:E.
  - clear E. destruct u as [|c r]; [right; left; split; reflexivity|].
    destruct c as [|q|q]; try (right; left; split; reflexivity).
    do 6 (try (destruct q as [q|q|]; try (right; left; split; reflexivity))).
    + (* c = 45 *)
      destruct r as [|d r']; [right; left; split; reflexivity|].
      destruct d as [|q|q]; try (right; left; split; reflexivity).
      do 6 (try (destruct q as [q|q|]; try (right; left; split; reflexivity))).
      left; reflexivity.
    + (* c = 46 *) left; reflexivity.
  - apply Nat.ltb_ge in E. right; right. split; [reflexivity | exact E].
Qed.

(* the pattern match on byte literals, restated with boolean tests *)
Lemma repair_eq u : repair u =
  match u with
  | c :: r =>
    if c =? 46 then 48 :: u
    else if c =? 45 then
      match r with
      | d :: r' => if d =? 46 then 45 :: 48 :: 46 :: r' else u
      | [] => u
      end
    else u
  | [] => u
  end.
Proof.
  destruct u as [|c r]; [reflexivity|].
  destruct c as [|q|q]; try reflexivity.
  do 6 (try (destruct q as [q|q|]; try reflexivity)).
  destruct r as [|d r']; [reflexivity|].
  destruct d as [|q|q]; try reflexivity.
  do 6 (try (destruct q as [q|q|]; try reflexivity)).
Qed.

(* a lexeme with an empty integer part gets the integer part "0" *)
Definition with_int0 (p : lexed) : lexed :=
  {| l_sign := l_sign p; l_I := [48]; l_dot := l_dot p; l_F := l_F p;
     l_exp := l_exp p; l_echar := l_echar p; l_esign := l_esign p; l_E := l_E p |}.

Lemma wf_with_int0 p : wf_lexed p -> wf_lexed (with_int0 p).
Proof.
  intros (Hsg & HI & HF & HIF & HdF & Hex). unfold wf_lexed, with_int0; cbn [l_sign l_I l_dot l_F l_exp l_echar l_esign l_E].
  repeat split; auto.
  - constructor; [reflexivity | constructor].
  - left; discriminate.
Qed.

Lemma value_with_int0 p : l_I p = [] -> value (with_int0 p) = value p.
Proof.
  intros HI. unfold value, exp_z, with_int0; cbn [l_sign l_I l_dot l_F l_exp l_echar l_esign l_E]. rewrite HI.
  rewrite digits_val_app. change (digits_val [48]) with 0. cbn [app]. f_equal; lia.
Qed.

Lemma unlex_with_int0 p : l_I p = [] ->
  unlex p = sign_bytes (l_sign p) ++ (if l_dot p then cdot :: l_F p else []) ++
            (if l_exp p then l_echar p :: sign_bytes (l_esign p) ++ l_E p else []) /\
  unlex (with_int0 p) = sign_bytes (l_sign p) ++ 48 :: (if l_dot p then cdot :: l_F p else []) ++
            (if l_exp p then l_echar p :: sign_bytes (l_esign p) ++ l_E p else []).
Proof. intros HI. unfold unlex, with_int0; cbn [l_sign l_I l_dot l_F l_exp l_echar l_esign l_E]. rewrite HI. split; reflexivity. Qed.

(* a well-formed lexeme whose text (after the sign) starts with '.' has an empty integer part *)
Lemma int_part_empty p c r : wf_lexed p ->
  l_I p ++ (if l_dot p then cdot :: l_F p else []) ++
    (if l_exp p then l_echar p :: sign_bytes (l_esign p) ++ l_E p else []) = c :: r ->
  c = 46 -> l_I p = [].
Proof.
  intros (Hsg & HI & HF & HIF & HdF & Hex) H Hc. destruct (l_I p) as [|i I]; [reflexivity|].
  cbn [app] in H. injection H as H1 _. inversion HI as [|? ? Hd _]; subst. unfold is_digit in Hd. lia.
Qed.

Lemma repair_value u p : lex_number u = Some p ->
  exists p', lex_number (repair u) = Some p' /\ val_eq (value p') (value p).
Proof.
  intros Hlex. destruct (lex_number_sound _ _ Hlex) as (Hu & Hwf).
  assert (Hid : exists p', lex_number u = Some p' /\ val_eq (value p') (value p)).
  { exists p. split; [exact Hlex | apply val_eq_refl]. }
  rewrite repair_eq. destruct u as [|c r]; [exact Hid|].
  pose proof Hwf as (Hsg & _).
  destruct (c =? 46) eqn:Ec.
  - apply Z.eqb_eq in Ec.
    assert (Hs0 : l_sign p = 0).
    { unfold unlex in Hu. destruct Hsg as [H|[H|H]]; [exact H| |]; rewrite H in Hu; cbn in Hu;
        injection Hu as H1 _; unfold cplus, cminus in H1; lia. }
    assert (HI : l_I p = []).
    { unfold unlex in Hu. rewrite Hs0 in Hu. cbn [sign_bytes Z.eqb app] in Hu.
      eapply int_part_empty; [exact Hwf | symmetry; exact Hu | exact Ec]. }
    destruct (unlex_with_int0 p HI) as (E1 & E2). rewrite Hs0 in E1, E2. cbn [sign_bytes Z.eqb app] in E1, E2.
    exists (with_int0 p). split.
    + rewrite Hu, E1, <- E2. apply lex_number_complete, wf_with_int0, Hwf.
    + rewrite value_with_int0 by exact HI. apply val_eq_refl.
  - destruct (c =? 45) eqn:Ec5; [|exact Hid]. destruct r as [|d r']; [exact Hid|].
    destruct (d =? 46) eqn:Ed; [|exact Hid].
    apply Z.eqb_eq in Ec5, Ed. clear Ec.
    assert (Hs2 : l_sign p = 2).
    { unfold unlex in Hu. destruct Hsg as [H|[H|H]]; [| |exact H]; rewrite H in Hu; cbn [sign_bytes Z.eqb app] in Hu.
      - exfalso. destruct Hwf as (_ & HI & _ & HIF & HdF & _).
        destruct (l_I p) as [|i I].
        + destruct (l_dot p).
          * cbn [app] in Hu. injection Hu as H1 _. unfold cdot in H1; lia.
          * destruct HIF as [H'|H']; [congruence | rewrite (HdF eq_refl) in H'; congruence].
        + cbn [app] in Hu. injection Hu as H1 _. inversion HI as [|? ? Hd' _]; subst. unfold is_digit in Hd'. lia.
      - exfalso. cbn in Hu. injection Hu as H1 _. unfold cplus in H1; lia. }
    assert (HI : l_I p = []).
    { unfold unlex in Hu. rewrite Hs2 in Hu. cbn in Hu. injection Hu as _ Hu.
      eapply int_part_empty; [exact Hwf | symmetry; exact Hu | exact Ed]. }
    assert (Hdot : l_dot p = true).
    { destruct Hwf as (_ & _ & _ & HIF & HdF & _). destruct (l_dot p); [reflexivity|].
      destruct HIF as [H'|H']; [congruence | rewrite (HdF eq_refl) in H'; congruence]. }
    destruct (unlex_with_int0 p HI) as (E1 & E2). rewrite Hs2, Hdot in E1, E2.
    cbn [sign_bytes Z.eqb Pos.eqb app] in E1, E2.
    exists (with_int0 p). split.
    + rewrite E1 in Hu. injection Hu as _ _ Hr. rewrite Hr.
      unfold cminus, cdot in E2. transitivity (lex_number (unlex (with_int0 p))); [f_equal; symmetry; exact E2 | apply lex_number_complete, wf_with_int0, Hwf].
    + rewrite value_with_int0 by exact HI. apply val_eq_refl.
Qed.

Lemma repair_has_int_part u :
  match repair u with 46 :: _ => False | 45 :: 46 :: _ => False | _ => True end.
Proof.
  assert (Hm : forall v : bytes,
    match v with 46 :: _ => False | 45 :: 46 :: _ => False | _ => True end <->
    match v with
    | c :: r => if c =? 46 then False else if c =? 45 then match r with d :: _ => if d =? 46 then False else True | [] => True end else True
    | [] => True end).
  { intros v. destruct v as [|c r]; [reflexivity|].
    destruct c as [|q|q]; try reflexivity.
    do 6 (try (destruct q as [q|q|]; try reflexivity)).
    destruct r as [|d r']; [reflexivity|].
    destruct d as [|q|q]; try reflexivity.
    do 6 (try (destruct q as [q|q|]; try reflexivity)). }
  apply Hm. rewrite repair_eq. destruct u as [|c r]; [exact I|].
  destruct (c =? 46) eqn:Ec; [reflexivity|].
  destruct (c =? 45) eqn:Ec5; [|rewrite Ec, Ec5; exact I].
  destruct r as [|d r']; [rewrite Ec, Ec5; exact I|].
  destruct (d =? 46) eqn:Ed; [reflexivity|]. rewrite Ec, Ec5, Ed. exact I.
Qed.

(* the repair adds at most one byte *)
Lemma repair_length u : (length (repair u) <= S (length u))%nat.
Proof.
  rewrite repair_eq. destruct u as [|c r]; [cbn [length]; lia|].
  destruct (c =? 46); [cbn [length]; lia|].
  destruct (c =? 45); [|lia].
  destruct r as [|d r']; [lia|].
  destruct (d =? 46); cbn [length]; lia.
Qed.

(* a JSON number starts with a digit or '-' (never with '+' or '.'): that is what starts_number tests *)
Theorem json_number_value : forall l p, lex_number l = Some p -> starts_number l = true -> zlen l <= 10 ^ 25 ->
  exists p', lex_number (num_text false l) = Some p' /\ val_eq (value p') (value p).
Proof.
  intros l p Hlex Hst Hlen.
  assert (Hrep : exists p', lex_number (repair (number0 l)) = Some p' /\ val_eq (value p') (value p)).
  { destruct (number0_value l p Hlex Hlen) as (p0 & H0 & Hv0).
    destruct (repair_value _ _ H0) as (p' & H1 & Hv1).
    exists p'. split; [exact H1 | eapply val_eq_trans; eauto]. }
  destruct (num_text_cases l Hst) as [E | [[E _] | [E _]]]; rewrite E.
  - exists p. split; [exact Hlex | apply val_eq_refl].
  - exact Hrep.
  - exact Hrep.
Qed.

(* the written lexeme has a digit before the dot, as RFC 8259 requires: it does not start with "." or "-.".
   The fallback writes l itself, hence the hypothesis that l has an integer part (JSON lexemes always have one). *)
Theorem json_number_has_int_part : forall l p, lex_number l = Some p -> starts_number l = true -> zlen l <= 10 ^ 25 ->
  match l with 46 :: _ => False | 45 :: 46 :: _ => False | _ => True end ->
  match num_text false l with 46 :: _ => False | 45 :: 46 :: _ => False | _ => True end.
Proof.
  intros l p _ Hst _ Hint.
  destruct (num_text_cases l Hst) as [E | [[E _] | [E _]]]; rewrite E.
  - exact Hint.
  - apply repair_has_int_part.
  - apply repair_has_int_part.
Qed.

(* with KeepNumbers, or for anything that is not a number, the text is unchanged *)
Theorem json_keep_text : forall l, num_text true l = l.
Proof. intros l. reflexivity. Qed.

Print Assumptions json_number_value.
Print Assumptions json_number_has_int_part.
Print Assumptions json_keep_text.
