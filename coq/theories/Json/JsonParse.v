(* Json/JsonParse.v — executable model of the JSON pull parser of github.com/tdewolff/parse/v2 (v2.7.23,
   json/parse.go): Parser.Next, moveWhitespace, consumeStringToken, consumeNumberToken, consumeLiteralToken and the
   state stack, written over the REMAINING INPUT SUFFIX.

   Input convention.  parse.Input appends a NUL byte to the buffer; Peek(0) at the end of the input therefore reads 0,
   and Input.Err() is io.EOF exactly when the position has reached the end of the real input.  Here the remaining input
   is a [bytes]; [jpeek []] = 0, and "r.Err() == io.EOF" is "the remaining input is []".  A literal 0 byte inside the
   input is distinguishable from the end only through that test, exactly as in Go.

   The parser never moves past the terminator: every Move follows a Peek that returned a non-zero byte (or is Move(-1) /
   Rewind back inside the lexeme), so [tl] on the suffix is Move(1). *)
From MV Require Import Base.MvBytes Num.NumModel Json.JsonModel Json.JsonSpec.

(* ---- the reader ---- *)
Definition jpeek (i : bytes) : byte := match i with [] => 0 | c :: _ => c end.

(* moveWhitespace: ' ' '\n' '\r' '\t' (not form feed) *)
Definition jws (c : byte) : bool := (c =? 32) || (c =? 10) || (c =? 13) || (c =? 9).
Fixpoint skip_ws (i : bytes) : bytes :=
  match i with
  | c :: r => if jws c then skip_ws r else i
  | [] => []
  end.

(* ---- consumeStringToken ----
   Called on the opening quote, which is the first byte of the current lexeme (Next calls Skip() just before).
   [acc] is the lexeme consumed so far, REVERSED (so its last element is the opening quote).  On a quote byte (34) the Go code
   walks backwards over Lexeme() counting backslashes: [escaped_back acc false].  Result:
   SOk lexeme rest | SBad consumed rest — on failure the position stays on the 0 byte (no rewind). *)
Fixpoint escaped_back (acc : bytes) (e : bool) : bool :=
  match acc with
  | c :: r => if c =? 92 then escaped_back r (negb e) else e
  | [] => e
  end.

Inductive sres := SOk (lex rest : bytes) | SBad (consumed rest : bytes).

Fixpoint cstring_loop (acc : bytes) (i : bytes) : sres :=
  match i with
  | [] => SBad (rev acc) []                                    (* c == 0: end of input *)
  | c :: r =>
    if c =? 34 then
      if negb (escaped_back acc false) then SOk (rev (c :: acc)) r
      else cstring_loop (c :: acc) r
    else if c =? 0 then SBad (rev acc) i                       (* literal NUL *)
    else cstring_loop (c :: acc) r
  end.

(* assumes to be on the quote: Move(1) unconditionally *)
Definition cstring (i : bytes) : sres :=
  match i with
  | c :: r => cstring_loop [c] r
  | [] => SBad [] []                                           (* not reachable: callers test for the quote byte first *)
  end.

(* ---- consumeNumberToken: Some (lexeme, rest) | None (rewound to the mark) ---- *)
Definition is_19 (c : byte) : bool := (49 <=? c) && (c <=? 57).

(* optional '-' *)
Definition cnum_sign (i : bytes) : bytes * bytes :=
  if jpeek i =? 45 then ([45], tl i) else ([], i).

(* 0 | [1-9][0-9]*; None = Rewind(mark), return false *)
Definition cnum_int (i1 : bytes) : option (bytes * bytes) :=
  let c := jpeek i1 in
  if is_19 c then let (ds, i2) := span_digits (tl i1) in Some (c :: ds, i2)
  else if negb (c =? 48) then None
  else Some ([48], tl i1).

(* fraction; the third component is the early exit: a dot not followed by a digit is given back
   (Move(-1)) and the function returns true at once, without looking for an exponent *)
Definition cnum_frac (i2 : bytes) : bytes * bytes * bool :=
  if jpeek i2 =? 46 then
    if is_digit (jpeek (tl i2)) then let (ds, i3) := span_digits (tl i2) in (46 :: ds, i3, false)
    else ([], i2, true)
  else ([], i2, false).

(* exponent; e / E [+-] not followed by a digit is given back completely (Rewind(mark)) *)
Definition cnum_exp (i3 : bytes) : bytes * bytes :=
  let c := jpeek i3 in
  if (c =? 101) || (c =? 69) then
    let i4 := tl i3 in
    let '(es, i5) := if (jpeek i4 =? 43) || (jpeek i4 =? 45) then ([jpeek i4], tl i4) else ([], i4) in
    if is_digit (jpeek i5) then let (ds, i6) := span_digits i5 in (c :: es ++ ds, i6)
    else ([], i3)
  else ([], i3).

Definition cnumber (i : bytes) : option (bytes * bytes) :=
  let (sg, i1) := cnum_sign i in
  match cnum_int i1 with
  | None => None
  | Some (ip, i2) =>
    let '(fp, i3, stop) := cnum_frac i2 in
    if stop then Some (sg ++ ip, i2)
    else let (ep, i4) := cnum_exp i3 in Some (sg ++ ip ++ fp ++ ep, i4)
  end.

(* ---- consumeLiteralToken ---- *)
Fixpoint strip_prefix (p i : bytes) : option bytes :=
  match p with
  | [] => Some i
  | x :: p' => match i with
               | c :: r => if c =? x then strip_prefix p' r else None
               | [] => None
               end
  end.

Definition lit_true : bytes := [116; 114; 117; 101].
Definition lit_false : bytes := [102; 97; 108; 115; 101].
Definition lit_null : bytes := [110; 117; 108; 108].

Definition cliteral (i : bytes) : option (bytes * bytes) :=
  match strip_prefix lit_true i with
  | Some r => Some (lit_true, r)
  | None =>
    match strip_prefix lit_false i with
    | Some r => Some (lit_false, r)
    | None =>
      match strip_prefix lit_null i with
      | Some r => Some (lit_null, r)
      | None => None
      end
    end
  end.

(* ---- parser state: the state stack (top = head; Go appends at the end) and needComma ---- *)
Record pst := { p_stack : list pstate; p_need : bool }.

Definition top_of (stk : list pstate) : pstate := match stk with s :: _ => s | [] => SValue end.
Definition ptop (st : pst) : pstate := top_of (p_stack st).       (* Parser.State() *)

Definition pstate_eqb (a b : pstate) : bool :=
  match a, b with
  | SValue, SValue | SObjectKey, SObjectKey | SObjectValue, SObjectValue | SArray, SArray => true
  | _, _ => false
  end.

(* p.state = p.state[:len-1]; if the new top is ObjectValueState it becomes ObjectKeyState *)
Definition pop_fix (stk : list pstate) : list pstate :=
  match stk with
  | _ :: SObjectValue :: r => SObjectKey :: r
  | _ :: r => r
  | [] => []
  end.

Definition replace_top (s : pstate) (stk : list pstate) : list pstate :=
  match stk with _ :: r => s :: r | [] => [] end.

Inductive presult :=
| PTok (g : gtype) (text : bytes) (st : pst) (rest : bytes)
| PEof                        (* ErrorGrammar with p.err == nil and r.Err() == io.EOF:  p.Err() == io.EOF *)
| PFail.                      (* ErrorGrammar with p.err set *)

(* the last branch of Next: a value token (string, number or literal) in state Value / ObjectValue / Array;
   [st'] is the parser state after the token *)
Definition pnext_value (st' : pst) (i : bytes) : presult :=
  match (if jpeek i =? 34 then cstring i else SBad [] i) with
  | SOk lex r => PTok GString lex st' r
  | SBad pre i1 =>
    (* a failed consumeStringToken leaves the position on the 0 byte; Shift() would include [pre] *)
    match cnumber i1 with
    | Some (lex, r) => PTok GNumber (pre ++ lex) st' r
    | None =>
      match cliteral i1 with
      | Some (lex, r) => PTok GLiteral (pre ++ lex) st' r
      | None =>
        match i1 with
        | [] => PEof                                           (* c == 0 at the end of input *)
        | _ => PFail                                           (* unexpected NULL / unexpected character *)
        end
      end
    end
  end.

(* needComma = true; an ObjectValue state becomes ObjectKey *)
Definition after_val (stk : list pstate) : list pstate :=
  if pstate_eqb (top_of stk) SObjectValue then replace_top SObjectKey stk else stk.

(* Next after the leading white space / comma and r.Skip(); [i] starts at the token *)
Definition pnext_body (stk : list pstate) (need : bool) (i : bytes) : presult :=
  let c := jpeek i in
  let state := top_of stk in
  if need && negb (c =? 125) && negb (c =? 93) && negb (c =? 0) then PFail
  else if c =? 123 then PTok GStartObject [c] {| p_stack := SObjectKey :: stk; p_need := need |} (tl i)
  else if c =? 125 then
    if negb (pstate_eqb state SObjectKey) then PFail
    else PTok GEndObject [c] {| p_stack := pop_fix stk; p_need := true |} (tl i)
  else if c =? 91 then PTok GStartArray [c] {| p_stack := SArray :: stk; p_need := need |} (tl i)
  else if c =? 93 then
    if negb (pstate_eqb state SArray) then PFail
    else PTok GEndArray [c] {| p_stack := pop_fix stk; p_need := true |} (tl i)
  else if pstate_eqb state SObjectKey then
    if negb (c =? 34) then PFail else
    match cstring i with
    | SBad _ _ => PFail
    | SOk lex r =>
      let r2 := skip_ws r in
      if negb (jpeek r2 =? 58) then PFail
      else PTok GString lex {| p_stack := replace_top SObjectValue stk; p_need := need |} (tl r2)
    end
  else
    pnext_value {| p_stack := after_val stk; p_need := true |} i.

Definition pnext (st : pst) (i : bytes) : presult :=
  let i1 := skip_ws i in
  let state := ptop st in
  if jpeek i1 =? 44 then
    if negb (pstate_eqb state SArray) && negb (pstate_eqb state SObjectKey) then PFail
    else pnext_body (p_stack st) false (skip_ws (tl i1))
  else pnext_body (p_stack st) (p_need st) i1.

(* ---- the driver: state := p.State(); gt, text := p.Next() until ErrorGrammar; ok = (p.Err() == io.EOF) ---- *)
Definition pinit : pst := {| p_stack := [SValue]; p_need := false |}.

Fixpoint prun (fuel : nat) (st : pst) (i : bytes) : list event * bool :=
  match fuel with
  | O => ([], false)
  | S f =>
    match pnext st i with
    | PTok g t st' r => let (evs, ok) := prun f st' r in (ev (ptop st) g t :: evs, ok)
    | PEof => ([], true)
    | PFail => ([], false)
    end
  end.

(* every token consumes at least one byte: fuel = S (length input) is never exhausted (JsonParseProofs.prun_fuel) *)
Definition parse_events (i : bytes) : list event * bool := prun (S (length i)) pinit i.
