(* Json/JsonParseExamples.v — the parser model on concrete documents (vm_compute), and instances of the theorem. *)
From Coq Require Import String Ascii.
From MV Require Import Base.MvBytes Json.JsonModel Json.JsonSpec Json.JsonParse Json.JsonParseSpec
  Json.JsonParseLex Json.JsonParseProofs.

(* bytes of a Coq string literal (inside a Coq string a quote is written twice; a backslash is itself) *)
Fixpoint bs (s : string) : bytes :=
  match s with
  | EmptyString => []
  | String a r => Z.of_N (N_of_ascii a) :: bs r
  end.

(* ---- a small document with the event list written out ---- *)
Example ex_events :
  parse_events (bs " [ ""a\""b"" , {""k"":-0.5e+10,""k"":[]} ]") =
  ([ ev SValue GStartArray [91];
     ev SArray GString (bs """a\""b""");
     ev SArray GStartObject [123];
     ev SObjectKey GString (bs """k""");          (* the key token swallows the white space and the colon *)
     ev SObjectValue GNumber (bs "-0.5e+10");
     ev SObjectKey GString (bs """k""");          (* duplicate key: delivered again *)
     ev SObjectValue GStartArray [91];
     ev SArray GEndArray [93];
     ev SObjectKey GEndObject [125];
     ev SArray GEndArray [93] ], true).
Proof. vm_compute. reflexivity. Qed.

(* ---- a nested document: white space (space, LF, TAB, CR) at many gaps, duplicate keys, escaped quotes and
        backslashes in strings and in a key, numbers, empty array and empty object ---- *)
Definition val1 : jvalue :=
  JObj [ (bs """a""", JArr [ JNum (bs "1"); JNum (bs "-0.5e+10"); JArr []; JObj []; JStr (bs """a\""b""");
                            JNum (bs "0"); JNum (bs "-0"); JNum (bs "12.50E-7") ]);
         (bs """a""", JStr (bs """a\\"""));
         (bs """k\\\""x""", JObj [ (bs """""", JLit (bs "false")) ]);
         (bs """n""", JLit (bs "null"));
         (bs """t""", JLit (bs "true")) ].

Definition doc1 : bytes :=
  bs " { ""a"" : [ 1 , -0.5e+10 , [ ] , { } , ""a\""b"",0,-0 ,12.50E-7 ] ," ++ [10; 9] ++
  bs """a"":""a\\"",""k\\\""x"" : {"""":false}" ++ [13; 10] ++ bs ", ""n"":null , ""t"" : true }" ++ [13].

Example ex_nested : parse_events doc1 = (events_of SValue val1, true).
Proof. vm_compute. reflexivity. Qed.

(* ---- the renderer: a different white-space string at every gap (period 4: space / none / LF TAB / CR) ---- *)
Definition wsx (k : nat) : bytes :=
  match Nat.modulo k 4 with
  | O => [32]
  | S O => []
  | S (S O) => [10; 9]
  | _ => [13]
  end.

Example ex_render_small :
  render wsx (JArr [JNum (bs "1"); JObj [(bs """k""", JLit (bs "true"))]]) =
  [32] ++ bs "[1" ++ [10; 9] ++ bs "," ++ [13] ++ bs "{ ""k"":" ++ [10; 9] ++ bs "true" ++ [13] ++ bs "} ]".
Proof. vm_compute. reflexivity. Qed.

Lemma wsx_ws k : all_jwsb (wsx k) = true.
Proof. unfold wsx. destruct (Nat.modulo k 4) as [|[|[|n]]]; reflexivity. Qed.

(* by computation ... *)
Example ex_render_compute : parse_events (render wsx val1) = (events_of SValue val1, true).
Proof. vm_compute. reflexivity. Qed.

(* ... and as an instance of the theorem (the hypotheses are decided by the boolean checkers) *)
Example ex_render_theorem : parse_events (render wsx val1) = (events_of SValue val1, true).
Proof. apply parse_render_b; [exact wsx_ws | vm_compute; reflexivity]. Qed.

(* ---- malformed input: ok = false ---- *)
Example ex_missing_comma :
  parse_events (bs "[1 2]") = ([ev SValue GStartArray [91]; ev SArray GNumber [49]], false).
Proof. vm_compute. reflexivity. Qed.

Example ex_missing_colon :
  parse_events (bs "{""a"" 1}") = ([ev SValue GStartObject [123]], false).
Proof. vm_compute. reflexivity. Qed.

Example ex_nul_byte :
  parse_events (bs "[1" ++ [0] ++ bs "]") = ([ev SValue GStartArray [91]; ev SArray GNumber [49]], false).
Proof. vm_compute. reflexivity. Qed.

Example ex_bare_minus : parse_events (bs "-") = ([], false).
Proof. vm_compute. reflexivity. Qed.

(* ---- Go's exact behaviour on odd numbers: "1." keeps the dot for the next token (which then fails: a comma was
        expected), "1e" gives the e back ---- *)
Example ex_num_dot : cnumber (bs "1.x") = Some (bs "1", bs ".x").
Proof. vm_compute. reflexivity. Qed.
Example ex_num_e : cnumber (bs "1e+x") = Some (bs "1", bs "e+x").
Proof. vm_compute. reflexivity. Qed.
Example ex_num_01 : cnumber (bs "01") = Some (bs "0", bs "1").
Proof. vm_compute. reflexivity. Qed.
Example ex_num_dot_doc : parse_events (bs "[1.]") = ([ev SValue GStartArray [91]; ev SArray GNumber [49]], false).
Proof. vm_compute. reflexivity. Qed.

(* ---- leniencies of the real parser that the model reproduces (all confirmed against the Go code by the
        differential test): a truncated document ends with a clean io.EOF, also inside a string; trailing and leading
        commas in arrays are accepted; an array is accepted where an object key is expected ---- *)
Example ex_truncated : parse_events (bs "[1,2") =
  ([ev SValue GStartArray [91]; ev SArray GNumber [49]; ev SArray GNumber [50]], true).
Proof. vm_compute. reflexivity. Qed.

Example ex_unterminated_string : parse_events (bs """abc") = ([], true).
Proof. vm_compute. reflexivity. Qed.

Example ex_trailing_comma : parse_events (bs "[1,]") =
  ([ev SValue GStartArray [91]; ev SArray GNumber [49]; ev SArray GEndArray [93]], true).
Proof. vm_compute. reflexivity. Qed.

Example ex_array_as_key : snd (parse_events (bs "{[1]}")) = true.
Proof. vm_compute. reflexivity. Qed.
