(* Json/JsonParseLex.v — the token consumers of the parser model on well-formed lexemes, and progress
   (every consumer that succeeds has consumed at least one byte). *)
From MV Require Import Base.MvBytes Num.NumModel Num.NumSpec Num.NumProofs
  Json.JsonModel Json.JsonSpec Json.JsonParse Json.JsonParseSpec.

(* ---------- character classes ---------- *)
Lemma jws_cases c : jws c = true -> c = 32 \/ c = 10 \/ c = 13 \/ c = 9.
Proof. unfold jws. lia. Qed.

Lemma jws_follow c : jws c = true -> num_follow c = true.
Proof. intros H. apply jws_cases in H. unfold num_follow, is_digit. lia. Qed.

Lemma digit_range c : is_digit c = true -> 48 <= c <= 57.
Proof. unfold is_digit. lia. Qed.

Lemma is_19_range c : is_19 c = true -> 49 <= c <= 57.
Proof. unfold is_19. lia. Qed.

Lemma is_19_digit c : is_19 c = true -> is_digit c = true.
Proof. unfold is_19, is_digit. lia. Qed.

Lemma follow_not_digit c : num_follow c = true -> is_digit c = false.
Proof. unfold num_follow. destruct (is_digit c); [discriminate | reflexivity]. Qed.

Lemma follow_not_dot c : num_follow c = true -> (c =? 46) = false.
Proof. unfold num_follow. destruct (c =? 46); [rewrite orb_true_r; discriminate | reflexivity]. Qed.

Lemma follow_not_e c : num_follow c = true -> (c =? 101) || (c =? 69) = false.
Proof.
  unfold num_follow. destruct (c =? 101); [rewrite !orb_true_r; discriminate|].
  destruct (c =? 69); [rewrite !orb_true_r; discriminate | reflexivity].
Qed.

(* ---------- white space ---------- *)
Lemma jpeek_app_cons w c r : jpeek (w ++ c :: r) = match w with [] => c | x :: _ => x end.
Proof. destruct w; reflexivity. Qed.

Lemma skip_ws_app w i : all_jws w -> jws (jpeek i) = false -> skip_ws (w ++ i) = i.
Proof.
  intros Hw Hi. induction Hw as [|c w Hc Hw IH].
  - destruct i as [|x i]; [reflexivity|]. cbn [app skip_ws]. cbn [jpeek] in Hi. rewrite Hi. reflexivity.
  - cbn [app skip_ws]. rewrite Hc. exact IH.
Qed.

Lemma skip_ws_all w : all_jws w -> skip_ws w = [].
Proof.
  intros Hw. rewrite <- (app_nil_r w). apply skip_ws_app; [exact Hw | reflexivity].
Qed.

Lemma skip_ws_le i : (length (skip_ws i) <= length i)%nat.
Proof.
  induction i as [|c i IH]; [apply le_n|]. cbn [skip_ws]. destruct (jws c).
  - cbn [length]. lia.
  - apply le_n.
Qed.

Lemma follow_ws_app w c r : all_jws w -> num_follow c = true -> num_follow (jpeek (w ++ c :: r)) = true.
Proof.
  intros Hw Hc. rewrite jpeek_app_cons. destruct Hw as [|x w Hx Hw]; [exact Hc | apply jws_follow; exact Hx].
Qed.

Lemma follow_ws_end w : all_jws w -> num_follow (jpeek w) = true.
Proof. intros Hw. destruct Hw as [|x w Hx Hw]; [reflexivity | apply jws_follow; exact Hx]. Qed.

(* ---------- strings ---------- *)
Lemma escaped_back_negb acc e : escaped_back acc (negb e) = negb (escaped_back acc e).
Proof.
  revert e. induction acc as [|c acc IH]; intros e; [reflexivity|].
  cbn [escaped_back]. destruct (c =? 92); [apply IH | reflexivity].
Qed.

(* the forward escape flag of [body_ok] is the parity the Go code recounts backwards at every quote *)
Lemma cstring_loop_ok b : forall acc rest,
  body_ok (escaped_back acc false) b = true ->
  cstring_loop acc (b ++ 34 :: rest) = SOk (rev acc ++ b ++ [34]) rest.
Proof.
  induction b as [|c b IH]; intros acc rest H.
  - cbn [body_ok] in H. cbn [app cstring_loop]. rewrite Z.eqb_refl. rewrite H. cbn [rev]. reflexivity.
  - cbn [body_ok] in H. cbn [app cstring_loop].
    destruct (c =? 0) eqn:E0; [discriminate|].
    assert (Hstep : forall e', escaped_back (c :: acc) false = e' -> body_ok e' b = true ->
                    cstring_loop (c :: acc) (b ++ 34 :: rest) = SOk (rev acc ++ c :: b ++ [34]) rest).
    { intros e' He' Hb. rewrite IH by (rewrite He'; exact Hb). cbn [rev]. rewrite <- app_assoc. reflexivity. }
    destruct (escaped_back acc false) eqn:Ee.
    + (* inside an escape: the byte is taken whatever it is *)
      assert (He' : escaped_back (c :: acc) false = false).
      { cbn [escaped_back]. destruct (c =? 92); [|reflexivity].
        change true with (negb false). rewrite escaped_back_negb, Ee. reflexivity. }
      destruct (c =? 34); cbn [negb]; apply (Hstep false He' H).
    + destruct (c =? 92) eqn:E92.
      * assert (He' : escaped_back (c :: acc) false = true).
        { cbn [escaped_back]. rewrite E92. change true with (negb false). rewrite escaped_back_negb, Ee. reflexivity. }
        assert (E34 : (c =? 34) = false) by lia. rewrite E34. apply (Hstep true He' H).
      * destruct (c =? 34) eqn:E34; [discriminate|].
        assert (He' : escaped_back (c :: acc) false = false).
        { cbn [escaped_back]. rewrite E92. reflexivity. }
        apply (Hstep false He' H).
Qed.

Lemma cstring_ok l rest : str_lexeme l -> cstring (l ++ rest) = SOk l rest.
Proof.
  intros (b & -> & Hb). cbn [app cstring]. rewrite <- app_assoc. cbn [app].
  rewrite cstring_loop_ok by exact Hb. reflexivity.
Qed.

Lemma str_lexeme_head l : str_lexeme l -> exists r, l = 34 :: r.
Proof. intros (b & -> & _). eexists. reflexivity. Qed.

(* converse: [str_lexeme] is exactly what consumeStringToken accepts *)
Lemma cstring_loop_inv i : forall acc lex rest,
  cstring_loop acc i = SOk lex rest ->
  exists b, i = b ++ 34 :: rest /\ lex = rev acc ++ b ++ [34] /\ body_ok (escaped_back acc false) b = true.
Proof.
  induction i as [|c i IH]; intros acc lex rest H; cbn [cstring_loop] in H; [discriminate|].
  assert (Hrec : forall e', escaped_back (c :: acc) false = e' -> (c =? 0) = false ->
            cstring_loop (c :: acc) i = SOk lex rest ->
            exists b, c :: i = (c :: b) ++ 34 :: rest /\ lex = rev acc ++ (c :: b) ++ [34] /\ body_ok e' b = true).
  { intros e' He' E0 Hl. destruct (IH _ _ _ Hl) as (b & -> & -> & Hb). exists b. split; [reflexivity|]. split.
    - cbn [rev]. rewrite <- app_assoc. reflexivity.
    - rewrite <- He'. exact Hb. }
  destruct (c =? 34) eqn:E34.
  - assert (E0 : (c =? 0) = false) by lia. assert (E92 : (c =? 92) = false) by lia.
    destruct (escaped_back acc false) eqn:Ee; cbn [negb] in H.
    + assert (He' : escaped_back (c :: acc) false = false) by (cbn [escaped_back]; rewrite E92; reflexivity).
      destruct (Hrec false He' E0 H) as (b & Hi & Hl & Hb). exists (c :: b). split; [exact Hi|]. split; [exact Hl|].
      cbn [body_ok]. rewrite E0. exact Hb.
    + inversion H; subst. exists []. apply Z.eqb_eq in E34. subst c. split; [reflexivity|]. split.
      * cbn [rev app]. reflexivity.
      * reflexivity.
  - destruct (c =? 0) eqn:E0; [discriminate|].
    destruct (escaped_back acc false) eqn:Ee.
    + assert (He' : escaped_back (c :: acc) false = false).
      { cbn [escaped_back]. destruct (c =? 92); [|reflexivity].
        change true with (negb false). rewrite escaped_back_negb, Ee. reflexivity. }
      destruct (Hrec false He' eq_refl H) as (b & Hi & Hl & Hb). exists (c :: b). split; [exact Hi|]. split; [exact Hl|].
      cbn [body_ok]. rewrite E0. exact Hb.
    + destruct (c =? 92) eqn:E92.
      * assert (He' : escaped_back (c :: acc) false = true).
        { cbn [escaped_back]. rewrite E92. change true with (negb false). rewrite escaped_back_negb, Ee. reflexivity. }
        destruct (Hrec true He' eq_refl H) as (b & Hi & Hl & Hb). exists (c :: b). split; [exact Hi|]. split; [exact Hl|].
        cbn [body_ok]. rewrite E0, E92. exact Hb.
      * assert (He' : escaped_back (c :: acc) false = false) by (cbn [escaped_back]; rewrite E92; reflexivity).
        destruct (Hrec false He' eq_refl H) as (b & Hi & Hl & Hb). exists (c :: b). split; [exact Hi|]. split; [exact Hl|].
        cbn [body_ok]. rewrite E0, E92, E34. exact Hb.
Qed.

Theorem cstring_exact l : (jpeek l = 34 /\ cstring l = SOk l []) <-> str_lexeme l.
Proof.
  split.
  - intros [Hq H]. destruct l as [|c l]; cbn [cstring] in H; [discriminate|]. cbn [jpeek] in Hq. subst c.
    destruct (cstring_loop_inv _ _ _ _ H) as (b & Hi & _ & Hb). exists b. split; [|exact Hb].
    rewrite Hi. reflexivity.
  - intros H. split.
    + destruct (str_lexeme_head l H) as [r ->]. reflexivity.
    + rewrite <- (app_nil_r l) at 1. apply cstring_ok. exact H.
Qed.

(* ---------- numbers ---------- *)
Lemma span_digits_peek ds r : all_digits ds -> is_digit (jpeek r) = false -> span_digits (ds ++ r) = (ds, r).
Proof.
  intros Hd Hr. apply span_digits_app; [exact Hd|]. destruct r as [|c r]; [exact I | exact Hr].
Qed.

Lemma cnum_int_ok ip r : int_part ip -> is_digit (jpeek r) = false -> cnum_int (ip ++ r) = Some (ip, r).
Proof.
  intros [-> | (d & ds & -> & Hd & Hds)] Hr; unfold cnum_int.
  - reflexivity.
  - cbn [app jpeek tl]. rewrite Hd. rewrite span_digits_peek by assumption. reflexivity.
Qed.

Lemma cnum_frac_nil r : (jpeek r =? 46) = false -> cnum_frac r = ([], r, false).
Proof. intros H. unfold cnum_frac. rewrite H. reflexivity. Qed.

Lemma cnum_frac_ok d ds r : all_digits (d :: ds) -> is_digit (jpeek r) = false ->
  cnum_frac ((46 :: d :: ds) ++ r) = (46 :: d :: ds, r, false).
Proof.
  intros Hd Hr. unfold cnum_frac. cbn [app jpeek tl]. rewrite Z.eqb_refl.
  pose proof (Forall_inv Hd) as Hd1. cbn beta in Hd1. rewrite Hd1.
  change (d :: ds ++ r) with ((d :: ds) ++ r). rewrite span_digits_peek by assumption. reflexivity.
Qed.

Lemma cnum_exp_nil r : (jpeek r =? 101) || (jpeek r =? 69) = false -> cnum_exp r = ([], r).
Proof. intros H. unfold cnum_exp. rewrite H. reflexivity. Qed.

Lemma cnum_exp_ok e es d ds r :
  (e = 101 \/ e = 69) -> (es = [] \/ es = [43] \/ es = [45]) -> all_digits (d :: ds) -> is_digit (jpeek r) = false ->
  cnum_exp ((e :: es ++ d :: ds) ++ r) = (e :: es ++ d :: ds, r).
Proof.
  intros He Hes Hd Hr. pose proof (Forall_inv Hd) as Hd1. cbn beta in Hd1.
  pose proof (digit_range _ Hd1) as Hrange.
  assert (Hsp : span_digits ((d :: ds) ++ r) = (d :: ds, r)) by (apply span_digits_peek; assumption).
  assert (He' : (e =? 101) || (e =? 69) = true) by (destruct He as [-> | ->]; reflexivity).
  unfold cnum_exp. cbn [app jpeek tl]. rewrite He'.
  destruct Hes as [-> | [-> | ->]]; cbn [app jpeek tl].
  - replace ((d =? 43) || (d =? 45)) with false by lia. cbn [jpeek app]. rewrite Hd1.
    change (d :: ds ++ r) with ((d :: ds) ++ r). rewrite Hsp. reflexivity.
  - change ((43 =? 43) || (43 =? 45)) with true. cbn [jpeek app]. rewrite Hd1.
    change (d :: ds ++ r) with ((d :: ds) ++ r). rewrite Hsp. reflexivity.
  - change ((45 =? 43) || (45 =? 45)) with true. cbn [jpeek app]. rewrite Hd1.
    change (d :: ds ++ r) with ((d :: ds) ++ r). rewrite Hsp. reflexivity.
Qed.

Lemma cnumber_ok l rest : num_lexeme l -> num_follow (jpeek rest) = true -> cnumber (l ++ rest) = Some (l, rest).
Proof.
  intros (sg & ip & fp & ep & -> & Hsg & Hip & Hfp & Hep) Hf.
  pose proof (follow_not_digit _ Hf) as Hfd. pose proof (follow_not_dot _ Hf) as Hf46.
  pose proof (follow_not_e _ Hf) as Hfe.
  assert (Hs : cnum_sign ((sg ++ ip ++ fp ++ ep) ++ rest) = (sg, ip ++ fp ++ ep ++ rest)).
  { rewrite <- !app_assoc. destruct Hsg as [-> | ->]; unfold cnum_sign.
    - cbn [app]. destruct Hip as [-> | (d & ds & -> & Hd & _)]; cbn [app jpeek].
      + reflexivity.
      + apply is_19_range in Hd. replace (d =? 45) with false by lia. reflexivity.
    - reflexivity. }
  assert (Hi : cnum_int (ip ++ fp ++ ep ++ rest) = Some (ip, fp ++ ep ++ rest)).
  { apply cnum_int_ok; [exact Hip|]. destruct Hfp as [-> | (d & ds & -> & _)]; [|reflexivity].
    cbn [app]. destruct Hep as [-> | (e & es & d & ds & -> & [-> | ->] & _)]; [exact Hfd | reflexivity | reflexivity]. }
  assert (Hfr : cnum_frac (fp ++ ep ++ rest) = (fp, ep ++ rest, false)).
  { destruct Hfp as [-> | (d & ds & -> & Hds)].
    - cbn [app]. apply cnum_frac_nil.
      destruct Hep as [-> | (e & es & d & ds & -> & [-> | ->] & _)]; [exact Hf46 | reflexivity | reflexivity].
    - apply cnum_frac_ok; [exact Hds|].
      destruct Hep as [-> | (e & es & d' & ds' & -> & [-> | ->] & _)]; [exact Hfd | reflexivity | reflexivity]. }
  assert (Hex : cnum_exp (ep ++ rest) = (ep, rest)).
  { destruct Hep as [-> | (e & es & d & ds & -> & He & Hes & Hds)].
    - apply cnum_exp_nil. exact Hfe.
    - apply cnum_exp_ok; assumption. }
  unfold cnumber. rewrite Hs. cbv beta iota. rewrite Hi. cbv beta iota. rewrite Hfr. cbv beta iota.
  rewrite Hex. cbv beta iota. reflexivity.
Qed.

Lemma num_lexeme_head l : num_lexeme l -> exists c r, l = c :: r /\ (c = 45 \/ is_digit c = true).
Proof.
  intros (sg & ip & fp & ep & -> & Hsg & Hip & _ & _).
  destruct Hsg as [-> | ->].
  - destruct Hip as [-> | (d & ds & -> & Hd & _)].
    + exists 48, (fp ++ ep). split; [reflexivity | right; reflexivity].
    + exists d, (ds ++ fp ++ ep). split; [reflexivity | right; apply is_19_digit; exact Hd].
  - eexists 45, _. split; [reflexivity | left; reflexivity].
Qed.

(* ---------- literals ---------- *)
Lemma cliteral_ok l rest : lit_lexeme l -> cliteral (l ++ rest) = Some (l, rest).
Proof. intros [-> | [-> | ->]]; reflexivity. Qed.

Lemma cnumber_lit l rest : lit_lexeme l -> cnumber (l ++ rest) = None.
Proof. intros [-> | [-> | ->]]; reflexivity. Qed.

Lemma lit_lexeme_head l : lit_lexeme l -> exists c r, l = c :: r /\ (c = 116 \/ c = 102 \/ c = 110).
Proof.
  intros [-> | [-> | ->]]; eexists _, _; (split; [reflexivity|]); [left | right; left | right; right]; reflexivity.
Qed.

(* ---------- progress: a successful consumer has consumed at least one byte ---------- *)
Lemma tl_shorter (i : bytes) : jpeek i <> 0 -> (length (tl i) < length i)%nat.
Proof. destruct i as [|c i]; cbn [jpeek tl length]; [congruence | lia]. Qed.

Lemma tl_le (i : bytes) : (length (tl i) <= length i)%nat.
Proof. destruct i as [|c i]; cbn [tl length]; lia. Qed.

Lemma span_digits_len l a b : span_digits l = (a, b) -> (length b <= length l)%nat.
Proof.
  intros H. apply span_digits_spec in H. destruct H as (-> & _ & _). rewrite app_length. lia.
Qed.

Lemma cstring_loop_shorter i : forall acc lex r, cstring_loop acc i = SOk lex r -> (length r < length i)%nat.
Proof.
  induction i as [|c i IH]; intros acc lex r H; cbn [cstring_loop] in H; [discriminate|]. cbn [length].
  destruct (c =? 34).
  - destruct (negb (escaped_back acc false)).
    + inversion H; subst. lia.
    + apply IH in H. lia.
  - destruct (c =? 0); [discriminate|]. apply IH in H. lia.
Qed.

Lemma cstring_shorter i lex r : cstring i = SOk lex r -> (length r < length i)%nat.
Proof.
  destruct i as [|c i]; cbn [cstring]; intros H; [discriminate|]. apply cstring_loop_shorter in H. cbn [length]. lia.
Qed.

Lemma cnum_sign_le i sg i1 : cnum_sign i = (sg, i1) -> (length i1 <= length i)%nat.
Proof.
  unfold cnum_sign. destruct (jpeek i =? 45); intros H; inversion H; subst; [apply tl_le | apply le_n].
Qed.

Lemma cnum_int_lt i1 ip i2 : cnum_int i1 = Some (ip, i2) -> (length i2 < length i1)%nat.
Proof.
  unfold cnum_int. destruct i1 as [|c t]; cbn [jpeek tl length].
  - intros H. discriminate H.
  - destruct (is_19 c).
    + destruct (span_digits t) as [ds i2'] eqn:E. intros H; inversion H; subst. apply span_digits_len in E. lia.
    + destruct (negb (c =? 48)); intros H; [discriminate|]. inversion H; subst. lia.
Qed.

Lemma cnum_frac_le i2 fp i3 stop : cnum_frac i2 = (fp, i3, stop) -> (length i3 <= length i2)%nat.
Proof.
  unfold cnum_frac. destruct (jpeek i2 =? 46).
  - destruct (is_digit (jpeek (tl i2))).
    + destruct (span_digits (tl i2)) as [ds i3'] eqn:E. intros H; inversion H; subst.
      apply span_digits_len in E. pose proof (tl_le i2). lia.
    + intros H; inversion H; subst. apply le_n.
  - intros H; inversion H; subst. apply le_n.
Qed.

Lemma cnum_exp_le i3 ep i4 : cnum_exp i3 = (ep, i4) -> (length i4 <= length i3)%nat.
Proof.
  unfold cnum_exp. destruct ((jpeek i3 =? 101) || (jpeek i3 =? 69)).
  - destruct ((jpeek (tl i3) =? 43) || (jpeek (tl i3) =? 45)).
    + destruct (is_digit (jpeek (tl (tl i3)))).
      * destruct (span_digits (tl (tl i3))) as [ds i6] eqn:E. intros H; inversion H; subst.
        apply span_digits_len in E. pose proof (tl_le i3). pose proof (tl_le (tl i3)). lia.
      * intros H; inversion H; subst. apply le_n.
    + destruct (is_digit (jpeek (tl i3))).
      * destruct (span_digits (tl i3)) as [ds i6] eqn:E. intros H; inversion H; subst.
        apply span_digits_len in E. pose proof (tl_le i3). lia.
      * intros H; inversion H; subst. apply le_n.
  - intros H; inversion H; subst. apply le_n.
Qed.

Lemma cnumber_shorter i lex r : cnumber i = Some (lex, r) -> (length r < length i)%nat.
Proof.
  unfold cnumber. destruct (cnum_sign i) as [sg i1] eqn:Es. apply cnum_sign_le in Es.
  destruct (cnum_int i1) as [[ip i2]|] eqn:Ei; [|discriminate]. apply cnum_int_lt in Ei.
  destruct (cnum_frac i2) as [[fp i3] stop] eqn:Ef. apply cnum_frac_le in Ef.
  destruct stop.
  - intros H; inversion H; subst. lia.
  - destruct (cnum_exp i3) as [ep i4] eqn:Ee. apply cnum_exp_le in Ee. intros H; inversion H; subst. lia.
Qed.

Lemma strip_prefix_len p : forall i r, strip_prefix p i = Some r -> length i = (length p + length r)%nat.
Proof.
  induction p as [|x p IH]; intros i r H; cbn [strip_prefix] in H.
  - inversion H; subst. reflexivity.
  - destruct i as [|c i]; [discriminate|]. destruct (c =? x); [|discriminate]. apply IH in H. cbn [length]. lia.
Qed.

Lemma cliteral_shorter i lex r : cliteral i = Some (lex, r) -> (length r < length i)%nat.
Proof.
  unfold cliteral.
  destruct (strip_prefix lit_true i) as [r1|] eqn:E1.
  { intros H; inversion H; subst. apply strip_prefix_len in E1. cbn [lit_true length] in E1. lia. }
  destruct (strip_prefix lit_false i) as [r2|] eqn:E2.
  { intros H; inversion H; subst. apply strip_prefix_len in E2. cbn [lit_false length] in E2. lia. }
  destruct (strip_prefix lit_null i) as [r3|] eqn:E3; [|discriminate].
  intros H; inversion H; subst. apply strip_prefix_len in E3. cbn [lit_null length] in E3. lia.
Qed.

(* ---------- exactness: the lexeme grammars are exactly what the consumers accept ---------- *)
Lemma span_digits_nonempty t ds r : is_digit (jpeek t) = true -> span_digits t = (ds, r) ->
  exists d ds', ds = d :: ds' /\ t = ds ++ r /\ all_digits ds.
Proof.
  intros Hd Hs. pose proof (span_digits_spec _ _ _ Hs) as (Ht & Hall & _).
  destruct t as [|d t']; [discriminate Hd|]. cbn [jpeek] in Hd. cbn [span_digits] in Hs. rewrite Hd in Hs.
  destruct (span_digits t') as [a b']. inversion Hs; subst. exists d, a. split; [reflexivity|]. split; assumption.
Qed.

Lemma cnum_sign_inv i sg i1 : cnum_sign i = (sg, i1) -> i = sg ++ i1 /\ (sg = [] \/ sg = [45]).
Proof.
  unfold cnum_sign. destruct (jpeek i =? 45) eqn:E; intros H; inversion H; subst.
  - destruct i as [|c t]; [discriminate E|]. cbn [jpeek] in E. apply Z.eqb_eq in E. subst c.
    split; [reflexivity | right; reflexivity].
  - split; [reflexivity | left; reflexivity].
Qed.

Lemma cnum_int_inv i1 ip i2 : cnum_int i1 = Some (ip, i2) -> i1 = ip ++ i2 /\ int_part ip.
Proof.
  unfold cnum_int. destruct i1 as [|c t]; cbn [jpeek tl]; [intros H; discriminate H|].
  destruct (is_19 c) eqn:E19.
  - destruct (span_digits t) as [ds r] eqn:Es. intros H; inversion H; subst.
    apply span_digits_spec in Es. destruct Es as (-> & Hall & _). split; [reflexivity|].
    right. exists c, ds. split; [reflexivity|]. split; assumption.
  - destruct (c =? 48) eqn:E48; cbn [negb]; intros H; [|discriminate]. inversion H; subst.
    apply Z.eqb_eq in E48. subst c. split; [reflexivity | left; reflexivity].
Qed.

Lemma cnum_frac_inv i2 fp i3 stop : cnum_frac i2 = (fp, i3, stop) -> i2 = fp ++ i3 /\ frac_part fp.
Proof.
  unfold cnum_frac. destruct (jpeek i2 =? 46) eqn:E.
  - destruct i2 as [|c t]; [discriminate E|]. cbn [jpeek] in E. apply Z.eqb_eq in E. subst c. cbn [tl].
    destruct (is_digit (jpeek t)) eqn:Ed.
    + destruct (span_digits t) as [ds r] eqn:Es. intros H; inversion H; subst.
      destruct (span_digits_nonempty _ _ _ Ed Es) as (d & ds' & -> & -> & Hall).
      split; [reflexivity|]. right. exists d, ds'. split; [reflexivity | exact Hall].
    + intros H; inversion H; subst. split; [reflexivity | left; reflexivity].
  - intros H; inversion H; subst. split; [reflexivity | left; reflexivity].
Qed.

Lemma cnum_exp_inv i3 ep i4 : cnum_exp i3 = (ep, i4) -> i3 = ep ++ i4 /\ exp_part ep.
Proof.
  unfold cnum_exp. destruct ((jpeek i3 =? 101) || (jpeek i3 =? 69)) eqn:E.
  - destruct i3 as [|c t]; [discriminate E|]. cbn [jpeek] in E |- *. cbn [tl].
    assert (Hc : c = 101 \/ c = 69) by lia.
    destruct ((jpeek t =? 43) || (jpeek t =? 45)) eqn:Es.
    + destruct t as [|s t']; [discriminate Es|]. cbn [jpeek] in Es |- *. cbn [tl].
      assert (Hs : s = 43 \/ s = 45) by lia.
      destruct (is_digit (jpeek t')) eqn:Ed.
      * destruct (span_digits t') as [ds r] eqn:Esp. intros H; inversion H; subst.
        destruct (span_digits_nonempty _ _ _ Ed Esp) as (d & ds' & -> & -> & Hall).
        split; [reflexivity|]. right. exists c, [s], d, ds'. split; [reflexivity|]. split; [exact Hc|].
        split; [|exact Hall]. destruct Hs as [-> | ->]; [right; left | right; right]; reflexivity.
      * intros H; inversion H; subst. split; [reflexivity | left; reflexivity].
    + destruct (is_digit (jpeek t)) eqn:Ed.
      * destruct (span_digits t) as [ds r] eqn:Esp. intros H; inversion H; subst.
        destruct (span_digits_nonempty _ _ _ Ed Esp) as (d & ds' & -> & -> & Hall).
        split; [reflexivity|]. right. exists c, [], d, ds'. split; [reflexivity|]. split; [exact Hc|].
        split; [left; reflexivity | exact Hall].
      * intros H; inversion H; subst. split; [reflexivity | left; reflexivity].
  - intros H; inversion H; subst. split; [reflexivity | left; reflexivity].
Qed.

(* whatever consumeNumberToken returns is a lexeme of the grammar, and a prefix of the input *)
Lemma cnumber_inv i lex r : cnumber i = Some (lex, r) -> i = lex ++ r /\ num_lexeme lex.
Proof.
  unfold cnumber. destruct (cnum_sign i) as [sg i1] eqn:Es. apply cnum_sign_inv in Es. destruct Es as [-> Hsg].
  destruct (cnum_int i1) as [[ip i2]|] eqn:Ei; [|discriminate]. apply cnum_int_inv in Ei. destruct Ei as [-> Hip].
  destruct (cnum_frac i2) as [[fp i3] stop] eqn:Ef. apply cnum_frac_inv in Ef. destruct Ef as [Hi2 Hfp].
  destruct stop.
  - intros H; inversion H; subst. split; [rewrite <- app_assoc; reflexivity|].
    exists sg, ip, [], []. split; [rewrite !app_nil_r; reflexivity|].
    split; [exact Hsg|]. split; [exact Hip|]. split; left; reflexivity.
  - destruct (cnum_exp i3) as [ep i4] eqn:Ee. apply cnum_exp_inv in Ee. destruct Ee as [-> Hep].
    intros H; inversion H; subst. split; [rewrite <- !app_assoc; reflexivity|].
    exists sg, ip, fp, ep. split; [reflexivity|]. split; [exact Hsg|]. split; [exact Hip|]. split; assumption.
Qed.

Theorem cnumber_exact l : cnumber l = Some (l, []) <-> num_lexeme l.
Proof.
  split.
  - intros H. apply cnumber_inv in H. apply H.
  - intros H. rewrite <- (app_nil_r l) at 1. apply cnumber_ok; [exact H | reflexivity].
Qed.

Lemma strip_prefix_inv p : forall i r, strip_prefix p i = Some r -> i = p ++ r.
Proof.
  induction p as [|x p IH]; intros i r H; cbn [strip_prefix] in H.
  - inversion H; reflexivity.
  - destruct i as [|c i]; [discriminate|]. destruct (c =? x) eqn:E; [|discriminate].
    apply Z.eqb_eq in E. subst c. apply IH in H. subst i. reflexivity.
Qed.

Lemma cliteral_inv i lex r : cliteral i = Some (lex, r) -> i = lex ++ r /\ lit_lexeme lex.
Proof.
  unfold cliteral.
  destruct (strip_prefix lit_true i) as [r1|] eqn:E1.
  { intros H; inversion H; subst. apply strip_prefix_inv in E1. split; [exact E1 | left; reflexivity]. }
  destruct (strip_prefix lit_false i) as [r2|] eqn:E2.
  { intros H; inversion H; subst. apply strip_prefix_inv in E2. split; [exact E2 | right; left; reflexivity]. }
  destruct (strip_prefix lit_null i) as [r3|] eqn:E3; [|discriminate].
  intros H; inversion H; subst. apply strip_prefix_inv in E3. split; [exact E3 | right; right; reflexivity].
Qed.

Theorem cliteral_exact l : cliteral l = Some (l, []) <-> lit_lexeme l.
Proof.
  split.
  - intros H. apply cliteral_inv in H. apply H.
  - intros H. rewrite <- (app_nil_r l) at 1. apply cliteral_ok. exact H.
Qed.

(* ---------- boolean checkers (for examples: they decide the hypotheses of the theorems) ---------- *)
Definition str_okb (l : bytes) : bool :=
  (jpeek l =? 34) && match cstring l with SOk lex [] => beqb lex l | _ => false end.
Definition num_okb (l : bytes) : bool :=
  match cnumber l with Some (lex, []) => beqb lex l | _ => false end.
Definition lit_okb (l : bytes) : bool :=
  match cliteral l with Some (lex, []) => beqb lex l | _ => false end.

Lemma str_okb_sound l : str_okb l = true -> str_lexeme l.
Proof.
  unfold str_okb. intros H. apply andb_true_iff in H. destruct H as [Hq H]. apply Z.eqb_eq in Hq.
  destruct (cstring l) as [lex r | pre r] eqn:E; [|discriminate]. destruct r; [|discriminate].
  apply beqb_eq in H. subst lex. apply cstring_exact. split; assumption.
Qed.

Lemma num_okb_sound l : num_okb l = true -> num_lexeme l.
Proof.
  unfold num_okb. destruct (cnumber l) as [[lex r]|] eqn:E; [|discriminate]. destruct r; [|discriminate].
  intros H. apply beqb_eq in H. subst lex. apply cnumber_exact. exact E.
Qed.

Lemma lit_okb_sound l : lit_okb l = true -> lit_lexeme l.
Proof.
  unfold lit_okb. destruct (cliteral l) as [[lex r]|] eqn:E; [|discriminate]. destruct r; [|discriminate].
  intros H. apply beqb_eq in H. subst lex. apply cliteral_exact. exact E.
Qed.

Fixpoint lex_okb (v : jvalue) : bool :=
  match v with
  | JLit l => lit_okb l
  | JNum l => num_okb l
  | JStr l => str_okb l
  | JArr vs => forallb lex_okb vs
  | JObj ms => forallb (fun kv => str_okb (fst kv) && lex_okb (snd kv)) ms
  end.

Definition all_jwsb (w : bytes) : bool := forallb jws w.

Lemma all_jwsb_sound w : all_jwsb w = true -> all_jws w.
Proof. unfold all_jwsb, all_jws. intros H. apply Forall_forall. apply forallb_forall. exact H. Qed.
