(* Json/JsonParseProofs.v — the parser model (JsonParse.v, transcribed from parse/v2/json Parser.Next) delivers, for every
   JSON value with well-formed lexemes and every white-space layout, exactly the event stream [events_of] that
   JsonSpec assumes.  No fuel bound in the statements; the fuel [parse_events] computes is shown sufficient for every
   input (well-formed or not) through progress of [pnext]. *)
From MV Require Import Base.MvBytes Num.NumModel Num.NumSpec Num.NumProofs
  Json.JsonModel Json.JsonSpec Json.JsonProofs Json.JsonParse Json.JsonParseSpec Json.JsonParseLex.

(* ====================== progress and fuel ====================== *)
Lemma cstring_loop_bad_le i : forall acc pre i1, cstring_loop acc i = SBad pre i1 -> (length i1 <= length i)%nat.
Proof.
  induction i as [|c i IH]; intros acc pre i1 H; cbn [cstring_loop] in H.
  - inversion H; subst. apply le_n.
  - cbn [length]. destruct (c =? 34).
    + destruct (negb (escaped_back acc false)); [discriminate|]. apply IH in H. lia.
    + destruct (c =? 0).
      * inversion H; subst. apply le_n.
      * apply IH in H. lia.
Qed.

Lemma cstring_bad_le i pre i1 : cstring i = SBad pre i1 -> (length i1 <= length i)%nat.
Proof.
  destruct i as [|c i]; cbn [cstring]; intros H.
  - inversion H; subst. apply le_n.
  - apply cstring_loop_bad_le in H. cbn [length]. lia.
Qed.

Lemma pnext_value_shorter st' i g t st r : pnext_value st' i = PTok g t st r -> (length r < length i)%nat.
Proof.
  unfold pnext_value.
  assert (Hgen : forall pre i1, (length i1 <= length i)%nat ->
            match cnumber i1 with
            | Some (lex, r0) => PTok GNumber (pre ++ lex) st' r0
            | None => match cliteral i1 with
                      | Some (lex, r0) => PTok GLiteral (pre ++ lex) st' r0
                      | None => match i1 with [] => PEof | _ :: _ => PFail end
                      end
            end = PTok g t st r -> (length r < length i)%nat).
  { intros pre i1 Hle. destruct (cnumber i1) as [[lex r0]|] eqn:En.
    - intros H; inversion H; subst. apply cnumber_shorter in En. lia.
    - destruct (cliteral i1) as [[lex r0]|] eqn:El.
      + intros H; inversion H; subst. apply cliteral_shorter in El. lia.
      + destruct i1; intros H; discriminate H. }
  destruct (jpeek i =? 34).
  - destruct (cstring i) as [lex r1 | pre i1] eqn:Es.
    + intros H; inversion H; subst. apply cstring_shorter in Es. exact Es.
    + apply Hgen. apply cstring_bad_le in Es. exact Es.
  - apply Hgen. apply le_n.
Qed.

Lemma eqb_peek_nz i x : (jpeek i =? x) = true -> x <> 0 -> jpeek i <> 0.
Proof. intros H Hx. apply Z.eqb_eq in H. congruence. Qed.

Lemma pnext_body_shorter stk nd i g t st r : pnext_body stk nd i = PTok g t st r -> (length r < length i)%nat.
Proof.
  unfold pnext_body. cbv zeta.
  destruct (nd && negb (jpeek i =? 125) && negb (jpeek i =? 93) && negb (jpeek i =? 0)); [discriminate|].
  destruct (jpeek i =? 123) eqn:E1.
  { intros H; inversion H; subst. apply tl_shorter. apply (eqb_peek_nz _ _ E1). lia. }
  destruct (jpeek i =? 125) eqn:E2.
  { destruct (negb (pstate_eqb (top_of stk) SObjectKey)); [discriminate|].
    intros H; inversion H; subst. apply tl_shorter. apply (eqb_peek_nz _ _ E2). lia. }
  destruct (jpeek i =? 91) eqn:E3.
  { intros H; inversion H; subst. apply tl_shorter. apply (eqb_peek_nz _ _ E3). lia. }
  destruct (jpeek i =? 93) eqn:E4.
  { destruct (negb (pstate_eqb (top_of stk) SArray)); [discriminate|].
    intros H; inversion H; subst. apply tl_shorter. apply (eqb_peek_nz _ _ E4). lia. }
  destruct (pstate_eqb (top_of stk) SObjectKey).
  - destruct (negb (jpeek i =? 34)); [discriminate|].
    destruct (cstring i) as [lex r1 | pre i1] eqn:Es; [|discriminate].
    destruct (negb (jpeek (skip_ws r1) =? 58)); [discriminate|].
    intros H; inversion H; subst. apply cstring_shorter in Es.
    pose proof (tl_le (skip_ws r1)). pose proof (skip_ws_le r1). lia.
  - apply pnext_value_shorter.
Qed.

(* every token consumes at least one byte *)
Theorem pnext_shorter st i g t st' r : pnext st i = PTok g t st' r -> (length r < length i)%nat.
Proof.
  unfold pnext. pose proof (skip_ws_le i) as H1.
  destruct (jpeek (skip_ws i) =? 44).
  - destruct (negb (pstate_eqb (ptop st) SArray) && negb (pstate_eqb (ptop st) SObjectKey)); [discriminate|].
    intros H. apply pnext_body_shorter in H.
    pose proof (skip_ws_le (tl (skip_ws i))). pose proof (tl_le (skip_ws i)). lia.
  - intros H. apply pnext_body_shorter in H. lia.
Qed.

(* hence any fuel above the input length gives the same run: the fuel of [parse_events] is never exhausted *)
Theorem prun_fuel f : forall st i f', (length i < f)%nat -> (length i < f')%nat -> prun f st i = prun f' st i.
Proof.
  induction f as [|f IH]; intros st i f' H1 H2; [lia|]. destruct f' as [|f']; [lia|].
  cbn [prun]. destruct (pnext st i) as [g t st' r| |] eqn:E; [|reflexivity|reflexivity].
  apply pnext_shorter in E. rewrite (IH st' r f') by lia. reflexivity.
Qed.

Lemma prun_S f st i :
  prun (S f) st i =
  match pnext st i with
  | PTok g t st' r => let (evs, ok) := prun f st' r in (ev (ptop st) g t :: evs, ok)
  | PEof => ([], true)
  | PFail => ([], false)
  end.
Proof. reflexivity. Qed.

Definition parse_from (st : pst) (i : bytes) : list event * bool := prun (S (length i)) st i.

Lemma parse_events_from i : parse_events i = parse_from pinit i.
Proof. reflexivity. Qed.

Lemma parse_from_tok st i g t st' r : pnext st i = PTok g t st' r ->
  parse_from st i = (ev (ptop st) g t :: fst (parse_from st' r), snd (parse_from st' r)).
Proof.
  intros H. unfold parse_from. rewrite (prun_S (length i)). rewrite H. pose proof (pnext_shorter _ _ _ _ _ _ H) as Hlt.
  rewrite (prun_fuel (length i) st' r (S (length r))) by lia.
  destruct (prun (S (length r)) st' r) as [evs ok]. reflexivity.
Qed.

Lemma pop_fix_after x stk : pop_fix (x :: stk) = after_val stk.
Proof. destruct stk as [|[] r]; reflexivity. Qed.

(* ====================== the state stack is never emptied ======================
   Go indexes p.state[len(p.state)-1] without a check; the stack keeps its bottom ValueState for every input, so
   that index is always in range (and the default of [top_of] on [] is never used). *)
Inductive stack_ok : list pstate -> Prop :=
| so_base : stack_ok [SValue]
| so_push x stk : x <> SValue -> stack_ok stk -> stack_ok (x :: stk).

Lemma stack_ok_pop x stk : x <> SValue -> stack_ok (x :: stk) -> stack_ok stk.
Proof. intros Hx H. inversion H as [|y stk' Hy Hs]; subst; [congruence | exact Hs]. Qed.

Lemma stack_ok_top stk x : stack_ok stk -> top_of stk = x -> x <> SValue -> exists r, stk = x :: r /\ stack_ok r.
Proof.
  intros H Ht Hx. destruct H as [|y stk Hy Hs]; cbn [top_of] in Ht; subst; [congruence|].
  exists stk. split; [reflexivity | exact Hs].
Qed.

Lemma after_val_ok stk : stack_ok stk -> stack_ok (after_val stk).
Proof.
  intros H. unfold after_val. destruct (top_of stk) eqn:Et; cbn [pstate_eqb]; try exact H.
  destruct (stack_ok_top stk SObjectValue H Et) as (r & -> & Hr); [discriminate|].
  cbn [replace_top]. apply so_push; [discriminate | exact Hr].
Qed.

Lemma pnext_value_state st' i g t st r : pnext_value st' i = PTok g t st r -> st = st'.
Proof.
  unfold pnext_value. destruct (if jpeek i =? 34 then cstring i else SBad [] i) as [lex r1 | pre i1].
  - intros H; inversion H; reflexivity.
  - destruct (cnumber i1) as [[lex r0]|]; [intros H; inversion H; reflexivity|].
    destruct (cliteral i1) as [[lex r0]|]; [intros H; inversion H; reflexivity|].
    destruct i1; intros H; discriminate H.
Qed.

Lemma pstate_eqb_eq a b : pstate_eqb a b = true -> a = b.
Proof. destruct a, b; cbn [pstate_eqb]; intros H; (reflexivity || discriminate H). Qed.

Lemma pnext_body_stack_ok stk nd i g t st r : stack_ok stk -> pnext_body stk nd i = PTok g t st r -> stack_ok (p_stack st).
Proof.
  intros Hs. unfold pnext_body. cbv zeta.
  destruct (nd && negb (jpeek i =? 125) && negb (jpeek i =? 93) && negb (jpeek i =? 0)); [discriminate|].
  destruct (jpeek i =? 123).
  { intros H; inversion H; subst. cbn [p_stack]. apply so_push; [discriminate | exact Hs]. }
  destruct (jpeek i =? 125).
  { destruct (pstate_eqb (top_of stk) SObjectKey) eqn:Et; cbn [negb]; [|discriminate].
    intros H; inversion H; subst. cbn [p_stack]. apply pstate_eqb_eq in Et.
    destruct (stack_ok_top stk SObjectKey Hs Et) as (r0 & -> & Hr); [discriminate|].
    rewrite pop_fix_after. apply after_val_ok. exact Hr. }
  destruct (jpeek i =? 91).
  { intros H; inversion H; subst. cbn [p_stack]. apply so_push; [discriminate | exact Hs]. }
  destruct (jpeek i =? 93).
  { destruct (pstate_eqb (top_of stk) SArray) eqn:Et; cbn [negb]; [|discriminate].
    intros H; inversion H; subst. cbn [p_stack]. apply pstate_eqb_eq in Et.
    destruct (stack_ok_top stk SArray Hs Et) as (r0 & -> & Hr); [discriminate|].
    rewrite pop_fix_after. apply after_val_ok. exact Hr. }
  destruct (pstate_eqb (top_of stk) SObjectKey) eqn:Et.
  - destruct (negb (jpeek i =? 34)); [discriminate|].
    destruct (cstring i) as [lex r1 | pre i1]; [|discriminate].
    destruct (negb (jpeek (skip_ws r1) =? 58)); [discriminate|].
    intros H; inversion H; subst. cbn [p_stack]. apply pstate_eqb_eq in Et.
    destruct (stack_ok_top stk SObjectKey Hs Et) as (r0 & -> & Hr); [discriminate|].
    cbn [replace_top]. apply so_push; [discriminate | exact Hr].
  - intros H. apply pnext_value_state in H. subst st. cbn [p_stack]. apply after_val_ok. exact Hs.
Qed.

Lemma pinit_stack_ok : stack_ok (p_stack pinit).
Proof. apply so_base. Qed.

Theorem pnext_stack_ok st i g t st' r : stack_ok (p_stack st) -> pnext st i = PTok g t st' r -> stack_ok (p_stack st').
Proof.
  intros Hs. unfold pnext. destruct (jpeek (skip_ws i) =? 44).
  - destruct (negb (pstate_eqb (ptop st) SArray) && negb (pstate_eqb (ptop st) SObjectKey)); [discriminate|].
    apply pnext_body_stack_ok. exact Hs.
  - apply pnext_body_stack_ok. exact Hs.
Qed.

(* ====================== token sequences ====================== *)
Inductive steps : pst -> bytes -> list event -> pst -> bytes -> Prop :=
| steps_nil st i : steps st i [] st i
| steps_cons st i g t st1 i1 evs st2 i2 :
    pnext st i = PTok g t st1 i1 -> steps st1 i1 evs st2 i2 -> steps st i (ev (ptop st) g t :: evs) st2 i2.

Lemma steps_app st i e1 st1 i1 e2 st2 i2 :
  steps st i e1 st1 i1 -> steps st1 i1 e2 st2 i2 -> steps st i (e1 ++ e2) st2 i2.
Proof.
  intros H1 H2. induction H1 as [st i | st i g t sa ia evs sb ib Hn Hs IH]; [exact H2|].
  cbn [app]. eapply steps_cons; [exact Hn | apply IH; exact H2].
Qed.

Lemma steps_one st i g t st' r : pnext st i = PTok g t st' r -> steps st i [ev (ptop st) g t] st' r.
Proof. intros H. eapply steps_cons; [exact H | apply steps_nil]. Qed.

Lemma parse_from_steps st i evs st' i' : steps st i evs st' i' ->
  parse_from st i = (evs ++ fst (parse_from st' i'), snd (parse_from st' i')).
Proof.
  induction 1 as [st i | st i g t sa ia evs sb ib Hn Hs IH].
  - destruct (parse_from st i); reflexivity.
  - rewrite (parse_from_tok _ _ _ _ _ _ Hn). rewrite IH. reflexivity.
Qed.

(* ====================== Next on one token ====================== *)
Definition mk (stk : list pstate) (nd : bool) : pst := {| p_stack := stk; p_need := nd |}.

(* what precedes a token: nothing (then no comma is pending), or white space and a comma in a state that takes one *)
Definition tok_ctx (stk : list pstate) (nd : bool) (pre : bytes) : Prop :=
  (pre = [] /\ nd = false) \/
  (exists w, all_jws w /\ pre = w ++ [44] /\ (top_of stk = SArray \/ top_of stk = SObjectKey)).

Lemma pnext_plain stk nd w i : all_jws w -> jws (jpeek i) = false -> (jpeek i =? 44) = false ->
  pnext (mk stk nd) (w ++ i) = pnext_body stk nd i.
Proof.
  intros Hw Hi Hc. unfold pnext, mk. cbn [p_stack p_need]. rewrite skip_ws_app by assumption. rewrite Hc. reflexivity.
Qed.

Lemma pnext_ctx stk nd pre w i : tok_ctx stk nd pre -> all_jws w -> jws (jpeek i) = false -> (jpeek i =? 44) = false ->
  pnext (mk stk nd) (pre ++ w ++ i) = pnext_body stk false i.
Proof.
  intros [(-> & ->) | (w0 & Hw0 & -> & Htop)] Hw Hi Hc.
  - cbn [app]. apply pnext_plain; assumption.
  - unfold pnext, mk, ptop. cbn [p_stack p_need]. rewrite <- app_assoc. cbn [app].
    rewrite (skip_ws_app w0) by (try assumption; reflexivity).
    cbn [jpeek tl]. rewrite Z.eqb_refl. rewrite skip_ws_app by assumption.
    destruct Htop as [-> | ->]; reflexivity.
Qed.

Lemma body_open_arr stk rest :
  pnext_body stk false (91 :: rest) = PTok GStartArray [91] (mk (SArray :: stk) false) rest.
Proof. reflexivity. Qed.

Lemma body_open_obj stk rest :
  pnext_body stk false (123 :: rest) = PTok GStartObject [123] (mk (SObjectKey :: stk) false) rest.
Proof. reflexivity. Qed.

Lemma body_close_arr stk nd rest :
  pnext_body (SArray :: stk) nd (93 :: rest) = PTok GEndArray [93] (mk (after_val stk) true) rest.
Proof. rewrite <- (pop_fix_after SArray). destruct nd; reflexivity. Qed.

Lemma body_close_obj stk nd rest :
  pnext_body (SObjectKey :: stk) nd (125 :: rest) = PTok GEndObject [125] (mk (after_val stk) true) rest.
Proof. rewrite <- (pop_fix_after SObjectKey). destruct nd; reflexivity. Qed.

Lemma pnext_body_value stk i : top_of stk <> SObjectKey ->
  (jpeek i =? 123) = false -> (jpeek i =? 125) = false -> (jpeek i =? 91) = false -> (jpeek i =? 93) = false ->
  pnext_body stk false i = pnext_value (mk (after_val stk) true) i.
Proof.
  intros Htop H1 H2 H3 H4. unfold pnext_body. cbv zeta. rewrite H1, H2, H3, H4. cbn [andb].
  destruct (top_of stk); [reflexivity | congruence | reflexivity | reflexivity].
Qed.

Lemma body_str stk l rest : str_lexeme l -> top_of stk <> SObjectKey ->
  pnext_body stk false (l ++ rest) = PTok GString l (mk (after_val stk) true) rest.
Proof.
  intros Hl Htop. assert (Hp : jpeek (l ++ rest) = 34) by (destruct (str_lexeme_head l Hl) as [r ->]; reflexivity).
  rewrite pnext_body_value; try exact Htop; try (rewrite Hp; reflexivity).
  unfold pnext_value. rewrite Hp. rewrite Z.eqb_refl. rewrite cstring_ok by exact Hl. reflexivity.
Qed.

Lemma body_num stk l rest : num_lexeme l -> num_follow (jpeek rest) = true -> top_of stk <> SObjectKey ->
  pnext_body stk false (l ++ rest) = PTok GNumber l (mk (after_val stk) true) rest.
Proof.
  intros Hl Hf Htop. destruct (num_lexeme_head l Hl) as (c & r & Hlc & Hc).
  assert (Hp : jpeek (l ++ rest) = c) by (rewrite Hlc; reflexivity).
  assert (Hrange : c = 45 \/ 48 <= c <= 57) by (destruct Hc as [-> | Hd]; [left; reflexivity | right; apply digit_range; exact Hd]).
  rewrite pnext_body_value; try exact Htop; try (rewrite Hp; lia).
  unfold pnext_value. rewrite Hp. replace (c =? 34) with false by lia.
  rewrite cnumber_ok by assumption. reflexivity.
Qed.

Lemma body_lit stk l rest : lit_lexeme l -> top_of stk <> SObjectKey ->
  pnext_body stk false (l ++ rest) = PTok GLiteral l (mk (after_val stk) true) rest.
Proof.
  intros Hl Htop. destruct (lit_lexeme_head l Hl) as (c & r & Hlc & Hc).
  assert (Hp : jpeek (l ++ rest) = c) by (rewrite Hlc; reflexivity).
  rewrite pnext_body_value; try exact Htop; try (rewrite Hp; lia).
  unfold pnext_value. rewrite Hp. replace (c =? 34) with false by lia.
  rewrite cnumber_lit by exact Hl. rewrite cliteral_ok by exact Hl. reflexivity.
Qed.

Lemma pnext_body_key stk i : jpeek i = 34 ->
  pnext_body (SObjectKey :: stk) false i =
  match cstring i with
  | SBad _ _ => PFail
  | SOk lex r => if negb (jpeek (skip_ws r) =? 58) then PFail
                 else PTok GString lex (mk (SObjectValue :: stk) false) (tl (skip_ws r))
  end.
Proof. intros H. unfold pnext_body. cbv zeta. rewrite H. reflexivity. Qed.

(* the ObjectKey state: the key string, white space and the colon are one call of Next *)
Lemma body_key stk l w rest : str_lexeme l -> all_jws w ->
  pnext_body (SObjectKey :: stk) false (l ++ w ++ 58 :: rest) = PTok GString l (mk (SObjectValue :: stk) false) rest.
Proof.
  intros Hl Hw. rewrite pnext_body_key by (destruct (str_lexeme_head l Hl) as [r ->]; reflexivity).
  rewrite cstring_ok by exact Hl. rewrite skip_ws_app by (try assumption; reflexivity). reflexivity.
Qed.

(* heads of lexemes are neither white space nor a comma *)
Lemma str_tok l rest : str_lexeme l -> jws (jpeek (l ++ rest)) = false /\ (jpeek (l ++ rest) =? 44) = false.
Proof. intros Hl. destruct (str_lexeme_head l Hl) as [r ->]. split; reflexivity. Qed.

Lemma num_tok l rest : num_lexeme l -> jws (jpeek (l ++ rest)) = false /\ (jpeek (l ++ rest) =? 44) = false.
Proof.
  intros Hl. destruct (num_lexeme_head l Hl) as (c & r & -> & Hc). cbn [app jpeek].
  assert (Hrange : c = 45 \/ 48 <= c <= 57) by (destruct Hc as [-> | Hd]; [left; reflexivity | right; apply digit_range; exact Hd]).
  unfold jws. lia.
Qed.

Lemma lit_tok l rest : lit_lexeme l -> jws (jpeek (l ++ rest)) = false /\ (jpeek (l ++ rest) =? 44) = false.
Proof. intros [-> | [-> | ->]]; split; reflexivity. Qed.

(* ====================== the lists inside lex_ok ====================== *)
Lemma lex_ok_arr vs : lex_ok (JArr vs) -> Forall lex_ok vs.
Proof.
  cbn [lex_ok]. induction vs as [|v vs IH]; intros H; [constructor|]. destruct H as [H1 H2].
  constructor; [exact H1 | apply IH; exact H2].
Qed.

Lemma lex_ok_obj ms : lex_ok (JObj ms) -> Forall (fun kv => str_lexeme (fst kv) /\ lex_ok (snd kv)) ms.
Proof.
  cbn [lex_ok]. induction ms as [|kv ms IH]; intros H; [constructor|]. destruct H as (H1 & H2 & H3).
  constructor; [split; assumption | apply IH; exact H3].
Qed.

(* ====================== the main induction ====================== *)
Section Main.
  Variable ws : nat -> bytes.
  Hypothesis Hws : forall k, all_jws (ws k).

  (* a value in a state that expects one (Value, ObjectValue, Array), possibly after "ws ," in an array *)
  Definition Pv (v : jvalue) : Prop :=
    lex_ok v -> forall k stk nd pre rest,
      tok_ctx stk nd pre -> top_of stk <> SObjectKey -> num_follow (jpeek rest) = true ->
      steps (mk stk nd) (pre ++ fst (rend ws v k) ++ rest)
            (events_of (top_of stk) v) (mk (after_val stk) true) rest.

  Lemma scalar_steps stk nd pre k l rest g :
    tok_ctx stk nd pre ->
    jws (jpeek (l ++ rest)) = false /\ (jpeek (l ++ rest) =? 44) = false ->
    pnext_body stk false (l ++ rest) = PTok g l (mk (after_val stk) true) rest ->
    steps (mk stk nd) (pre ++ (ws k ++ l) ++ rest) [ev (top_of stk) g l] (mk (after_val stk) true) rest.
  Proof.
    intros Hctx [Hj Hc] Hb. rewrite <- app_assoc.
    apply (steps_one (mk stk nd)). rewrite pnext_ctx by (try assumption; apply Hws). exact Hb.
  Qed.

  Lemma elems_follow rv vs k rest : num_follow (jpeek rest) = true ->
    num_follow (jpeek (fst (rend_elems ws rv false vs k) ++ rest)) = true.
  Proof.
    intros Hf. destruct vs as [|v vs]; [exact Hf|]. cbn [rend_elems].
    destruct (rv v (S k)) as [bv k2]. destruct (rend_elems ws rv false vs k2) as [br k3]. cbn [fst].
    rewrite <- !app_assoc. cbn [app]. apply follow_ws_app; [apply Hws | reflexivity].
  Qed.

  Lemma members_follow rv ms k rest : num_follow (jpeek rest) = true ->
    num_follow (jpeek (fst (rend_members ws rv false ms k) ++ rest)) = true.
  Proof.
    intros Hf. destruct ms as [|kv ms]; [exact Hf|]. cbn [rend_members].
    destruct (rv (snd kv) (S (S (S k)))) as [bv k2]. destruct (rend_members ws rv false ms k2) as [br k3]. cbn [fst].
    rewrite <- !app_assoc. cbn [app]. apply follow_ws_app; [apply Hws | reflexivity].
  Qed.

  Lemma elems_steps vs : Forall Pv vs -> Forall lex_ok vs -> forall first k nd stk rest,
    (first = true -> nd = false) -> num_follow (jpeek rest) = true ->
    steps (mk (SArray :: stk) nd) (fst (rend_elems ws (rend ws) first vs k) ++ rest)
          (flat_map (events_of SArray) vs)
          (mk (SArray :: stk) (match vs with [] => nd | _ => true end)) rest.
  Proof.
    induction 1 as [|v vs Hv Hvs IH]; intros Hl first k nd stk rest Hfirst Hf.
    - apply steps_nil.
    - pose proof (Forall_inv Hl) as Hl1. pose proof (Forall_inv_tail Hl) as Hl2.
      cbn [rend_elems flat_map].
      assert (Hctx : tok_ctx (SArray :: stk) nd (fst (if first then ([], k) else (ws k ++ [44], S k)))).
      { destruct first; cbn [fst].
        - left. split; [reflexivity | apply Hfirst; reflexivity].
        - right. exists (ws k). split; [apply Hws|]. split; [reflexivity | left; reflexivity]. }
      destruct (if first then ([], k) else (ws k ++ [44], S k)) as [sepb k1]. cbn [fst] in Hctx.
      specialize (Hv Hl1 k1 (SArray :: stk) nd sepb).
      destruct (rend ws v k1) as [bv k2]. cbn [fst] in Hv.
      specialize (IH Hl2 false k2 true stk rest).
      pose proof (elems_follow (rend ws) vs k2 rest Hf) as Hfol.
      destruct (rend_elems ws (rend ws) false vs k2) as [br k3]. cbn [fst] in IH, Hfol |- *.
      rewrite <- !app_assoc. eapply steps_app.
      + apply Hv; [exact Hctx | discriminate | exact Hfol].
      + assert (IH' : steps (mk (SArray :: stk) true) (br ++ rest) (flat_map (events_of SArray) vs)
                            (mk (SArray :: stk) true) rest).
        { destruct vs; apply IH; (discriminate || exact Hf). }
        exact IH'.
  Qed.

  Lemma members_steps ms : Forall (fun kv => Pv (snd kv)) ms ->
    Forall (fun kv => str_lexeme (fst kv) /\ lex_ok (snd kv)) ms -> forall first k nd stk rest,
    (first = true -> nd = false) -> num_follow (jpeek rest) = true ->
    steps (mk (SObjectKey :: stk) nd) (fst (rend_members ws (rend ws) first ms k) ++ rest)
          (flat_map (fun kv => ev SObjectKey GString (fst kv) :: events_of SObjectValue (snd kv)) ms)
          (mk (SObjectKey :: stk) (match ms with [] => nd | _ => true end)) rest.
  Proof.
    induction 1 as [|kv ms Hv Hvs IH]; intros Hl first k nd stk rest Hfirst Hf.
    - apply steps_nil.
    - pose proof (Forall_inv Hl) as [Hk Hl1]. pose proof (Forall_inv_tail Hl) as Hl2.
      cbn [rend_members flat_map].
      assert (Hctx : tok_ctx (SObjectKey :: stk) nd (fst (if first then ([], k) else (ws k ++ [44], S k)))).
      { destruct first; cbn [fst].
        - left. split; [reflexivity | apply Hfirst; reflexivity].
        - right. exists (ws k). split; [apply Hws|]. split; [reflexivity | right; reflexivity]. }
      destruct (if first then ([], k) else (ws k ++ [44], S k)) as [sepb k1]. cbn [fst] in Hctx.
      specialize (Hv Hl1 (S (S k1)) (SObjectValue :: stk) false []).
      destruct (rend ws (snd kv) (S (S k1))) as [bv k2]. cbn [fst] in Hv.
      specialize (IH Hl2 false k2 true stk rest).
      pose proof (members_follow (rend ws) ms k2 rest Hf) as Hfol.
      destruct (rend_members ws (rend ws) false ms k2) as [br k3]. cbn [fst] in IH, Hfol |- *.
      rewrite <- !app_assoc. cbn [app].
      (* the key, its white space and the colon *)
      eapply steps_cons.
      { rewrite pnext_ctx; [apply body_key; [exact Hk | apply Hws] | exact Hctx | apply Hws | | ];
          apply (str_tok _ _ Hk). }
      (* the member value, then the remaining members *)
      eapply steps_app.
      + apply (Hv (br ++ rest)); [left; split; reflexivity | discriminate | exact Hfol].
      + assert (IH' : steps (mk (SObjectKey :: stk) true) (br ++ rest)
                        (flat_map (fun kv0 => ev SObjectKey GString (fst kv0) :: events_of SObjectValue (snd kv0)) ms)
                        (mk (SObjectKey :: stk) true) rest).
        { destruct ms; apply IH; (discriminate || exact Hf). }
        exact IH'.
  Qed.

  Lemma value_steps v : Pv v.
  Proof.
    induction v as [l | l | l | vs IH | ms IH] using jvalue_ind'; intros Hl k stk nd pre rest Hctx Htop Hf.
    - cbn [rend fst events_of]. apply scalar_steps; [exact Hctx | apply lit_tok; exact Hl | apply body_lit; assumption].
    - cbn [rend fst events_of]. apply scalar_steps; [exact Hctx | apply num_tok; exact Hl | apply body_num; assumption].
    - cbn [rend fst events_of]. apply scalar_steps; [exact Hctx | apply str_tok; exact Hl | apply body_str; assumption].
    - (* array *)
      apply lex_ok_arr in Hl. cbn [rend events_of].
      pose proof (elems_steps vs IH Hl true (S k) false stk) as He.
      destruct (rend_elems ws (rend ws) true vs (S k)) as [b k1]. cbn [fst] in He |- *.
      rewrite <- !app_assoc. cbn [app].
      eapply steps_cons.
      { rewrite pnext_ctx; [apply body_open_arr | exact Hctx | apply Hws | reflexivity | reflexivity]. }
      eapply steps_app.
      + apply (He (ws k1 ++ 93 :: rest)); [reflexivity | apply follow_ws_app; [apply Hws | reflexivity]].
      + apply (steps_one (mk (SArray :: stk) _)).
        rewrite pnext_plain; [apply body_close_arr | apply Hws | reflexivity | reflexivity].
    - (* object *)
      apply lex_ok_obj in Hl. cbn [rend events_of].
      pose proof (members_steps ms IH Hl true (S k) false stk) as He.
      destruct (rend_members ws (rend ws) true ms (S k)) as [b k1]. cbn [fst] in He |- *.
      rewrite <- !app_assoc. cbn [app].
      eapply steps_cons.
      { rewrite pnext_ctx; [apply body_open_obj | exact Hctx | apply Hws | reflexivity | reflexivity]. }
      eapply steps_app.
      + apply (He (ws k1 ++ 125 :: rest)); [reflexivity | apply follow_ws_app; [apply Hws | reflexivity]].
      + apply (steps_one (mk (SObjectKey :: stk) _)).
        rewrite pnext_plain; [apply body_close_obj | apply Hws | reflexivity | reflexivity].
  Qed.
End Main.

(* ====================== the theorems ====================== *)

(* Generalisation.  A value rendered with arbitrary white space at every gap, in any parser state that expects a value
   (top of the stack Value, ObjectValue or Array), preceded by nothing (needComma clear) or — in an array — by white
   space and a comma, and followed by anything that cannot extend a number: the parser delivers exactly
   [events_of (state) v], consumes exactly the value, sets needComma, and turns an ObjectValue state into ObjectKey. *)
Theorem parse_value_steps ws v : (forall k, all_jws (ws k)) -> lex_ok v ->
  forall k stk nd pre rest,
    tok_ctx stk nd pre -> top_of stk <> SObjectKey -> num_follow (jpeek rest) = true ->
    steps (mk stk nd) (pre ++ fst (rend ws v k) ++ rest)
          (events_of (top_of stk) v) (mk (after_val stk) true) rest.
Proof. intros Hws Hl. apply value_steps; assumption. Qed.

(* the same for the driver *)
Corollary parse_value_from ws v : (forall k, all_jws (ws k)) -> lex_ok v ->
  forall k stk nd pre rest,
    tok_ctx stk nd pre -> top_of stk <> SObjectKey -> num_follow (jpeek rest) = true ->
    parse_from (mk stk nd) (pre ++ fst (rend ws v k) ++ rest) =
    (events_of (top_of stk) v ++ fst (parse_from (mk (after_val stk) true) rest),
     snd (parse_from (mk (after_val stk) true) rest)).
Proof.
  intros Hws Hl k stk nd pre rest Hctx Htop Hf. apply parse_from_steps.
  apply parse_value_steps; assumption.
Qed.

(* trailing white space, then the end of input: ErrorGrammar with Err() == io.EOF *)
Lemma pnext_end w : all_jws w -> pnext (mk [SValue] true) w = PEof.
Proof. intros Hw. unfold pnext, mk. cbn [p_stack p_need]. rewrite skip_ws_all by exact Hw. reflexivity. Qed.

(* THE THEOREM: one top-level value, any depth and size, any white-space layout *)
Theorem parse_render ws v : (forall k, all_jws (ws k)) -> lex_ok v ->
  parse_events (render ws v) = (events_of SValue v, true).
Proof.
  intros Hws Hl. unfold render.
  pose proof (parse_value_from ws v Hws Hl 0%nat [SValue] false []) as H.
  destruct (rend ws v 0) as [b k]. cbn [fst] in H.
  rewrite parse_events_from. change pinit with (mk [SValue] false).
  specialize (H (ws k)). cbn [app] in H. rewrite H.
  - change (after_val [SValue]) with [SValue].
    assert (He : parse_from (mk [SValue] true) (ws k) = ([], true)).
    { unfold parse_from. rewrite prun_S. rewrite pnext_end by apply Hws. reflexivity. }
    rewrite He. cbn [fst snd]. rewrite app_nil_r. reflexivity.
  - left. split; reflexivity.
  - discriminate.
  - apply follow_ws_end. apply Hws.
Qed.

(* the boolean checker decides the lexeme hypothesis *)
Lemma lex_okb_sound v : lex_okb v = true -> lex_ok v.
Proof.
  induction v as [l | l | l | vs IH | ms IH] using jvalue_ind'; cbn [lex_okb lex_ok]; intros H.
  - apply lit_okb_sound. exact H.
  - apply num_okb_sound. exact H.
  - apply str_okb_sound. exact H.
  - induction IH as [|v vs Hv Hvs IHl]; [exact I|]. cbn [forallb] in H. apply andb_true_iff in H.
    destruct H as [H1 H2]. split; [apply Hv; exact H1 | apply IHl; exact H2].
  - induction IH as [|kv ms Hv Hvs IHl]; [exact I|]. cbn [forallb] in H. apply andb_true_iff in H.
    destruct H as [H1 H2]. apply andb_true_iff in H1. destruct H1 as [Hk H1].
    split; [apply str_okb_sound; exact Hk|]. split; [apply Hv; exact H1 | apply IHl; exact H2].
Qed.

(* [parse_render] with decidable hypotheses, for white-space supplies that are periodic / given by a table *)
Corollary parse_render_b ws v : (forall k, all_jwsb (ws k) = true) -> lex_okb v = true ->
  parse_events (render ws v) = (events_of SValue v, true).
Proof.
  intros Hws Hl. apply parse_render; [intros k; apply all_jwsb_sound; apply Hws | apply lex_okb_sound; exact Hl].
Qed.

Print Assumptions pnext_shorter.
Print Assumptions prun_fuel.
Print Assumptions pnext_stack_ok.
Print Assumptions cstring_exact.
Print Assumptions parse_value_steps.
Print Assumptions parse_value_from.
Print Assumptions parse_render.
Print Assumptions lex_okb_sound.
Print Assumptions cnumber_exact.
Print Assumptions cliteral_exact.
