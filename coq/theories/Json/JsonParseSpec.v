(* Json/JsonParseSpec.v — specification side for the parser theorem: a renderer writing a JSON value with ARBITRARY
   white space at every gap between tokens, and the lexeme well-formedness the parser needs. *)
From MV Require Import Base.MvBytes Num.NumModel Num.NumSpec Json.JsonModel Json.JsonSpec Json.JsonParse.

(* ---- white space ---- *)
Definition all_jws (w : bytes) : Prop := Forall (fun c => jws c = true) w.     (* every byte one of 32 10 13 9 *)

(* ---- renderer ----
   [ws k] is the white space written at the k-th gap; gaps are numbered in document order.  There is a gap before
   every token (value tokens, brackets, braces, commas, colons, keys) and one at the end of the document.
   [rend v k] = (text of v with its leading gap, next free gap number). *)
Section Render.
  Variable ws : nat -> bytes.

  Section Lists.
    Variable rv : jvalue -> nat -> bytes * nat.

    Fixpoint rend_elems (first : bool) (vs : list jvalue) (k : nat) : bytes * nat :=
      match vs with
      | [] => ([], k)
      | v :: r =>
        let (sepb, k1) := if first then ([], k) else (ws k ++ [44], S k) in
        let (bv, k2) := rv v k1 in
        let (br, k3) := rend_elems false r k2 in
        (sepb ++ bv ++ br, k3)
      end.

    Fixpoint rend_members (first : bool) (ms : list (bytes * jvalue)) (k : nat) : bytes * nat :=
      match ms with
      | [] => ([], k)
      | kv :: r =>
        let (sepb, k1) := if first then ([], k) else (ws k ++ [44], S k) in
        let (bv, k2) := rv (snd kv) (S (S k1)) in
        let (br, k3) := rend_members false r k2 in
        (sepb ++ (ws k1 ++ fst kv) ++ (ws (S k1) ++ [58]) ++ bv ++ br, k3)
      end.
  End Lists.

  Fixpoint rend (v : jvalue) (k : nat) : bytes * nat :=
    match v with
    | JLit l => (ws k ++ l, S k)
    | JNum l => (ws k ++ l, S k)
    | JStr l => (ws k ++ l, S k)
    | JArr vs => let (b, k1) := rend_elems rend true vs (S k) in (ws k ++ [91] ++ b ++ ws k1 ++ [93], S k1)
    | JObj ms => let (b, k1) := rend_members rend true ms (S k) in (ws k ++ [123] ++ b ++ ws k1 ++ [125], S k1)
    end.

  (* the document: the value, then the trailing gap *)
  Definition render (v : jvalue) : bytes := let (b, k) := rend v 0 in b ++ ws k.
End Render.

(* ---- lexemes ---- *)

(* literal: exactly true / false / null *)
Definition lit_lexeme (l : bytes) : Prop := l = lit_true \/ l = lit_false \/ l = lit_null.

(* number: an optional minus; 0 or a digit 1-9 followed by digits; optionally a dot and one or more digits;
   optionally e or E, an optional sign, one or more digits *)
Definition int_part (ip : bytes) : Prop :=
  ip = [48] \/ exists d ds, ip = d :: ds /\ is_19 d = true /\ all_digits ds.
Definition frac_part (fp : bytes) : Prop :=
  fp = [] \/ exists d ds, fp = 46 :: d :: ds /\ all_digits (d :: ds).
Definition exp_part (ep : bytes) : Prop :=
  ep = [] \/ exists e es d ds, ep = e :: es ++ d :: ds /\ (e = 101 \/ e = 69) /\
                               (es = [] \/ es = [43] \/ es = [45]) /\ all_digits (d :: ds).
Definition num_lexeme (l : bytes) : Prop :=
  exists sg ip fp ep, l = sg ++ ip ++ fp ++ ep /\ (sg = [] \/ sg = [45]) /\ int_part ip /\ frac_part fp /\ exp_part ep.

(* string body, read forwards: a backslash escapes the next byte, whatever it is; outside an escape no quote;
   nowhere a 0 byte; the body does not end inside an escape (the closing quote would be escaped).
   Control characters, invalid escapes (\x), invalid UTF-8 are all accepted — consumeStringToken does not look. *)
Fixpoint body_ok (esc : bool) (b : bytes) : bool :=
  match b with
  | [] => negb esc
  | c :: r =>
    if c =? 0 then false
    else if esc then body_ok false r
    else if c =? 92 then body_ok true r
    else if c =? 34 then false
    else body_ok false r
  end.
Definition str_lexeme (l : bytes) : Prop := exists b, l = 34 :: b ++ [34] /\ body_ok false b = true.

Fixpoint lex_ok (v : jvalue) : Prop :=
  match v with
  | JLit l => lit_lexeme l
  | JNum l => num_lexeme l
  | JStr l => str_lexeme l
  | JArr vs => (fix all (l : list jvalue) : Prop := match l with [] => True | x :: r => lex_ok x /\ all r end) vs
  | JObj ms => (fix all (l : list (bytes * jvalue)) : Prop :=
                  match l with [] => True | kv :: r => str_lexeme (fst kv) /\ lex_ok (snd kv) /\ all r end) ms
  end.

(* what may follow a value so that a number lexeme is not extended: not a digit, '.', 'e', 'E'
   (white space, ',', ']', '}' and the end of input all qualify) *)
Definition num_follow (c : byte) : bool := negb (is_digit c || (c =? 46) || (c =? 101) || (c =? 69)).
