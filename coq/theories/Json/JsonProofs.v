(* Json/Proofs.v — the separator state machine of json.Minify renders exactly the compact form. *)
From MV Require Import Base.MvBytes Num.NumModel Json.JsonModel Json.JsonSpec.

Section JInd.
  Variable P : jvalue -> Prop.
  Hypothesis HLit : forall l, P (JLit l).
  Hypothesis HNum : forall l, P (JNum l).
  Hypothesis HStr : forall l, P (JStr l).
  Hypothesis HArr : forall vs, Forall P vs -> P (JArr vs).
  Hypothesis HObj : forall ms, Forall (fun kv => P (snd kv)) ms -> P (JObj ms).
  Fixpoint jvalue_ind' (v : jvalue) : P v :=
    match v with
    | JLit l => HLit l | JNum l => HNum l | JStr l => HStr l
    | JArr vs => HArr vs ((fix go (l : list jvalue) : Forall P l :=
                             match l with [] => Forall_nil _ | x :: r => Forall_cons x (jvalue_ind' x) (go r) end) vs)
    | JObj ms => HObj ms ((fix go (l : list (bytes * jvalue)) : Forall (fun kv => P (snd kv)) l :=
                             match l with [] => Forall_nil _ | x :: r => Forall_cons x (jvalue_ind' (snd x)) (go r) end) ms)
    end.
End JInd.

Definition sepchar (st : pstate) : bytes :=
  match st with SObjectKey | SArray => [44] | SObjectValue => [58] | SValue => [] end.

Definition pre (skip : bool) (st : pstate) : bytes := if skip then [] else sepchar st.

Lemma num_text_id k t : starts_number t = false -> num_text k t = t.
Proof. unfold num_text. intros ->. rewrite andb_false_r. reflexivity. Qed.

Definition value_ok (k : bool) (v : jvalue) : Prop :=
  forall skip st rest, wf_jvalue v ->
    minify_events k skip (events_of st v ++ rest) =
    pre skip st ++ compact (num_text k) v ++ minify_events k false rest.

Lemma sep_nonend skip st g t : is_end g = false -> sep skip (ev st g t) = pre skip st.
Proof. unfold sep, pre, sepchar; simpl. intros ->. destruct skip; reflexivity. Qed.

(* elements of an array *)
Lemma elems_ok k vs : Forall (value_ok k) vs ->
  forall skip rest,
  (fix all (l : list jvalue) : Prop := match l with [] => True | x :: r => wf_jvalue x /\ all r end) vs ->
  minify_events k skip (flat_map (events_of SArray) vs ++ rest) =
  match vs with
  | [] => minify_events k skip rest
  | _ => pre skip SArray ++ sepby [44] (map (compact (num_text k)) vs) ++ minify_events k false rest
  end.
Proof.
  induction 1 as [|v vs Hv Hvs IH]; intros skip rest Hwf; [reflexivity|].
  destruct Hwf as [Hw1 Hw2]. cbn [flat_map]. rewrite <- app_assoc. rewrite Hv by exact Hw1.
  rewrite IH by exact Hw2. destruct vs as [|w vs'].
  - cbn [map sepby]. reflexivity.
  - cbn [map sepby]. unfold pre at 2; simpl sepchar. rewrite <- !app_assoc. reflexivity.
Qed.

(* members of an object *)
Lemma members_ok k ms : Forall (fun kv => value_ok k (snd kv)) ms ->
  forall skip rest,
  (fix all (l : list (bytes * jvalue)) : Prop :=
     match l with [] => True | kv :: r => starts_number (fst kv) = false /\ wf_jvalue (snd kv) /\ all r end) ms ->
  minify_events k skip (flat_map (fun kv => ev SObjectKey GString (fst kv) :: events_of SObjectValue (snd kv)) ms ++ rest) =
  match ms with
  | [] => minify_events k skip rest
  | _ => pre skip SObjectKey ++
         sepby [44] (map (fun kv => fst kv ++ [58] ++ compact (num_text k) (snd kv)) ms) ++ minify_events k false rest
  end.
Proof.
  induction 1 as [|kv ms Hv Hvs IH]; intros skip rest Hwf; [reflexivity|].
  destruct Hwf as (Hk & Hw1 & Hw2). cbn [flat_map]. rewrite <- app_assoc, <- app_comm_cons.
  cbn [minify_events]. rewrite sep_nonend by reflexivity. cbn [e_text e_gt ev is_start].
  rewrite num_text_id by exact Hk. rewrite Hv by exact Hw1. rewrite IH by exact Hw2.
  unfold pre at 2; cbn [sepchar]. destruct ms as [|w ms'].
  - cbn [map sepby]. rewrite <- !app_assoc. reflexivity.
  - cbn [map sepby]. unfold pre at 2; cbn [sepchar]. rewrite <- !app_assoc. reflexivity.
Qed.

Lemma value_ok_all k v : value_ok k v.
Proof.
  induction v as [l|l|l|vs IH|ms IH] using jvalue_ind'; intros skip st rest Hwf.
  - cbn [events_of app minify_events compact]. rewrite sep_nonend by reflexivity. cbn [e_text ev e_gt is_start].
    rewrite num_text_id by exact Hwf. reflexivity.
  - cbn [events_of app minify_events compact]. rewrite sep_nonend by reflexivity. reflexivity.
  - cbn [events_of app minify_events compact]. rewrite sep_nonend by reflexivity. cbn [e_text ev e_gt is_start].
    rewrite num_text_id by exact Hwf. reflexivity.
  - cbn [events_of compact]. rewrite <- app_comm_cons. cbn [minify_events].
    rewrite sep_nonend by reflexivity. cbn [e_text ev e_gt is_start].
    rewrite num_text_id by reflexivity. rewrite <- app_assoc.
    rewrite (elems_ok k vs IH true) by exact Hwf.
    destruct vs as [|w vs'].
    + cbn [app minify_events sep is_end e_gt ev e_text map sepby]. rewrite num_text_id by reflexivity.
      simpl. reflexivity.
    + cbn [app minify_events sep is_end e_gt ev e_text pre]. rewrite num_text_id by reflexivity.
      simpl. rewrite <- !app_assoc. reflexivity.
  - cbn [events_of compact]. rewrite <- app_comm_cons. cbn [minify_events].
    rewrite sep_nonend by reflexivity. cbn [e_text ev e_gt is_start].
    rewrite num_text_id by reflexivity. rewrite <- app_assoc.
    rewrite (members_ok k ms IH true) by exact Hwf.
    destruct ms as [|w ms'].
    + cbn [app minify_events sep is_end e_gt ev e_text map sepby]. rewrite num_text_id by reflexivity.
      simpl. reflexivity.
    + cbn [app minify_events sep is_end e_gt ev e_text pre]. rewrite num_text_id by reflexivity.
      simpl. rewrite <- !app_assoc. reflexivity.
Qed.

(* the whole document *)
Theorem json_minify_compact k v : wf_jvalue v ->
  json_minify_events k (events_of SValue v) = compact (num_text k) v.
Proof.
  intros Hwf. unfold json_minify_events. rewrite <- (app_nil_r (events_of SValue v)).
  rewrite (value_ok_all k v true SValue [] Hwf). simpl. rewrite app_nil_r. reflexivity.
Qed.

(* with KeepNumbers every lexeme, numbers included, is byte-identical *)
Lemma compact_ext f g v : (forall l, f l = g l) -> compact f v = compact g v.
Proof.
  intros E. induction v as [l|l|l|vs IH|ms IH] using jvalue_ind'; cbn [compact]; auto.
  - assert (H : map (compact f) vs = map (compact g) vs).
    { induction IH as [|x r Hx Hr IHr]; cbn [map]; [reflexivity|]. rewrite Hx, IHr. reflexivity. }
    rewrite H. reflexivity.
  - assert (H : map (fun kv : bytes * jvalue => fst kv ++ [58] ++ compact f (snd kv)) ms = map (fun kv : bytes * jvalue => fst kv ++ [58] ++ compact g (snd kv)) ms).
    { induction IH as [|x r Hx Hr IHr]; simpl; [reflexivity|]. simpl in Hx. rewrite Hx. f_equal. exact IHr. }
    do 3 f_equal. exact H.
Qed.

Theorem json_keepnumbers_identity v : wf_jvalue v ->
  json_minify_events true (events_of SValue v) = compact (fun l => l) v.
Proof.
  intros Hwf. rewrite json_minify_compact by exact Hwf. apply compact_ext. intros l. reflexivity.
Qed.
