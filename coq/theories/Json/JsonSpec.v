(* Json/Spec.v — specification side: JSON values (member order and duplicate keys kept; strings,
   literals and numbers as raw lexemes), the event stream a conforming parser delivers for a value,
   and the compact rendering. *)
From MV Require Import Base.MvBytes Num.NumModel Json.JsonModel.

Inductive jvalue :=
| JLit (l : bytes) | JNum (l : bytes) | JStr (l : bytes)
| JArr (vs : list jvalue) | JObj (ms : list (bytes * jvalue)).

Definition ev (s : pstate) (g : gtype) (t : bytes) : event := {| e_state := s; e_gt := g; e_text := t |}.

Fixpoint events_of (st : pstate) (v : jvalue) : list event :=
  match v with
  | JLit l => [ev st GLiteral l]
  | JNum l => [ev st GNumber l]
  | JStr l => [ev st GString l]
  | JArr vs => ev st GStartArray [91] :: flat_map (events_of SArray) vs ++ [ev SArray GEndArray [93]]
  | JObj ms => ev st GStartObject [123] ::
               flat_map (fun kv => ev SObjectKey GString (fst kv) :: events_of SObjectValue (snd kv)) ms ++
               [ev SObjectKey GEndObject [125]]
  end.

Fixpoint sepby (s : bytes) (l : list bytes) : bytes :=
  match l with
  | [] => []
  | [x] => x
  | x :: r => x ++ s ++ sepby s r
  end.

(* compact rendering; [f] is applied to number lexemes only *)
Fixpoint compact (f : bytes -> bytes) (v : jvalue) : bytes :=
  match v with
  | JLit l => l
  | JStr l => l
  | JNum l => f l
  | JArr vs => [91] ++ sepby [44] (map (compact f) vs) ++ [93]
  | JObj ms => [123] ++ sepby [44] (map (fun kv => fst kv ++ [58] ++ compact f (snd kv)) ms) ++ [125]
  end.

(* lexical well-formedness the statement needs: only number lexemes start with a digit or '-' *)
Fixpoint wf_jvalue (v : jvalue) : Prop :=
  match v with
  | JLit l => starts_number l = false
  | JStr l => starts_number l = false
  | JNum l => starts_number l = true
  | JArr vs => (fix all (l : list jvalue) : Prop := match l with [] => True | x :: r => wf_jvalue x /\ all r end) vs
  | JObj ms => (fix all (l : list (bytes * jvalue)) : Prop :=
                  match l with [] => True | kv :: r => starts_number (fst kv) = false /\ wf_jvalue (snd kv) /\ all r end) ms
  end.
