(* Num/Model.v — F2 model (functional restatement with the code's case structure) of
   minify.Number(num, 0) and minify.Decimal(num, 0) from /repo/common.go, on the number grammar
   [+-]?(d+ .? d* | . d+)([eE][+-]?d+)?  (Decimal: without exponent).
   No proofs in this file; it is extracted to OCaml and compared with the Go code on every run. *)
From MV Require Import Base.MvBytes.

Definition c0 : byte := 48.
Definition cdot : byte := 46.
Definition ce : byte := 101.
Definition cE : byte := 69.
Definition cplus : byte := 43.
Definition cminus : byte := 45.

(* ---- lexical structure ---- *)
Fixpoint span_digits (l : bytes) : bytes * bytes :=
  match l with
  | c :: r => if is_digit c then let (a, b) := span_digits r in (c :: a, b) else ([], l)
  | [] => ([], [])
  end.

Fixpoint digits_val_acc (acc : Z) (l : bytes) : Z :=
  match l with
  | [] => acc
  | c :: r => digits_val_acc (acc * 10 + (c - 48)) r
  end.
Definition digits_val := digits_val_acc 0.

(* sign: 0 = none, 1 = '+', 2 = '-' *)
Record lexed := {
  l_sign : Z; l_I : bytes; l_dot : bool; l_F : bytes;
  l_exp : bool; l_echar : byte; l_esign : Z; l_E : bytes }.

Definition sign_bytes (s : Z) : bytes := if s =? 1 then [cplus] else if s =? 2 then [cminus] else [].

Definition unlex (p : lexed) : bytes :=
  sign_bytes (l_sign p) ++ l_I p ++ (if l_dot p then cdot :: l_F p else []) ++
  (if l_exp p then l_echar p :: sign_bytes (l_esign p) ++ l_E p else []).

Definition take_sign (s : bytes) : Z * bytes :=
  match s with
  | c :: r => if c =? cminus then (2, r) else if c =? cplus then (1, r) else (0, s)
  | [] => (0, s)
  end.

Definition lex_number (s : bytes) : option lexed :=
  let (sg, r0) := take_sign s in
  let (I, r1) := span_digits r0 in
  let '(hasdot, F, r2) :=
    match r1 with
    | c :: r => if c =? cdot then let (F, r') := span_digits r in (true, F, r') else (false, [], r1)
    | [] => (false, [], r1)
    end in
  match I, F with
  | [], [] => None
  | _, _ =>
    match r2 with
    | [] => Some {| l_sign := sg; l_I := I; l_dot := hasdot; l_F := F;
                    l_exp := false; l_echar := 0; l_esign := 0; l_E := [] |}
    | c :: r =>
      if (c =? ce) || (c =? cE) then
        let (es, r3) := take_sign r in
        let (E, r4) := span_digits r3 in
        match E, r4 with
        | _ :: _, [] => Some {| l_sign := sg; l_I := I; l_dot := hasdot; l_F := F;
                                l_exp := true; l_echar := c; l_esign := es; l_E := E |}
        | _, _ => None
        end
      else None
    end
  end.

Definition valid_number (s : bytes) : bool := match lex_number s with Some _ => true | None => false end.
Definition valid_decimal (s : bytes) : bool :=
  match lex_number s with Some p => negb (l_exp p) | None => false end.

(* ---- helpers mirroring the in-place trimming ---- *)
Fixpoint drop_leading_zeros_keep1 (l : bytes) : bytes :=   (* for start < end-1 && num[start]=='0' *)
  match l with
  | c :: (_ :: _) as r => if c =? c0 then drop_leading_zeros_keep1 r else l
  | _ => l
  end.
Fixpoint strip_zeros_front (l : bytes) : bytes :=
  match l with
  | c :: r => if c =? c0 then strip_zeros_front r else l
  | [] => []
  end.
Definition strip_zeros_back (l : bytes) : bytes := rev (strip_zeros_front (rev l)).

Fixpoint show_pos_fuel (fuel : nat) (z : Z) (acc : bytes) : bytes :=
  match fuel with
  | O => acc
  | S f => if z <? 10 then (48 + z) :: acc else show_pos_fuel f (z / 10) ((48 + z mod 10) :: acc)
  end.
Definition show_nat (z : Z) : bytes := show_pos_fuel 25 z [].   (* 0 <= z < 10^25 *)
Definition len_int (z : Z) : Z := zlen (show_nat (Z.abs z)).       (* strconv.LenInt *)
Fixpoint zeros (n : nat) : bytes := match n with O => [] | S k => c0 :: zeros k end.

Definition is_nil {A} (l : list A) : bool := match l with [] => true | _ => false end.

Definition max_int : Z := 9223372036854775807.
Definition min_int : Z := -9223372036854775808.

(* exponent as strconv.ParseInt reads it: None = overflow (ParseInt returns n = 0) *)
Definition exp_value (p : lexed) : option Z :=
  if l_exp p then
    let v := digits_val (l_E p) in
    if l_esign p =? 2 then (if v <=? 9223372036854775808 then Some (- v) else None)
    else (if v <=? max_int then Some v else None)
  else Some 0.

(* mantissa after trimming: integer digits Ip (leading zeros dropped; all of them when a dot follows,
   all but the last digit otherwise), fraction digits Fp (trailing zeros dropped); a dot remains iff Fp <> [] *)
Definition trim (p : lexed) : bytes * bytes :=
  let Ip := if l_dot p then strip_zeros_front (l_I p) else drop_leading_zeros_keep1 (l_I p) in
  let Fp := if l_dot p then strip_zeros_back (l_F p) else [] in
  (Ip, Fp).

Definition is_zero_int (Ip : bytes) : bool :=
  match Ip with [] => true | [c] => c =? c0 | _ => false end.

(* minify.Number(s, 0) on a lexed number; [total] = len(num) *)
Definition number_lx (total : Z) (s : bytes) (p : lexed) : bytes :=
  match exp_value p with
  | None => s
  | Some origExp =>
    let (Ip, Fp) := trim p in
    let hasdot := negb (is_nil Fp) in
    let k := zlen (l_I p) - zlen Ip in
    let sign := if l_sign p =? 2 then [cminus] else [] in
    if negb hasdot && is_zero_int Ip then [c0] else
    let '(D, mnorm, Ip2) :=
      if hasdot && is_nil Ip then
        let D := strip_zeros_front Fp in (D, - (zlen Fp - zlen D), Ip)
      else if negb hasdot then
        let D := strip_zeros_back Ip in (D, zlen Ip, D)
      else (Ip ++ Fp, zlen Ip, Ip) in
    let n := zlen D in
    if ((origExp <? 0) && ((mnorm <? min_int - origExp) || (mnorm - n <? min_int - origExp)))
       || ((0 <? origExp) && ((max_int - origExp <? mnorm) || (max_int - origExp <? mnorm - n)))
    then s else
    let normExp := mnorm + origExp in
    let intExp := normExp - n in
    let lI := len_int intExp in
    let lN := len_int normExp in
    let out :=
      if n <=? normExp then
        if n + 3 <=? normExp then D ++ [ce] ++ show_nat intExp else D ++ zeros (Z.to_nat (normExp - n))
      else if (normExp <? -3) && (lN <? lI) && hasdot then
        [cdot] ++ D ++ [ce; cminus] ++ show_nat (- normExp)
      else if - lI - 1 <=? normExp then
        if normExp <? 0 then [cdot] ++ zeros (Z.to_nat (- normExp)) ++ D
        else firstn (Z.to_nat normExp) D ++ [cdot] ++ skipn (Z.to_nat normExp) D
      else
        let newEnd0 := if hasdot && is_nil Ip then n
                       else zlen Ip2 + (if hasdot then 1 + zlen Fp else 0) - 1 in
        let newEnd := newEnd0 + 2 + lI in
        let tot := total - ((if l_sign p =? 0 then 0 else 1) + k) in
        if newEnd <? tot then D ++ [ce; cminus] ++ show_nat (- intExp)
        else Ip2 ++ (if hasdot then [cdot] ++ Fp else []) ++ [ce; cminus] ++ show_nat (Z.abs origExp) in
    sign ++ out
  end.

Definition number0 (s : bytes) : bytes :=
  match s with
  | [] | [_] => s
  | _ => match lex_number s with
         | None => s           (* outside the grammar: not modelled *)
         | Some p => number_lx (zlen s) s p
         end
  end.

(* minify.Decimal(s, 0) on a lexed decimal (no exponent) *)
Definition decimal_lx (p : lexed) : bytes :=
  let (Ip, Fp) := trim p in
  let hasdot := negb (is_nil Fp) in
  let sign := if l_sign p =? 2 then [cminus] else [] in
  if negb hasdot && is_zero_int Ip then [c0] else
  sign ++ Ip ++ (if hasdot then cdot :: Fp else []).

Definition decimal0 (s : bytes) : bytes :=
  match s with
  | [] | [_] => s
  | _ => match lex_number s with
         | Some p => if l_exp p then s else decimal_lx p
         | None => s
         end
  end.
