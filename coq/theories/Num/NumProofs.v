(* Num/Proofs.v — lemmas about the F2 number model. *)
From MV Require Import Base.MvBytes Num.NumModel Num.NumSpec.

(* ---------- digits ---------- *)
Lemma is_digit_not c : is_digit c = true -> c <> cdot /\ c <> ce /\ c <> cE /\ c <> cplus /\ c <> cminus.
Proof. unfold is_digit, cdot, ce, cE, cplus, cminus. lia. Qed.

Lemma span_digits_spec l : forall a b, span_digits l = (a, b) ->
  l = a ++ b /\ all_digits a /\ (match b with [] => True | c :: _ => is_digit c = false end).
Proof.
  induction l as [|c l IH]; intros a b H; simpl in H.
  - inversion H; subst. repeat split; constructor.
  - destruct (is_digit c) eqn:E.
    + destruct (span_digits l) as [a' b'] eqn:E'. inversion H; subst.
      destruct (IH a' b eq_refl) as (H1 & H2 & H3). repeat split; auto.
      * simpl. congruence.
      * constructor; auto.
    + inversion H; subst. repeat split; auto. constructor.
Qed.

Lemma span_digits_app ds r : all_digits ds -> (match r with [] => True | c :: _ => is_digit c = false end) ->
  span_digits (ds ++ r) = (ds, r).
Proof.
  induction ds as [|d ds IH]; intros Hd Hr; simpl.
  - destruct r as [|c r]; simpl; [reflexivity|]. rewrite Hr. reflexivity.
  - inversion Hd as [|? ? Hd1 Hd2]; subst. rewrite Hd1. rewrite IH; auto.
Qed.

Lemma span_digits_all ds : all_digits ds -> span_digits ds = (ds, []).
Proof. intros H. rewrite <- (app_nil_r ds) at 1. apply span_digits_app; auto. Qed.

Lemma digits_val_acc_app a l1 l2 :
  digits_val_acc a (l1 ++ l2) = digits_val_acc (digits_val_acc a l1) l2.
Proof. revert a; induction l1 as [|c l1 IH]; intros a; simpl; auto. Qed.

Lemma digits_val_acc_lin a l : digits_val_acc a l = a * 10 ^ (zlen l) + digits_val_acc 0 l.
Proof.
  revert a; induction l as [|c l IH]; intros a.
  - unfold zlen; simpl. lia.
  - cbn [digits_val_acc]. rewrite (IH (a * 10 + (c - 48))), (IH (0 * 10 + (c - 48))).
    rewrite zlen_cons. rewrite Z.pow_add_r by (pose proof (zlen_nonneg l); lia). ring.
Qed.

Lemma digits_val_app l1 l2 : digits_val (l1 ++ l2) = digits_val l1 * 10 ^ zlen l2 + digits_val l2.
Proof. unfold digits_val. rewrite digits_val_acc_app, digits_val_acc_lin. reflexivity. Qed.

Lemma digits_val_nil : digits_val [] = 0. Proof. reflexivity. Qed.
Lemma digits_val_cons c l : digits_val (c :: l) = (c - 48) * 10 ^ zlen l + digits_val l.
Proof. change (c :: l) with ([c] ++ l). rewrite digits_val_app. unfold digits_val at 1. simpl. lia. Qed.

Lemma digits_val_nonneg l : all_digits l -> 0 <= digits_val l.
Proof.
  induction 1 as [|c l Hc Hl IH]; [unfold digits_val; simpl; lia|].
  rewrite digits_val_cons. unfold is_digit in Hc.
  pose proof (Z.pow_nonneg 10 (zlen l)). nia.
Qed.

Lemma zeros_digits n : all_digits (zeros n).
Proof. induction n; simpl; constructor; auto. Qed.

Lemma digits_val_zeros n : digits_val (zeros n) = 0.
Proof. induction n as [|n IH]; [reflexivity|]. simpl zeros. rewrite digits_val_cons, IH. unfold c0. lia. Qed.

Lemma zlen_zeros n : zlen (zeros n) = Z.of_nat n.
Proof. unfold zlen. induction n as [|n IH]; [reflexivity|]. cbn [zeros length]. lia. Qed.

Lemma all_digits_app a b : all_digits (a ++ b) <-> all_digits a /\ all_digits b.
Proof. unfold all_digits. apply Forall_app. Qed.

(* ---------- zero stripping ---------- *)
Lemma strip_front_spec l : exists j, l = zeros j ++ strip_zeros_front l /\
  (match strip_zeros_front l with [] => True | c :: _ => c <> c0 end).
Proof.
  induction l as [|c l (j & H1 & H2)]; simpl.
  - exists 0%nat. simpl. auto.
  - destruct (c =? c0) eqn:E.
    + apply Z.eqb_eq in E; subst. exists (S j). simpl. split; [f_equal; exact H1 | exact H2].
    + exists 0%nat. simpl. split; auto. apply Z.eqb_neq; auto.
Qed.

Lemma zeros_snoc n : zeros n ++ [c0] = c0 :: zeros n.
Proof. induction n; simpl; [reflexivity|]. rewrite IHn. reflexivity. Qed.
Lemma rev_zeros n : rev (zeros n) = zeros n.
Proof. induction n; simpl; [reflexivity|]. rewrite IHn. apply zeros_snoc. Qed.

Lemma strip_back_spec l : exists j, l = strip_zeros_back l ++ zeros j /\
  (match rev (strip_zeros_back l) with [] => True | c :: _ => c <> c0 end).
Proof.
  unfold strip_zeros_back. destruct (strip_front_spec (rev l)) as (j & H1 & H2). exists j. split.
  - transitivity (rev (zeros j ++ strip_zeros_front (rev l))).
    + rewrite <- H1. symmetry; apply rev_involutive.
    + rewrite rev_app_distr, rev_zeros. reflexivity.
  - rewrite rev_involutive. exact H2.
Qed.

Lemma all_digits_strip_front l : all_digits l -> all_digits (strip_zeros_front l).
Proof.
  intros H. destruct (strip_front_spec l) as (j & H1 & _). rewrite H1 in H. apply all_digits_app in H. tauto.
Qed.
Lemma all_digits_strip_back l : all_digits l -> all_digits (strip_zeros_back l).
Proof.
  intros H. destruct (strip_back_spec l) as (j & H1 & _). rewrite H1 in H. apply all_digits_app in H. tauto.
Qed.

Lemma digits_val_strip_front l : digits_val (strip_zeros_front l) = digits_val l.
Proof.
  destruct (strip_front_spec l) as (j & H1 & _). rewrite H1 at 2.
  rewrite digits_val_app, digits_val_zeros. lia.
Qed.

Lemma drop_keep1_spec l : exists j, l = zeros j ++ drop_leading_zeros_keep1 l /\
  (l <> [] -> drop_leading_zeros_keep1 l <> []).
Proof.
  induction l as [|c l (j & H1 & H2)].
  - exists 0%nat. simpl. auto.
  - destruct l as [|d l].
    + exists 0%nat. simpl. split; auto.
    + cbn [drop_leading_zeros_keep1]. destruct (c =? c0) eqn:E.
      * apply Z.eqb_eq in E; subst. exists (S j). split; [simpl; f_equal; exact H1|].
        intros _. apply H2. discriminate.
      * exists 0%nat. split; [reflexivity | discriminate].
Qed.

Lemma digits_val_drop_keep1 l : digits_val (drop_leading_zeros_keep1 l) = digits_val l.
Proof.
  destruct (drop_keep1_spec l) as (j & H1 & _). rewrite H1 at 2.
  rewrite digits_val_app, digits_val_zeros. lia.
Qed.
Lemma all_digits_drop_keep1 l : all_digits l -> all_digits (drop_leading_zeros_keep1 l).
Proof.
  intros H. destruct (drop_keep1_spec l) as (j & H1 & _). rewrite H1 in H. apply all_digits_app in H. tauto.
Qed.

Lemma zlen_strip_front_le l : zlen (strip_zeros_front l) <= zlen l.
Proof. destruct (strip_front_spec l) as (j & H1 & _). rewrite H1 at 2. rewrite zlen_app. pose proof (zlen_nonneg (zeros j)). lia. Qed.
Lemma zlen_strip_back_le l : zlen (strip_zeros_back l) <= zlen l.
Proof. destruct (strip_back_spec l) as (j & H1 & _). rewrite H1 at 2. rewrite zlen_app. pose proof (zlen_nonneg (zeros j)). lia. Qed.
Lemma zlen_drop_keep1_le l : zlen (drop_leading_zeros_keep1 l) <= zlen l.
Proof. destruct (drop_keep1_spec l) as (j & H1 & _). rewrite H1 at 2. rewrite zlen_app. pose proof (zlen_nonneg (zeros j)). lia. Qed.

(* ---------- the lexer is sound and complete for unlex ---------- *)
Lemma take_sign_spec s sg r : take_sign s = (sg, r) ->
  s = sign_bytes sg ++ r /\ (sg = 0 \/ sg = 1 \/ sg = 2) /\
  (sg = 0 -> match r with [] => True | c :: _ => c <> cminus /\ c <> cplus end).
Proof.
  destruct s as [|c s]; simpl; intros H.
  - inversion H; subst. simpl. auto.
  - destruct (c =? cminus) eqn:E1; [|destruct (c =? cplus) eqn:E2].
    + inversion H; subst. apply Z.eqb_eq in E1; subst. simpl. repeat split; auto; lia.
    + inversion H; subst. apply Z.eqb_eq in E2; subst. simpl. repeat split; auto; lia.
    + inversion H; subst. simpl. apply Z.eqb_neq in E1, E2. repeat split; auto.
Qed.

Lemma take_sign_app sg r : (sg = 0 \/ sg = 1 \/ sg = 2) ->
  (sg = 0 -> match r with [] => True | c :: _ => c <> cminus /\ c <> cplus end) ->
  take_sign (sign_bytes sg ++ r) = (sg, r).
Proof.
  intros [H|[H|H]] Hr; subst; simpl; auto.
  destruct r as [|c r]; simpl; auto. destruct (Hr eq_refl) as [H1 H2].
  apply Z.eqb_neq in H1, H2. rewrite H1, H2. reflexivity.
Qed.

Lemma lex_number_sound s p : lex_number s = Some p -> s = unlex p /\ wf_lexed p.
Proof.
  unfold lex_number. destruct (take_sign s) as [sg r0] eqn:Hs.
  destruct (span_digits r0) as [I r1] eqn:HI.
  apply take_sign_spec in Hs as (Hs1 & Hs2 & _).
  apply span_digits_spec in HI as (HI1 & HI2 & HI3).
  assert (Hdot : exists hasdot F r2,
     (match r1 with
      | c :: r => if c =? cdot then let (F, r') := span_digits r in (true, F, r') else (false, [], r1)
      | [] => (false, [], r1) end) = (hasdot, F, r2) /\
     r1 = (if hasdot then cdot :: F else []) ++ r2 /\ all_digits F /\ (hasdot = false -> F = [])).
  { destruct r1 as [|c r]; [exists false, [], []; repeat split; auto; constructor|].
    destruct (c =? cdot) eqn:E.
    - destruct (span_digits r) as [F r'] eqn:HF. apply span_digits_spec in HF as (HF1 & HF2 & _).
      apply Z.eqb_eq in E; subst. exists true, F, r'. repeat split; auto. discriminate.
    - exists false, [], (c :: r). repeat split; auto. constructor. }
  destruct Hdot as (hasdot & F & r2 & Hd0 & Hd1 & Hd2 & Hd3). rewrite Hd0.
  intros H.
  assert (HIF : I <> [] \/ F <> []).
  { destruct I; [destruct F; [discriminate|right; discriminate]|left; discriminate]. }
  assert (H' : match r2 with
    | [] => Some {| l_sign := sg; l_I := I; l_dot := hasdot; l_F := F; l_exp := false; l_echar := 0; l_esign := 0; l_E := [] |}
    | c :: r => if (c =? ce) || (c =? cE) then
        let (es, r3) := take_sign r in let (E, r4) := span_digits r3 in
        match E, r4 with
        | _ :: _, [] => Some {| l_sign := sg; l_I := I; l_dot := hasdot; l_F := F; l_exp := true; l_echar := c; l_esign := es; l_E := E |}
        | _, _ => None end
      else None end = Some p).
  { destruct I; [destruct F; [discriminate|exact H]|exact H]. }
  clear H. destruct r2 as [|c r].
  - inversion H'; subst p. split.
    + unfold unlex; simpl. rewrite Hs1, HI1, Hd1. rewrite !app_nil_r. reflexivity.
    + unfold wf_lexed; simpl. repeat split; auto.
  - destruct ((c =? ce) || (c =? cE)) eqn:Ec; [|discriminate].
    destruct (take_sign r) as [es r3] eqn:Hes. destruct (span_digits r3) as [E r4] eqn:HE.
    apply take_sign_spec in Hes as (He1 & He2 & _). apply span_digits_spec in HE as (HE1 & HE2 & _).
    destruct E as [|e0 E]; [discriminate|]. destruct r4; [|discriminate]. inversion H'; subst p. split.
    + unfold unlex; simpl. rewrite Hs1, HI1, Hd1, He1, HE1. rewrite !app_nil_r.
      repeat rewrite <- app_assoc. reflexivity.
    + unfold wf_lexed; simpl. repeat split; auto; try discriminate.
      apply orb_true_iff in Ec as [Ec|Ec]; apply Z.eqb_eq in Ec; auto.
Qed.

Lemma lex_number_complete p : wf_lexed p -> lex_number (unlex p) = Some p.
Proof.
  destruct p as [sg I dot F ex ec es E]. unfold wf_lexed, unlex; simpl.
  intros (Hsg & HI & HF & HIF & HdF & Hex).
  unfold lex_number.
  set (tail := (if ex then ec :: sign_bytes es ++ E else [])).
  set (mid := (if dot then cdot :: F else []) ++ tail).
  assert (Hmid_nd : match mid with [] => True | c :: _ => is_digit c = false end).
  { unfold mid, tail. destruct dot; simpl; [reflexivity|]. destruct ex; simpl; auto.
    destruct Hex as ([H|H] & _); subst; reflexivity. }
  assert (Hmid_ns : match I ++ mid with [] => True | c :: _ => c <> cminus /\ c <> cplus end).
  { destruct I as [|i I]; simpl.
    - unfold mid, tail. destruct dot; simpl; [unfold cdot, cminus, cplus; lia|].
      destruct HIF as [H|H]; [congruence|]. rewrite (HdF eq_refl) in H. congruence.
    - inversion HI; subst. apply is_digit_not in H1. tauto. }
  rewrite take_sign_app; auto.
  rewrite span_digits_app; auto.
  assert (Htail_nd : match tail with [] => True | c :: _ => is_digit c = false end).
  { unfold tail. destruct ex; simpl; auto. destruct Hex as ([H|H] & _); subst; reflexivity. }
  unfold mid. destruct dot; simpl.
  - rewrite span_digits_app; auto.
    assert (Hgo : forall X : option lexed, (match I, F with [], [] => None | _, _ => X end) = X).
    { intros X. destruct I; [destruct F; [destruct HIF; congruence|reflexivity]|reflexivity]. }
    rewrite Hgo. unfold tail. destruct ex.
    + destruct Hex as (Hec & Hes & HE & HEn).
      assert (Hc : (ec =? ce) || (ec =? cE) = true).
      { destruct Hec; subst; reflexivity. }
      rewrite Hc. rewrite take_sign_app; auto.
      * rewrite (span_digits_all E); auto. destruct E; [congruence|reflexivity].
      * intros _. destruct E as [|e E]; auto. inversion HE; subst. apply is_digit_not in H1. tauto.
    + destruct Hex as (-> & -> & ->). reflexivity.
  - rewrite (HdF eq_refl) in *.
    assert (HIn : I <> []) by (destruct HIF; congruence).
    assert (Hgo : forall X : option lexed, (match I, @nil byte with [], [] => None | _, _ => X end) = X).
    { intros X. destruct I; [congruence|reflexivity]. }
    destruct tail as [|t tl] eqn:Et.
    + rewrite Hgo. unfold tail in Et. destruct ex; [discriminate|]. destruct Hex as (-> & -> & ->). reflexivity.
    + unfold tail in Et. destruct ex; [|discriminate]. inversion Et; subst t tl.
      destruct Hex as (Hec & Hes & HE & HEn).
      assert (Hnd : (ec =? cdot) = false). { destruct Hec; subst; reflexivity. }
      rewrite Hnd. rewrite Hgo.
      assert (Hc : (ec =? ce) || (ec =? cE) = true). { destruct Hec; subst; reflexivity. }
      rewrite Hc. rewrite take_sign_app; auto.
      * rewrite (span_digits_all E); auto. destruct E; [congruence|reflexivity].
      * intros _. destruct E as [|e E]; auto. inversion HE; subst. apply is_digit_not in H1. tauto.
Qed.

(* ---------- trimming ---------- *)
Lemma is_zero_int_val Ip : is_zero_int Ip = true -> digits_val Ip = 0.
Proof.
  destruct Ip as [|c [|d Ip]]; simpl; intros H; try discriminate; [reflexivity|].
  apply Z.eqb_eq in H; subst. reflexivity.
Qed.

Lemma trim_spec p Ip Fp : wf_lexed p -> trim p = (Ip, Fp) ->
  all_digits Ip /\ all_digits Fp /\ digits_val Ip = digits_val (l_I p) /\ zlen Ip <= zlen (l_I p) /\
  (exists j, l_F p = Fp ++ zeros j) /\ (l_dot p = false -> Fp = []) /\
  (l_dot p = false -> Ip <> []) /\
  (match rev Fp with [] => True | c :: _ => c <> c0 end) /\
  (l_dot p = true -> match Ip with [] => True | c :: _ => c <> c0 end).
Proof.
  intros (Hsg & HI & HF & HIF & HdF & Hex). unfold trim. intros H. inversion H; subst Ip Fp; clear H.
  destruct (l_dot p) eqn:Ed.
  - destruct (strip_back_spec (l_F p)) as (j & Hj & Hl).
    destruct (strip_front_spec (l_I p)) as (j' & Hj' & Hl').
    repeat split; auto using all_digits_strip_front, all_digits_strip_back, digits_val_strip_front, zlen_strip_front_le.
    + exists j. exact Hj.
    + discriminate.
    + discriminate.
  - repeat split; auto using all_digits_drop_keep1, digits_val_drop_keep1, zlen_drop_keep1_le.
    + constructor.
    + exists 0%nat. simpl. apply HdF. reflexivity.
    + intros _. destruct (drop_keep1_spec (l_I p)) as (j & _ & Hn). apply Hn.
      destruct HIF as [H|H]; auto.
    + discriminate.
Qed.

Lemma val_eq_refl a : val_eq a a.
Proof. unfold val_eq. reflexivity. Qed.

(* the two mantissa/exponent pairs denote the same number when they agree after scaling by 10^j *)
Lemma val_eq_scale m1 e1 m2 e2 j : 0 <= j -> e2 = e1 - j -> m2 = m1 * 10 ^ j -> val_eq (m1, e1) (m2, e2).
Proof.
  intros Hj -> ->. unfold val_eq; simpl. rewrite Z.min_r by lia.
  replace (e1 - (e1 - j)) with j by lia. replace (e1 - j - (e1 - j)) with 0 by lia. simpl. lia.
Qed.
Lemma val_eq_scale' m1 e1 m2 e2 j : 0 <= j -> e1 = e2 - j -> m1 = m2 * 10 ^ j -> val_eq (m1, e1) (m2, e2).
Proof.
  intros Hj -> ->. unfold val_eq; simpl. rewrite Z.min_l by lia.
  replace (e2 - (e2 - j)) with j by lia. replace (e2 - j - (e2 - j)) with 0 by lia. simpl. lia.
Qed.

Lemma digits_val_pad D k : digits_val (D ++ zeros k) = digits_val D * 10 ^ Z.of_nat k.
Proof. rewrite digits_val_app, digits_val_zeros, zlen_zeros. lia. Qed.

Lemma zlen_unlex p : zlen (unlex p) =
  zlen (sign_bytes (l_sign p)) + zlen (l_I p) + (if l_dot p then 1 + zlen (l_F p) else 0) +
  (if l_exp p then 1 + zlen (sign_bytes (l_esign p)) + zlen (l_E p) else 0).
Proof.
  unfold unlex. rewrite !zlen_app.
  destruct (l_dot p), (l_exp p); repeat (rewrite ?zlen_cons, ?zlen_app); change (zlen (@nil byte)) with 0; lia.
Qed.

Lemma zlen_sign_bytes s : 0 <= zlen (sign_bytes s) <= 1 /\ (s = 0 -> zlen (sign_bytes s) = 0) /\
  (s = 1 \/ s = 2 -> zlen (sign_bytes s) = 1).
Proof.
  unfold sign_bytes. destruct (s =? 1) eqn:E1; [|destruct (s =? 2) eqn:E2]; unfold zlen; simpl; lia.
Qed.

Lemma zlen_pos {A} (l : list A) : l <> [] -> 1 <= zlen l.
Proof. destruct l; [congruence|]. intros _. rewrite zlen_cons. pose proof (zlen_nonneg l). lia. Qed.

(* ---------- Decimal ---------- *)
Lemma decimal_lx_exact p : wf_lexed p -> l_exp p = false ->
  exists p', wf_lexed p' /\ decimal_lx p = unlex p' /\ l_exp p' = false /\
             val_eq (value p') (value p) /\ zlen (decimal_lx p) <= zlen (unlex p).
Proof.
  intros Hwf Hexp. unfold decimal_lx. destruct (trim p) as [Ip Fp] eqn:Et.
  destruct (trim_spec p Ip Fp Hwf Et) as (HIp & HFp & Hv & Hl & (j & Hj) & Hnd & Hne & _ & _).
  destruct Hwf as (Hsg & HI & HF & HIF & HdF & Hex). rewrite Hexp in Hex. destruct Hex as (Hec & Hes & HE).
  assert (HlF : zlen (l_F p) = zlen Fp + Z.of_nat j) by (rewrite Hj, zlen_app, zlen_zeros; lia).
  destruct (negb (negb (is_nil Fp)) && is_zero_int Ip) eqn:Ez.
  - (* zero *)
    apply andb_true_iff in Ez as [Ez1 Ez2]. rewrite negb_involutive in Ez1.
    destruct Fp; [|discriminate]. clear Ez1.
    exists {| l_sign := 0; l_I := [c0]; l_dot := false; l_F := []; l_exp := false; l_echar := 0; l_esign := 0; l_E := [] |}.
    split; [|split; [|split; [|split]]].
    + unfold wf_lexed; simpl. repeat split; auto; [repeat constructor | left; discriminate].
    + reflexivity.
    + reflexivity.
    + unfold value, exp_z; simpl. rewrite Hexp. simpl in Hj.
      rewrite digits_val_app, Hj, digits_val_zeros, <- Hv, (is_zero_int_val _ Ez2).
      change (zlen (@nil byte)) with 0.
      apply val_eq_scale with (j := zlen (zeros j)); [apply zlen_nonneg|lia|].
      change (digits_val [c0]) with 0. destruct (l_sign p =? 2); lia.
    + rewrite zlen_unlex. change (zlen [c0]) with 1.
      pose proof (zlen_sign_bytes (l_sign p)). pose proof (zlen_nonneg (l_I p)). pose proof (zlen_nonneg (l_F p)).
      destruct (l_dot p) eqn:Ed; rewrite Hexp.
      * lia.
      * assert (l_I p <> []) by (destruct HIF as [H'|H']; auto; rewrite (HdF eq_refl) in H'; congruence).
        pose proof (zlen_pos _ H2). lia.
  - (* general *)
    set (sg' := if l_sign p =? 2 then 2 else 0).
    exists {| l_sign := sg'; l_I := Ip; l_dot := negb (is_nil Fp); l_F := Fp; l_exp := false; l_echar := 0; l_esign := 0; l_E := [] |}.
    split; [|split; [|split; [|split]]].
    + unfold wf_lexed; simpl. repeat split; auto.
      * unfold sg'. destruct (l_sign p =? 2); auto.
      * destruct Fp as [|f Fp]; [|right; discriminate]. left. simpl in Ez.
        destruct (l_dot p) eqn:Ed.
        -- destruct Ip; [discriminate|discriminate].
        -- apply Hne. reflexivity.
      * destruct Fp; simpl; [reflexivity|discriminate].
    + unfold unlex; simpl. unfold sg', sign_bytes. destruct (l_sign p =? 2); simpl; rewrite app_nil_r; reflexivity.
    + reflexivity.
    + unfold value, exp_z; simpl. rewrite Hexp.
      assert (Hs : (if sg' =? 2 then -1 else 1) = (if l_sign p =? 2 then -1 else 1)).
      { unfold sg'. destruct (l_sign p =? 2); reflexivity. }
      rewrite Hs. apply val_eq_scale with (j := Z.of_nat j); [lia|lia|].
      rewrite !digits_val_app, Hj, digits_val_pad, Hv, zlen_app, zlen_zeros.
      rewrite Z.pow_add_r by (pose proof (zlen_nonneg Fp); lia). ring.
    + rewrite zlen_unlex, Hexp. rewrite !zlen_app.
      pose proof (zlen_sign_bytes (l_sign p)) as (Hs1 & Hs2 & Hs3).
      assert (zlen (if l_sign p =? 2 then [cminus] else []) <= zlen (sign_bytes (l_sign p))).
      { destruct (l_sign p =? 2) eqn:E; [apply Z.eqb_eq in E; rewrite Hs3 by auto; reflexivity|unfold zlen at 1; simpl; lia]. }
      destruct (is_nil Fp) eqn:En; simpl.
      * destruct Fp; [|discriminate]. rewrite zlen_nil. destruct (l_dot p); pose proof (zlen_nonneg (l_F p)); lia.
      * rewrite zlen_cons. destruct (l_dot p) eqn:Ed; [lia|]. rewrite (Hnd eq_refl) in En. discriminate.
Qed.

Theorem decimal0_exact s p : lex_number s = Some p -> l_exp p = false ->
  exists p', lex_number (decimal0 s) = Some p' /\ l_exp p' = false /\
             val_eq (value p') (value p) /\ zlen (decimal0 s) <= zlen s.
Proof.
  intros Hlex Hexp. pose proof (lex_number_sound _ _ Hlex) as (Hs & Hwf).
  assert (Hid : exists p', lex_number s = Some p' /\ l_exp p' = false /\ val_eq (value p') (value p) /\ zlen s <= zlen s).
  { exists p. repeat split; auto using val_eq_refl. lia. }
  unfold decimal0. destruct s as [|a [|b s']]; auto. rewrite Hlex, Hexp.
  destruct (decimal_lx_exact p Hwf Hexp) as (p' & Hwf' & Hout & He' & Hv & Hl).
  exists p'. rewrite Hout. repeat split; auto using lex_number_complete.
  rewrite <- Hout, Hs. exact Hl.
Qed.
