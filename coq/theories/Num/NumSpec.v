(* Num/Spec.v — specification side for numbers: well-formed lexemes and their value m * 10^e. *)
From MV Require Import Base.MvBytes Num.NumModel.

Definition all_digits (l : bytes) : Prop := Forall (fun c => is_digit c = true) l.

(* canonical well-formed lexed number (what lex_number returns) *)
Definition wf_lexed (p : lexed) : Prop :=
  (l_sign p = 0 \/ l_sign p = 1 \/ l_sign p = 2) /\
  all_digits (l_I p) /\ all_digits (l_F p) /\ (l_I p <> [] \/ l_F p <> []) /\
  (l_dot p = false -> l_F p = []) /\
  (if l_exp p then (l_echar p = ce \/ l_echar p = cE) /\ (l_esign p = 0 \/ l_esign p = 1 \/ l_esign p = 2)
                   /\ all_digits (l_E p) /\ l_E p <> []
   else l_echar p = 0 /\ l_esign p = 0 /\ l_E p = []).

(* the exponent as a mathematical integer (no machine bound) *)
Definition exp_z (p : lexed) : Z :=
  if l_exp p then (if l_esign p =? 2 then - digits_val (l_E p) else digits_val (l_E p)) else 0.

(* value p = (m, e) meaning m * 10^e *)
Definition value (p : lexed) : Z * Z :=
  ((if l_sign p =? 2 then -1 else 1) * digits_val (l_I p ++ l_F p), exp_z p - zlen (l_F p)).

(* equality of m1*10^e1 and m2*10^e2 without rationals *)
Definition val_eq (a b : Z * Z) : Prop :=
  let k := Z.min (snd a) (snd b) in fst a * 10 ^ (snd a - k) = fst b * 10 ^ (snd b - k).
