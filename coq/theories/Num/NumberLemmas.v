(* Num/NumberLemmas.v — lemmas for minify.Number(s, 0): decimal printing (show_nat / len_int), val_eq as an equivalence,
   the seven print shapes of number_lx (Section Tail), the exponent and mantissa analysis, and number_lx_exact. *)
From MV Require Import Base.MvBytes Num.NumModel Num.NumSpec Num.NumProofs.
From Coq Require Import ZifyBool.

(* ---------- powers of ten ---------- *)
Lemma pow10_pos k : 0 <= k -> 0 < 10 ^ k.
Proof. intros. apply Z.pow_pos_nonneg; lia. Qed.

Lemma pow10_S k : 0 <= k -> 10 ^ (k + 1) = 10 * 10 ^ k.
Proof. intros. rewrite Z.pow_add_r by lia. change (10 ^ 1) with 10. ring. Qed.

Lemma pow10_le a b : 0 <= a <= b -> 10 ^ a <= 10 ^ b.
Proof. intros. apply Z.pow_le_mono_r; lia. Qed.

Lemma pow10_lt_inv a b : 0 <= a -> 0 <= b -> 10 ^ a < 10 ^ b -> a < b.
Proof. intros Ha Hb H. apply (Z.pow_lt_mono_r_iff 10); lia. Qed.

Lemma pow10_add_lt a L d : 0 <= L -> 0 <= d -> a < 10 ^ L -> a + d < 10 ^ (L + d).
Proof.
  intros HL Hd Ha. revert d Hd. apply natlike_ind.
  - rewrite !Z.add_0_r. exact Ha.
  - intros d Hd IH. replace (L + Z.succ d) with ((L + d) + 1) by lia. rewrite pow10_S by lia.
    pose proof (pow10_pos (L + d)). lia.
Qed.

(* ---------- show_nat ---------- *)
Lemma digits_val_single c : digits_val [c] = c - 48.
Proof. unfold digits_val. cbn [digits_val_acc]. lia. Qed.

Lemma show_pos_fuel_spec f : forall z acc, (0 < f)%nat -> 0 <= z < 10 ^ Z.of_nat f ->
  exists ds, show_pos_fuel f z acc = ds ++ acc /\ all_digits ds /\ digits_val ds = z /\
             1 <= zlen ds /\ z < 10 ^ zlen ds /\ (0 < z -> 10 ^ (zlen ds - 1) <= z).
Proof.
  induction f as [|f IH]; intros z acc Hf Hz; [lia|].
  cbn [show_pos_fuel]. destruct (z <? 10) eqn:E.
  - apply Z.ltb_lt in E. exists [48 + z]. repeat split.
    + constructor; [unfold is_digit; lia | constructor].
    + rewrite digits_val_single. lia.
    + unfold zlen; simpl; lia.
    + change (zlen [48 + z]) with 1. change (10 ^ 1) with 10. lia.
    + intros. change (zlen [48 + z]) with 1. change (10 ^ (1 - 1)) with 1. lia.
  - apply Z.ltb_ge in E.
    assert (Hf' : (0 < f)%nat).
    { destruct f; [|lia]. change (10 ^ Z.of_nat 1) with 10 in Hz. lia. }
    assert (Hz' : 0 <= z / 10 < 10 ^ Z.of_nat f).
    { replace (Z.of_nat (S f)) with (Z.of_nat f + 1) in Hz by lia. rewrite pow10_S in Hz by lia.
      split; [apply Z.div_pos; lia | apply Z.div_lt_upper_bound; lia]. }
    destruct (IH (z / 10) ((48 + z mod 10) :: acc) Hf' Hz') as (ds & H1 & H2 & H3 & H4 & H5 & H6).
    pose proof (Z.mod_pos_bound z 10 ltac:(lia)) as Hm.
    pose proof (Z.div_mod z 10 ltac:(lia)) as Hdm.
    exists (ds ++ [48 + z mod 10]). rewrite H1, <- app_assoc. repeat split.
    + apply all_digits_app. split; auto. constructor; [unfold is_digit; lia | constructor].
    + rewrite digits_val_app, H3, digits_val_single. change (zlen [48 + z mod 10]) with 1. change (10 ^ 1) with 10. lia.
    + rewrite zlen_app. change (zlen [48 + z mod 10]) with 1. lia.
    + rewrite zlen_app. change (zlen [48 + z mod 10]) with 1. rewrite pow10_S by lia. lia.
    + intros _. rewrite zlen_app. change (zlen [48 + z mod 10]) with 1.
      replace (zlen ds + 1 - 1) with ((zlen ds - 1) + 1) by lia. rewrite pow10_S by lia.
      assert (0 < z / 10) by lia. specialize (H6 H). lia.
Qed.

Definition B25 : Z := 10000000000000000000000000.
Lemma B25_eq : 10 ^ 25 = B25. Proof. reflexivity. Qed.

Lemma show_nat_spec z : 0 <= z < B25 ->
  all_digits (show_nat z) /\ digits_val (show_nat z) = z /\ 1 <= zlen (show_nat z) /\
  z < 10 ^ zlen (show_nat z) /\ (0 < z -> 10 ^ (zlen (show_nat z) - 1) <= z).
Proof.
  intros Hz. unfold show_nat.
  destruct (show_pos_fuel_spec 25 z [] ltac:(lia)) as (ds & H1 & H2).
  - change (10 ^ Z.of_nat 25) with B25. exact Hz.
  - rewrite app_nil_r in H1. rewrite H1. exact H2.
Qed.

Lemma show_nat_nonnil z : 0 <= z < B25 -> show_nat z <> [].
Proof. intros H. destruct (show_nat_spec z H) as (_ & _ & H1 & _). intros E. rewrite E in H1. unfold zlen in H1; simpl in H1; lia. Qed.

(* number of decimal digits *)
Definition ndig (z : Z) : Z := zlen (show_nat z).
Lemma len_int_ndig z : len_int z = ndig (Z.abs z). Proof. reflexivity. Qed.

Lemma ndig_ge1 z : 0 <= z < B25 -> 1 <= ndig z.
Proof. intros H. apply show_nat_spec in H. tauto. Qed.

Lemma ndig_le z L : 0 <= z < B25 -> 1 <= L -> z < 10 ^ L -> ndig z <= L.
Proof.
  intros Hz HL H. destruct (show_nat_spec z Hz) as (_ & _ & H1 & H2 & H3). fold (ndig z) in *.
  destruct (Z.eq_dec z 0) as [->|Hn]; [change (ndig 0) with 1; lia|].
  assert (H4 : 10 ^ (ndig z - 1) < 10 ^ L) by lia.
  apply pow10_lt_inv in H4; lia.
Qed.

Lemma ndig_gt z L : 0 <= z < B25 -> 0 <= L -> 10 ^ L <= z -> L < ndig z.
Proof.
  intros Hz HL H. destruct (show_nat_spec z Hz) as (_ & _ & H1 & H2 & H3). fold (ndig z) in *.
  apply pow10_lt_inv; lia.
Qed.

Lemma ndig_mono a b : 0 <= a <= b -> b < B25 -> ndig a <= ndig b.
Proof.
  intros Hab Hb. apply ndig_le; [lia | apply ndig_ge1; lia |].
  destruct (show_nat_spec b ltac:(lia)) as (_ & _ & _ & H2 & _). fold (ndig b) in H2. lia.
Qed.

Lemma ndig_add a d : 0 <= a -> 0 <= d -> a + d < B25 -> ndig (a + d) <= ndig a + d.
Proof.
  intros Ha Hd Hb. pose proof (ndig_ge1 a ltac:(lia)). apply ndig_le; [lia | lia |].
  apply pow10_add_lt; [lia | lia |].
  destruct (show_nat_spec a ltac:(lia)) as (_ & _ & _ & H2 & _). exact H2.
Qed.

Lemma ndig_small z : 0 <= z < 10 -> ndig z = 1.
Proof.
  intros Hz. pose proof (ndig_ge1 z ltac:(unfold B25; lia)).
  pose proof (ndig_le z 1 ltac:(unfold B25; lia) ltac:(lia)). change (10 ^ 1) with 10 in H0. lia.
Qed.

Lemma ndig_ge2 z : 10 <= z < B25 -> 2 <= ndig z.
Proof. intros Hz. pose proof (ndig_gt z 1 ltac:(lia) ltac:(lia)). change (10 ^ 1) with 10 in H. lia. Qed.

(* z >= 3 printed takes at most z - 2 bytes *)
Lemma ndig_lin z : 3 <= z < B25 -> ndig z <= z - 2.
Proof.
  intros Hz. replace z with (3 + (z - 3)) at 1 by lia.
  pose proof (ndig_add 3 (z - 3) ltac:(lia) ltac:(lia) ltac:(lia)). rewrite (ndig_small 3) in H by lia. lia.
Qed.

Lemma digits_val_lt l : all_digits l -> digits_val l < 10 ^ zlen l.
Proof.
  induction 1 as [|c l Hc Hl IH]; [reflexivity|].
  rewrite digits_val_cons, zlen_cons. replace (1 + zlen l) with (zlen l + 1) by lia. rewrite pow10_S by apply zlen_nonneg.
  unfold is_digit in Hc. pose proof (pow10_pos (zlen l) (zlen_nonneg l)). nia.
Qed.

Lemma ndig_digits E : all_digits E -> E <> [] -> digits_val E < B25 -> ndig (digits_val E) <= zlen E.
Proof.
  intros HE Hn Hb. apply ndig_le; [pose proof (digits_val_nonneg E HE); lia | apply zlen_pos; auto | apply digits_val_lt; auto].
Qed.


(* ---------- val_eq is an equivalence ---------- *)
Lemma val_eq_at a b k : k <= snd a -> k <= snd b ->
  (val_eq a b <-> fst a * 10 ^ (snd a - k) = fst b * 10 ^ (snd b - k)).
Proof.
  destruct a as [m1 e1], b as [m2 e2]. unfold val_eq. cbn [fst snd]. intros H1 H2.
  set (m := Z.min e1 e2). assert (Hm : k <= m /\ m <= e1 /\ m <= e2) by (unfold m; lia).
  replace (e1 - k) with ((e1 - m) + (m - k)) by lia. replace (e2 - k) with ((e2 - m) + (m - k)) by lia.
  rewrite !Z.pow_add_r by lia. rewrite !Z.mul_assoc.
  pose proof (pow10_pos (m - k) ltac:(lia)) as Hp. split; intros H.
  - rewrite H. reflexivity.
  - apply Z.mul_cancel_r in H; [exact H | lia].
Qed.

Lemma val_eq_sym a b : val_eq a b -> val_eq b a.
Proof. unfold val_eq. rewrite (Z.min_comm (snd b)). intros H; symmetry; exact H. Qed.

Lemma val_eq_trans a b c : val_eq a b -> val_eq b c -> val_eq a c.
Proof.
  intros H1 H2. set (k := Z.min (snd a) (Z.min (snd b) (snd c))).
  apply (val_eq_at a b k) in H1; [|unfold k; lia|unfold k; lia].
  apply (val_eq_at b c k) in H2; [|unfold k; lia|unfold k; lia].
  apply (val_eq_at a c k); [unfold k; lia|unfold k; lia|]. congruence.
Qed.


(* ---------- the body of number_lx after the mantissa analysis ---------- *)
Definition nl_guard (origExp mnorm n : Z) : bool :=
  ((origExp <? 0) && ((mnorm <? min_int - origExp) || (mnorm - n <? min_int - origExp)))
  || ((0 <? origExp) && ((max_int - origExp <? mnorm) || (max_int - origExp <? mnorm - n))).

Definition nl_out (total : Z) (p : lexed) (origExp : Z) (Ip Fp D : bytes) (mnorm : Z) (Ip2 : bytes) : bytes :=
  let hasdot := negb (is_nil Fp) in
  let k := zlen (l_I p) - zlen Ip in
  let n := zlen D in
  let normExp := mnorm + origExp in
  let intExp := normExp - n in
  let lI := len_int intExp in
  let lN := len_int normExp in
  if n <=? normExp then
    if n + 3 <=? normExp then D ++ [ce] ++ show_nat intExp else D ++ zeros (Z.to_nat (normExp - n))
  else if (normExp <? -3) && (lN <? lI) && hasdot then
    [cdot] ++ D ++ [ce; cminus] ++ show_nat (- normExp)
  else if - lI - 1 <=? normExp then
    if normExp <? 0 then [cdot] ++ zeros (Z.to_nat (- normExp)) ++ D
    else firstn (Z.to_nat normExp) D ++ [cdot] ++ skipn (Z.to_nat normExp) D
  else
    let newEnd0 := if hasdot && is_nil Ip then n
                   else zlen Ip2 + (if hasdot then 1 + zlen Fp else 0) - 1 in
    let newEnd := newEnd0 + 2 + lI in
    let tot := total - ((if l_sign p =? 0 then 0 else 1) + k) in
    if newEnd <? tot then D ++ [ce; cminus] ++ show_nat (- intExp)
    else Ip2 ++ (if hasdot then [cdot] ++ Fp else []) ++ [ce; cminus] ++ show_nat (Z.abs origExp).

Definition nl_mant (Ip Fp : bytes) : bytes * Z * bytes :=
  let hasdot := negb (is_nil Fp) in
  if hasdot && is_nil Ip then
    let D := strip_zeros_front Fp in (D, - (zlen Fp - zlen D), Ip)
  else if negb hasdot then
    let D := strip_zeros_back Ip in (D, zlen Ip, D)
  else (Ip ++ Fp, zlen Ip, Ip).

Lemma number_lx_eq total s p : number_lx total s p =
  match exp_value p with
  | None => s
  | Some origExp =>
    let (Ip, Fp) := trim p in
    if negb (negb (is_nil Fp)) && is_zero_int Ip then [c0] else
    let '(D, mnorm, Ip2) := nl_mant Ip Fp in
    if nl_guard origExp mnorm (zlen D) then s else
    (if l_sign p =? 2 then [cminus] else []) ++ nl_out total p origExp Ip Fp D mnorm Ip2
  end.
Proof. reflexivity. Qed.

(* ---------- building result lexemes ---------- *)
Definition sg_out (p : lexed) : Z := if l_sign p =? 2 then 2 else 0.
Definition sgn (p : lexed) : Z := if l_sign p =? 2 then -1 else 1.

Definition mk_plain (sg : Z) (I : bytes) (dot : bool) (F : bytes) : lexed :=
  {| l_sign := sg; l_I := I; l_dot := dot; l_F := F; l_exp := false; l_echar := 0; l_esign := 0; l_E := [] |}.
Definition mk_exp (sg : Z) (I : bytes) (dot : bool) (F : bytes) (es : Z) (E : bytes) : lexed :=
  {| l_sign := sg; l_I := I; l_dot := dot; l_F := F; l_exp := true; l_echar := ce; l_esign := es; l_E := E |}.

Lemma sg_out_cases p : sg_out p = 0 \/ sg_out p = 1 \/ sg_out p = 2.
Proof. unfold sg_out. destruct (l_sign p =? 2); auto. Qed.

Lemma sign_bytes_out p : (if l_sign p =? 2 then [cminus] else []) = sign_bytes (sg_out p).
Proof. unfold sg_out. destruct (l_sign p =? 2); reflexivity. Qed.

Lemma sgn_out p : (if sg_out p =? 2 then -1 else 1) = sgn p.
Proof. unfold sg_out, sgn. destruct (l_sign p =? 2); reflexivity. Qed.

Lemma zlen_sign_out p : (l_sign p = 0 \/ l_sign p = 1 \/ l_sign p = 2) ->
  zlen (sign_bytes (sg_out p)) <= zlen (sign_bytes (l_sign p)) /\
  zlen (sign_bytes (l_sign p)) = (if l_sign p =? 0 then 0 else 1).
Proof. intros [H|[H|H]]; unfold sg_out; rewrite H; unfold zlen; simpl; lia. Qed.

Lemma wf_mk_plain sg I dot F : (sg = 0 \/ sg = 1 \/ sg = 2) -> all_digits I -> all_digits F ->
  (I <> [] \/ F <> []) -> (dot = false -> F = []) -> wf_lexed (mk_plain sg I dot F).
Proof. intros. unfold wf_lexed, mk_plain; simpl. repeat split; auto. Qed.

Lemma wf_mk_exp sg I dot F es E : (sg = 0 \/ sg = 1 \/ sg = 2) -> all_digits I -> all_digits F ->
  (I <> [] \/ F <> []) -> (dot = false -> F = []) -> (es = 0 \/ es = 1 \/ es = 2) -> all_digits E -> E <> [] ->
  wf_lexed (mk_exp sg I dot F es E).
Proof. intros. unfold wf_lexed, mk_exp; simpl. repeat split; auto. Qed.

Lemma value_mk_plain sg I dot F :
  value (mk_plain sg I dot F) = ((if sg =? 2 then -1 else 1) * digits_val (I ++ F), 0 - zlen F).
Proof. reflexivity. Qed.

Lemma value_mk_exp sg I dot F es E :
  value (mk_exp sg I dot F es E) =
  ((if sg =? 2 then -1 else 1) * digits_val (I ++ F), (if es =? 2 then - digits_val E else digits_val E) - zlen F).
Proof. reflexivity. Qed.

Lemma val_eq_of_eq a b c : a = b -> val_eq b c -> val_eq a c.
Proof. intros ->. auto. Qed.

Lemma firstn_skipn_zlen {A} (l : list A) q : 0 <= q <= zlen l ->
  zlen (firstn (Z.to_nat q) l) = q /\ zlen (skipn (Z.to_nat q) l) = zlen l - q.
Proof.
  intros H. unfold zlen in *. rewrite firstn_length, skipn_length. lia.
Qed.


Section Tail.
  Variables (p : lexed) (origExp : Z) (Ip Fp D Ip2 : bytes) (mnorm total : Z).
  Hypothesis Hsg : l_sign p = 0 \/ l_sign p = 1 \/ l_sign p = 2.
  Hypothesis HD : all_digits D.
  Hypothesis HDn : 1 <= zlen D.
  Hypothesis HIp : all_digits Ip.
  Hypothesis HFp : all_digits Fp.
  Hypothesis Hval : val_eq (sgn p * digits_val D, mnorm + origExp - zlen D) (value p).
  Hypothesis Hcase :
    (Fp <> [] /\ Ip = [] /\ Ip2 = [] /\ digits_val D = digits_val Fp /\ mnorm = zlen D - zlen Fp /\ zlen D <= zlen Fp) \/
    (Fp = [] /\ Ip2 = D /\ mnorm = zlen Ip /\ zlen D <= zlen Ip) \/
    (Fp <> [] /\ Ip <> [] /\ Ip2 = Ip /\ D = Ip ++ Fp /\ mnorm = zlen Ip).
  Hypothesis HIpl : zlen Ip <= zlen (l_I p).
  Hypothesis HFpl : Fp <> [] -> l_dot p = true /\ zlen Fp <= zlen (l_F p).
  Hypothesis Hexp : (l_exp p = false /\ origExp = 0) \/
    (l_exp p = true /\ 1 <= zlen (l_E p) /\ ndig (Z.abs origExp) <= zlen (l_E p) /\
     (origExp < 0 -> zlen (sign_bytes (l_esign p)) = 1)).
  Hypothesis Hrange : min_int <= origExp <= max_int.
  Hypothesis Hguard : nl_guard origExp mnorm (zlen D) = false.
  Hypothesis Htot : total = zlen (unlex p).
  Hypothesis Hbound : total <= B25.

  Let n := zlen D.
  Let normExp := mnorm + origExp.
  Let intExp := normExp - n.

  Lemma tail_total : total = zlen (sign_bytes (l_sign p)) + zlen (l_I p) + (if l_dot p then 1 + zlen (l_F p) else 0) +
    (if l_exp p then 1 + zlen (sign_bytes (l_esign p)) + zlen (l_E p) else 0).
  Proof. rewrite Htot. apply zlen_unlex. Qed.

  Lemma tail_nonneg : 0 <= zlen (sign_bytes (l_sign p)) /\ 0 <= zlen (l_I p) /\ 0 <= zlen (l_F p) /\
    0 <= zlen (sign_bytes (l_esign p)) /\ 0 <= zlen (l_E p) /\ 0 <= zlen Ip /\ 0 <= zlen Fp.
  Proof. repeat split; apply zlen_nonneg. Qed.

  Lemma Fp_nil_iff : (Fp = [] -> zlen Fp = 0) /\ (Fp <> [] -> 1 <= zlen Fp) /\ (Ip <> [] -> 1 <= zlen Ip) /\ (Ip = [] -> zlen Ip = 0).
  Proof. repeat split; intros H; try (rewrite H; reflexivity); apply zlen_pos; auto. Qed.

  (* everything that is printed is below 10^25 in absolute value *)
  (* the three mantissa shapes, arithmetically *)
  Lemma tail_cases :
    (Fp <> [] /\ Ip = [] /\ Ip2 = [] /\ digits_val D = digits_val Fp /\
       l_dot p = true /\ is_nil Fp = false /\ is_nil Ip = true /\ zlen Ip2 = 0 /\
       zlen Ip = 0 /\ zlen D <= zlen Fp /\ zlen Fp <= zlen (l_F p) /\ mnorm = zlen D - zlen Fp) \/
    (Fp = [] /\ Ip2 = D /\ is_nil Fp = true /\ zlen Ip2 = zlen D /\ zlen Fp = 0 /\ zlen D <= zlen Ip /\ mnorm = zlen Ip) \/
    (Fp <> [] /\ Ip <> [] /\ Ip2 = Ip /\ D = Ip ++ Fp /\
       l_dot p = true /\ is_nil Fp = false /\ is_nil Ip = false /\ zlen Ip2 = zlen Ip /\
       1 <= zlen Ip /\ 1 <= zlen Fp /\ zlen Fp <= zlen (l_F p) /\ zlen D = zlen Ip + zlen Fp /\ mnorm = zlen Ip).
  Proof.
    assert (Hnil : forall l : bytes, l <> [] -> is_nil l = false) by (intros [|? ?]; [congruence|reflexivity]).
    destruct Hcase as [(C1 & C2 & C3 & C4 & C5 & C6)|[(C1 & C2 & C3 & C4)|(C1 & C2 & C3 & C4 & C5)]].
    - left. destruct (HFpl C1) as [Hd Hl]. repeat split; auto; try (rewrite C2; reflexivity). rewrite C3; reflexivity.
    - right; left. repeat split; auto; try (rewrite C1; reflexivity). rewrite C2; reflexivity.
    - right; right. destruct (HFpl C1) as [Hd Hl]. repeat split; auto using zlen_pos.
      + rewrite C3; reflexivity.
      + rewrite C4. apply zlen_app.
  Qed.

  Lemma tail_bounds : - B25 < intExp < B25 /\ - B25 < normExp /\ Z.abs origExp < B25.
  Proof.
    pose proof tail_total as Ht. pose proof tail_nonneg as Hnn.
    unfold nl_guard, min_int, max_int in *. unfold intExp, normExp, n. unfold B25 in *.
    destruct tail_cases as [(_ & _ & _ & _ & Hd & _ & _ & C)|[(_ & _ & _ & C)|(_ & _ & _ & _ & Hd & _ & _ & C)]]; try rewrite Hd in Ht.
    - destruct (l_exp p); lia.
    - destruct (l_dot p), (l_exp p); lia.
    - destruct (l_exp p); lia.
  Qed.

  Definition good (out : bytes) : Prop :=
    exists p', wf_lexed p' /\ sign_bytes (sg_out p) ++ out = unlex p' /\ val_eq (value p') (value p) /\ zlen (unlex p') <= total.

  Lemma D_nonnil : D <> [].
  Proof. intros E. rewrite E in HDn. unfold zlen in HDn; simpl in HDn; lia. Qed.

  Lemma sign_len : zlen (sign_bytes (sg_out p)) <= zlen (sign_bytes (l_sign p)) /\
    zlen (sign_bytes (l_sign p)) = (if l_sign p =? 0 then 0 else 1).
  Proof. apply zlen_sign_out; auto. Qed.

  Ltac fields := cbn [mk_exp mk_plain l_sign l_I l_dot l_F l_exp l_echar l_esign l_E].

  (* shape 1a: D e intExp *)
  Lemma tail_1a : n + 3 <= normExp -> good (D ++ [ce] ++ show_nat intExp).
  Proof.
    intros E2. pose proof tail_bounds as (Hb1 & Hb2 & Hb3).
    assert (HiB : 0 <= intExp < B25) by (unfold intExp in *; lia).
    destruct (show_nat_spec intExp HiB) as (S1 & S2 & S3 & _).
    exists (mk_exp (sg_out p) D false [] 0 (show_nat intExp)). split; [|split; [|split]].
    - apply wf_mk_exp; auto using sg_out_cases, D_nonnil, show_nat_nonnil. constructor.
    - unfold unlex; fields. change (sign_bytes 0) with (@nil byte). reflexivity.
    - rewrite value_mk_exp, sgn_out. eapply val_eq_of_eq; [|exact Hval].
      rewrite app_nil_r. change (0 =? 2) with false. cbv iota. rewrite S2. change (zlen (@nil byte)) with 0.
      f_equal. unfold intExp, normExp, n. lia.
    - rewrite zlen_unlex; fields. change (zlen (sign_bytes 0)) with 0. fold (ndig intExp).
      pose proof tail_total as Ht. pose proof tail_nonneg as Hnn. pose proof sign_len as (Hs1 & Hs2).
      pose proof (ndig_lin intExp) as L1.
      assert (L2 : 0 <= origExp <= intExp -> ndig intExp <= ndig (Z.abs origExp) + (intExp - origExp)).
      { intros H. rewrite Z.abs_eq by lia. replace intExp with (origExp + (intExp - origExp)) at 1 by lia.
        apply ndig_add; lia. }
      assert (L3 : 0 <= intExp <= origExp -> ndig intExp <= ndig (Z.abs origExp)).
      { intros H. rewrite Z.abs_eq by lia. apply ndig_mono; lia. }
      unfold intExp, normExp, n in *.
      destruct tail_cases as [(_ & _ & _ & _ & Hd & _ & _ & C)|[(_ & _ & _ & C)|(_ & _ & _ & _ & Hd & _ & _ & C)]]; try rewrite Hd in Ht.
      + destruct (l_exp p); lia.
      + destruct (l_dot p), (l_exp p); lia.
      + destruct (l_exp p); lia.
  Qed.

  Ltac ctx := pose proof tail_total as Ht; pose proof tail_nonneg as Hnn; pose proof sign_len as (Hs1 & Hs2);
              pose proof tail_bounds as (Hb1 & Hb2 & Hb3).
  Ltac fin_ Ht := unfold intExp, normExp, n in *;
    destruct tail_cases as [(_ & _ & _ & _ & Hd & HnF & HnI & C)|[(_ & _ & HnF & C)|(_ & _ & _ & _ & Hd & HnF & HnI & C)]];
    try rewrite Hd in Ht;
    [ destruct (l_exp p); lia | destruct (l_dot p), (l_exp p); lia | destruct (l_exp p); lia ].

  Lemma nd_lin x : 3 <= Z.abs x < B25 -> ndig (Z.abs x) <= Z.abs x - 2.
  Proof. apply ndig_lin. Qed.
  Lemma nd_mono x y : Z.abs x <= Z.abs y < B25 -> ndig (Z.abs x) <= ndig (Z.abs y).
  Proof. intros. apply ndig_mono; lia. Qed.
  Lemma nd_add x y : Z.abs x <= Z.abs y < B25 -> ndig (Z.abs y) <= ndig (Z.abs x) + (Z.abs y - Z.abs x).
  Proof. intros. replace (Z.abs y) with (Z.abs x + (Z.abs y - Z.abs x)) at 1 by lia. apply ndig_add; lia. Qed.

  (* shape 1b: D followed by zeros *)
  Lemma tail_1b : n <= normExp -> normExp < n + 3 -> good (D ++ zeros (Z.to_nat (normExp - n))).
  Proof.
    intros E1 E2. fold intExp. assert (Hi : 0 <= intExp) by (unfold intExp; lia).
    exists (mk_plain (sg_out p) (D ++ zeros (Z.to_nat intExp)) false []). split; [|split; [|split]].
    - apply wf_mk_plain; [apply sg_out_cases | | constructor | | reflexivity].
      + apply all_digits_app. split; auto using zeros_digits.
      + left. intros E. apply app_eq_nil in E as [E _]. exact (D_nonnil E).
    - unfold unlex; fields. rewrite !app_nil_r. reflexivity.
    - rewrite value_mk_plain, sgn_out, app_nil_r, digits_val_pad, Z2Nat.id by lia.
      eapply val_eq_trans; [|exact Hval]. fold n normExp intExp.
      apply val_eq_scale' with (j := intExp); [lia | change (zlen (@nil byte)) with 0; lia | ring].
    - rewrite zlen_unlex; fields. rewrite zlen_app, zlen_zeros, Z2Nat.id by lia. ctx. fin_ Ht.
  Qed.

  (* shape 2: .D e-normExp *)
  Lemma tail_2 : normExp < -3 -> Fp <> [] -> good ([cdot] ++ D ++ [ce; cminus] ++ show_nat (- normExp)).
  Proof.
    intros E1 E2. ctx.
    assert (HnB : 0 <= - normExp < B25) by lia.
    destruct (show_nat_spec _ HnB) as (S1 & S2 & S3 & _).
    exists (mk_exp (sg_out p) [] true D 2 (show_nat (- normExp))). split; [|split; [|split]].
    - apply wf_mk_exp; auto using sg_out_cases, D_nonnil, show_nat_nonnil; try solve [constructor]; try discriminate.
    - unfold unlex; fields. change (sign_bytes 2) with [cminus]. cbn [app]. reflexivity.
    - rewrite value_mk_exp, sgn_out. eapply val_eq_of_eq; [|exact Hval].
      cbn [app]. change (2 =? 2) with true. cbv iota. rewrite S2.
      f_equal. unfold normExp, n. lia.
    - rewrite zlen_unlex; fields. change (zlen (sign_bytes 2)) with 1. change (zlen (@nil byte)) with 0.
      fold (ndig (- normExp)). replace (- normExp) with (Z.abs normExp) in * by lia.
      pose proof (nd_lin normExp) as L1. pose proof (nd_add origExp normExp) as L2. pose proof (nd_mono normExp origExp) as L3.
      assert (HF : 1 <= zlen Fp) by (apply zlen_pos; auto).
      fin_ Ht.
  Qed.

  (* shape 3a: .000D *)
  Lemma tail_3a : normExp < 0 -> - len_int intExp - 1 <= normExp ->
    (normExp <? -3) && (len_int normExp <? len_int intExp) && negb (is_nil Fp) = false ->
    good ([cdot] ++ zeros (Z.to_nat (- normExp)) ++ D).
  Proof.
    intros E1 E2 E3. ctx.
    exists (mk_plain (sg_out p) [] true (zeros (Z.to_nat (- normExp)) ++ D)). split; [|split; [|split]].
    - apply wf_mk_plain; [apply sg_out_cases | constructor | | | discriminate].
      + apply all_digits_app. split; auto using zeros_digits.
      + right. intros E. apply app_eq_nil in E as [_ E]. exact (D_nonnil E).
    - unfold unlex; fields. cbn [app]. rewrite app_nil_r. reflexivity.
    - rewrite value_mk_plain, sgn_out. eapply val_eq_of_eq; [|exact Hval].
      cbn [app]. rewrite digits_val_app, digits_val_zeros, zlen_app, zlen_zeros, Z2Nat.id by lia.
      apply f_equal2; [ring | unfold normExp, n; lia].
    - rewrite zlen_unlex; fields. rewrite zlen_app, zlen_zeros, Z2Nat.id by lia. change (zlen (@nil byte)) with 0.
      rewrite !len_int_ndig in *.
      pose proof (nd_lin normExp) as L1. pose proof (nd_mono intExp origExp) as L2.
      unfold intExp, normExp, n in *;
      destruct tail_cases as [(_ & _ & _ & _ & Hd & HnF & HnI & C)|[(_ & _ & HnF & C)|(_ & _ & _ & _ & Hd & HnF & HnI & C)]];
      try rewrite Hd in Ht; rewrite HnF in E3; cbn [negb] in E3.
      + destruct (l_exp p); lia.
      + destruct (l_dot p), (l_exp p); lia.
      + destruct (l_exp p); lia.
  Qed.

  (* shape 3b: D1.D2 *)
  Lemma tail_3b : 0 <= normExp < n ->
    good (firstn (Z.to_nat normExp) D ++ [cdot] ++ skipn (Z.to_nat normExp) D).
  Proof.
    intros E1. ctx.
    destruct (firstn_skipn_zlen D normExp ltac:(fold n; lia)) as [Z1 Z2].
    pose proof (firstn_skipn (Z.to_nat normExp) D) as Hfs.
    assert (Had : all_digits (firstn (Z.to_nat normExp) D) /\ all_digits (skipn (Z.to_nat normExp) D)).
    { apply all_digits_app. rewrite Hfs. exact HD. }
    exists (mk_plain (sg_out p) (firstn (Z.to_nat normExp) D) true (skipn (Z.to_nat normExp) D)). split; [|split; [|split]].
    - apply wf_mk_plain; [apply sg_out_cases | tauto | tauto | | discriminate].
      right. intros E. rewrite E in Z2. change (zlen (@nil byte)) with 0 in Z2. fold n in Z2. lia.
    - unfold unlex; fields. cbn [app]. rewrite app_nil_r. reflexivity.
    - rewrite value_mk_plain, sgn_out. eapply val_eq_of_eq; [|exact Hval].
      rewrite Hfs, Z2. f_equal. unfold normExp, n. lia.
    - rewrite zlen_unlex; fields. rewrite Z1, Z2. fin_ Ht.
  Qed.

  (* shape 4a: D e-intExp *)
  Lemma tail_4a : normExp < n ->
    (if negb (is_nil Fp) && is_nil Ip then n else zlen Ip2 + (if negb (is_nil Fp) then 1 + zlen Fp else 0) - 1) + 2 + len_int intExp
      < total - ((if l_sign p =? 0 then 0 else 1) + (zlen (l_I p) - zlen Ip)) ->
    good (D ++ [ce; cminus] ++ show_nat (- intExp)).
  Proof.
    intros E1 E6. ctx.
    assert (HnB : 0 <= - intExp < B25) by (unfold intExp in *; lia).
    destruct (show_nat_spec _ HnB) as (S1 & S2 & S3 & _).
    exists (mk_exp (sg_out p) D false [] 2 (show_nat (- intExp))). split; [|split; [|split]].
    - apply wf_mk_exp; auto using sg_out_cases, D_nonnil, show_nat_nonnil. constructor.
    - unfold unlex; fields. change (sign_bytes 2) with [cminus]. cbn [app]. reflexivity.
    - rewrite value_mk_exp, sgn_out. eapply val_eq_of_eq; [|exact Hval].
      rewrite app_nil_r. change (2 =? 2) with true. cbv iota. rewrite S2. change (zlen (@nil byte)) with 0.
      f_equal. unfold intExp, normExp, n. lia.
    - rewrite zlen_unlex; fields. change (zlen (sign_bytes 2)) with 1.
      fold (ndig (- intExp)). rewrite len_int_ndig in E6. replace (Z.abs intExp) with (- intExp) in E6 by (unfold intExp in *; lia).
      unfold intExp, normExp, n in *;
      destruct tail_cases as [(_ & _ & _ & _ & Hd & HnF & HnI & C)|[(_ & _ & HnF & C)|(_ & _ & _ & _ & Hd & HnF & HnI & C)]];
      try rewrite Hd in Ht; rewrite HnF in E6; try rewrite HnI in E6; cbn [negb andb] in E6.
      + destruct (l_exp p); lia.
      + destruct (l_dot p), (l_exp p); lia.
      + destruct (l_exp p); lia.
  Qed.

  (* shape 4b: the trimmed mantissa with the original (negative) exponent re-printed *)
  Lemma tail_4b : normExp < n ->
    (normExp <? -3) && (len_int normExp <? len_int intExp) && negb (is_nil Fp) = false ->
    normExp < - len_int intExp - 1 ->
    total - ((if l_sign p =? 0 then 0 else 1) + (zlen (l_I p) - zlen Ip)) <=
      (if negb (is_nil Fp) && is_nil Ip then n else zlen Ip2 + (if negb (is_nil Fp) then 1 + zlen Fp else 0) - 1) + 2 + len_int intExp ->
    good (Ip2 ++ (if negb (is_nil Fp) then [cdot] ++ Fp else []) ++ [ce; cminus] ++ show_nat (Z.abs origExp)).
  Proof.
    intros E1 E3 E4 E6. ctx.
    assert (HoB : 0 <= Z.abs origExp < B25) by lia.
    destruct (show_nat_spec _ HoB) as (S1 & S2 & S3 & _).
    assert (Hkey : is_nil Fp = false /\ origExp < 0 /\ digits_val (Ip2 ++ Fp) = digits_val D /\
                   mnorm - n = - zlen Fp /\ all_digits Ip2 /\ Fp <> [] /\
                   zlen (sign_bytes (sg_out p)) + zlen Ip2 + (1 + zlen Fp) + (1 + 1 + ndig (Z.abs origExp)) <= total).
    { rewrite !len_int_ndig in *.
      pose proof (nd_mono intExp origExp) as L2.
      pose proof (ndig_ge1 (Z.abs intExp) ltac:(unfold intExp in *; lia)) as L3.
      unfold intExp, normExp, n in *.
      destruct tail_cases as [(C1 & C2 & C3 & C4 & Hd & HnF & HnI & C)|[(C1 & C2 & HnF & C)|(C1 & C2 & C3 & C4 & Hd & HnF & HnI & C)]];
      try rewrite Hd in Ht; rewrite HnF in E3, E6; try rewrite HnI in E6; cbn [negb andb] in E3, E6.
      - assert (digits_val (Ip2 ++ Fp) = digits_val D) by (rewrite C3; cbn [app]; auto).
        assert (all_digits Ip2) by (rewrite C3; constructor).
        repeat split; auto; destruct (l_exp p); lia.
      - exfalso. destruct (l_dot p), (l_exp p); lia.
      - assert (digits_val (Ip2 ++ Fp) = digits_val D) by (rewrite C3, <- C4; auto).
        assert (all_digits Ip2) by (rewrite C3; auto).
        repeat split; auto; destruct (l_exp p); lia. }
    destruct Hkey as (K1 & K2 & K3 & K4 & K5 & K6 & K7). rewrite K1. cbn [negb].
    exists (mk_exp (sg_out p) Ip2 true Fp 2 (show_nat (Z.abs origExp))). split; [|split; [|split]].
    - apply wf_mk_exp; auto using sg_out_cases, show_nat_nonnil. discriminate.
    - unfold unlex; fields. change (sign_bytes 2) with [cminus]. cbn [app]. reflexivity.
    - rewrite value_mk_exp, sgn_out. eapply val_eq_of_eq; [|exact Hval].
      change (2 =? 2) with true. cbv iota. rewrite S2, K3.
      f_equal. unfold n in *. lia.
    - rewrite zlen_unlex; fields. change (zlen (sign_bytes 2)) with 1. exact K7.
  Qed.

  Lemma tail_exact : good (nl_out total p origExp Ip Fp D mnorm Ip2).
  Proof.
    unfold nl_out. cbv zeta. fold n. fold normExp. fold intExp.
    destruct (n <=? normExp) eqn:E1.
    { destruct (n + 3 <=? normExp) eqn:E2.
      - apply tail_1a. lia.
      - apply tail_1b; lia. }
    destruct ((normExp <? -3) && (len_int normExp <? len_int intExp) && negb (is_nil Fp)) eqn:E3.
    { apply tail_2; [lia|]. destruct Fp; [|discriminate]. cbn [is_nil negb] in E3. rewrite andb_false_r in E3. discriminate. }
    destruct (- len_int intExp - 1 <=? normExp) eqn:E4.
    { destruct (normExp <? 0) eqn:E5.
      - apply tail_3a; auto; lia.
      - apply tail_3b. lia. }
    match goal with |- context [if ?c then _ else _] => destruct c eqn:E6 end.
    - apply tail_4a; lia.
    - apply tail_4b; auto; lia.
  Qed.
End Tail.


(* ---------- the exponent ---------- *)
Lemma exp_spec p o : wf_lexed p -> exp_value p = Some o ->
  exp_z p = o /\ min_int <= o <= max_int /\
  ((l_exp p = false /\ o = 0) \/
   (l_exp p = true /\ 1 <= zlen (l_E p) /\ ndig (Z.abs o) <= zlen (l_E p) /\
    (o < 0 -> zlen (sign_bytes (l_esign p)) = 1))).
Proof.
  intros (Hsg & HI & HF & HIF & HdF & Hex). unfold exp_value, exp_z, min_int, max_int.
  destruct (l_exp p).
  - destruct Hex as (Hec & Hes & HE & HEn).
    pose proof (digits_val_nonneg _ HE) as Hv0. pose proof (zlen_pos _ HEn) as Hl.
    assert (Hnd : digits_val (l_E p) < B25 -> ndig (digits_val (l_E p)) <= zlen (l_E p)) by (apply ndig_digits; auto).
    unfold B25 in Hnd.
    destruct (l_esign p =? 2) eqn:E2.
    + apply Z.eqb_eq in E2. rewrite E2.
      destruct (digits_val (l_E p) <=? 9223372036854775808) eqn:E3; intros H; inversion H; subst o.
      rewrite Z.abs_opp, Z.abs_eq by lia. change (zlen (sign_bytes 2)) with 1.
      repeat split; try lia; right; repeat split; auto; lia.
    + destruct (digits_val (l_E p) <=? 9223372036854775807) eqn:E3; intros H; inversion H; subst o.
      rewrite Z.abs_eq by lia. repeat split; try lia; right; repeat split; auto; lia.
  - intros H; inversion H; subst o. repeat split; try lia; left; auto.
Qed.

(* ---------- the mantissa ---------- *)
Lemma drop_keep1_head l :
  match drop_leading_zeros_keep1 l with c :: _ :: _ => c <> c0 | _ => True end.
Proof.
  induction l as [|c l IH]; [exact I|].
  destruct l as [|d l]; [exact I|].
  cbn [drop_leading_zeros_keep1]. destruct (c =? c0) eqn:E; [exact IH | apply Z.eqb_neq; exact E].
Qed.

Lemma trim_head p Ip Fp : wf_lexed p -> trim p = (Ip, Fp) -> is_zero_int Ip = false ->
  exists c r, Ip = c :: r /\ c <> c0.
Proof.
  intros Hwf Ht Hz. pose proof (trim_spec p Ip Fp Hwf Ht) as (_ & _ & _ & _ & _ & _ & _ & _ & Hhd).
  unfold trim in Ht. destruct (l_dot p) eqn:Ed.
  - destruct Ip as [|c r]; [discriminate|]. exists c, r. split; auto.
  - inversion Ht as [[H1 H2]]. pose proof (drop_keep1_head (l_I p)) as Hk. rewrite H1 in Hk.
    destruct Ip as [|c [|d r]]; [discriminate| |].
    + exists c, []. split; auto. simpl in Hz. apply Z.eqb_neq; exact Hz.
    + exists c, (d :: r). split; auto.
Qed.

Lemma zeros_head j : match zeros j with [] => True | c :: _ => c = c0 end.
Proof. destruct j; simpl; auto. Qed.

Lemma mant_spec p Ip Fp D mnorm Ip2 e : wf_lexed p -> trim p = (Ip, Fp) ->
  negb (negb (is_nil Fp)) && is_zero_int Ip = false ->
  nl_mant Ip Fp = (D, mnorm, Ip2) ->
  all_digits D /\ 1 <= zlen D /\ all_digits Ip /\ all_digits Fp /\
  val_eq (sgn p * digits_val D, mnorm + e - zlen D) (sgn p * digits_val (l_I p ++ l_F p), e - zlen (l_F p)) /\
  ((Fp <> [] /\ Ip = [] /\ Ip2 = [] /\ digits_val D = digits_val Fp /\ mnorm = zlen D - zlen Fp /\ zlen D <= zlen Fp) \/
   (Fp = [] /\ Ip2 = D /\ mnorm = zlen Ip /\ zlen D <= zlen Ip) \/
   (Fp <> [] /\ Ip <> [] /\ Ip2 = Ip /\ D = Ip ++ Fp /\ mnorm = zlen Ip)) /\
  zlen Ip <= zlen (l_I p) /\
  (Fp <> [] -> l_dot p = true /\ zlen Fp <= zlen (l_F p)).
Proof.
  intros Hwf Ht Hz Hm.
  pose proof (trim_spec p Ip Fp Hwf Ht) as (HIp & HFp & Hv & Hl & (j & Hj) & Hnd & Hne & Hrev & Hhd).
  assert (HFpl : Fp <> [] -> l_dot p = true /\ zlen Fp <= zlen (l_F p)).
  { intros HF. split.
    - destruct (l_dot p); auto; elim HF; auto.
    - rewrite Hj, zlen_app. pose proof (zlen_nonneg (zeros j)). lia. }
  assert (HzF : zlen (l_F p) = zlen Fp + Z.of_nat j) by (rewrite Hj, zlen_app, zlen_zeros; reflexivity).
  pose proof (zlen_nonneg Fp) as HFp0. pose proof (zlen_nonneg Ip) as HIp0.
  assert (Hnil : forall l : bytes, (is_nil l = true /\ l = []) \/ (is_nil l = false /\ l <> [])).
  { intros [|x l]; [left; auto | right; split; [reflexivity | discriminate]]. }
  unfold nl_mant in Hm.
  destruct (Hnil Fp) as [[EF1 EF2]|[EF1 EF2]]; rewrite EF1 in Hm, Hz; cbn [negb andb] in Hm, Hz.
  - (* no fraction left *)
    subst Fp. inversion Hm; subst D mnorm Ip2; clear Hm.
    destruct (trim_head p Ip [] Hwf Ht Hz) as (c & r & HIpc & Hc).
    destruct (strip_back_spec Ip) as (t & Hspl & _).
    set (D := strip_zeros_back Ip) in *.
    assert (HD : all_digits D) by (apply all_digits_strip_back; auto).
    assert (HDn : 1 <= zlen D).
    { apply zlen_pos. intros E. rewrite E in Hspl. cbn [app] in Hspl.
      pose proof (zeros_head t) as Hh. rewrite <- Hspl, HIpc in Hh. auto. }
    assert (HzI : zlen Ip = zlen D + Z.of_nat t) by (rewrite Hspl at 1; rewrite zlen_app, zlen_zeros; reflexivity).
    repeat split; auto; try lia.
    + rewrite HzF. cbn [app] in Hj. rewrite Hj, digits_val_pad, <- Hv. rewrite Hspl at 2. rewrite digits_val_pad.
      apply val_eq_scale with (j := Z.of_nat t + Z.of_nat j); [lia | change (zlen (@nil byte)) with 0; lia |].
      rewrite Z.pow_add_r by lia. ring.
    + right; left. repeat split; auto. lia.
  - destruct (Hnil Ip) as [[EI1 EI2]|[EI1 EI2]]; rewrite EI1 in Hm; cbn [negb andb] in Hm.
    + (* .000D *)
      inversion Hm; subst D mnorm Ip2; clear Hm.
      destruct (strip_front_spec Fp) as (z & Hspl & _).
      set (D := strip_zeros_front Fp) in *.
      assert (HD : all_digits D) by (apply all_digits_strip_front; auto).
      assert (HDn : 1 <= zlen D).
      { apply zlen_pos. intros E. rewrite E, app_nil_r in Hspl. rewrite Hspl, rev_zeros in Hrev.
        pose proof (zeros_head z) as Hh. destruct (zeros z) eqn:Ez; [exact (EF2 Hspl) | exact (Hrev Hh)]. }
      assert (HzF' : zlen Fp = Z.of_nat z + zlen D) by (rewrite Hspl at 1; rewrite zlen_app, zlen_zeros; reflexivity).
      assert (HvD : digits_val D = digits_val Fp) by (apply digits_val_strip_front).
      repeat split; auto; try lia; try (apply HFpl; assumption).
      * rewrite HzF, digits_val_app, <- Hv, EI2. change (digits_val []) with 0. rewrite Hj, digits_val_pad, <- HvD.
        apply val_eq_scale with (j := Z.of_nat j); [lia | lia | ring].
      * left. repeat split; auto; lia.
    + (* I.F *)
      inversion Hm; subst D mnorm Ip2; clear Hm.
      repeat split; auto; try (apply HFpl; assumption).
      * apply all_digits_app; auto.
      * rewrite zlen_app. pose proof (zlen_pos Ip EI2). lia.
      * rewrite HzF, !digits_val_app, <- Hv, Hj, digits_val_pad, !zlen_app, zlen_zeros.
        apply val_eq_scale with (j := Z.of_nat j); [lia | lia |].
        rewrite Z.pow_add_r by lia. ring.
      * right; right. repeat split; auto.
Qed.

Lemma val_eq_zero e1 e2 : val_eq (0, e1) (0, e2).
Proof. unfold val_eq; cbn [fst snd]. lia. Qed.

(* ---------- Number on a lexed number ---------- *)
Lemma number_lx_exact p : wf_lexed p -> zlen (unlex p) <= 10 ^ 25 ->
  exists p', wf_lexed p' /\ number_lx (zlen (unlex p)) (unlex p) p = unlex p' /\
             val_eq (value p') (value p) /\ zlen (unlex p') <= zlen (unlex p).
Proof.
  intros Hwf Hlen. rewrite B25_eq in Hlen.
  assert (Hid : exists p', wf_lexed p' /\ unlex p = unlex p' /\ val_eq (value p') (value p) /\ zlen (unlex p') <= zlen (unlex p)).
  { exists p. split; [exact Hwf|]. split; [reflexivity|]. split; [apply val_eq_refl | lia]. }
  rewrite number_lx_eq. destruct (exp_value p) as [o|] eqn:Ee; [|exact Hid].
  destruct (exp_spec p o Hwf Ee) as (Hez & Hrange & Hexp).
  destruct (trim p) as [Ip Fp] eqn:Et.
  destruct (negb (negb (is_nil Fp)) && is_zero_int Ip) eqn:Ez.
  - (* zero *)
    apply andb_true_iff in Ez as [Ez1 Ez2]. rewrite negb_involutive in Ez1.
    destruct Fp; [|discriminate]. clear Ez1.
    destruct (trim_spec p Ip [] Hwf Et) as (HIp & _ & Hv & Hl & (j & Hj) & _).
    destruct Hwf as (Hsg & HI & HF & HIF & HdF & Hex).
    exists (mk_plain 0 [c0] false []). split; [|split; [|split]].
    + apply wf_mk_plain; auto; [repeat constructor | constructor | left; discriminate].
    + reflexivity.
    + unfold value at 2. cbn [app] in Hj. rewrite Hj, digits_val_pad, <- Hv, (is_zero_int_val _ Ez2).
      rewrite value_mk_plain. change (digits_val ([c0] ++ [])) with 0.
      replace ((if l_sign p =? 2 then -1 else 1) * (0 * 10 ^ Z.of_nat j)) with 0 by ring.
      change ((if 0 =? 2 then -1 else 1) * 0) with 0. apply val_eq_zero.
    + rewrite (zlen_unlex p). change (zlen (unlex (mk_plain 0 [c0] false []))) with 1.
      pose proof (zlen_sign_bytes (l_sign p)) as (Hs1 & _).
      pose proof (zlen_nonneg (l_I p)). pose proof (zlen_nonneg (l_F p)).
      pose proof (zlen_nonneg (l_E p)). pose proof (zlen_nonneg (sign_bytes (l_esign p))).
      destruct (l_dot p) eqn:Ed.
      * destruct (l_exp p); lia.
      * assert (l_I p <> []) by (destruct HIF as [H'|H']; auto; rewrite (HdF eq_refl) in H'; congruence).
        pose proof (zlen_pos _ H3). destruct (l_exp p); lia.
  - (* general *)
    destruct (nl_mant Ip Fp) as [[D mnorm] Ip2] eqn:Em.
    destruct (mant_spec p Ip Fp D mnorm Ip2 o Hwf Et Ez Em) as (HD & HDn & HIp & HFp & Hval & Hcase & HIpl & HFpl).
    destruct (nl_guard o mnorm (zlen D)) eqn:Eg; [exact Hid|].
    rewrite sign_bytes_out.
    assert (Hv' : val_eq (sgn p * digits_val D, mnorm + o - zlen D) (value p)).
    { unfold value. rewrite Hez. exact Hval. }
    destruct Hwf as (Hsg & _).
    destruct (tail_exact p o Ip Fp D Ip2 mnorm (zlen (unlex p)) Hsg HD HDn HIp HFp Hv' Hcase HIpl HFpl Hexp Hrange Eg eq_refl Hlen)
      as (p' & W1 & W2 & W3 & W4).
    exists p'. auto.
Qed.

