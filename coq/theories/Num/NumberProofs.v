(* Num/NumberProofs.v — minify.Number(s, 0): the result is in the number grammar, denotes exactly the same rational, and is
   never longer than the input — for every lexeme of the grammar with at most 10^25 bytes (any exponent).

   The bound [zlen s <= 10 ^ 25] is an artefact of the model, not of the Go code: show_nat prints with fuel 25, so it is
   faithful only below 10^25, and the integers that number_lx prints (intExp, -normExp, -intExp, |origExp|) are bounded by
   max (2^63) (zlen s - 1) once the overflow guard has passed (Lemma tail_bounds in NumberLemmas.v).  In Go, len(num) <= 2^63 - 1
   < 10^25, so the hypothesis always holds there.  Without it number0_value is false: number0_value_needs_bound at the end
   of this file ("1" followed by 10^25 zeros, 10^25 + 1 bytes, is printed as "1e0000000000000000000000000"); the bound is tight
   (10^25 bytes are fine).  For number0_not_longer the bound is only known to be sufficient. *)
From MV Require Import Base.MvBytes Num.NumModel Num.NumSpec Num.NumProofs Num.NumberLemmas.

Theorem number0_exact : forall s p, lex_number s = Some p -> zlen s <= 10 ^ 25 ->
  exists p', lex_number (number0 s) = Some p' /\ val_eq (value p') (value p) /\ zlen (number0 s) <= zlen s.
Proof.
  intros s p Hlex Hlen. pose proof (lex_number_sound _ _ Hlex) as (Hs & Hwf).
  assert (Hid : exists p', lex_number s = Some p' /\ val_eq (value p') (value p) /\ zlen s <= zlen s).
  { exists p. repeat split; auto using val_eq_refl. lia. }
  unfold number0. destruct s as [|a [|b s']]; auto. rewrite Hlex.
  rewrite Hs in Hlen |- *.
  destruct (number_lx_exact p Hwf Hlen) as (p' & Hwf' & Hout & Hv & Hl).
  exists p'. rewrite Hout. repeat split; auto using lex_number_complete.
Qed.

(* the value part: in the grammar, same value *)
Theorem number0_value : forall s p, lex_number s = Some p -> zlen s <= 10 ^ 25 ->
  exists p', lex_number (number0 s) = Some p' /\ val_eq (value p') (value p).
Proof. intros s p H Hl. destruct (number0_exact s p H Hl) as (p' & H1 & H2 & _). exists p'. auto. Qed.

(* the size part *)
Theorem number0_not_longer : forall s p, lex_number s = Some p -> zlen s <= 10 ^ 25 -> zlen (number0 s) <= zlen s.
Proof. intros s p H Hl. destruct (number0_exact s p H Hl) as (p' & _ & _ & H3). exact H3. Qed.

(* ---------- the bound is necessary for number0_value ---------- *)
(* show_nat has fuel for 25 digits: the 26-digit 10^25 is printed as its 25 low digits *)
Example show_nat_fuel : show_nat (10 ^ 25) = zeros 25.
Proof. vm_compute. reflexivity. Qed.

Lemma strip_front_zeros_app N l : strip_zeros_front (zeros N ++ l) = strip_zeros_front l.
Proof. induction N as [|N IH]; [reflexivity|]. cbn [zeros app strip_zeros_front]. change (c0 =? c0) with true. exact IH. Qed.

Lemma strip_back_one_zeros c N : c <> c0 -> strip_zeros_back (c :: zeros N) = [c].
Proof.
  intros Hc. unfold strip_zeros_back. cbn [rev]. rewrite rev_zeros, strip_front_zeros_app.
  cbn [strip_zeros_front]. apply Z.eqb_neq in Hc. rewrite Hc. reflexivity.
Qed.

(* "1" followed by 10^25 zeros (10^25 + 1 bytes) is printed as "1e0000000000000000000000000":
   show_nat has fuel for 25 digits only and 10^25 has 26. *)
Lemma number0_big N : Z.of_nat N = 10 ^ 25 ->
  let s := 49 :: zeros N in
  lex_number s = Some (mk_plain 0 s false []) /\ zlen s = 10 ^ 25 + 1 /\ number0 s = [49; ce] ++ zeros 25.
Proof.
  intros HN s.
  assert (Hz : @zlen byte s = 10000000000000000000000001).
  { unfold s. rewrite zlen_cons, zlen_zeros, HN. reflexivity. }
  assert (Hwf : wf_lexed (mk_plain 0 s false [])).
  { apply wf_mk_plain; auto; [|constructor|left; discriminate].
    constructor; [reflexivity | apply zeros_digits]. }
  assert (Hlex : lex_number s = Some (mk_plain 0 s false [])).
  { rewrite <- (lex_number_complete _ Hwf). f_equal. unfold unlex; cbn [mk_plain l_sign l_I l_dot l_F l_exp].
    change (sign_bytes 0) with (@nil byte). cbn [app]. rewrite !app_nil_r. reflexivity. }
  split; [exact Hlex|]. split; [exact Hz|].
  destruct N as [|N']; [change (Z.of_nat 0) with 0 in HN; change (10 ^ 25) with B25 in HN; unfold B25 in HN; lia|].
  unfold number0. unfold s at 1. cbn [zeros]. fold (zeros (S N')). fold s. rewrite Hlex.
  rewrite number_lx_eq.
  change (exp_value (mk_plain 0 s false [])) with (Some 0).
  assert (Ht : trim (mk_plain 0 s false []) = (s, [])).
  { unfold trim; cbn [mk_plain l_dot l_I l_F]. unfold s. cbn [zeros drop_leading_zeros_keep1].
    change (49 =? c0) with false. reflexivity. }
  rewrite Ht. cbn [is_nil negb andb].
  assert (Hzi : is_zero_int s = false) by reflexivity. rewrite Hzi.
  unfold nl_mant. cbn [is_nil negb andb]. replace (strip_zeros_back s) with [49] by (symmetry; apply strip_back_one_zeros; unfold c0; lia).
  change (zlen [49]) with 1.
  change (nl_guard 0 (zlen s) 1) with false. cbv iota.
  cbn [mk_plain l_sign]. change (0 =? 2) with false. cbv iota. cbn [app].
  unfold nl_out. cbv zeta. change (zlen [49]) with 1. rewrite Hz.
  reflexivity.
Qed.

Lemma number0_big_value N : Z.of_nat N = 10 ^ 25 -> forall p',
  lex_number ([49; ce] ++ zeros 25) = Some p' -> ~ val_eq (value p') (value (mk_plain 0 (49 :: zeros N) false [])).
Proof.
  intros HN p' Hp'. vm_compute in Hp'. inversion Hp'; subst p'; clear Hp'.
  match goal with |- ~ val_eq (value ?q) _ => assert (Ha : value q = (1, 0)) by (vm_compute; reflexivity); rewrite Ha end.
  rewrite value_mk_plain, app_nil_r, digits_val_cons, digits_val_zeros, zlen_zeros.
  change (zlen (@nil byte)) with 0. change (0 =? 2) with false. cbv iota.
  assert (HY : 1 < 10 ^ Z.of_nat N).
  { apply Z.pow_gt_1; [lia|]. rewrite HN. reflexivity. }
  generalize dependent (10 ^ Z.of_nat N). intros Y HY Hv.
  unfold val_eq in Hv. cbn [fst snd] in Hv. change (Z.min 0 (0 - 0)) with 0 in Hv.
  change (10 ^ (0 - 0)) with 1 in Hv. change (10 ^ (0 - 0 - 0)) with 1 in Hv. lia.
Qed.

Example number0_value_needs_bound :
  exists s p, lex_number s = Some p /\ zlen s = 10 ^ 25 + 1 /\
    forall p', lex_number (number0 s) = Some p' -> ~ val_eq (value p') (value p).
Proof.
  assert (HN : Z.of_nat (Z.to_nat (10 ^ 25)) = 10 ^ 25) by (apply Z2Nat.id; discriminate).
  destruct (number0_big _ HN) as (H1 & H2 & H3).
  exists (49 :: zeros (Z.to_nat (10 ^ 25))), (mk_plain 0 (49 :: zeros (Z.to_nat (10 ^ 25))) false []).
  split; [exact H1|]. split; [exact H2|].
  intros p'. rewrite H3. apply number0_big_value. exact HN.
Qed.

Print Assumptions number0_exact.
Print Assumptions number0_value_needs_bound.
