(* Property C01 — JS minification preserves program behaviour.
   ECMAScript as a whole is outside any model built here.  What is PROVED is the printer's parenthesis logic on the operator
   fragment (Js/PrintModel.v: binary / prefix / postfix / conditional / comma / call / member expressions with the GroupExpr
   nodes parse/js keeps), against the ECMA-262 expression grammar written with ITS OWN level tables (Js/PrintSpec.v):
     js_prec_tables_ok : the four precedence maps of js/util.go, regenerated from the source on every run, satisfy the
                         inequalities prec_tables_ok (every operator present; own level <= grammar level; operand levels >=
                         the grammar's operand levels) — on the pinned tree this FAILED for &&= ||= ??= (finding K11, repaired);
     print_derives     : for EVERY expression tree a conforming parser can produce (wf), at every context level, the printed
                         tokens derive — in the grammar — the same tree with exactly the dropped groups removed: no dropped
                         pair of parentheses ever changes how the expression parses (precedence, associativity, the ** / unary
                         restriction, assignment targets, conditional operands);
     strip_print_stable: printing the re-parsed tree gives the same tokens (the output is a fixed point of the printer);
     and_assoc/or_assoc: the one deliberate re-association (a&&(b&&c) printed a&&b&&c) does not change the value.
   Tie: T-gen (maps) + the extracted printer must reproduce the token sequence of the real js.Minify on 6,000 random
   expressions per run (necessary and redundant parentheses; leaves pairwise distinct so that no rewrite fires).
   Identifier renaming is property C02 (Props/C02.v), proved separately.
   NOT proved — decided by search only (harness/cmd/jsoracle: node 20 vm, recorded host calls, final globals, completion,
   sloppy and strict, all Version / KeepVarNames settings): every rewrite of js/util.go and js/stmtlist.go (conditional /
   boolean / nullish folding, statement merging, hoisting, dead-code removal), literal rewriting, statements, classes,
   generators, destructuring, templates.  Twelve defects found there were repaired in /repo; open findings: K01-K05, K07,
   K09, K14, K73-K78. *)
From Coq Require Import List String Arith Bool Lia.
Import ListNotations.
From MVGen Require Import JsGates_gen.
From MV Require Import Js.PrintModel Js.PrintSpec Js.PrintGen Js.PrintProofs Js.PrintGroup.
Local Open Scope string_scope.

Example js_prec_tables_ok : prec_tables_ok T_gen = true.
Proof. vm_compute. reflexivity. Qed.

Theorem print_derives : forall T, prec_tables_ok T = true ->
  forall e l p, wf l e -> D (Nat.min l p) (print T p e) (strip T p e).
Proof. exact PrintProofs.print_derives. Qed.
Print Assumptions print_derives.

(* the statement for the current source: whole expressions *)
Theorem print_derives_current_tables : forall e, wf 0 e -> D 0 (print T_gen 0 e) (strip T_gen 0 e).
Proof. intros e H. apply PrintProofs.print_derives_top; [exact js_prec_tables_ok | exact H]. Qed.
Print Assumptions print_derives_current_tables.

Theorem strip_print_stable : forall T, consts_exact T = true -> forall e p, print T p (strip T p e) = print T p e.
Proof. exact PrintProofs.strip_print_stable. Qed.
Example consts_exact_current_tables : consts_exact T_gen = true.
Proof. vm_compute. reflexivity. Qed.
Print Assumptions strip_print_stable.

Theorem short_circuit_assoc : forall (V : Type) (truthy : V -> bool) a b c,
  and_v V truthy (and_v V truthy a b) c = and_v V truthy a (and_v V truthy b c) /\
  or_v V truthy (or_v V truthy a b) c = or_v V truthy a (or_v V truthy b c).
Proof. intros. split; [apply and_assoc | apply or_assoc]. Qed.
Print Assumptions short_circuit_assoc.

(* the hypothesis on the tables is what protects against the K11 defect: with the logical assignment operators missing from
   the maps (as on the pinned tree) the right operand of ??= is printed at level 0 and a comma operand loses its parentheses *)
Example print_refuted_without_table_entries :
  let T_old := {| t_unary := t_unary T_gen; t_unop := t_unop T_gen; t_const := t_const T_gen;
                  t_left := filter (fun kv => negb (String.eqb (fst kv) "NullishEqToken")) (t_left T_gen);
                  t_right := filter (fun kv => negb (String.eqb (fst kv) "NullishEqToken")) (t_right T_gen);
                  t_binop := filter (fun kv => negb (String.eqb (fst kv) "NullishEqToken")) (t_binop T_gen) |} in
  prec_tables_ok T_old = false /\
  print T_old 0 (EBin "NullishEqToken" (EAtom "g3") (EGroup (EBin "CommaToken" (EAtom "g2") (EAtom "s")))) =
    [TAtom "g3"; TOp "NullishEqToken"; TAtom "g2"; TOp "CommaToken"; TAtom "s"].
Proof. vm_compute. auto. Qed.

(* rewrites that build NEW operator nodes (if-merging, conditional -> && / ||, ?? folding, !-pushing) put each operand
   through groupExpr(x, P): the operand is then well-formed at every level up to P (one re-association of ?? chains
   excepted), and at EVERY such site of js/*.go — facts regenerated from the source — P is at least the grammar level of
   the operand position, so the rewritten tree is again in the domain of print_derives *)
Theorem group_expr_wf : forall T, prec_tables_ok T = true ->
  forall e l0 need p, wf l0 e -> need <= p ->
  ~ (expr_prec T e = OpCoalesce /\ p = OpBitOr) ->
  wf need (group_expr T p e).
Proof. exact PrintGroup.group_expr_wf. Qed.
Print Assumptions group_expr_wf.

Theorem group_sites_ok : forall s, In s js_group_sites -> gsite_ok T_gen s = true.
Proof. apply forallb_forall. vm_compute. reflexivity. Qed.
Print Assumptions group_sites_ok.

Example group_sites_nonvacuous : (20 <= List.length js_group_sites)%nat.
Proof. vm_compute. repeat constructor. Qed.

(* non-vacuity: (a+b)*(c*d) keeps both pairs, (a*b)+c drops its pair; both trees satisfy wf *)
Example print_nonvacuous :
  print T_gen 0 (EBin "MulToken" (EGroup (EBin "AddToken" (EAtom "a") (EAtom "b"))) (EGroup (EBin "MulToken" (EAtom "c") (EAtom "d")))) =
  [TL; TAtom "a"; TOp "AddToken"; TAtom "b"; TR; TOp "MulToken"; TL; TAtom "c"; TOp "MulToken"; TAtom "d"; TR] /\
  print T_gen 0 (EBin "AddToken" (EGroup (EBin "MulToken" (EAtom "a") (EAtom "b"))) (EAtom "c")) =
  [TAtom "a"; TOp "MulToken"; TAtom "b"; TOp "AddToken"; TAtom "c"] /\
  wf 0 (EBin "AddToken" (EGroup (EBin "MulToken" (EAtom "a") (EAtom "b"))) (EAtom "c")).
Proof. vm_compute. repeat split; auto; lia. Qed.
