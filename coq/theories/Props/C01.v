(* Property C01 — JS minification preserves program behaviour.
   ECMAScript as a whole is outside any model built here.  What is PROVED is the printer's parenthesis logic on the operator
   fragment (Js/PrintModel.v: binary / prefix / postfix / conditional / comma / call / member expressions with the GroupExpr
   nodes parse/js keeps), against the ECMA-262 expression grammar written with ITS OWN level tables (Js/PrintSpec.v):
     js_prec_tables_ok : the four precedence maps of js/util.go, regenerated from the source on every run, satisfy the
                         inequalities prec_tables_ok (every operator present; own level <= grammar level; operand levels >=
                         the grammar's operand levels) — on the pinned tree this FAILED for &&= ||= ??= (finding K11, repaired);
     print_derives     : for EVERY expression tree a conforming parser can produce (wf), at every context level, the printed
                         tokens derive — in the grammar — the same tree with exactly the dropped groups removed: no dropped
                         pair of parentheses ever changes how the expression parses (precedence, associativity, the ** / unary
                         restriction, assignment targets, conditional operands);
     strip_print_stable: printing the re-parsed tree gives the same tokens (the output is a fixed point of the printer);
     and_assoc/or_assoc: the one deliberate re-association (a&&(b&&c) printed a&&b&&c) does not change the value.
   Tie: T-gen (maps) + the extracted printer must reproduce the token sequence of the real js.Minify on 6,000 random
   expressions per run (necessary and redundant parentheses; leaves pairwise distinct so that no rewrite fires).
   Identifier renaming is property C02 (Props/C02.v), proved separately.
   NOT proved — decided by search only (harness/cmd/jsoracle: node 20 vm, recorded host calls, final globals, completion,
   sloppy and strict, all Version / KeepVarNames settings): every rewrite of js/util.go and js/stmtlist.go (conditional /
   boolean / nullish folding, statement merging, hoisting, dead-code removal), literal rewriting, statements, classes,
   generators, destructuring, templates.  Twelve defects found there were repaired in /repo; open findings: K01-K05, K07,
   K09, K14, K73-K78. *)
From Coq Require Import List String Arith Bool Lia.
Import ListNotations.
From MVGen Require Import JsGates_gen.
From MV Require Import Js.PrintModel Js.PrintSpec Js.PrintGen Js.PrintProofs Js.PrintGroup Js.RewriteModel Js.RewriteSem Js.RewriteProofs Js.RewritePipe Js.RewritePipeProofs Js.StmtModel Js.StmtSem Js.StmtProofs Js.StmtPrint Js.StmtParse Js.StmtPrintProofs Js.NumLit Js.NumLitSpec Js.NumLitProofs Js.StrLit Js.StrLitSpec Js.StrLitProofs Js.StrCat Js.StrCatProofs.
From MV Require Js.PrintRender Js.PrintRenderProofs Js.StmtRender Js.StmtRenderProofs Js.StmtRenderClosed.
From MV Require Base.MvBytes Num.NumModel Num.NumSpec.
From Coq Require Import ZArith.
Local Open Scope string_scope.

Example js_prec_tables_ok : prec_tables_ok T_gen = true.
Proof. vm_compute. reflexivity. Qed.

Theorem print_derives : forall T, prec_tables_ok T = true ->
  forall e l p, wf l e -> D (Nat.min l p) (print T p e) (strip T p e).
Proof. exact PrintProofs.print_derives. Qed.
Print Assumptions print_derives.

(* the statement for the current source: whole expressions *)
Theorem print_derives_current_tables : forall e, wf 0 e -> D 0 (print T_gen 0 e) (strip T_gen 0 e).
Proof. intros e H. apply PrintProofs.print_derives_top; [exact js_prec_tables_ok | exact H]. Qed.
Print Assumptions print_derives_current_tables.

Theorem strip_print_stable : forall T, consts_exact T = true -> forall e p, print T p (strip T p e) = print T p e.
Proof. exact PrintProofs.strip_print_stable. Qed.
Example consts_exact_current_tables : consts_exact T_gen = true.
Proof. vm_compute. reflexivity. Qed.
Print Assumptions strip_print_stable.

Theorem short_circuit_assoc : forall (V : Type) (truthy : V -> bool) a b c,
  and_v V truthy (and_v V truthy a b) c = and_v V truthy a (and_v V truthy b c) /\
  or_v V truthy (or_v V truthy a b) c = or_v V truthy a (or_v V truthy b c).
Proof. intros. split; [apply and_assoc | apply or_assoc]. Qed.
Print Assumptions short_circuit_assoc.

(* the hypothesis on the tables is what protects against the K11 defect: with the logical assignment operators missing from
   the maps (as on the pinned tree) the right operand of ??= is printed at level 0 and a comma operand loses its parentheses *)
Example print_refuted_without_table_entries :
  let T_old := {| t_unary := t_unary T_gen; t_unop := t_unop T_gen; t_const := t_const T_gen;
                  t_left := filter (fun kv => negb (String.eqb (fst kv) "NullishEqToken")) (t_left T_gen);
                  t_right := filter (fun kv => negb (String.eqb (fst kv) "NullishEqToken")) (t_right T_gen);
                  t_binop := filter (fun kv => negb (String.eqb (fst kv) "NullishEqToken")) (t_binop T_gen) |} in
  prec_tables_ok T_old = false /\
  print T_old 0 (EBin "NullishEqToken" (EAtom "g3") (EGroup (EBin "CommaToken" (EAtom "g2") (EAtom "s")))) =
    [TAtom "g3"; TOp "NullishEqToken"; TAtom "g2"; TOp "CommaToken"; TAtom "s"].
Proof. vm_compute. auto. Qed.

(* rewrites that build NEW operator nodes (if-merging, conditional -> && / ||, ?? folding, !-pushing) put each operand
   through groupExpr(x, P): the operand is then well-formed at every level up to P (one re-association of ?? chains
   excepted), and at EVERY such site of js/*.go — facts regenerated from the source — P is at least the grammar level of
   the operand position, so the rewritten tree is again in the domain of print_derives *)
Theorem group_expr_wf : forall T, prec_tables_ok T = true ->
  forall e l0 need p, wf l0 e -> need <= p ->
  ~ (expr_prec T e = OpCoalesce /\ p = OpBitOr) ->
  wf need (group_expr T p e).
Proof. exact PrintGroup.group_expr_wf. Qed.
Print Assumptions group_expr_wf.

Theorem group_sites_ok : forall s, In s js_group_sites -> gsite_ok T_gen s = true.
Proof. apply forallb_forall. vm_compute. reflexivity. Qed.
Print Assumptions group_sites_ok.

Example group_sites_nonvacuous : (20 <= List.length js_group_sites)%nat.
Proof. vm_compute. repeat constructor. Qed.

(* ---------- the on-the-fly REWRITES preserve behaviour ----------
   Js/RewriteModel.v transcribes optimizeUnaryExpr, optimizeBooleanExpr and optimizeCondExpr (double negation, != for
   !(==), De Morgan with its size score, a?true:false, a?a:b -> a||b, a?b:a -> a&&b, a?b:b -> a,b, a?f(x):f(y) -> f(a?x:y),
   a?(b?x:y):y -> a&&b?x:y, !a?x:y -> a?y:x, constant conditions, the (a,b)?c:d hoisting); the transcription is compared
   with the real js.Minify on 6,000 expressions per run (print_rw).  Js/RewriteSem.v: values with truthiness, a store,
   effect-free identifier reads (the minifier's own assumption), arbitrary state transformers for calls, ==, relational
   and arithmetic operators, code-free === ! typeof void && || ?? ?: comma.
   For EVERY expression, store and interpretation of the abstract operators the rewritten node evaluates to the same value
   and leaves the same store (so: same side effects in the same order).  The one exception is excluded by the decidable
   hypothesis const_assign_hazard and is a finding on the real code (K118: `(undefined=a)?undefined:b`). *)
Section Rewrites.
  Variables (V S : Type) (truthy : V -> bool) (vtrue vfalse vundef vinf : V).
  Hypothesis truthy_true : truthy vtrue = true.
  Hypothesis truthy_false : truthy vfalse = false.
  Hypothesis truthy_undef : truthy vundef = false.
  Variables (var : String.string -> S -> V) (assign : String.string -> V -> S -> S).
  Hypothesis var_assign_same : forall x v s, var x (assign x v s) = v.
  Variables (call : V -> V -> S -> V * S) (strict_eq : V -> V -> bool) (loose_eq : V -> V -> S -> bool * S)
            (compare : String.string -> V -> V -> S -> bool * S) (arith : String.string -> V -> V -> S -> V * S)
            (pure_unop : String.string -> V -> V) (unop member : String.string -> V -> S -> V * S)
            (index : V -> V -> S -> V * S) (nullish : V -> bool).
  Notation ev := (eval T_gen V S truthy vtrue vfalse vundef vinf var assign call strict_eq loose_eq compare arith pure_unop unop member index nullish).

  Theorem rewrites_preserve_value_and_effects : forall e prec s,
    const_assign_hazard T_gen e = false -> ev (rewrite_node T_gen e prec) s = ev e s.
  Proof.
    intros e prec s H.
    apply (rewrite_node_sound T_gen V S truthy vtrue vfalse vundef vinf truthy_true truthy_false truthy_undef var assign var_assign_same
             call strict_eq loose_eq compare arith pure_unop unop member index nullish); [vm_compute; reflexivity | exact H].
  Qed.

  Theorem not_pushing_preserves : forall e prec s, ev (optimize_unary T_gen e prec) s = ev e s.
  Proof.
    intros e prec s.
    apply (optimize_unary_sound T_gen V S truthy vtrue vfalse vundef vinf truthy_true truthy_false var assign
             call strict_eq loose_eq compare arith pure_unop unop member index nullish). vm_compute. reflexivity.
  Qed.

  Theorem call_merge_condition_is_effect_free : forall e, may_run_code e = false -> forall s, snd (ev e s) = s.
  Proof.
    intros e H s.
    apply (no_code_no_effect T_gen V S truthy vtrue vfalse vundef vinf var assign
             call strict_eq loose_eq compare arith pure_unop unop member index nullish); [vm_compute; reflexivity | exact H].
  Qed.
End Rewrites.
Print Assumptions rewrites_preserve_value_and_effects.
Print Assumptions not_pushing_preserves.
Print Assumptions call_merge_condition_is_effect_free.

(* ---------- the WHOLE expression pipeline ----------
   Js/RewritePipe.v: [rw fuel prec e] is the tree exactly as minifyExpr writes it at a position of precedence prec
   (rewrites at every node, kept parentheses as EGroup, dropped ones gone, the (a,b) op c unwrapping done), [emit] writes a
   tree without decisions.  print_rw — the token model compared with the real js.Minify on every run — is emit after rw;
   the written tree is parser-shaped at the level of its position, so the tokens DERIVE it in the ECMA-262 grammar; and it
   evaluates like the input.  Together: what js.Minify writes for an expression of the fragment parses back to a tree
   that has the same value and the same side effects as the input.  (The proof of the middle step failed on the pinned
   code for the (a,b) op c unwrapping: finding K119, repaired in /repo; the hypotheses simple_targets / no_const_assign
   exclude inputs that are not valid JavaScript assignment targets and finding K118.) *)
Theorem pipeline_tokens_are_emit_of_written_tree : forall T fuel prec e t,
  rw T fuel prec e = Some t -> print_rw T fuel prec e = emit t.
Proof. exact RewritePipeProofs.print_rw_is_emit_rw. Qed.
Print Assumptions pipeline_tokens_are_emit_of_written_tree.

Theorem pipeline_output_parses_back : forall fuel e l p t, wf l e -> rw T_gen fuel p e = Some t ->
  D (Nat.min l p) (print_rw T_gen fuel p e) (deconst t).
Proof. exact RewritePipeProofs.pipeline_output_parses_back_gen. Qed.
Print Assumptions pipeline_output_parses_back.

Section Pipeline.
  Variables (V S : Type) (truthy : V -> bool) (vtrue vfalse vundef vinf : V).
  Hypothesis truthy_true : truthy vtrue = true.
  Hypothesis truthy_false : truthy vfalse = false.
  Hypothesis truthy_undef : truthy vundef = false.
  Variables (var : String.string -> S -> V) (assign : String.string -> V -> S -> S).
  Hypothesis var_assign_same : forall x v s, var x (assign x v s) = v.
  Variables (call : V -> V -> S -> V * S) (strict_eq : V -> V -> bool) (loose_eq : V -> V -> S -> bool * S)
            (compare : String.string -> V -> V -> S -> bool * S) (arith : String.string -> V -> V -> S -> V * S)
            (pure_unop : String.string -> V -> V) (unop member : String.string -> V -> S -> V * S)
            (index : V -> V -> S -> V * S) (nullish : V -> bool).
  Notation ev := (eval T_gen V S truthy vtrue vfalse vundef vinf var assign call strict_eq loose_eq compare arith pure_unop unop member index nullish).

  Theorem pipeline_preserves_value_and_effects : forall fuel prec e t,
    no_const_assign e = true -> simple_targets e = true -> rw T_gen fuel prec e = Some t -> forall s, ev t s = ev e s.
  Proof.
    intros fuel prec e t H1 H2 H3 s.
    apply (rw_preserves_value_and_effects T_gen V S truthy vtrue vfalse vundef vinf truthy_true truthy_false truthy_undef var assign var_assign_same
             call strict_eq loose_eq compare arith pure_unop unop member index nullish) with (fuel := fuel) (prec := prec);
      [vm_compute; reflexivity | exact H1 | exact H2 | exact H3].
  Qed.
End Pipeline.
Print Assumptions pipeline_preserves_value_and_effects.

(* non-vacuity: a statement-level expression that is rewritten, unwrapped and regrouped; fuel suffices *)
Example pipeline_nonvacuous :
  let e := EBin "AndToken" (EGroup (EBin "CommaToken" (EAtom "l") (EPre "NotToken" (EGroup (EBin "AndToken" (EAtom "a") (EAtom "b")))))) (ECall (EAtom "f") (EAtom "x")) in
  wf 0 e /\ no_const_assign e = true /\ simple_targets e = true /\
  exists t, rw T_gen 50 0 e = Some t /\ emit t = print_rw T_gen 50 0 e.
Proof. vm_compute. repeat split; auto; try lia. eexists. split; reflexivity. Qed.

(* the excluded case is real: K118 on the model — (undefined = a) ? undefined : b with a = 5 evaluates to undefined (2 in the
   concrete interpretation), its rewriting (undefined = a) || b to 5 *)
Example rewrite_hazard_is_real :
  ~ (forall e prec s, ConstAssignCounterexample.ev (optimize_cond T_gen e prec) s = ConstAssignCounterexample.ev e s).
Proof. exact ConstAssignCounterexample.rewrite_not_sound_without_hypothesis. Qed.

(* non-vacuity: (a+b)*(c*d) keeps both pairs, (a*b)+c drops its pair; both trees satisfy wf *)
Example print_nonvacuous :
  print T_gen 0 (EBin "MulToken" (EGroup (EBin "AddToken" (EAtom "a") (EAtom "b"))) (EGroup (EBin "MulToken" (EAtom "c") (EAtom "d")))) =
  [TL; TAtom "a"; TOp "AddToken"; TAtom "b"; TR; TOp "MulToken"; TL; TAtom "c"; TOp "MulToken"; TAtom "d"; TR] /\
  print T_gen 0 (EBin "AddToken" (EGroup (EBin "MulToken" (EAtom "a") (EAtom "b"))) (EAtom "c")) =
  [TAtom "a"; TOp "MulToken"; TAtom "b"; TOp "AddToken"; TAtom "c"] /\
  wf 0 (EBin "AddToken" (EGroup (EBin "MulToken" (EAtom "a") (EAtom "b"))) (EAtom "c")).
Proof. vm_compute. repeat split; auto; lia. Qed.

(* ---------- STATEMENTS: the statement optimiser and the statement printer ----------
   Js/StmtModel.v transcribes optimizeStmt / optimizeStmtList of js/stmtlist.go with hasSideEffects, isUndefined, condExpr,
   commaExpr, lastStmt, isFlowStmt, isEmptyStmt on if / else, return, throw, break / continue, blocks, empty and expression
   statements (everything else opaque); Js/StmtPrint.v transcribes minifyStmt / minifyBlockStmt / endsInIf with the pending
   semicolon.  Tie, every run: the AST the real optimizeStmtList returns (verif hook) on 6,000 parsed statement lists, and
   the tokens js.Minify writes for ~3,000 function bodies, must be the model's.
   Js/StmtSem.v: a statement maps a store to a completion (normal / return v / throw v / break, continue) and a store, over
   the expression semantics of Js/RewriteSem.v; `return;` and running off the end of a function return undefined.

   (1) For EVERY statement list, store, fuel and interpretation, the optimised list has the behaviour of the input list, under
   two hypotheses that the proof forced and that are both shown necessary by counterexamples replayed on the real code:
     hse_trusted l: where hasSideEffects answers "no" on an if-condition whose statement is dropped, or on the operand of a
       returned `void x`, the expression indeed has no effect (hasSideEffects treats `a+b` on plain variables as effect-free,
       the minifier's stated assumption; until repaired in /repo it also said "no" for f()+g(): K03);
     no trailing-return hazard: the function body does not end, after merging, in `return x, y, undefined` — the open
       finding K01 (js_test.go pins `return a,b,void 0` -> `return a,b`, which returns b). *)
Section Statements.
  Variables (V S : Type) (truthy : V -> bool) (vtrue vfalse vundef vinf : V).
  Hypothesis truthy_true : truthy vtrue = true.
  Hypothesis truthy_false : truthy vfalse = false.
  Variables (var : String.string -> S -> V) (assign : String.string -> V -> S -> S).
  Variables (call : V -> V -> S -> V * S) (strict_eq : V -> V -> bool) (loose_eq : V -> V -> S -> bool * S)
            (compare : String.string -> V -> V -> S -> bool * S) (arith : String.string -> V -> V -> S -> V * S)
            (pure_unop : String.string -> V -> V) (unop member : String.string -> V -> S -> V * S)
            (index : V -> V -> S -> V * S) (nullish : V -> bool).
  Hypothesis void_undef : forall v, pure_unop "VoidToken"%string v = vundef.
  Variable opaque : String.string -> S -> completion V * S.
  Variable evt : list tok -> S -> V * S.
  Notation ev := (eval T_gen V S truthy vtrue vfalse vundef vinf var assign call strict_eq loose_eq compare arith pure_unop unop member index nullish).
  Notation run := (run T_gen V S truthy vtrue vfalse vundef vinf var assign call strict_eq loose_eq compare arith pure_unop unop member index nullish opaque).
  Notation exec_list := (exec_list T_gen V S truthy vtrue vfalse vundef vinf var assign call strict_eq loose_eq compare arith pure_unop unop member index nullish opaque).
  Notation trusted_list := (hse_trusted T_gen V S truthy vtrue vfalse vundef vinf var assign call strict_eq loose_eq compare arith pure_unop unop member index nullish).

  Theorem statement_optimiser_preserves_behaviour : forall function l s,
    trusted_list l ->
    (function = true -> trailing_return_hazard T_gen (optimize_body T_gen false l) = false) ->
    run function (optimize_body T_gen function l) s = run function l s.
  Proof.
    intros function l s H1 H2.
    exact (optimize_body_preserves T_gen V S truthy vtrue vfalse vundef vinf truthy_true truthy_false var assign call strict_eq loose_eq
             compare arith pure_unop unop member index nullish void_undef opaque function l s H1 H2).
  Qed.

  (* (2) What the statement printer writes for a printable list is read back, by the statement grammar of ECMA-262 clause 14
     (else bound to the nearest if; a `;` inserted only before `}` and at the end of the input), as the tree it means — no
     dangling else, no missing semicolon — and that tree has the behaviour of the list.  printable / else_safe are decidable
     and are evaluated on the optimiser's output for every function body of the correspondence run; else_safe is needed
     for arbitrary trees only (endsInIf asks whether optimizeStmt WOULD leave an if an if: PrintCounterexample). *)
  Hypothesis evt_etoks : forall e s, evt (etoks T_gen 200 e) s = ev e s.

  Theorem printed_statements_parse_back : forall l,
    printable_list T_gen 200 l = true -> else_safe_list T_gen l = true ->
    parse_program (print_list T_gen 200 l) = Some (canon_list T_gen 200 l).
  Proof. intros l H1 H2. exact (parse_print T_gen 200 l H1 H2). Qed.

  Theorem printed_statements_behave : forall l s,
    printable_list T_gen 200 l = true -> else_safe_list T_gen l = true ->
    exists p, parse_program (print_list T_gen 200 l) = Some p /\
              same_completion V S (pexec_list V S truthy vundef evt p s) (exec_list l s).
  Proof.
    intros l s H1 H2.
    exact (printed_program_behaves T_gen 200 V S truthy vtrue vfalse vundef vinf var assign call strict_eq loose_eq compare arith
             pure_unop unop member index nullish opaque evt evt_etoks l s H1 H2).
  Qed.
End Statements.
Print Assumptions statement_optimiser_preserves_behaviour.
Print Assumptions printed_statements_parse_back.
Print Assumptions printed_statements_behave.

(* the chosen fuel of the optimiser is enough: more fuel gives the same list *)
Theorem statement_optimiser_fuel_enough : forall function l k, 2 * list_size l + 2 <= k ->
  optimize_list T_gen k function l [] = optimize_body T_gen function l.
Proof. exact (optimize_body_fuel_enough T_gen). Qed.
Print Assumptions statement_optimiser_fuel_enough.

(* both hypotheses of (1) are necessary; the dangling else excluded in (2) is real on arbitrary trees, and the optimiser's
   output for that tree is safe *)
Example hse_trusted_is_needed : exists function l s,
  (function = true -> trailing_return_hazard T_gen (optimize_body T_gen false l) = false) /\
  StmtCounterexample.run' function (optimize_body T_gen function l) s <> StmtCounterexample.run' function l s.
Proof. exact StmtCounterexample.hse_hypothesis_needed. Qed.
Example trailing_return_hazard_is_real_K01 : exists l s,
  StmtCounterexample.hse_trusted' l /\ StmtCounterexample.run' true (optimize_body T_gen true l) s <> StmtCounterexample.run' true l s.
Proof. exact StmtCounterexample.return_hypothesis_needed. Qed.
Example dangling_else_on_unoptimised_trees :
  parse_program (print_list T_gen 0 PrintCounterexample.l0) <> Some (canon_list T_gen 0 PrintCounterexample.l0).
Proof. exact PrintCounterexample.dangling_else. Qed.

(* non-vacuity: `if(!a)f(x);else{g(x);return b}h(x);return` in a function: trusted, no hazard, rewritten, printable *)
Example statements_nonvacuous :
  let l := [SIf (EPre "NotToken" (EAtom "a")) (SExpr (ECall (EAtom "f") (EAtom "x")))
              (Some (SBlock [SExpr (ECall (EAtom "g") (EAtom "x")); SReturn (Some (EAtom "b"))]));
            SExpr (ECall (EAtom "h") (EAtom "x")); SReturn None] in
  trailing_return_hazard T_gen (optimize_body T_gen false l) = false /\
  optimize_body T_gen true l <> l /\
  printable_list T_gen 200 (optimize_body T_gen true l) = true /\ else_safe_list T_gen (optimize_body T_gen true l) = true.
Proof. vm_compute. repeat split; auto; discriminate. Qed.

(* ---------- LITERALS: numeric literals ----------
   Js/NumLit.v restates removeUnderscoresAndSuffix, decimalNumber, binaryNumber, octalNumber, hexadecimalNumber of js/util.go
   (tied on 6,000 generated literals per run through a verif hook).  Js/NumLitSpec.v: the literal grammar of ECMA-262 12.9.3
   (separators, BigInt suffix) and the mathematical value MV of a literal as (is BigInt, m * 10^e).
   For EVERY well-formed literal the written literal has the same MV and the same kind (Number / BigInt); and whenever a
   0b / 0o / 0x literal is rewritten in decimal, the int64 accumulator of the Go code does not overflow and the decimal text
   fits into the literal's own bytes (the code writes it there: b = b[:i+1]) — so the length guards 65 / 23 / 12 (+ leading
   digit E, F) are sufficient, for all literals, not just the sampled ones. *)
Theorem prefixed_numeric_literals_keep_their_value : forall k b,
  k <> KDecimal -> valid_prefixed k b = true ->
  same_value (lit_value (minify_literal k b)) (prefixed_value k b).
Proof. exact prefixed_literal_value. Qed.
Print Assumptions prefixed_numeric_literals_keep_their_value.

Theorem radix_conversion_never_overflows_and_fits : forall k b,
  k <> KDecimal -> valid_prefixed k b = true ->
  let b1 := fst (remove_underscores_and_suffix b) in
  conv_guard k b1 = false ->
  let n := radix_val (radix_of k) (digit_val k) (skipn 2 b1) in
  (0 <= n < 2 ^ 63 /\ n < 10 ^ 25 /\ MvBytes.zlen (NumModel.show_nat n) <= MvBytes.zlen b1)%Z.
Proof. exact conversion_fits. Qed.
Print Assumptions radix_conversion_never_overflows_and_fits.

Theorem decimal_numeric_literals_keep_their_value : forall b v,
  decimal_value b = Some v -> (MvBytes.zlen b <= 10 ^ 25)%Z ->
  same_value (lit_value (minify_literal KDecimal b)) (Some v).
Proof. exact decimal_literal_value. Qed.
Print Assumptions decimal_numeric_literals_keep_their_value.

(* non-vacuity at the edges of the guards: 0xDFFFFFFFFF is converted (12 digits), 0xE000000000 is kept, 0b1_0_1n -> 5n *)
Example numeric_literals_nonvacuous :
  hexadecimal_number [48; 120; 68; 70; 70; 70; 70; 70; 70; 70; 70; 70]%Z = [57; 54; 50; 48; 55; 50; 54; 55; 52; 51; 48; 51]%Z /\
  hexadecimal_number [48; 120; 69; 48; 48; 48; 48; 48; 48; 48; 48; 48]%Z = [48; 120; 69; 48; 48; 48; 48; 48; 48; 48; 48; 48]%Z /\
  binary_number [48; 98; 49; 95; 48; 95; 49; 110]%Z = [53; 110]%Z.
Proof. vm_compute. repeat split; reflexivity. Qed.

(* ---------- LITERALS: string literals ----------
   Js/StrLit.v restates minifyString + replaceEscapes of js/util.go as a left-to-right transducer (tied on 20,000 literals per
   run through a verif hook; every escape form, both delimiters, allowTemplate on / off).  Js/StrLitSpec.v: the string value
   of a literal body by ECMA-262 12.9.4 / 12.9.6 and Annex B.1.2 (escape sequences, line continuations, legacy octal
   escapes in sloppy mode only, templates without substitutions: no `${`, no legacy escapes, CR / CRLF as LF), as UTF-8
   bytes plus lone surrogate escapes; None when the body is not valid for its delimiter.
   For EVERY valid string literal, either setting of allowTemplate, sloppy and strict mode: the written text is a literal
   with a permitted delimiter (backtick only when templates are allowed), it is VALID for that delimiter (in strict mode
   code too; as a template: no substitution opened, no octal escape), and it has the SAME string value.
   While this statement was being validated on samples it exposed four defects of the real code, now repaired in /repo:
   "\0\x31" -> "\01" and "\0001" -> "\01" (another character), "\n\n\08" -> a template containing \08 (SyntaxError),
   "\x24{" -> `${` inside a template (K09); after the repairs the theorem holds with no hypothesis beyond validity. *)
Theorem string_literals_keep_their_value : forall q body tmpl legacy v,
  (q = c_dq \/ q = c_sq) -> MvBytes.bytes_ok body ->
  decode legacy q body = Some v ->
  exists q' body',
    minify_string (literal q body) tmpl = literal q' body' /\
    (q' = c_dq \/ q' = c_sq \/ (tmpl = true /\ q' = c_bt)) /\
    decode (legacy && negb (Z.eqb q' c_bt)) q' body' = Some v.
Proof. exact minify_string_value. Qed.
Print Assumptions string_literals_keep_their_value.

(* whatever delimiter is chosen, the rewritten body is valid even for strict mode code *)
Theorem rewritten_escapes_are_strict_valid : forall q q' body legacy lg v,
  (q = c_dq \/ q = c_sq) -> (q' = c_dq \/ q' = c_sq \/ q' = c_bt) ->
  decode legacy q body = Some v ->
  exists body', replace_escapes (literal q' body) q' = literal q' body' /\ decode lg q' body' = Some v.
Proof. exact replace_escapes_value. Qed.
Print Assumptions rewritten_escapes_are_strict_valid.

(* non-vacuity and the repaired shapes on the model: "\0\x31" keeps NUL then 1; "\n\n\x24{" as a template escapes the $ *)
Example string_literals_nonvacuous :
  (decode true 34 [92; 48; 92; 120; 51; 49] = Some [UByte 0; UByte 49] /\
   minify_string [34; 92; 48; 92; 120; 51; 49; 34] false = [34; 92; 120; 48; 48; 49; 34] /\
   minify_string [34; 92; 110; 92; 110; 92; 120; 50; 52; 123; 34] true = [96; 10; 10; 92; 36; 123; 96])%Z.
Proof. vm_compute. repeat split; reflexivity. Qed.

(* ---------- from tokens to BYTES: the writer's spaces ----------
   Js/PrintRender.v restates jsMinifier.write with its needsSpace / spaceBefore flags and the places of minifyExpr that set
   them (after + - / binary and unary, after the word operators, the raw space before in / instanceof, the space before `>`
   after `--`, the `<!--` guard); tied BYTE FOR BYTE with the real js.Minify on every expression case of the run (~12,000).
   Specification: a maximal-munch lexer over the punctuators, identifiers and numbers of the fragment.
   For EVERY expression whose atoms are identifiers and whose operators sit in their syntactic class, at every context level
   and for ANY precedence tables: lexing the written bytes gives back exactly the printer's tokens — no two tokens fuse into
   another one (a+ +b, a- --b, a+++ ++b, a<! --b, a-- >b, typeof a in void-b), none splits: the spaces the writer inserts
   are sufficient.  With print_derives (the tokens derive the tree) this closes the path from tree to bytes on the fragment.
   (A JavaScript lexer reads `1.` as a number: that a dot never follows a digit atom is print_no_digit_dot, under a table
   condition the regenerated constant guards satisfy.) *)
Theorem written_bytes_lex_back_to_the_tokens : forall T prec e,
  PrintRenderProofs.expr_ok e = true ->
  PrintRender.lex_bytes (PrintRender.render (print T prec e)) = Some (map PrintRender.tok_surface (print T prec e)).
Proof. exact PrintRenderProofs.render_lexes_back. Qed.
Print Assumptions written_bytes_lex_back_to_the_tokens.

Theorem no_dot_after_a_digit : forall T prec e,
  PrintRenderProofs.tables_dot_ok T = true -> PrintRenderProofs.expr_ok e = true -> PrintRenderProofs.dot_ok e = true ->
  PrintRenderProofs.no_digit_dot (print T prec e) = true.
Proof. exact PrintRenderProofs.print_no_digit_dot. Qed.
Print Assumptions no_dot_after_a_digit.

Example generated_tables_dot_ok : PrintRenderProofs.tables_dot_ok T_gen = true.
Proof. vm_compute. reflexivity. Qed.

(* ---------- the same for the rewriting printer and for STATEMENTS ----------
   The tokens js.Minify really writes for an expression are those of the rewriting printer (print_rw = emit of the rewritten
   tree, RewritePipeProofs.print_rw_is_emit_rw); Js/StmtRender.v adds the statement layer of the writer: keywords through
   write, the raw `;`, the space owed after else / return / throw.  Tied byte for byte with js.Minify on ~3,000 function
   bodies per run.  The spec lexer is the one above with `{` `}` `;` among the punctuators. *)
Theorem rewriting_printer_bytes_lex_back : forall t,
  PrintRenderProofs.expr_ok t = true ->
  PrintRender.lex_bytes (PrintRender.render (RewritePipe.emit t)) = Some (map PrintRender.tok_surface (RewritePipe.emit t)).
Proof. exact StmtRenderProofs.emit_lexes_back. Qed.
Print Assumptions rewriting_printer_bytes_lex_back.

(* any statement-token list: every expression chunk is emit of an ok tree, every keyword a word or one of ( ) { } ;, and no
   chunk ending in a word is directly followed by one starting with a word unless the first is else / return / throw
   (shown necessary in StmtRenderProofs: `if` `a` would be written ifa) *)
Theorem statement_tokens_lex_back : forall ts,
  StmtRenderProofs.stoks_ok ts ->
  StmtRenderProofs.lexs_bytes (StmtRender.render_stoks ts) = Some (StmtRenderProofs.stok_surfaces ts).
Proof. exact StmtRenderProofs.stoks_lex_back. Qed.
Print Assumptions statement_tokens_lex_back.

(* the statement printer never puts two words next to each other without owing a space: for EVERY statement list, every
   table, every fuel — no hypothesis *)
Theorem statement_printer_never_joins_words : forall T efuel l,
  StmtRenderProofs.adj_all (print_list T efuel l) = true.
Proof. exact StmtRenderProofs.print_list_adj. Qed.
Print Assumptions statement_printer_never_joins_words.

Theorem function_body_bytes_lex_back : forall T efuel function l,
  Forall StmtRenderProofs.stok_wf (print_body T efuel function l) ->
  StmtRenderProofs.lexs_bytes (StmtRender.render_body T efuel function l) = Some (StmtRenderProofs.stok_surfaces (print_body T efuel function l)).
Proof. exact StmtRenderProofs.render_body_lexes_back. Qed.
Print Assumptions function_body_bytes_lex_back.

(* ---------- closed form: conditions on the INPUT statement list only ----------
   The rewrites keep every operator in its syntactic class (rw_ok; needs sem_tables_ok: with an arbitrary table flip_eq
   could write the operator ErrorToken — counterexample in StmtRenderClosed.ClosedChecks), the statement optimiser only
   builds ! && || , ?: and void 0 from the expressions it is given, and the printer's keywords are words or punctuation.
   So: for every statement list whose expressions have identifier atoms and operators in their class and whose branch
   statements carry no label, the bytes js.Minify's writer puts out for the function body lex back to exactly the tokens
   of the statement printer (the fuel condition only excludes the model's out-of-fuel marker and is decidable). *)
Theorem rewrites_keep_operators_in_class : forall T, RewriteSem.sem_tables_ok T = true ->
  forall fuel prec e t, PrintRenderProofs.expr_ok e = true -> RewritePipe.rw T fuel prec e = Some t -> PrintRenderProofs.expr_ok t = true.
Proof. exact StmtRenderClosed.rw_ok. Qed.
Print Assumptions rewrites_keep_operators_in_class.

Theorem function_body_bytes_lex_back_closed : forall T efuel function l,
  RewriteSem.sem_tables_ok T = true ->
  StmtRenderClosed.stmts_okb l = true ->
  StmtRenderClosed.stmts_fuel_okb T efuel (optimize_body T function l) = true ->
  StmtRenderProofs.lexs_bytes (StmtRender.render_body T efuel function l) = Some (StmtRenderProofs.stok_surfaces (print_body T efuel function l)).
Proof. exact StmtRenderClosed.render_body_lexes_back_closed. Qed.
Print Assumptions function_body_bytes_lex_back_closed.

Example generated_tables_sem_ok : RewriteSem.sem_tables_ok T_gen = true.
Proof. vm_compute. reflexivity. Qed.

(* ---------- string concatenations: "a" + 'b' + ... joined into one literal ----------
   Js/StrCat.v transcribes mergeBinaryExpr + appendStringPart (the literal built BEFORE minifyString runs; tied byte for byte
   through the hook VerifMergeStrings on 2,500 concatenations per run).  The joined body keeps the first delimiter and may
   hold unescaped delimiters of that kind coming from parts quoted the other way; a trailing \0 / legacy octal escape is
   rewritten \xHH when the next part starts with a digit it would absorb (the repair of K77).
   For ALL valid literals, sloppy and strict mode, allowTemplate on and off: the merged and minified literal is valid for its
   delimiter and its string value is the concatenation of the parts' values.  One hypothesis, shown necessary by a computed
   counterexample (StrCatProofs.continuation_byte_wrong): an appended part does not START with one of the bytes 0x80, 0xA8,
   0xA9 — such a byte could complete a line separator U+2028/9 after a backslash E2 80 at the end of the previous part;
   impossible in well-formed UTF-8 source, where no literal body starts with a continuation byte (cont_ok_utf8). *)
Theorem string_concatenation_keeps_its_value : forall tmpl legacy l1 v1 l2 v2 ls vs,
  valid_lit legacy l1 v1 ->
  Forall2 (valid_lit legacy) (l2 :: ls) (v2 :: vs) ->
  Forall (fun l => cont_ok (body_of l)) (l2 :: ls) ->
  exists q' body',
    minify_string (merge_strings (l1 :: l2 :: ls)) tmpl = literal q' body' /\
    (q' = c_dq \/ q' = c_sq \/ (tmpl = true /\ q' = c_bt)) /\
    decode (legacy && negb (Z.eqb q' c_bt)) q' body' = Some (List.concat (v1 :: v2 :: vs)).
Proof. intros tmpl legacy l1 v1 l2 v2 ls vs. apply concatenation_value. Qed.
Print Assumptions string_concatenation_keeps_its_value.

(* minifyString repairs the unescaped delimiters of a joined body: for ANY body read with both quote kinds as ordinary
   characters *)
Theorem minify_string_repairs_foreign_quotes : forall q body tmpl legacy v,
  decode_raw legacy body = Some v ->
  exists q' body', minify_string (literal q body) tmpl = literal q' body' /\
    (q' = c_dq \/ q' = c_sq \/ (tmpl = true /\ q' = c_bt)) /\
    decode (legacy && negb (Z.eqb q' c_bt)) q' body' = Some v.
Proof. intros q body tmpl legacy v. apply minify_string_raw_value. Qed.
Print Assumptions minify_string_repairs_foreign_quotes.
