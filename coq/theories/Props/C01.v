(* Property C01 — JS minification preserves program behaviour.
   ECMAScript as a whole is outside any model built here.  What is PROVED is the printer's parenthesis logic on the operator
   fragment (Js/PrintModel.v: binary / prefix / postfix / conditional / comma / call / member expressions with the GroupExpr
   nodes parse/js keeps), against the ECMA-262 expression grammar written with ITS OWN level tables (Js/PrintSpec.v):
     js_prec_tables_ok : the four precedence maps of js/util.go, regenerated from the source on every run, satisfy the
                         inequalities prec_tables_ok (every operator present; own level <= grammar level; operand levels >=
                         the grammar's operand levels) — on the pinned tree this FAILED for &&= ||= ??= (finding K11, repaired);
     print_derives     : for EVERY expression tree a conforming parser can produce (wf), at every context level, the printed
                         tokens derive — in the grammar — the same tree with exactly the dropped groups removed: no dropped
                         pair of parentheses ever changes how the expression parses (precedence, associativity, the ** / unary
                         restriction, assignment targets, conditional operands);
     strip_print_stable: printing the re-parsed tree gives the same tokens (the output is a fixed point of the printer);
     and_assoc/or_assoc: the one deliberate re-association (a&&(b&&c) printed a&&b&&c) does not change the value.
   Tie: T-gen (maps) + the extracted printer must reproduce the token sequence of the real js.Minify on 6,000 random
   expressions per run (necessary and redundant parentheses; leaves pairwise distinct so that no rewrite fires).
   Identifier renaming is property C02 (Props/C02.v), proved separately.
   NOT proved — decided by search only (harness/cmd/jsoracle: node 20 vm, recorded host calls, final globals, completion,
   sloppy and strict, all Version / KeepVarNames settings): every rewrite of js/util.go and js/stmtlist.go (conditional /
   boolean / nullish folding, statement merging, hoisting, dead-code removal), literal rewriting, statements, classes,
   generators, destructuring, templates.  Twelve defects found there were repaired in /repo; open findings: K01-K05, K07,
   K09, K14, K73-K78. *)
From Coq Require Import List String Arith Bool Lia.
Import ListNotations.
From MVGen Require Import JsGates_gen.
From MV Require Import Js.PrintModel Js.PrintSpec Js.PrintGen Js.PrintProofs Js.PrintGroup Js.RewriteModel Js.RewriteSem Js.RewriteProofs Js.RewritePipe Js.RewritePipeProofs.
Local Open Scope string_scope.

Example js_prec_tables_ok : prec_tables_ok T_gen = true.
Proof. vm_compute. reflexivity. Qed.

Theorem print_derives : forall T, prec_tables_ok T = true ->
  forall e l p, wf l e -> D (Nat.min l p) (print T p e) (strip T p e).
Proof. exact PrintProofs.print_derives. Qed.
Print Assumptions print_derives.

(* the statement for the current source: whole expressions *)
Theorem print_derives_current_tables : forall e, wf 0 e -> D 0 (print T_gen 0 e) (strip T_gen 0 e).
Proof. intros e H. apply PrintProofs.print_derives_top; [exact js_prec_tables_ok | exact H]. Qed.
Print Assumptions print_derives_current_tables.

Theorem strip_print_stable : forall T, consts_exact T = true -> forall e p, print T p (strip T p e) = print T p e.
Proof. exact PrintProofs.strip_print_stable. Qed.
Example consts_exact_current_tables : consts_exact T_gen = true.
Proof. vm_compute. reflexivity. Qed.
Print Assumptions strip_print_stable.

Theorem short_circuit_assoc : forall (V : Type) (truthy : V -> bool) a b c,
  and_v V truthy (and_v V truthy a b) c = and_v V truthy a (and_v V truthy b c) /\
  or_v V truthy (or_v V truthy a b) c = or_v V truthy a (or_v V truthy b c).
Proof. intros. split; [apply and_assoc | apply or_assoc]. Qed.
Print Assumptions short_circuit_assoc.

(* the hypothesis on the tables is what protects against the K11 defect: with the logical assignment operators missing from
   the maps (as on the pinned tree) the right operand of ??= is printed at level 0 and a comma operand loses its parentheses *)
Example print_refuted_without_table_entries :
  let T_old := {| t_unary := t_unary T_gen; t_unop := t_unop T_gen; t_const := t_const T_gen;
                  t_left := filter (fun kv => negb (String.eqb (fst kv) "NullishEqToken")) (t_left T_gen);
                  t_right := filter (fun kv => negb (String.eqb (fst kv) "NullishEqToken")) (t_right T_gen);
                  t_binop := filter (fun kv => negb (String.eqb (fst kv) "NullishEqToken")) (t_binop T_gen) |} in
  prec_tables_ok T_old = false /\
  print T_old 0 (EBin "NullishEqToken" (EAtom "g3") (EGroup (EBin "CommaToken" (EAtom "g2") (EAtom "s")))) =
    [TAtom "g3"; TOp "NullishEqToken"; TAtom "g2"; TOp "CommaToken"; TAtom "s"].
Proof. vm_compute. auto. Qed.

(* rewrites that build NEW operator nodes (if-merging, conditional -> && / ||, ?? folding, !-pushing) put each operand
   through groupExpr(x, P): the operand is then well-formed at every level up to P (one re-association of ?? chains
   excepted), and at EVERY such site of js/*.go — facts regenerated from the source — P is at least the grammar level of
   the operand position, so the rewritten tree is again in the domain of print_derives *)
Theorem group_expr_wf : forall T, prec_tables_ok T = true ->
  forall e l0 need p, wf l0 e -> need <= p ->
  ~ (expr_prec T e = OpCoalesce /\ p = OpBitOr) ->
  wf need (group_expr T p e).
Proof. exact PrintGroup.group_expr_wf. Qed.
Print Assumptions group_expr_wf.

Theorem group_sites_ok : forall s, In s js_group_sites -> gsite_ok T_gen s = true.
Proof. apply forallb_forall. vm_compute. reflexivity. Qed.
Print Assumptions group_sites_ok.

Example group_sites_nonvacuous : (20 <= List.length js_group_sites)%nat.
Proof. vm_compute. repeat constructor. Qed.

(* ---------- the on-the-fly REWRITES preserve behaviour ----------
   Js/RewriteModel.v transcribes optimizeUnaryExpr, optimizeBooleanExpr and optimizeCondExpr (double negation, != for
   !(==), De Morgan with its size score, a?true:false, a?a:b -> a||b, a?b:a -> a&&b, a?b:b -> a,b, a?f(x):f(y) -> f(a?x:y),
   a?(b?x:y):y -> a&&b?x:y, !a?x:y -> a?y:x, constant conditions, the (a,b)?c:d hoisting); the transcription is compared
   with the real js.Minify on 6,000 expressions per run (print_rw).  Js/RewriteSem.v: values with truthiness, a store,
   effect-free identifier reads (the minifier's own assumption), arbitrary state transformers for calls, ==, relational
   and arithmetic operators, code-free === ! typeof void && || ?? ?: comma.
   For EVERY expression, store and interpretation of the abstract operators the rewritten node evaluates to the same value
   and leaves the same store (so: same side effects in the same order).  The one exception is excluded by the decidable
   hypothesis const_assign_hazard and is a finding on the real code (K118: `(undefined=a)?undefined:b`). *)
Section Rewrites.
  Variables (V S : Type) (truthy : V -> bool) (vtrue vfalse vundef vinf : V).
  Hypothesis truthy_true : truthy vtrue = true.
  Hypothesis truthy_false : truthy vfalse = false.
  Hypothesis truthy_undef : truthy vundef = false.
  Variables (var : String.string -> S -> V) (assign : String.string -> V -> S -> S).
  Hypothesis var_assign_same : forall x v s, var x (assign x v s) = v.
  Variables (call : V -> V -> S -> V * S) (strict_eq : V -> V -> bool) (loose_eq : V -> V -> S -> bool * S)
            (compare : String.string -> V -> V -> S -> bool * S) (arith : String.string -> V -> V -> S -> V * S)
            (pure_unop : String.string -> V -> V) (unop member : String.string -> V -> S -> V * S)
            (index : V -> V -> S -> V * S) (nullish : V -> bool).
  Notation ev := (eval T_gen V S truthy vtrue vfalse vundef vinf var assign call strict_eq loose_eq compare arith pure_unop unop member index nullish).

  Theorem rewrites_preserve_value_and_effects : forall e prec s,
    const_assign_hazard T_gen e = false -> ev (rewrite_node T_gen e prec) s = ev e s.
  Proof.
    intros e prec s H.
    apply (rewrite_node_sound T_gen V S truthy vtrue vfalse vundef vinf truthy_true truthy_false truthy_undef var assign var_assign_same
             call strict_eq loose_eq compare arith pure_unop unop member index nullish); [vm_compute; reflexivity | exact H].
  Qed.

  Theorem not_pushing_preserves : forall e prec s, ev (optimize_unary T_gen e prec) s = ev e s.
  Proof.
    intros e prec s.
    apply (optimize_unary_sound T_gen V S truthy vtrue vfalse vundef vinf truthy_true truthy_false var assign
             call strict_eq loose_eq compare arith pure_unop unop member index nullish). vm_compute. reflexivity.
  Qed.

  Theorem call_merge_condition_is_effect_free : forall e, may_run_code e = false -> forall s, snd (ev e s) = s.
  Proof.
    intros e H s.
    apply (no_code_no_effect T_gen V S truthy vtrue vfalse vundef vinf var assign
             call strict_eq loose_eq compare arith pure_unop unop member index nullish); [vm_compute; reflexivity | exact H].
  Qed.
End Rewrites.
Print Assumptions rewrites_preserve_value_and_effects.
Print Assumptions not_pushing_preserves.
Print Assumptions call_merge_condition_is_effect_free.

(* ---------- the WHOLE expression pipeline ----------
   Js/RewritePipe.v: [rw fuel prec e] is the tree exactly as minifyExpr writes it at a position of precedence prec
   (rewrites at every node, kept parentheses as EGroup, dropped ones gone, the (a,b) op c unwrapping done), [emit] writes a
   tree without decisions.  print_rw — the token model compared with the real js.Minify on every run — is emit after rw;
   the written tree is parser-shaped at the level of its position, so the tokens DERIVE it in the ECMA-262 grammar; and it
   evaluates like the input.  Together: what js.Minify writes for an expression of the fragment parses back to a tree
   that has the same value and the same side effects as the input.  (The proof of the middle step failed on the pinned
   code for the (a,b) op c unwrapping: finding K119, repaired in /repo; the hypotheses simple_targets / no_const_assign
   exclude inputs that are not valid JavaScript assignment targets and finding K118.) *)
Theorem pipeline_tokens_are_emit_of_written_tree : forall T fuel prec e t,
  rw T fuel prec e = Some t -> print_rw T fuel prec e = emit t.
Proof. exact RewritePipeProofs.print_rw_is_emit_rw. Qed.
Print Assumptions pipeline_tokens_are_emit_of_written_tree.

Theorem pipeline_output_parses_back : forall fuel e l p t, wf l e -> rw T_gen fuel p e = Some t ->
  D (Nat.min l p) (print_rw T_gen fuel p e) (deconst t).
Proof. exact RewritePipeProofs.pipeline_output_parses_back_gen. Qed.
Print Assumptions pipeline_output_parses_back.

Section Pipeline.
  Variables (V S : Type) (truthy : V -> bool) (vtrue vfalse vundef vinf : V).
  Hypothesis truthy_true : truthy vtrue = true.
  Hypothesis truthy_false : truthy vfalse = false.
  Hypothesis truthy_undef : truthy vundef = false.
  Variables (var : String.string -> S -> V) (assign : String.string -> V -> S -> S).
  Hypothesis var_assign_same : forall x v s, var x (assign x v s) = v.
  Variables (call : V -> V -> S -> V * S) (strict_eq : V -> V -> bool) (loose_eq : V -> V -> S -> bool * S)
            (compare : String.string -> V -> V -> S -> bool * S) (arith : String.string -> V -> V -> S -> V * S)
            (pure_unop : String.string -> V -> V) (unop member : String.string -> V -> S -> V * S)
            (index : V -> V -> S -> V * S) (nullish : V -> bool).
  Notation ev := (eval T_gen V S truthy vtrue vfalse vundef vinf var assign call strict_eq loose_eq compare arith pure_unop unop member index nullish).

  Theorem pipeline_preserves_value_and_effects : forall fuel prec e t,
    no_const_assign e = true -> simple_targets e = true -> rw T_gen fuel prec e = Some t -> forall s, ev t s = ev e s.
  Proof.
    intros fuel prec e t H1 H2 H3 s.
    apply (rw_preserves_value_and_effects T_gen V S truthy vtrue vfalse vundef vinf truthy_true truthy_false truthy_undef var assign var_assign_same
             call strict_eq loose_eq compare arith pure_unop unop member index nullish) with (fuel := fuel) (prec := prec);
      [vm_compute; reflexivity | exact H1 | exact H2 | exact H3].
  Qed.
End Pipeline.
Print Assumptions pipeline_preserves_value_and_effects.

(* non-vacuity: a statement-level expression that is rewritten, unwrapped and regrouped; fuel suffices *)
Example pipeline_nonvacuous :
  let e := EBin "AndToken" (EGroup (EBin "CommaToken" (EAtom "l") (EPre "NotToken" (EGroup (EBin "AndToken" (EAtom "a") (EAtom "b")))))) (ECall (EAtom "f") (EAtom "x")) in
  wf 0 e /\ no_const_assign e = true /\ simple_targets e = true /\
  exists t, rw T_gen 50 0 e = Some t /\ emit t = print_rw T_gen 50 0 e.
Proof. vm_compute. repeat split; auto; try lia. eexists. split; reflexivity. Qed.

(* the excluded case is real: K118 on the model — (undefined = a) ? undefined : b with a = 5 evaluates to undefined (2 in the
   concrete interpretation), its rewriting (undefined = a) || b to 5 *)
Example rewrite_hazard_is_real :
  ~ (forall e prec s, ConstAssignCounterexample.ev (optimize_cond T_gen e prec) s = ConstAssignCounterexample.ev e s).
Proof. exact ConstAssignCounterexample.rewrite_not_sound_without_hypothesis. Qed.

(* non-vacuity: (a+b)*(c*d) keeps both pairs, (a*b)+c drops its pair; both trees satisfy wf *)
Example print_nonvacuous :
  print T_gen 0 (EBin "MulToken" (EGroup (EBin "AddToken" (EAtom "a") (EAtom "b"))) (EGroup (EBin "MulToken" (EAtom "c") (EAtom "d")))) =
  [TL; TAtom "a"; TOp "AddToken"; TAtom "b"; TR; TOp "MulToken"; TL; TAtom "c"; TOp "MulToken"; TAtom "d"; TR] /\
  print T_gen 0 (EBin "AddToken" (EGroup (EBin "MulToken" (EAtom "a") (EAtom "b"))) (EAtom "c")) =
  [TAtom "a"; TOp "MulToken"; TAtom "b"; TOp "AddToken"; TAtom "c"] /\
  wf 0 (EBin "AddToken" (EGroup (EBin "MulToken" (EAtom "a") (EAtom "b"))) (EAtom "c")).
Proof. vm_compute. repeat split; auto; lia. Qed.
