(* Property C02 — JS identifier shortening is capture-free and leaves public names alone.
   Model: Js/RenameModel.v — F1 model of getName / isReserved / renameScope (js/vars.go) and of the order in which js.go
   renames the scopes of a program (ancestors first); the alphabets are regenerated from the source on every run
   (coq/gen/JsTables_gen.v).  Specification: a lexical resolver over the scope forest ([resolve]).
   Proved (no bound on the number of scopes, variables or nesting depth; index bound 54*64^9 on names per scope):
     js_alphabets_ok       : the regenerated alphabets have no duplicate characters and the lengths the code asserts;
     get_name_injective    : different indices give different names; the first character is an identifier-start
                             character, the others identifier-continue characters (get_name_shape);
     rename_vars_distinct / rename_vars_unreserved : within one scope the assigned names are pairwise different, none is
                             a keyword and none equals the current name of a variable the scope uses from outside —
                             however many reserved names or globals named like generated names get in the way;
     rename_capture_free   : after renaming a whole program, every use of every variable still resolves — by the printed
                             names — to its own declaration, and globals stay unbound, for every scope forest that
                             satisfies wf_prog (what parse/js's scope analysis provides; measured on every harness
                             program) — in particular no local is renamed to the name of a free variable used in its
                             scope or to a name that shadows a binding visible where it is used;
     unrenamed_names_unchanged : names declared outside renamed scopes (top level, globals, functions containing `with`)
                             are emitted unchanged;   keep_names_identity : with name keeping nothing changes.
   Ties: the extracted model must reproduce the names the real minifier assigned on the scope forest of the real parser
   for every generated program (incl. scopes with 3,600 bindings, globals named like the first generated names) and
   getName on 8,400 indices; wf_prog is checked on every forest.
   Excluded by wf_prog (field wf_unrenamed_on_top): a function containing `with` below a renamed function — there the
   property is FALSE on the pinned tree (known finding K14/K15; see rename_with_refuted below).
   Not modelled: which names count as declarations/uses (parse/js scope analysis: run, its invariants measured);
   labels, property names and import/export names are not variables of the model (the node oracle covers them). *)
From MVGen Require Import JsTables_gen.
From MV Require Import Base.MvBytes Js.RenameModel Js.RenameProofs Js.RenameCapture Js.RenameTop.

Definition nodupb (l : bytes) : bool :=
  (fix go (l : bytes) : bool := match l with [] => true | c :: r => negb (existsb (Z.eqb c) r) && go r end) l.
Lemma nodupb_NoDup l : nodupb l = true -> NoDup l.
Proof.
  induction l as [|c r IH]; intros H; [constructor|].
  cbn in H. apply andb_true_iff in H as [H1 H2]. constructor; [|apply IH; exact H2].
  intros Hin. apply negb_true_iff in H1. assert (existsb (Z.eqb c) r = true) by (apply existsb_exists; exists c; split; [exact Hin|apply Z.eqb_refl]). congruence.
Qed.

Example js_alphabets_ok :
  nodupb js_identStart_alpha && nodupb js_identContinue_alpha && nodupb js_identStart_freq && nodupb js_identContinue_freq &&
  (zlen js_identStart_alpha =? js_identStartLen) && (zlen js_identStart_freq =? js_identStartLen) &&
  (zlen js_identContinue_alpha =? js_identContinueLen) && (zlen js_identContinue_freq =? js_identContinueLen) &&
  (2 <=? js_identStartLen) && (2 <=? js_identContinueLen) = true.
Proof. vm_compute. reflexivity. Qed.

Theorem get_name_injective : forall start cont,
  NoDup start -> NoDup cont -> (2 <= length start)%nat -> (2 <= length cont)%nat ->
  forall i j, 0 <= i < name_bound start cont -> 0 <= j < name_bound start cont ->
  get_name start cont i = get_name start cont j -> i = j.
Proof. exact RenameTop.get_name_injective_closed. Qed.
Print Assumptions get_name_injective.

Theorem get_name_shape : forall start cont,
  (2 <= length start)%nat -> (2 <= length cont)%nat ->
  forall i, 0 <= i < name_bound start cont ->
  exists c r, get_name start cont i = c :: r /\ In c start /\ Forall (fun x => In x cont) r.
Proof. exact RenameTop.get_name_shape_closed. Qed.
Print Assumptions get_name_shape.

Theorem rename_vars_distinct : forall start cont keywords,
  NoDup start -> NoDup cont -> (2 <= length start)%nat -> (2 <= length cont)%nat ->
  forall k avoid i, 0 <= i ->
  i + Z.of_nat k * Z.of_nat (S (skip_fuel keywords avoid)) < name_bound start cont ->
  NoDup (rename_vars start cont keywords k avoid i).
Proof. exact RenameTop.rename_vars_distinct_closed. Qed.
Print Assumptions rename_vars_distinct.

Theorem rename_vars_unreserved : forall start cont keywords,
  NoDup start -> NoDup cont -> (2 <= length start)%nat -> (2 <= length cont)%nat ->
  forall k avoid i, 0 <= i ->
  i + Z.of_nat k * Z.of_nat (S (skip_fuel keywords avoid)) < name_bound start cont ->
  Forall (fun n => is_reserved keywords avoid n = false) (rename_vars start cont keywords k avoid i).
Proof. exact RenameTop.rename_vars_unreserved_closed. Qed.
Print Assumptions rename_vars_unreserved.

Theorem rename_capture_free : forall start cont keywords prog orig,
  NoDup start -> NoDup cont -> (2 <= length start)%nat -> (2 <= length cont)%nat ->
  wf_prog start cont keywords prog orig ->
  forall i sc v, nth_error prog i = Some sc -> used_in sc v ->
  resolve (S (length prog)) prog (final start cont keywords prog orig) i (final start cont keywords prog orig v) =
  (if declared_somewhere prog v then Some v else None).
Proof. exact RenameTop.rename_capture_free_closed. Qed.
Print Assumptions rename_capture_free.

Theorem unrenamed_names_unchanged : forall start cont keywords prog orig v,
  (forall sc, In sc prog -> srename sc = true -> ~ In v (sdeclared sc)) ->
  final start cont keywords prog orig v = orig v.
Proof. exact RenameTop.unrenamed_names_unchanged_closed. Qed.
Print Assumptions unrenamed_names_unchanged.

Theorem keep_names_identity : forall start cont keywords prog orig,
  (forall sc, In sc prog -> srename sc = false) -> forall v, final start cont keywords prog orig v = orig v.
Proof. exact RenameTop.keep_names_identity_closed. Qed.
Print Assumptions keep_names_identity.

(* the hypothesis wf_unrenamed_on_top cannot be dropped: this is K15 on the model.
   function A(){var uu; function T(o){var e; with(o){uu}}}  —  A renamed, T (contains `with`) keeps its names:
   uu is printed as "e" and, inside T, resolves to T's own e *)
Example rename_with_refuted :
  let st := js_identStart_freq in let ct := js_identContinue_freq in
  let prog := [ {| sparent := None; sdeclared := [0%nat]; sundeclared := []; srename := false |};       (* top: A *)
                {| sparent := Some 0%nat; sdeclared := [1%nat; 2%nat]; sundeclared := []; srename := true |};   (* A: uu, T *)
                {| sparent := Some 1%nat; sdeclared := [3%nat; 4%nat]; sundeclared := [1%nat]; srename := false |} ] in (* T: o, e *)
  let orig := fun v => match v with 0%nat => [65] | 1%nat => [117; 117] | 2%nat => [84] | 3%nat => [111] | _ => [101] end in
  let fin := final st ct [] prog orig in
  fin 1%nat = [101] /\ resolve 4 prog fin 2 (fin 1%nat) = Some 4%nat.
Proof. vm_compute. auto. Qed.
