(* Property C03 — HTML minification preserves the parsed document.
   Models: Html/HtmlWs.v, the loop of html.Minify over the token list of the real parse/html lexer for attribute-free
   documents (white-space state machine with its look-ahead, pre and raw-text elements, svg/math/template tokens, removal of
   document tags and colgroup, end-tag omission with the p / optgroup look-aheads, text skipping in select, removal of
   empty script/style, the phrasing-tag rule; options KeepWhitespace, KeepEndTags, KeepDocumentTags; tag traits
   regenerated from html/table.go), and Html/HtmlAttr.v, the quote / escape selection for every attribute value written.
   Specifications: Html/HtmlWsSpec.v (markup items; runs of rendered characters between block boundaries; words) and the
   attribute-value states of the HTML tokenizer (Living Standard 13.2.5.36-38).
   Proved:
     html_words_preserved: for EVERY token list satisfying wf_tokens and all option settings, the output has the same
        block-level items in the same order and, run by run, exactly the same WORDS: white-space collapsing and trimming
        never joins, splits or drops a rendered word, whatever the neighbours; pre / textarea / raw text is written
        unchanged.  wf_tokens = what the lexer and the dependency's collapsing helper guarantee for text tokens plus
        three exclusions, each shown NECESSARY by a counterexample proved in Coq and reproduced on the real minifier
        (a <style></style>b -> ab; x </q> before a block end; </rt> b): documents outside wf_tokens are counted
        in the evidence (decision procedure wf_tokens_b, proved sound, run on every token list of the correspondence);
     keepws_keeps_leading_space: with omitSpace off a text token keeps its leading white space;
     attr_value_roundtrip: for every non-empty value, every original quote and mustQuote, whatever follows, an HTML
        tokenizer reads back exactly one value that decodes to the same text and stops exactly where the value ends;
     unquoted_only_if_safe, mustquote_keeps_quotes, escape_not_longer_than_quoting;
     keep_end_tags_honoured, keep_doc_tags_honoured_*, text_ignores_tag_options (options, also serving C16).
   Ties: the extracted loop consumes the token stream of the real lexer for every generated attribute-free document and
   must reproduce html.Minify's bytes; html_escape_attr_val is compared with parse/html.EscapeAttrVal; the trait table is
   regenerated from html/table.go on every run (coq/gen/Tables_gen.v).
   NOT covered by the theorems (search by htmloracle against the x/net/html tree builder; open findings K16-K19, K30,
   K101-K113): whether an omitted tag is re-inferred at the same place, attribute rewriting other than quoting,
   character references in context, embedded content, template delimiters. *)
From MVGen Require Import Tables_gen HtmlDefaults_gen.
From MV Require Html.HtmlDefaults Html.HtmlAttrLoop Html.HtmlAttrLoopProofs.
From MV Require Import Base.MvBytes Base.Ws Xml.XmlModel Xml.XmlEscape Html.HtmlAttr Html.HtmlAttrProofs Html.HtmlWs Html.HtmlWsSpec Html.HtmlWsLemmas
  Html.HtmlWsProofs Html.HtmlWsWf Html.HtmlOpts.

Theorem html_words_preserved : forall o ts, wf_tokens ts ->
  Forall2 item_equiv (merge (out_items (minify_pieces o true false false 0 ts))) (merge (in_items o false false 0 ts)).
Proof. exact HtmlWsProofs.html_words_preserved. Qed.
Print Assumptions html_words_preserved.

Theorem wf_tokens_decidable_sound : forall ts, wf_tokens_b ts = true -> wf_tokens ts.
Proof. exact HtmlWsWf.wf_tokens_b_sound. Qed.
Print Assumptions wf_tokens_decidable_sound.

Theorem keepws_keeps_leading_space : forall o t rest,
  tt t = HText -> data t <> [] -> (2 <= length (data t))%nat -> starts_ws (data t) = true ->
  exists p ps, minify_pieces o false false false 0 (t :: rest) = PText p :: ps /\ starts_ws p = true.
Proof. exact HtmlWsProofs.keepws_keeps_leading_space. Qed.
Print Assumptions keepws_keeps_leading_space.

Theorem attr_value_roundtrip : forall b orig must rest,
  b <> [] -> (orig = 0 \/ orig = 34 \/ orig = 39) -> follows_ok rest ->
  exists body, html_attr_value (html_escape_attr_val b orig must ++ rest) = Some (body, rest) /\
               unref_quotes body = unref_quotes b.
Proof. exact HtmlAttrProofs.attr_value_roundtrip. Qed.
Print Assumptions attr_value_roundtrip.

Theorem unquoted_only_if_safe : forall b orig must,
  html_escape_attr_val b orig must = b -> b <> [] -> (hd 0 b <> 34 /\ hd 0 b <> 39) ->
  existsb needs_quote b = false.
Proof. exact HtmlAttrProofs.unquoted_only_if_safe. Qed.
Print Assumptions unquoted_only_if_safe.

Theorem mustquote_keeps_quotes : forall b orig, (orig = 34 \/ orig = 39) ->
  exists q body, (q = 34 \/ q = 39) /\ html_escape_attr_val b orig true = [q] ++ body ++ [q].
Proof. exact HtmlAttrProofs.mustquote_keeps_quotes. Qed.
Print Assumptions mustquote_keeps_quotes.

Theorem escape_not_longer_than_quoting : forall b orig must,
  (length (html_escape_attr_val b orig must) <= length (dq_body b) + 2)%nat /\
  (length (html_escape_attr_val b orig must) <= length (sq_body b) + 2)%nat.
Proof. exact HtmlAttrProofs.escape_not_longer_than_quoting. Qed.
Print Assumptions escape_not_longer_than_quoting.

Theorem keep_end_tags_honoured : forall o omit inpre raw t rest,
  keep_end_tags o = true -> tt t = HEndTag ->
  (negb (keep_doc_tags o) && is_doc_tag t) || name_is t n_colgroup = false ->
  exists ps, minify_pieces o omit inpre raw 0 (t :: rest) = PTag (end_tag_bytes t) t :: ps.
Proof. exact HtmlOpts.keep_end_tags_honoured. Qed.
Print Assumptions keep_end_tags_honoured.

Theorem keep_doc_tags_honoured_end : forall o omit inpre raw t rest,
  keep_doc_tags o = true -> tt t = HEndTag -> is_doc_tag t = true ->
  exists ps, minify_pieces o omit inpre raw 0 (t :: rest) = PTag (end_tag_bytes t) t :: ps.
Proof. exact HtmlOpts.keep_doc_tags_honoured_end. Qed.
Print Assumptions keep_doc_tags_honoured_end.

Theorem keep_doc_tags_honoured_start : forall o omit inpre raw t rest,
  keep_doc_tags o = true -> tt t = HStartTag -> is_doc_tag t = true ->
  exists om ip rw sk, minify_pieces o omit inpre raw 0 (t :: rest) = PTag (data t ++ [62]) t :: minify_pieces o om ip rw sk rest.
Proof. exact HtmlOpts.keep_doc_tags_honoured_start. Qed.
Print Assumptions keep_doc_tags_honoured_start.

(* "default ... attributes dropped": every rule by which html.go drops an attribute as default value (12 rules, regenerated
   from the condition guarded by KeepDefaultAttrVals) names the attribute's missing-value default of the HTML Living
   Standard on the elements that carry it (pinned in Html/HtmlDefaults.v), or — colspan/rowspan/span — a value for which
   the integer parser falls back to the default 1; and the extraction found the rules it looks for *)
Theorem default_attribute_rules_ok : HtmlDefaults.html_default_rules_ok = true /\ HtmlDefaults.html_default_rules_complete = true.
Proof. vm_compute. split; reflexivity. Qed.
Print Assumptions default_attribute_rules_ok.

(* the attribute loop (Html/HtmlAttrLoop.v, ordinary attributes on ordinary elements; tied to html.Minify on 3,000 generated
   start tags per run): an attribute is dropped only when it is empty (class / dir / id / name, action on form) or has a
   default value by the regenerated rules; a written value is read back by the HTML tokenizer as the processed value *)
Section AttrLoop.
Import HtmlAttrLoop.
Theorem attr_dropped_only_if : forall o tag a, attr_out o tag a = [] ->
  known_tag tag = true /\
  ((attr_value a = [] /\ empty_omitted tag (a_name a) = true) \/ default_dropped o tag (a_name a) (attr_value a) = true).
Proof. exact HtmlAttrLoopProofs.attr_dropped_only_if. Qed.
Theorem attr_written_reads_back : forall o tag a rest,
  attr_value a <> [] -> is_boolean_attr (a_name a) = false -> attr_out o tag a <> [] ->
  (a_quote a = 0 \/ a_quote a = 34 \/ a_quote a = 39) -> follows_ok rest ->
  exists lit body, attr_out o tag a = [32] ++ a_name a ++ [61] ++ lit /\
    html_attr_value (lit ++ rest) = Some (body, rest) /\ unref_quotes body = unref_quotes (attr_value a).
Proof. exact HtmlAttrLoopProofs.attr_written_reads_back. Qed.
Theorem boolean_attr_bare : forall o tag a, is_boolean_attr (a_name a) = true -> attr_out o tag a = [] \/ attr_out o tag a = [32] ++ a_name a.
Proof. exact HtmlAttrLoopProofs.boolean_attr_bare. Qed.
End AttrLoop.
Print Assumptions attr_dropped_only_if.
Print Assumptions attr_written_reads_back.
Print Assumptions boolean_attr_bare.
