(* Property C04 — CSS minification preserves the cascade input.
   PROVED here (small, exact parts of the value rewriting):
     box_shorthand_sound      : the four-sides collapse of margin / padding / border-width (Css/CssBox.v, F2 model of
                                minifyProperty's case on Token.Equal) keeps top, right, bottom and left (CSS 2.1 8.3) for EVERY
                                value list; box_shorthand_minimal / _not_longer: the result cannot be collapsed further and is
                                never longer;
     css_tables_ok            : on the tables regenerated from css/table.go on every run — every hex/keyword pair of
                                ShortenColorHex and ShortenColorName denotes the same sRGB colour and every keyword is a CSS
                                colour (except the known finding K21), the units dropped from zero values are length/angle units
                                (these are C17's theorems, restated for the entries C04 depends on);
     numbers and dimensions are shortened by minify.Number / Decimal: exactness is property C08 (Props/C08.v).
   Ties: EVERY list of 1-4 values over four distinct lengths x {margin, padding, border-width} (1,020 cases, exhaustive)
   goes through the real css.Minify and the extracted model; tables are regenerated (T-gen).
   NOT proved — search only (harness/cmd/cssoracle: independent css-syntax-3 tokenizer, rule/selector walk, value
   interpreter for numbers+units, colours to sRGBA, shorthands to longhands, unicode-range sets, data: URLs): every other
   rewrite of css.go (background*, font*, flex, box-shadow, border*, transforms, selectors, at-rules, whitespace).
   Three defects found there were repaired in /repo (K20, K79, K80); 22 remain open (K21-K23, K40, K45, K81-K99). *)
From Coq Require Import List Bool.
Import ListNotations.
From MVGen Require Import Tables_gen.
From MV Require Import Base.MvBytes Ref.RefCssColors Css.CssBox Css.CssColor Css.CssColorProofs Tables.TablesCheck Num.NumModel Num.NumSpec Css.CssDim Css.CssDimSpec Css.CssDimProofs Css.CssAlpha Css.CssAlphaProofs.

Theorem box_shorthand_sound : forall (tok : Type) (teq : tok -> tok -> bool),
  (forall a b, teq a b = true <-> a = b) -> forall vs, box4 tok (box_collapse tok teq vs) = box4 tok vs.
Proof. exact CssBox.box_collapse_sound. Qed.
Print Assumptions box_shorthand_sound.

Theorem box_shorthand_minimal : forall (tok : Type) (teq : tok -> tok -> bool),
  (forall a b, teq a b = true <-> a = b) -> forall vs, box_collapse tok teq (box_collapse tok teq vs) = box_collapse tok teq vs.
Proof. exact CssBox.box_collapse_idempotent. Qed.
Print Assumptions box_shorthand_minimal.

Theorem box_shorthand_not_longer : forall (tok : Type) (teq : tok -> tok -> bool) vs,
  (length (box_collapse tok teq vs) <= length vs)%nat.
Proof. exact CssBox.box_collapse_not_longer. Qed.
Print Assumptions box_shorthand_not_longer.

(* the colour pairs the value rewriting uses: same sRGB colour in both directions (K21 lightslateblue excepted) *)
Definition not_k21 (e : bytes * bytes) : bool := negb (beqb (fst e) [108;105;103;104;116;115;108;97;116;101;98;108;117;101]).
Theorem css_color_tables_ok :
  (forall e, In e css_shorten_color_hex -> color_hex_ok e = true) /\
  (forall e, In e (filter not_k21 css_shorten_color_name) -> color_name_ok e = true).
Proof. split; apply forallb_forall; vm_compute; reflexivity. Qed.
Print Assumptions css_color_tables_ok.

(* the hash-token branch of minifyColor (lower-casing, opaque / transparent alpha, hex -> keyword, 6 -> 3 and 8 -> 4 digits):
   every 3/4/6/8-digit hash colour keeps its sRGB colour and alpha (a fully transparent colour may change its invisible
   rgb part: #rrggbb00 -> #0000) and never gets longer, with the table regenerated from css/table.go *)
Theorem hex_color_sound : forall d, valid_hash d = true ->
  exists c c', color_rgba d = Some c /\ color_rgba (hex_color_minify css_shorten_color_hex d) = Some c' /\ rgba_equiv c c'.
Proof. exact CssColorProofs.hex_color_sound_gen. Qed.
Print Assumptions hex_color_sound.

Theorem hex_color_not_longer : forall T d, table_ok T -> valid_hash d = true ->
  (length (hex_color_minify T d) <= length d)%nat.
Proof. exact CssColorProofs.hex_color_not_longer. Qed.
Print Assumptions hex_color_not_longer.

Theorem hex_color_other_lengths : forall T d h ds, d = h :: ds -> lookup (h :: map to_lower ds) T = None ->
  length ds <> 6%nat -> length ds <> 8%nat -> hex_color_minify T d = h :: map to_lower ds.
Proof. exact CssColorProofs.hex_color_other_lengths. Qed.
Print Assumptions hex_color_other_lengths.

(* a zero keeps its unit unless the unit is a length unit (optionalZeroDimension, regenerated from css/table.go) *)
Theorem css_zero_units_are_lengths : css_zero_dims_are_lengths css_zero_dimensions = true.
Proof. vm_compute. reflexivity. Qed.
Print Assumptions css_zero_units_are_lengths.

(* non-vacuity *)
Example box_nonvacuous :
  box_collapse_nat [1; 2; 1; 2]%nat = [1; 2]%nat /\ box_collapse_nat [1; 2; 3; 2]%nat = [1; 2; 3]%nat /\ box_collapse_nat [1; 2; 3; 4]%nat = [1; 2; 3; 4]%nat.
Proof. vm_compute. auto. Qed.

(* ---------- numeric tokens of a declaration value ----------
   Css/CssDim.v restates what css.go does to number, percentage and dimension tokens (minifyTokens / minifyDimension /
   minifyNumber / isZeroNumber; tied on 8,000 generated tokens per run, KeepCSS2 on and off, integer properties, inside known
   and unknown functions).  For EVERY numeric lexeme (Num grammar), either setting of KeepCSS2:
   the number keeps its value; a percentage stays a percentage of the same value; a dimension is written as a number of the
   same value followed by its unit lower-cased (units are ASCII case-insensitive) — or as the bare 0, and that only when
   the value IS zero, the unit is in optionalZeroDimension (all lengths: css_zero_units_are_lengths), and the token is
   neither in a flex declaration nor inside a known function.
   The last clause failed on the pinned code: the proof needed "the exponent fits an int64" and its counterexample
   `width:0.5e9223372036854775808px` -> `width:0` is K129 on the real code (Number gives such a number back unchanged, the
   zero test looked at the first byte only), repaired; the theorem now holds without that hypothesis.
   (The bound 10^25 on the length is the fuel of the digit printer of the Num model, shown necessary in C08.) *)
Theorem css_numbers_keep_their_value : forall keep integer s p,
  lex_number s = Some p -> zlen s <= 10 ^ 25 ->
  same_num (num_value (number_token keep integer s)) (Some (value p)).
Proof. exact number_token_value. Qed.
Print Assumptions css_numbers_keep_their_value.

Theorem css_percentages_keep_their_value : forall keep s p,
  lex_number s = Some p -> zlen s <= 10 ^ 25 ->
  exists s', percentage_token keep (s ++ [37]) = s' ++ [37] /\ same_num (num_value s') (Some (value p)).
Proof. exact percentage_token_value. Qed.
Print Assumptions css_percentages_keep_their_value.

Theorem css_dimensions_keep_value_and_unit : forall keep optzero ff drops s u p,
  lex_number s = Some p -> zlen s <= 10 ^ 25 -> unit_ok u ->
  let out := dimension_token keep optzero ff drops (s ++ u) in
  (exists s', out = s' ++ lower_unit u /\ same_num (num_value s') (Some (value p))) \/
  (out = [48] /\ is_zero_value (Some (value p)) /\ optzero (lower_unit u) = true /\ ff = false /\ drops = true).
Proof. exact dimension_token_value. Qed.
Print Assumptions css_dimensions_keep_value_and_unit.

(* non-vacuity, incl. the repaired shape: an out-of-range exponent keeps its unit; 0.0px and 0EM are zeros *)
Example css_dimensions_nonvacuous :
  let optzero := fun u => existsb (fun kv => if list_eq_dec Z.eq_dec (fst kv) u then true else false) css_zero_dimensions in
  dimension_token false optzero false true [48; 46; 48; 112; 120] = [48] /\
  dimension_token false optzero false true [48; 69; 77] = [48] /\
  dimension_token false optzero false true [49; 46; 53; 48; 80; 88] = [49; 46; 53; 112; 120] /\
  dimension_token false optzero true true [48; 112; 120] = [48; 112; 120].
Proof. vm_compute. repeat split; reflexivity. Qed.

(* ---------- alpha values: the shorter of .X and X% ----------
   minifyNumberPercentage (Css/CssAlpha.v; tied on 2,000 alpha values per run through css.Minify) rewrites an already
   minified token: X0% -> .X, .0X -> X%, .00R -> .R% (only when a digit follows: the repair of K137, the defect this theorem's
   missing hypothesis pointed at).  For EVERY number the css number minifier can hand over — either value of KeepCSS2, any
   exponent — the final token denotes the same value; the rewrite is never longer and strictly shorter when it changes
   anything. *)
Theorem alpha_number_keeps_its_value : forall keep s p,
  lex_number s = Some p -> zlen s <= 10 ^ 25 ->
  let r := min_number_percentage false (css_number keep s) in
  same_num (tok_value (fst r) (snd r)) (Some (value p)).
Proof. exact alpha_number_value. Qed.
Print Assumptions alpha_number_keeps_its_value.

Theorem alpha_rewrite_never_longer : forall is_pct d,
  let r := min_number_percentage is_pct d in
  (length (snd r) <= length d)%nat /\ (r <> (is_pct, d) -> (length (snd r) < length d)%nat).
Proof. exact min_number_percentage_not_longer. Qed.
Print Assumptions alpha_rewrite_never_longer.

Example alpha_nonvacuous :
  min_number_percentage true [53; 48; 37] = (false, [46; 53]) /\                      (* 50% -> .5 *)
  min_number_percentage false [46; 48; 48; 53] = (true, [46; 53; 37]) /\             (* .005 -> .5% *)
  min_number_percentage false [46; 48; 48; 101; 57] = (false, [46; 48; 48; 101; 57]). (* .00e9 stays *)
Proof. vm_compute. repeat split; reflexivity. Qed.
