(* Property C05 — SVG minification preserves geometry, references and structure.
   What is PROVED here is the part of the path-data shortener that needs no floating point: the separator logic
   (Svg/PathSep.v, F1 model of PathDataState.copyNumber / copyFlag of svg/pathdata.go).  For every sequence of items
   (coordinates as minify.Number returns them — hypothesis ok_item', measured on every harness coordinate — and arc
   flags), of any length, in every consistent printer state:
     path_separators_sound      : lexing the emitted bytes by the SVG 1.1 number grammar (maximal munch, flags as single
                                  characters) gives back exactly the lexemes that were written, nothing left over — numbers
                                  never fuse (`.5.5`, `1-2`, `1 .5`, `1e2.5`), flags never swallow digits (`0 015`);
     emitted_lexemes            : each written lexeme is the coordinate itself, its `e2` spelling, or `.0` for `0`;
     rewrite_00_value_shape     : the `00` -> `e2` rewrite is applied to plain integers only (d00 becomes de2: same value);
                                  since the repair of K70 (the rewrite is skipped when the coordinate contains '.', 'e' or
                                  'E': `1e100` is no longer written `1e1e2`) this follows from the shape of the coordinate
                                  alone — ok_item no longer carries the hypothesis rewrite_safe
                                  (PathSep.ends_00_rewrite_safe, PathSep.exponent_00_not_rewritten);
     path_separators_neg00_refuted : the hypothesis cannot be dropped — the coordinate `-00` would be written `-e2`
                                  (minify.Number never returns it: measured).
   Tie: random item sequences are written by the REAL copyNumber/copyFlag (verif hook svg.VerifEmitItems) and by the
   extracted model; byte-identical output required (6,000 sequences per run).
   NOT proved (search only, harness/cmd/svgoracle: independent path interpreter with float tolerance, encoding/xml tree
   walk with typed attribute comparison): the float64 geometry of relative/absolute conversion, command merging
   (C->S, Q->T, L->H/V, degenerate curves), and the document-level rewriting of svg.go (attribute filter, defaults,
   colours, dimensions, style/CDATA).  Open findings there: K25, K26, K43, K44, K63-K72. *)
From MV Require Import Base.MvBytes Svg.PathSep.

Theorem path_separators_sound : forall items st,
  forallb ok_item' items = true -> (prevDigit st = true -> prevFlag st = false) ->
  lex_items (map kind_of items) (emit st items) = Some (emitted st items, []).
Proof. intros items st H1 H2. exact (proj1 (PathSep.path_separators_sound_any_state items st H1 H2)). Qed.
Print Assumptions path_separators_sound.

Theorem path_separators_sound_after_command : forall items,
  forallb ok_item' items = true ->
  lex_items (map kind_of items) (emit st_cmd items) = Some (emitted st_cmd items, []).
Proof. intros items H. apply PathSep.path_separators_sound; [exact H|reflexivity]. Qed.
Print Assumptions path_separators_sound_after_command.

Theorem emitted_lexemes : forall items st, forallb ok_item items = true ->
  Forall2 (fun i o => match i, o with
                      | INum c, INum w => w = rewrite_00 c \/ (c = [48] /\ w = [46; 48])
                      | IFlag a, IFlag b => a = b
                      | _, _ => False
                      end) items (emitted st items).
Proof. exact PathSep.emitted_lexemes. Qed.
Print Assumptions emitted_lexemes.

Theorem rewrite_00_value_shape : forall c, ok_item' (INum c) = true -> ends_00 c = true ->
  exists s d, c = s ++ d ++ [48; 48] /\ rewrite_00 c = s ++ d ++ [101; 50] /\
              (s = [] \/ s = [45]) /\ all_digits d = true /\ d <> [].
Proof. exact PathSep.rewrite_00_shape_digits. Qed.
Print Assumptions rewrite_00_value_shape.

(* the measured hypothesis: a coordinate without a "-0" prefix that is one minimal number lexeme is fine *)
Theorem ok_item_from_measured : forall c, ok_item (INum c) = true -> no_neg_zero c = true -> ok_item' (INum c) = true.
Proof. exact PathSep.no_neg_zero_ok. Qed.
Print Assumptions ok_item_from_measured.

Example path_separators_neg00_refuted :
  forallb ok_item [INum [45; 48; 48]] = true /\ prevDigit st_cmd = false /\
  lex_items (map kind_of [INum [45; 48; 48]]) (emit st_cmd [INum [45; 48; 48]]) = None.
Proof. exact PathSep.path_separators_sound_counterexample. Qed.

(* non-vacuity: `1 .5.0-2 1e2` and an arc `1 1 0 015 5` *)
Example separators_nonvacuous :
  emit st_cmd [INum [49]; INum [46; 53]; INum [48]; INum [45; 50]; INum [49; 48; 48]] = [49; 32; 46; 53; 46; 48; 45; 50; 32; 49; 101; 50] /\
  forallb ok_item' [INum [49]; INum [46; 53]; INum [48]; INum [45; 50]; INum [49; 48; 48]] = true /\
  emit st_cmd [INum [49]; INum [49]; INum [48]; IFlag false; IFlag true; INum [53]; INum [53]] = [49; 32; 49; 32; 48; 32; 48; 49; 53; 32; 53].
Proof. vm_compute. auto. Qed.
