(* Property C06 — XML minification preserves the infoset up to insignificant white space.
   Model: Xml/XmlModel.v, the loop of xml.Minify over the token list of the real parse/xml lexer (omitSpace flag,
   look-ahead for trailing white space, CDATA-to-text conversion, attribute re-quoting, empty-element collapse, end-tag
   normalisation, KeepWhitespace).  Specification: Xml/XmlSpec.v (markup items and character-data runs; words).
   Proved, for EVERY token list satisfying wf_tokens (what the lexer guarantees; measured on every harness token) and
   both settings of KeepWhitespace:
     xml_runs_preserved: the output has the same markup items in the same order (tags, attributes with their re-quoted
        values, PIs, DOCTYPE; comments are the only nodes removed; <a></a> and — unless white space is kept — <a> </a>
        become <a/>), and, run by run, exactly the same WORDS: the white-space state machine never joins, splits or
        drops a word, whatever the neighbours (text, CDATA, comments, PIs, tags, end of input);
     keepws_keeps_leading_space: with KeepWhitespace a text token following a tag keeps its leading white space;
     attr_requote_wellformed / attr_requote_shortest: the emitted attribute literal is delimited by one quote kind
        that does not occur inside, decodes (quote references) to the same value, and is the shorter of the two quotings;
     cdata_exact / cdata_no_markup / cdata_choice: CDATA content turned into text decodes to exactly its characters,
        contains no '<', and is chosen only when it is not longer than the section;
     collapse_keeps_words: the model of parse.ReplaceMultipleWhitespace keeps the words and boundary flags.
   Ties: the extracted model consumes the token stream of the real lexer for every generated/mutated document and must
   reproduce xml.Minify's bytes; escape_attr_val / escape_cdata_val / collapse are compared with the real helpers.
     written_bytes_only_escape_gt / no_cdata_end_across_pieces: the writer (writeText of xml.go, added with the repair of
        K28) changes a piece only by writing one `>` as `&gt;`, and when no single piece contains `]]>` no character-data run
        of the output does — whatever the split into text tokens, converted CDATA sections and dropped comments.
   NOT covered by the theorems (search by xmloracle; open findings K59-K64): what parse.ReplaceEntities makes of character
   and entity references inside a token (run, not modelled: ]]&gt; -> ]]> inside ONE token, K43),
   PI data and DOCTYPE internals mis-lexed by the dependency, CRLF in attribute values. *)
From MVGen Require Import Tables_gen.
From MV Require Import Base.MvBytes Base.Ws Xml.XmlModel Xml.XmlSpec Xml.XmlProofs Xml.XmlEscape Xml.XmlRender Tables.TablesCheck.

Theorem xml_runs_preserved : forall keepws ts, wf_tokens ts ->
  Forall2 item_equiv (merge (out_items (minify_pieces keepws true 0 ts))) (merge (in_items keepws 0 ts)).
Proof. exact XmlProofs.xml_runs_preserved. Qed.
Print Assumptions xml_runs_preserved.

(* the bytes: xml_minify writes the pieces through writeText *)
Theorem written_bytes_only_escape_gt : forall ps br, exists ps',
  Forall2 XmlRender.piece_repl ps ps' /\ render_pieces br ps = concat (map piece_bytes ps').
Proof. exact XmlRender.render_pieces_only_gt. Qed.
Print Assumptions written_bytes_only_escape_gt.

Theorem no_cdata_end_across_pieces : forall keepws ts, XmlRender.tokens_no_cdend ts ->
  Forall (fun r => XmlRender.has_cdend r = false) (XmlRender.render_runs 0 (minify_pieces keepws true 0 ts)) /\
  xml_minify keepws ts = concat (map XmlRender.seg_bytes (XmlRender.render_segs 0 (minify_pieces keepws true 0 ts))).
Proof. intros keepws ts H. split; [exact (XmlRender.xml_minify_no_cdend keepws ts H) | exact (XmlRender.xml_minify_segs keepws ts)]. Qed.
Print Assumptions no_cdata_end_across_pieces.

Example no_cdata_end_nonvacuous :
  render_pieces 0 [PText [97; 93; 93]; PText [62; 98]] = [97; 93; 93; 38; 103; 116; 59; 98] /\
  render_pieces 0 [PText [93; 93]; PMarkup [60; 98; 47; 62]; PText [62]] = [93; 93; 60; 98; 47; 62; 62].
Proof. vm_compute. split; reflexivity. Qed.

Theorem keepws_keeps_leading_space : forall t rest d,
  tt t = XText -> data t = d -> d <> [] ->
  exists p ps, minify_pieces true false 0 (t :: rest) = PText p :: ps /\
    (starts_with_ws d = true -> (2 <= length d)%nat -> starts_with_ws p = true).
Proof. exact XmlProofs.keepws_after_tag_keeps_leading_space. Qed.
Print Assumptions keepws_keeps_leading_space.

Theorem attr_requote_wellformed : forall b, exists q body,
  (q = 34 \/ q = 39) /\ escape_attr_val b = [q] ++ body ++ [q] /\ ~ In q body /\
  unref_quotes body = unref_quotes b.
Proof. exact XmlEscape.escape_attr_val_wellformed. Qed.
Print Assumptions attr_requote_wellformed.

Theorem attr_requote_shortest : forall b,
  (length (escape_attr_val b) <= length (dq_body b) + 2)%nat /\
  (length (escape_attr_val b) <= length (sq_body b) + 2)%nat.
Proof. exact XmlEscape.escape_attr_val_shortest. Qed.
Print Assumptions attr_requote_shortest.

Theorem cdata_exact : forall b, unref_text (escape_text b) = b.
Proof. exact XmlEscape.escape_text_exact. Qed.
Print Assumptions cdata_exact.

Theorem cdata_no_markup : forall b, ~ In 60 (escape_text b).
Proof. exact XmlEscape.escape_text_no_lt. Qed.
Print Assumptions cdata_no_markup.

Theorem cdata_choice : forall b e use, escape_cdata_val b = (e, use) ->
  (use = true -> e = escape_text b /\ (length e <= length b + 12)%nat) /\ (use = false -> e = b).
Proof. exact XmlEscape.escape_cdata_val_spec. Qed.
Print Assumptions cdata_choice.

Theorem collapse_keeps_words : forall l,
  words (collapse l) = words l /\ starts_ws (collapse l) = starts_ws l /\ ends_ws (collapse l) = ends_ws l /\
  no_double_ws (collapse l) = true.
Proof. intros l. repeat split; [apply words_collapse | apply collapse_starts_ws | apply collapse_ends_ws | apply collapse_no_double_ws]. Qed.
Print Assumptions collapse_keeps_words.

(* the tables xml.go hands to the dependency's reference decoder (regenerated from xml/table.go on every run): every
   named entity it decodes is a predefined XML entity with that meaning; every reverse escape decodes to exactly its
   character; in attribute values < & TAB LF CR stay escaped *)
Theorem xml_tables_ok :
  (forall e, In e xml_entities -> xml_entity_ok e = true) /\
  (forall e, In e xml_text_rev_entities -> xml_rev_entity_ok e = true) /\
  (forall e, In e xml_attr_rev_entities -> xml_attr_rev_entity_ok e = true) /\
  xml_attr_rev_complete xml_attr_rev_entities = true.
Proof. repeat split; try apply forallb_forall; vm_compute; reflexivity. Qed.
Print Assumptions xml_tables_ok.

(* non-vacuity: `a <!--c--> b` keeps its word boundary, and the hypothesis is satisfied by a real token list *)
Example xml_nonvacuous :
  let t1 := {| tt := XText; data := [97; 32]; text := [97; 32]; attrval := [] |} in
  let c := {| tt := XComment; data := []; text := []; attrval := [] |} in
  let t2 := {| tt := XText; data := [32; 98]; text := [32; 98]; attrval := [] |} in
  xml_minify false [t1; c; t2] = [97; 32; 98].
Proof. vm_compute. reflexivity. Qed.
