(* Property C07 — JSON minification preserves the value.
   Model: Json/JsonModel.v = the loop of json.Minify over the parser's event stream (state before the token,
   grammar type, text), including the number branch (Number(.,0) = Num.number0 and the ".5" -> "0.5" repair).
   Spec: Json/JsonSpec.v = JSON values with raw lexemes (member order and duplicate keys kept), the event stream
   [events_of v] a parser delivers for a text denoting v, and the compact rendering.
   What is proved (all values, any nesting depth, any lexemes):
     json_structure_preserved : the output is exactly the compact rendering of the same tree — same nesting,
        same member order incl. duplicate keys, strings and literals byte-identical, each number lexeme l
        replaced by num_text l (which is C08's Number plus the JSON zero repair);
     json_keepnumbers_identity : with KeepNumbers every lexeme, numbers included, is byte-identical;
     json_never_longer : the output is never longer than the compact rendering of the same tree with the original
        number lexemes (so never longer than any text of that tree) — a THEOREM since the repair of K48 (7E-3 became
        0.007: json.go now writes the original lexeme when the leading zero JSON requires would make the shortened one
        longer); before the repair the faithful model refuted it with that witness.
   json_number_value / json_number_has_int_part: num_text l is in the number grammar, denotes the same rational as l and
   has an integer part (C08's number_exact composed with the zero repair).
   THE PARSER: Json/JsonParse.v models Parser.Next of the parse/v2 dependency (white space, commas and the needComma flag,
   the state stack, string / number / literal scanning with Go's exact behaviour on malformed input) over the remaining
   input; tied to the real parser on every generated, mutated and corpus text of a run (events AND verdict).
     parser_delivers_the_events_of_the_value: for EVERY value of any depth whose lexemes the scanners accept completely,
        and EVERY white-space layout (different white space at every gap), parsing the rendered text gives exactly
        events_of SValue v and succeeds — which closes the chain text -> events -> minified bytes by proof
        (json_text_to_compact: minifying any text of v gives compact (num_text) v). *)
From MV Require Import Base.MvBytes Num.NumModel Num.NumSpec Json.JsonModel Json.JsonSpec Json.JsonProofs Json.JsonNumber Json.JsonLength Json.JsonParse Json.JsonParseSpec Json.JsonParseProofs.

Theorem json_structure_preserved : forall keepnumbers v, wf_jvalue v ->
  json_minify_events keepnumbers (events_of SValue v) = compact (num_text keepnumbers) v.
Proof. exact json_minify_compact. Qed.
Print Assumptions json_structure_preserved.

Theorem json_keepnumbers_identity : forall v, wf_jvalue v ->
  json_minify_events true (events_of SValue v) = compact (fun l => l) v.
Proof. exact JsonProofs.json_keepnumbers_identity. Qed.
Print Assumptions json_keepnumbers_identity.

Theorem json_never_longer : forall v, wf_jvalue v -> nums_ok v ->
  (length (json_minify_events false (events_of SValue v)) <= length (compact (fun l => l) v))%nat.
Proof. exact JsonLength.json_never_longer. Qed.
Print Assumptions json_never_longer.

(* the old counterexample is now kept as it is; the zero repair still fires where it does not lengthen *)
Example json_never_longer_nonvacuous :
  let v := JArr [JNum [55; 69; 45; 51]; JNum [48; 46; 53; 48; 48; 48]] in
  wf_jvalue v /\ nums_ok v /\ json_minify_events false (events_of SValue v) = [91; 55; 69; 45; 51; 44; 48; 46; 53; 93].
Proof. split; [simpl; tauto|]. split; [|vm_compute; reflexivity]. simpl. repeat split; try (eexists; vm_compute; reflexivity); vm_compute; congruence. Qed.

(* the numbers: what is written for a number lexeme (Number(text, 0) + the repair of a leading ".") is in the number grammar,
   denotes exactly the same rational and has a digit before the dot as RFC 8259 requires (C08's number_exact composed
   with the repair; the bound 10^25 on the length is the model artefact explained in Props/C08.v) *)
Theorem json_number_value : forall l p, lex_number l = Some p -> starts_number l = true -> zlen l <= 10 ^ 25 ->
  exists p', lex_number (num_text false l) = Some p' /\ val_eq (value p') (value p).
Proof. exact JsonNumber.json_number_value. Qed.
Print Assumptions json_number_value.

Theorem json_number_has_int_part : forall l p, lex_number l = Some p -> starts_number l = true -> zlen l <= 10 ^ 25 ->
  match l with 46 :: _ => False | 45 :: 46 :: _ => False | _ => True end ->   (* JSON lexemes have an integer part; the fallback writes l itself *)
  match num_text false l with 46 :: _ => False | 45 :: 46 :: _ => False | _ => True end.
Proof. exact JsonNumber.json_number_has_int_part. Qed.
Print Assumptions json_number_has_int_part.

(* non-vacuity: a nested document with duplicate keys meets wf_jvalue and is rendered as expected *)
Example json_structure_nonvacuous :
  let v := JObj [([34;97;34], JArr [JNum [49;46;48]; JLit [116;114;117;101]]); ([34;97;34], JStr [34;34])] in
  wf_jvalue v /\ json_minify_events false (events_of SValue v) =
    [123;34;97;34;58;91;49;44;116;114;117;101;93;44;34;97;34;58;34;34;125] (* {"a":[1,true],"a":""} *).
Proof. split; [simpl; tauto | vm_compute; reflexivity]. Qed.

(* ---------- the parser ---------- *)
Theorem parser_delivers_the_events_of_the_value : forall ws v,
  (forall k, all_jws (ws k)) -> lex_ok v ->
  parse_events (render ws v) = (events_of SValue v, true).
Proof. exact parse_render. Qed.
Print Assumptions parser_delivers_the_events_of_the_value.

(* text -> bytes: minifying ANY text of v (any white space) gives the compact rendering of v *)
Theorem json_text_to_compact : forall keepnumbers ws v,
  (forall k, all_jws (ws k)) -> lex_ok v -> wf_jvalue v ->
  json_minify_events keepnumbers (fst (parse_events (render ws v))) = compact (num_text keepnumbers) v.
Proof. intros k ws v Hws Hlex Hwf. rewrite (parse_render ws v Hws Hlex). cbn [fst]. apply json_minify_compact. exact Hwf. Qed.
Print Assumptions json_text_to_compact.

(* the parser never indexes an empty state stack, and every token consumes input (no fuel bound is hidden in parse_events) *)
Theorem parser_consumes_input : forall st i g t st' r, pnext st i = PTok g t st' r -> (length r < length i)%nat.
Proof. exact pnext_shorter. Qed.
Print Assumptions parser_consumes_input.
