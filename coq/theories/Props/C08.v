(* Property C08 — Number/Decimal shortening keeps the numeric value.
   Only statements, closed by [exact], with their assumptions printed. Models: Num/Model.v (F2, precision 0),
   specification side: Num/Spec.v (lexeme grammar = lex_number/wf_lexed, value m*10^e, val_eq).

   Full statement of the property at precision 0, per helper:
     for every s in the number grammar, the result is in the grammar (Decimal: without exponent),
     denotes exactly the same rational, and is not longer than s.
   Proved here: BOTH halves in full — decimal_exact (Decimal) and number_exact (Number, all four print shapes: D e n,
   D000, .D e-n, .000D / D1.D2, original mantissa with re-printed exponent; exponents up to +-2^63, the overflow guard,
   leading zeros in exponents, signs) — and the two lexer theorems every number statement rests on.  number_exact carries
   the bound zlen s <= 10^25, an artefact of the model's decimal printer (show_nat, fuel 25) shown necessary by a proved
   symbolic counterexample of 10^25 + 1 bytes; a Go slice is shorter than 2^63 < 10^25 bytes, so the bound always holds.
   Precision > 0 (half-ulp bound) and arbitrary bytes (no panic, no write outside the slice) are not
   modelled: they are decided by the exhaustive/random oracle run only. *)
From MV Require Import Base.MvBytes Num.NumModel Num.NumSpec Num.NumProofs Num.NumberLemmas Num.NumberProofs.

(* the recogniser accepts exactly the well-formed lexemes and determines their structure *)
Theorem lexer_sound : forall s p, lex_number s = Some p -> s = unlex p /\ wf_lexed p.
Proof. exact lex_number_sound. Qed.
Print Assumptions lexer_sound.

Theorem lexer_complete : forall p, wf_lexed p -> lex_number (unlex p) = Some p.
Proof. exact lex_number_complete. Qed.
Print Assumptions lexer_complete.

(* Decimal(s, 0): valid decimal out, no exponent introduced, same value, never longer *)
Theorem decimal_exact : forall s p, lex_number s = Some p -> l_exp p = false ->
  exists p', lex_number (decimal0 s) = Some p' /\ l_exp p' = false /\
             val_eq (value p') (value p) /\ zlen (decimal0 s) <= zlen s.
Proof. exact decimal0_exact. Qed.
Print Assumptions decimal_exact.

(* Number(s, 0): in the grammar, exactly the same rational, never longer — for every lexeme of the grammar *)
Theorem number_exact : forall s p, lex_number s = Some p -> zlen s <= 10 ^ 25 ->
  exists p', lex_number (number0 s) = Some p' /\ val_eq (value p') (value p) /\ zlen (number0 s) <= zlen s.
Proof. exact NumberProofs.number0_exact. Qed.
Print Assumptions number_exact.

(* the bound is an artefact of the model's printer, and necessary for it: 1 followed by 10^25 zeros *)
Theorem number_exact_bound_needed : exists s p, lex_number s = Some p /\ zlen s = 10 ^ 25 + 1 /\
  forall p', lex_number (number0 s) = Some p' -> ~ val_eq (value p') (value p).
Proof. exact NumberProofs.number0_value_needs_bound. Qed.
Print Assumptions number_exact_bound_needed.

Example number_exact_nonvacuous :
  let s := [49; 50; 48; 48; 48; 48; 101; 45; 50] (* "120000e-2" *) in
  (exists p, lex_number s = Some p) /\ number0 s = [49; 50; 48; 48] (* "1200" *).
Proof. split; [eexists; reflexivity | vm_compute; reflexivity]. Qed.

(* non-vacuity: a concrete lexeme meets the hypotheses and is really rewritten *)
Example decimal_exact_nonvacuous :
  let s := [45; 48; 48; 49; 46; 53; 48; 48] (* "-001.500" *) in
  (exists p, lex_number s = Some p /\ l_exp p = false) /\ decimal0 s = [45; 49; 46; 53] (* "-1.5" *).
Proof. split; [eexists; split; reflexivity | reflexivity]. Qed.
