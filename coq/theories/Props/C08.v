(* Property C08 — Number/Decimal shortening keeps the numeric value.
   Only statements, closed by [exact], with their assumptions printed. Models: Num/Model.v (F2, precision 0),
   specification side: Num/Spec.v (lexeme grammar = lex_number/wf_lexed, value m*10^e, val_eq).

   Full statement of the property at precision 0, per helper:
     for every s in the number grammar, the result is in the grammar (Decimal: without exponent),
     denotes exactly the same rational, and is not longer than s.
   Proved here: the Decimal half in full (decimal_exact) and the two lexer theorems every number
   statement rests on. The Number half (number_exact, same statement with number0) is proved in
   Num/ProofsNumber.v once complete and is then added below; until then Number is decided by the
   exhaustive enumeration of the oracle run (search, not proof) — see evidence.explanation.
   Precision > 0 (half-ulp bound) and arbitrary bytes (no panic, no write outside the slice) are not
   modelled: they are decided by the exhaustive/random oracle run only. *)
From MV Require Import Base.MvBytes Num.NumModel Num.NumSpec Num.NumProofs.

(* the recogniser accepts exactly the well-formed lexemes and determines their structure *)
Theorem lexer_sound : forall s p, lex_number s = Some p -> s = unlex p /\ wf_lexed p.
Proof. exact lex_number_sound. Qed.
Print Assumptions lexer_sound.

Theorem lexer_complete : forall p, wf_lexed p -> lex_number (unlex p) = Some p.
Proof. exact lex_number_complete. Qed.
Print Assumptions lexer_complete.

(* Decimal(s, 0): valid decimal out, no exponent introduced, same value, never longer *)
Theorem decimal_exact : forall s p, lex_number s = Some p -> l_exp p = false ->
  exists p', lex_number (decimal0 s) = Some p' /\ l_exp p' = false /\
             val_eq (value p') (value p) /\ zlen (decimal0 s) <= zlen s.
Proof. exact decimal0_exact. Qed.
Print Assumptions decimal_exact.

(* non-vacuity: a concrete lexeme meets the hypotheses and is really rewritten *)
Example decimal_exact_nonvacuous :
  let s := [45; 48; 48; 49; 46; 53; 48; 48] (* "-001.500" *) in
  (exists p, lex_number s = Some p /\ l_exp p = false) /\ decimal0 s = [45; 49; 46; 53] (* "-1.5" *).
Proof. split; [eexists; split; reflexivity | reflexivity]. Qed.
