(* Property C09 — accepted input yields syntactically valid output that is accepted again.
   What the theorems of the engines say about VALIDITY and RE-ACCEPTANCE of the output, for all inputs of their models:
     JS    js_output_derivable: the printed tokens of every parser-shaped expression derive, in the ECMA-262 expression
           grammar, the tree with the dropped parentheses removed (valid, and means the same);
           js_second_pass_stable: printing that re-parsed tree gives the same tokens again (fixed point);
           js_rewrites_stay_parser_shaped: operands that rewrites put under a new operator through groupExpr are
           parser-shaped at the level their position needs, at every such site of js/*.go (regenerated).
     JSON  json_output_is_compact_text: the output is the compact serialisation of the input value with every number a
           valid JSON number of the same value (C07/C08), for both settings of KeepNumbers.
     XML   xml_attr_literal_wellformed / xml_cdata_text_has_no_markup: every attribute literal written is delimited by one
           quote kind that does not occur inside; CDATA content turned into text contains no `<`.
     SVG   svg_path_relexes: lexing the emitted path data by the SVG number grammar with maximal munch gives back exactly
           the written numbers and flags (nothing fuses: valid, and stable under a second pass of the separator logic).
     HTML  html_attr_literal_reads_back: every attribute value written is read back by the HTML tokenizer as one value that
           ends where it should, whatever follows.
     CSS   css_box_second_pass_stable, css_hash_colour_valid: the four-sides rewrite is idempotent; a rewritten hash colour is
           again a colour (3/4/6/8 hex digits or a keyword) of the same value.
   NOT proved — search (this is where C09 is mostly decided): every oracle of C01-C07 feeds each output to an independent
   parser and back into the minifier (signatures second-pass-..., invalid-output..., reparse-...); harness/cmd/validcheck does the
   same on the repository's benchmark samples and fuzz corpora (68 real-world documents up to 1.6 MB, three option sets)
   and on byte-level mutations and splices of them, with V8, encoding/json, encoding/xml, x/net/html and a css-syntax-3
   level checker as judges.  Repaired from these runs: K114 (js), K115 (json), K116 (css), K103 (html); open: K30, K42, K28,
   K62 and the per-language findings that make output invalid. *)
From Coq Require Import List String Arith Bool.
Import ListNotations.
From MVGen Require Import Tables_gen JsTables_gen JsGates_gen.
From MV Require Import Base.MvBytes.
From MV Require Js.PrintModel Js.PrintSpec Js.PrintGen Js.PrintProofs Js.PrintGroup Js.RewriteModel Js.RewritePipe Js.RewritePipeProofs Json.JsonModel Json.JsonSpec Json.JsonProofs
  Xml.XmlModel Xml.XmlEscape Svg.PathSep Html.HtmlAttr Html.HtmlAttrProofs Css.CssBox Css.CssColor Css.CssColorProofs.

Section Js.
Import PrintModel PrintSpec PrintGen PrintProofs PrintGroup.
Theorem js_output_derivable : forall e, wf 0 e -> D 0 (print T_gen 0 e) (strip T_gen 0 e).
Proof. intros e H. apply PrintProofs.print_derives_top; [vm_compute; reflexivity | exact H]. Qed.
Theorem js_second_pass_stable : forall e p, print T_gen p (strip T_gen p e) = print T_gen p e.
Proof. apply PrintProofs.strip_print_stable. vm_compute. reflexivity. Qed.
Theorem js_rewrites_stay_parser_shaped : forall s, In s js_group_sites -> gsite_ok T_gen s = true.
Proof. apply forallb_forall. vm_compute. reflexivity. Qed.
(* with the on-the-fly rewrites: whatever js.Minify writes for an expression of the rewrite fragment derives, in the
   grammar, the tree it was written from *)
Theorem js_rewritten_output_derivable : forall fuel e l p t, wf l e -> RewritePipe.rw T_gen fuel p e = Some t ->
  D (Nat.min l p) (RewriteModel.print_rw T_gen fuel p e) (RewritePipe.deconst t).
Proof. exact RewritePipeProofs.pipeline_output_parses_back_gen. Qed.
End Js.
Print Assumptions js_rewritten_output_derivable.
Print Assumptions js_output_derivable.
Print Assumptions js_second_pass_stable.
Print Assumptions js_rewrites_stay_parser_shaped.

Section Json.
Import JsonModel JsonSpec JsonProofs.
Theorem json_output_is_compact_text : forall keepnumbers v, wf_jvalue v ->
  json_minify_events keepnumbers (events_of SValue v) = compact (num_text keepnumbers) v.
Proof. exact json_minify_compact. Qed.
End Json.
Print Assumptions json_output_is_compact_text.

Section Xml.
Import XmlModel XmlEscape.
Theorem xml_attr_literal_wellformed : forall b, exists q body,
  (q = 34 \/ q = 39) /\ escape_attr_val b = [q] ++ body ++ [q] /\ ~ In q body /\ unref_quotes body = unref_quotes b.
Proof. exact XmlEscape.escape_attr_val_wellformed. Qed.
Theorem xml_cdata_text_has_no_markup : forall b, ~ In 60 (escape_text b).
Proof. exact XmlEscape.escape_text_no_lt. Qed.
End Xml.
Print Assumptions xml_attr_literal_wellformed.
Print Assumptions xml_cdata_text_has_no_markup.

Section Svg.
Import PathSep.
Theorem svg_path_relexes : forall items,
  forallb ok_item' items = true ->
  lex_items (map kind_of items) (emit st_cmd items) = Some (emitted st_cmd items, []).
Proof. intros items H. apply PathSep.path_separators_sound; [exact H|reflexivity]. Qed.
End Svg.
Print Assumptions svg_path_relexes.

Section Html.
Import XmlEscape HtmlAttr HtmlAttrProofs.
Theorem html_attr_literal_reads_back : forall b orig must rest,
  b <> [] -> (orig = 0 \/ orig = 34 \/ orig = 39) -> follows_ok rest ->
  exists body, html_attr_value (html_escape_attr_val b orig must ++ rest) = Some (body, rest) /\
               unref_quotes body = unref_quotes b.
Proof. exact HtmlAttrProofs.attr_value_roundtrip. Qed.
End Html.
Print Assumptions html_attr_literal_reads_back.

Section Css.
Import CssBox CssColor CssColorProofs.
Theorem css_box_second_pass_stable : forall (tok : Type) (teq : tok -> tok -> bool),
  (forall a b, teq a b = true <-> a = b) -> forall vs, box_collapse tok teq (box_collapse tok teq vs) = box_collapse tok teq vs.
Proof. exact CssBox.box_collapse_idempotent. Qed.
Theorem css_hash_colour_valid : forall d, valid_hash d = true ->
  exists c c', color_rgba d = Some c /\ color_rgba (hex_color_minify css_shorten_color_hex d) = Some c' /\ rgba_equiv c c'.
Proof. exact CssColorProofs.hex_color_sound_gen. Qed.
End Css.
Print Assumptions css_box_second_pass_stable.
Print Assumptions css_hash_colour_valid.
