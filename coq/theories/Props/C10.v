(* Property C10 — minifiers are total: no panic, no hang, input handed back on error.
   What a Gallina model can carry here is the index arithmetic of the modelled components (a Go panic is an index or
   slice bound out of range: the F1 models return None there) and the entry-point contract:
     tokenbuffer_never_panics : the look-ahead buffer of html/xml/svg (Buf/BufModel.v: explicit length, capacity and
        position, Peek with reallocation/compaction, Shift) runs ANY sequence of Peek(i)/Shift operations on ANY token
        stream without an out-of-range access, and keeps pos <= len <= cap (peek_total, shift_total);
     bytes_returns_original : through Bytes/String an error is reported together with the caller's original data
        (Stream model, entry_bytes) — on the code this became true with fix 8363c02 (known finding K32, fixed);
   The other totality obligations named in DESIGN.md (Number/Decimal/Mediatype/DataURI never index outside their slice,
   JSON loop, path data) are discharged for the models that are total functions by construction only where the model is
   F1 (Mediatype, TokenBuffer); for the rest, and for the unmodelled front ends of the parse dependency, this check is
   SEARCH, not proof: deterministic mutation sweep of all corpora through all six minifiers under recover with time
   and memory limits, deep-nesting families, size-scaling probes (known finding K33: quadratic data URI decoding in the
   dependency). *)
From MV Require Import Base.MvBytes Buf.BufModel Buf.BufProofs Stream.StreamModel.

Theorem peek_total : forall z i, wf z -> exists t z', peek z i = Some (t, z') /\ wf z'.
Proof. exact BufProofs.peek_total. Qed.
Print Assumptions peek_total.

Theorem shift_total : forall z, wf z -> exists t z', shift z = Some (t, z') /\ wf z'.
Proof. exact BufProofs.shift_total. Qed.
Print Assumptions shift_total.

Theorem tokenbuffer_never_panics : forall l ops,
  exists ts z, brun (tb_init l) ops = Some (ts, z) /\ length ts = length ops.
Proof. exact buffer_never_panics. Qed.
Print Assumptions tokenbuffer_never_panics.

Theorem bytes_returns_original : forall sk f v e,
  fst (entry_bytes sk f v) = RErr e -> snd (entry_bytes sk f v) = v.
Proof.
  intros sk f v e. unfold entry_bytes. destruct (minify_result sk (f v) None); simpl; [discriminate|reflexivity].
Qed.
Print Assumptions bytes_returns_original.

(* non-vacuity: a peek far beyond the buffer on a short stream reallocates and clamps at the error token *)
Example tokenbuffer_nonvacuous :
  brun (tb_init [5; 6; 7]) [BPeek 1; BShift; BPeek 20; BShift; BShift; BShift; BPeek 0] =
  Some ([6; 5; 0; 6; 7; 0; 0], {| buf := [6; 7; 0]; cap := 37; pos := 3; lexer := [] |}).
Proof. vm_compute. reflexivity. Qed.
