(* Property C11 — embedded resources are minified exactly as their own minifier would.
   Model: Html/HtmlEmbed.v — html.Minify's token loop with an ARBITRARY registry (a function from media types to optional
   partial minifiers) on attribute-free documents: raw text of script / style / iframe and svg / math tokens are
   dispatched on their documented default media types; everything else is the loop of Html/HtmlWs.v.
   Proved, for every registry, option setting and token list:
     embed_commutes: minifying with the registry = replacing every embedded payload by what its own minifier returns (a
        rewrite of the tokens that knows only which tokens the loop consumes) and then minifying the host with NO
        sub-minifier: minify(host[payload]) = host'[minify(payload)].  Hypothesis raw_tmpl_ok (no text token holding a
        template action is followed, inside the same script/style/iframe, by a dispatched text token that the look-ahead
        could reach) is shown NECESSARY by a Coq counterexample; it holds for every stream without template delimiters
        (no_template_ok), which is what the correspondence run produces;
     embed_none_is_plain / dispatch_unregistered: with nothing registered (for a type) the bytes pass through unchanged
        and the loop is exactly the plain one, so C03's theorems apply;
     embed_fails_iff / embed_fail_located: the outer call fails iff some dispatched payload's minifier fails, and the
        failure is located at the token that holds that payload;
     html_select_default + the data: URI theorems of C18 (re-encoding round trips: the payload read back from the emitted
        URI is the sub-minifier's output, or the original URI is kept).
   html_select_lower_case: the media type taken from a type attribute is looked up in lower case (K103, repaired in /repo).
   Ties: the extracted loop with 32 stub registries (each subset of js/css/html/svg/mathml, stubs that wrap or fail)
   must reproduce html.Minify's bytes / failure on 3,000 generated documents per run; html_select must name the minifier
   html.Minify really dispatches on for every (element, type value, KeepDefaultAttrVals) of a 224-row table.
   NOT proved — search: style / on* attributes and data: URLs in attributes, re-escaping of sub-minifier output for the host
   syntax, SVG style elements / attributes, CSS url(): htmloracle (recording stubs and the real minifiers), svgoracle with
   and without a css minifier, cssoracle, dataurichk.  Open findings: K30, K102-K104, K113 and the data: URI ones. *)
From MVGen Require Import Tables_gen.
From MV Require Import Base.MvBytes Html.HtmlWs Html.HtmlEmbed Html.HtmlEmbedLemmas Html.HtmlEmbedProofs Html.HtmlSelect.
From MV Require DataUri.DataUriModel DataUri.DataUriSpec DataUri.DataUriProofs.

Theorem embed_commutes : forall look o ts ts',
  raw_tmpl_ok o [] 0 ts = true ->
  embed_tokens look o [] 0 ts = Some ts' ->
  minify_pieces_reg look o true false [] 0 0 ts = EOk (minify_pieces o true false false 0 ts').
Proof. exact HtmlEmbedProofs.embed_commutes. Qed.
Print Assumptions embed_commutes.

Theorem no_template_ok : forall o rawname skip ts,
  forallb (fun t => negb (has_template t)) ts = true -> raw_tmpl_ok o rawname skip ts = true.
Proof. intros o rawname skip ts. apply HtmlEmbedProofs.no_template_ok. Qed.
Print Assumptions no_template_ok.

Theorem embed_none_is_plain : forall o ts,
  minify_pieces_reg no_registry o true false [] 0 0 ts = EOk (minify_pieces o true false false 0 ts).
Proof. exact HtmlEmbedProofs.embed_none_is_plain. Qed.
Print Assumptions embed_none_is_plain.

Theorem dispatch_unregistered : forall look mt payload, look mt = None -> dispatch look mt payload = Some payload.
Proof. exact HtmlEmbedProofs.dispatch_unregistered. Qed.
Print Assumptions dispatch_unregistered.

Theorem embed_fails_iff : forall look o ts,
  embed_tokens look o [] 0 ts = None <-> exists n, minify_pieces_reg look o true false [] 0 0 ts = EFail n.
Proof. exact HtmlEmbedProofs.embed_fails_iff. Qed.
Print Assumptions embed_fails_iff.

Theorem embed_fail_located : forall look o ts n,
  minify_pieces_reg look o true false [] 0 0 ts = EFail n ->
  exists t, nth_error ts n = Some t /\
    ((tt t = HSvg /\ fails_on look mt_svg (data t)) \/ (tt t = HMath /\ fails_on look mt_math (data t)) \/
     (tt t = HText /\ exists mt, (mt = mt_js \/ mt = mt_css \/ mt = mt_html) /\ fails_on look mt (text t))).
Proof. exact HtmlEmbedProofs.embed_fail_located. Qed.
Print Assumptions embed_fail_located.

Theorem html_select_default : forall tag, html_select tag [] = raw_mimetype tag.
Proof. exact HtmlSelect.html_select_default. Qed.
Print Assumptions html_select_default.

Theorem html_select_lower_case : forall tag ty mt, ty <> [] -> (beqb tag n_script || beqb tag n_style = true) -> beqb tag n_iframe = false ->
  html_select tag ty = Some mt -> map to_lower mt = mt.
Proof. exact HtmlSelect.html_select_lower_case. Qed.
Print Assumptions html_select_lower_case.

Section DataUri.
Import DataUriModel DataUriSpec DataUriProofs.
Theorem datauri_percent_roundtrip : forall d, bytes_ok d -> pct_decode (pct_encode d) = d.
Proof. exact pct_roundtrip. Qed.
Theorem datauri_base64_roundtrip : forall d, bytes_ok d -> b64_decode (b64_encode d) = Some d.
Proof. exact b64_roundtrip. Qed.
End DataUri.
Print Assumptions datauri_percent_roundtrip.
Print Assumptions datauri_base64_roundtrip.
