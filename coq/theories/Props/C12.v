(* Property C12 — all entry points produce the same bytes for any chunking of the stream.
   Models: Stream/StreamModel.v (entry points as functions of an abstract minifier run; the front end is
   io.ReadAll) and Stream/StreamPipe.v (small-step system of the Writer wrapper over io.Pipe: producer, minifier
   goroutine, wait group; every interleaving of enabled steps is a schedule).
   Proved, for every minifier f, every input and every partition into chunks (unbounded, incl. empty chunks):
     chunking_irrelevant, entry_points_agree : Minify on a chunked reader, Reader, Writer, Bytes and String give the
        plain call's bytes and error (Bytes/String: the original on error);
     writer_no_deadlock : in every reachable state of the Writer system in which Close has not returned, some step
        is enabled (no schedule gets stuck);
     writer_terminates : every step decreases a natural-number measure (every schedule is finite);
     writer_close_delivers : when Close has returned, the goroutine has read exactly the concatenation of the chunks
        and has finished (so all output was written and its error stored) — or it returned early without reading
        (media type not registered), in which case nothing was read;
     writer_maximal_schedule_returns : a schedule that cannot be extended has returned from Close.
   Not modelled (runtime): Go's scheduler and memory model, net/http internals (the underlying ResponseWriter is
   modelled as "the header map is sent as it is at the first WriteHeader or body Write"). *)
From MV Require Import Base.MvBytes Stream.StreamModel Stream.StreamProofs Stream.StreamPipe Stream.StreamHttp Stream.StreamHttpProofs.

(* ---- HTTP response writer / middleware (model Stream/StreamHttp.v), for EVERY handler script ----
   the minifier is picked at the first Write from the Content-Type header, falling back to the type of the request path's
   extension; the body is what the plain call produces for that media type on the concatenation of the written chunks
   (however the handler splits them); no Content-Length is sent (unless the handler puts one back after its first
   Write); Close reports the minifier's error; without a minifier the body passes through unchanged. *)
Theorem middleware_minifies : forall matchf ext_mt run script mt id,
  selected ext_mt script = Some mt -> matchf mt = Some id ->
  body (serve matchf ext_mt run script) = run id mt (written script) /\ z (serve matchf ext_mt run script) = Mini id mt /\ (no_setcl_after_first_write script = true -> sent (serve matchf ext_mt run script) = Some false).
Proof. exact StreamHttpProofs.middleware_minifies. Qed.
Print Assumptions middleware_minifies.

Theorem middleware_passes_through : forall matchf ext_mt run script mt,
  selected ext_mt script = Some mt -> matchf mt = None ->
  body (serve matchf ext_mt run script) = written script /\ z (serve matchf ext_mt run script) = Pass.
Proof. exact StreamHttpProofs.middleware_passes_through. Qed.
Print Assumptions middleware_passes_through.

Theorem middleware_reports_error : forall matchf ext_mt runerr script mt id,
  selected ext_mt script = Some mt -> matchf mt = Some id ->
  close_err matchf ext_mt runerr script = runerr id mt (written script).
Proof. exact StreamHttpProofs.middleware_reports_error. Qed.
Print Assumptions middleware_reports_error.

Theorem middleware_chunking_irrelevant : forall matchf ext_mt run s1 s2 mt id,
  selected ext_mt s1 = Some mt -> selected ext_mt s2 = Some mt -> matchf mt = Some id ->
  written s1 = written s2 -> body (serve matchf ext_mt run s1) = body (serve matchf ext_mt run s2).
Proof. exact StreamHttpProofs.middleware_chunking_irrelevant. Qed.
Print Assumptions middleware_chunking_irrelevant.

Theorem chunking_irrelevant : forall sk f on_read_error cs cs' wf, concat cs = concat cs' ->
  entry_minify sk f on_read_error (map Chunk cs) wf = entry_minify sk f on_read_error (map Chunk cs') wf /\
  entry_reader sk f on_read_error (map Chunk cs) = entry_reader sk f on_read_error (map Chunk cs') /\
  entry_writer sk f on_read_error cs wf = entry_writer sk f on_read_error cs' wf.
Proof. exact StreamProofs.chunking_irrelevant. Qed.
Print Assumptions chunking_irrelevant.

Theorem entry_points_agree : forall sk f on_read_error cs v, concat cs = v ->
  let plain := entry_minify sk f on_read_error [Chunk v] None in
  entry_minify sk f on_read_error (map Chunk cs) None = plain /\
  entry_reader sk f on_read_error (map Chunk cs) = plain /\
  entry_writer sk f on_read_error cs None = plain /\
  (fst plain = ROk -> entry_bytes sk f v = plain) /\
  (forall e, fst plain = RErr e -> entry_bytes sk f v = (RErr e, v)).
Proof. exact StreamProofs.entry_points_agree. Qed.
Print Assumptions entry_points_agree.

Theorem writer_no_deadlock : forall chunks s, reach (init chunks) s -> returned s = false -> exists s', step s s'.
Proof. intros chunks s H. apply (progress chunks). apply inv_reach. exact H. Qed.
Print Assumptions writer_no_deadlock.

Theorem writer_terminates : forall chunks s s', reach (init chunks) s -> step s s' -> (measure s' < measure s)%nat.
Proof. intros chunks s s' H. apply (step_decreases chunks). apply inv_reach. exact H. Qed.
Print Assumptions writer_terminates.

Theorem writer_close_delivers : forall chunks s, reach (init chunks) s -> returned s = true ->
  (g s = GDone false /\ acc s = concat chunks /\ cur s = None /\ left s = []) \/ (g s = GDone true /\ acc s = []).
Proof. exact close_delivers. Qed.
Print Assumptions writer_close_delivers.

Theorem writer_maximal_schedule_returns : forall chunks s,
  reach (init chunks) s -> (forall s', ~ step s s') -> returned s = true.
Proof. exact maximal_returned. Qed.
Print Assumptions writer_maximal_schedule_returns.

(* non-vacuity: a two-chunk producer (one chunk empty) can run to completion with everything delivered *)
Local Notation mk l c p a gg r := {| left := l; cur := c; pclosed := p; acc := a; g := gg; returned := r |} (only parsing).
Example writer_run_nonvacuous :
  exists s, reach (init [[7]; []]) s /\ returned s = true /\ g s = GDone false /\ acc s = [7].
Proof.
  exists (mk [] None true [7] (GDone false) true). split; [|auto].
  apply (reach_step _ (mk [] None true [7] (GDone false) false));
    [|apply (SCloseReturns (mk [] None true [7] (GDone false) false) false); reflexivity].
  apply (reach_step _ (mk [] None true [7] GReading false));
    [|apply (SEof (mk [] None true [7] GReading false)); reflexivity].
  apply (reach_step _ (mk [] None false [7] GReading false));
    [|apply (SClose (mk [] None false [7] GReading false)); reflexivity].
  apply (reach_step _ (mk [] (Some []) false [7] GReading false));
    [|apply (SRendezvousEmpty (mk [] (Some []) false [7] GReading false)); reflexivity].
  apply (reach_step _ (mk [[]] None false [7] GReading false));
    [|apply (SWriteStart (mk [[]] None false [7] GReading false) [] []); reflexivity].
  apply (reach_step _ (mk [[]] (Some [7]) false [] GReading false));
    [|apply (SRendezvous (mk [[]] (Some [7]) false [] GReading false) [7] 1); [reflexivity|reflexivity|simpl; lia]].
  apply (reach_step _ (init [[7]; []])); [apply reach_refl|apply (SWriteStart (init [[7]; []]) [7] [[]]); reflexivity].
Qed.
