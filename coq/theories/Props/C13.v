(* Property C13 — a shared minifier registry is safe and deterministic under concurrency.
   Model: Conc/ConcModel.v — N goroutines, each running a sequence of atomic steps on its OWN local state while only
   READING the shared state (registry maps, tables, option structs); the registry lock is a sync.RWMutex with Go's
   writer preference.  The premise "no step writes shared state" is a fact about the code: it is regenerated from the
   source on every run (coq/gen/SharedWrites_gen.v: every statement outside init that assigns, increments or appends to a
   package-level variable, and every write through the pointer receiver of a Minify method before the option struct was
   copied) and checked by shared_writes_ok: the only sites are append(<package-level slice>, ...) whose base has
   len = cap (a literal), so append copies and never writes the shared array.
   Proved, for every number of goroutines and EVERY schedule:
     interleaving_deterministic : the final state of each call depends only on how many of its own steps ran, not on the
        interleaving — so a concurrent run gives each call the result of a sequential run (schedules_agree);
     no_writer_no_block : while no registration is in flight (the property's stated domain), in every reachable state of
        the lock RLock is enabled — no call waits for another, also when embedded content re-enters the registry
        (nested RLock);  nested_rlock_excluded_case : with a registration waiting, a nested RLock does block — the
        documented exclusion is necessary.
   Tie: generated facts (T-gen) + the harness runs one registered registry from 2/8/64 goroutines through every entry point
   UNDER THE RACE DETECTOR, compares every result with the sequential one and every option struct with a deep copy.
   Not modelled: the Go memory model itself (data races are observable only to the race detector). *)
From MVGen Require Import SharedWrites_gen.
From MV Require Import Base.MvBytes Conc.ConcModel Conc.ConcProofs.

Theorem interleaving_deterministic : forall (shared local : Type) (tstep : shared -> local -> local) s sc ls i li,
  nth_error ls i = Some li ->
  nth_error (run_sched shared local tstep s ls sc) i = Some (Nat.iter (count_occ Nat.eq_dec sc i) (tstep s) li).
Proof. intros. apply interleaving_irrelevant. assumption. Qed.
Print Assumptions interleaving_deterministic.

Theorem schedules_agree : forall (shared local : Type) (tstep : shared -> local -> local) s sc sc' ls,
  (forall i, count_occ Nat.eq_dec sc i = count_occ Nat.eq_dec sc' i) ->
  forall i, nth_error (run_sched shared local tstep s ls sc) i = nth_error (run_sched shared local tstep s ls sc') i.
Proof. intros. apply ConcProofs.schedules_agree. assumption. Qed.
Print Assumptions schedules_agree.

Theorem no_writer_no_block : forall ops m',
  forallb is_read_op ops = true -> rw_run rw_init ops = Some m' -> rw_enabled m' RLock = true.
Proof. exact ConcProofs.no_writer_no_block. Qed.
Print Assumptions no_writer_no_block.

Theorem nested_rlock_excluded_case : exists m, rw_run rw_init [RLock; LockRequest] = Some m /\ rw_enabled m RLock = false.
Proof. exact ConcProofs.nested_rlock_blocks_with_waiting_writer. Qed.
Print Assumptions nested_rlock_excluded_case.

(* the frame premise on the CURRENT source: no assignment / increment of a package-level variable outside init, no write
   through an un-copied option struct; only appends to package-level slices remain *)
Definition benign (w : shared_write) : bool := match sw_kind_of w with AppendGlobal => true | _ => false end.
Example shared_writes_ok : forallb benign shared_writes = true.
Proof. vm_compute. reflexivity. Qed.

(* the lock protocol on the CURRENT source (minify.go): only the registration functions Add* take the write lock; the
   entry points that look the registry up (Match, MinifyMimetype) take the read lock — the premise of no_writer_no_block *)
Definition starts_with_Add (n : bytes) : bool := match n with 65 :: 100 :: 100 :: _ => true | _ => false end.
Example registry_lock_protocol_ok :
  forallb starts_with_Add registry_write_lock_funcs && negb (existsb starts_with_Add registry_read_lock_funcs) &&
  existsb (beqb [77; 97; 116; 99; 104]) registry_read_lock_funcs &&
  existsb (beqb [77; 105; 110; 105; 102; 121; 77; 105; 109; 101; 116; 121; 112; 101]) registry_read_lock_funcs = true.
Proof. vm_compute. reflexivity. Qed.

(* non-vacuity: two goroutines, three steps, two different schedules *)
Example schedules_nonvacuous :
  run_sched unit nat (fun _ x => S x) tt [0; 10]%nat [0; 1; 0]%nat = run_sched unit nat (fun _ x => S x) tt [0; 10]%nat [1; 0; 0]%nat.
Proof. vm_compute. reflexivity. Qed.
