(* Property C14 — I/O failures surface as errors, never as silent truncation or deadlock.
   Model: Stream/StreamModel.v. A package-level Minify is abstracted by its I/O skeleton (does every success return
   pass the final probe write; is the lexer's non-EOF error returned), REGENERATED from the six Minify methods of
   /repo on every run (translator -> coq/gen/IoSkeleton_gen.v), and by its run (payloads of its Write calls + how it
   ends). Proved for every input, every k and every run:
     skeletons_ok : on the current tree every `return nil` of the six Minify methods is reachable only after the probe
        `if _, err := w.Write(nil); err != nil { return err }`, and the lexer's error is returned when it is not io.EOF
        (js: the parser's error is returned);
     reader_failure_surfaces : a reader failing after any number of bytes (any chunking before it) makes Minify and the
        Reader wrapper return that error — under the front-end fact that a failed io.ReadAll yields an empty input
        whose Err() is the read error (section hypothesis read_error_run; the harness checks it for every k);
     writer_failure_surfaces : a writer failing from its k-th call on (and keeping failing) makes Minify return the
        writer's error whenever k <= number of write calls including the probe; a later k changes nothing;
     delivered_prefix : what the writer accepted is a prefix of the full output (no silent corruption);
   Close of the Writer wrapper always returns: C12's writer_no_deadlock / writer_terminates. *)
From MV Require Import Base.MvBytes Stream.StreamModel Stream.StreamProofs.
From MVGen Require Import IoSkeleton_gen.

Definition sk_ok (k : io_skeleton) : bool :=
  Nat.eqb (returns_nil k) (returns_nil_after_probe k) && Nat.leb 1 (probe_sites k) && Nat.leb 1 (returns_nil k) &&
  ((Nat.leb 1 (returns_err_call k) && Nat.leb 1 (eof_guards k)) || (beqb (sk_pkg k) [106; 115] && Nat.leb 1 (returns_other k))).

Theorem skeletons_ok : length io_skeletons = 6%nat /\ forall k, In k io_skeletons -> sk_ok k = true.
Proof. split; [reflexivity|]. apply forallb_forall. vm_compute. reflexivity. Qed.
Print Assumptions skeletons_ok.

Theorem reader_failure_surfaces : forall sk f on_read_error,
  (forall e, on_read_error e = {| writes := []; fin := EndLexErr e |}) ->
  forall pre e rest, lexer_err_returned sk = true ->
    fst (entry_minify sk f on_read_error (map Chunk pre ++ Fail e :: rest) None) = RErr e /\
    fst (entry_reader sk f on_read_error (map Chunk pre ++ Fail e :: rest)) = RErr e.
Proof. exact StreamProofs.reader_failure_surfaces. Qed.
Print Assumptions reader_failure_surfaces.

Theorem writer_failure_surfaces : forall sk rn k,
  final_probe sk = true -> (forall e, fin rn <> EndEarly e) -> (k <= S (length (writes rn)))%nat ->
  minify_result sk rn (Some k) = RErr werr.
Proof. exact StreamProofs.writer_failure_surfaces. Qed.
Print Assumptions writer_failure_surfaces.

Theorem writer_failure_after_end : forall sk rn k, (S (length (writes rn)) < k)%nat ->
  minify_result sk rn (Some k) = minify_result sk rn None /\ delivered rn (Some k) = delivered rn None.
Proof. exact StreamProofs.writer_failure_after_end. Qed.
Print Assumptions writer_failure_after_end.

Theorem delivered_prefix : forall rn wf, exists rest, concat (writes rn) = delivered rn wf ++ rest.
Proof. exact StreamProofs.delivered_prefix. Qed.
Print Assumptions delivered_prefix.

(* an embedded minifier's failure is returned before the probe: still an error, never success *)
Theorem early_error_is_an_error : forall sk rn wf e, fin rn = EndEarly e -> minify_result sk rn wf = RErr e.
Proof. intros sk rn wf e H. unfold minify_result. rewrite H. reflexivity. Qed.
Print Assumptions early_error_is_an_error.

Example writer_failure_nonvacuous :
  minify_result {| final_probe := true; lexer_err_returned := true |} {| writes := [[1]; [2]]; fin := EndEOF |} (Some 3%nat) = RErr werr /\
  minify_result {| final_probe := true; lexer_err_returned := true |} {| writes := [[1]; [2]]; fin := EndEOF |} (Some 4%nat) = ROk.
Proof. split; reflexivity. Qed.
