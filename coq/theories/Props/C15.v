(* Property C15 — media type dispatch follows the documented matching rules.
   Model: Dispatch/DispatchModel.v (registry as literal table + ordered pattern list, Add*, MinifyMimetype = served,
   Match = match_q; parse.Mediatype transliterated). Regular-expression matching is the section parameter pmatch
   (Go's regexp is trusted; the harness supplies its answers).
   Proved for EVERY registration history h and every mimetype:
     dispatch_refines_spec : who serves a call after history h is exactly: the LAST literal registration for the
        mimetype if any, else the FIRST-registered pattern that matches, else nobody (ErrNotExist);
     match_agrees_with_minify : Match answers exactly what a call would use;
     reregister_replaces : registering a literal type again replaces the earlier minifier.
   The media type split (mimetype up to the first ';' or ' ' from index 3, parameters as key/value pairs) is
   modelled from parse.Mediatype and tied by correspondence; its grammar-level theorem is mediatype_render in
   Dispatch/DispatchProofs.v when present. *)
From MV Require Import Base.MvBytes Dispatch.DispatchModel Dispatch.DispatchProofs.

Theorem dispatch_refines_spec : forall pmatch h mt,
  served pmatch (fold_left reg_step h reg_init) mt = spec pmatch h mt.
Proof. exact served_refines_spec. Qed.
Print Assumptions dispatch_refines_spec.

Theorem match_agrees_with_minify : forall pmatch r mt,
  served pmatch r mt = match match_q pmatch r mt with MLit id => Some id | MPat _ id => Some id | MNone => None end.
Proof. exact match_agrees. Qed.
Print Assumptions match_agrees_with_minify.

Theorem reregister_replaces : forall pmatch h mt id1 id2 h',
  (forall k id, In (AddLit k id) h' -> k <> mt) ->
  served pmatch (fold_left reg_step (h ++ [AddLit mt id1] ++ [AddLit mt id2] ++ h') reg_init) mt = Some id2.
Proof. exact DispatchProofs.reregister_replaces. Qed.
Print Assumptions reregister_replaces.

(* non-vacuity: overlapping patterns and a literal; pattern 0 matches everything, pattern 1 nothing *)
Example dispatch_nonvacuous :
  let pm := fun (p : nat) (_ : bytes) => Nat.eqb p 0 in
  let h := [AddPat 1 7; AddPat 0 8; AddLit [97;47;98] 9; AddPat 0 10; AddLit [97;47;98] 11] in
  served pm (fold_left reg_step h reg_init) [97;47;98] = Some 11%nat /\
  served pm (fold_left reg_step h reg_init) [120] = Some 8%nat.
Proof. split; reflexivity. Qed.
