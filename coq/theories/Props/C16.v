(* Property C16 — options only restrict minification and are honoured.
   Theorems (each over all inputs of its model; the models are tied to the code by the correspondences of C01-C07/C19):
     HTML  keep_end_tags_honoured / keep_doc_tags_honoured_* : with KeepEndTags every end tag the loop reaches is written,
           with KeepDocumentTags html/head/body tags are written; text_ignores_tag_options: text handling reads
           KeepWhitespace only; keepquotes_honoured: with KeepQuotes a quoted value stays quoted;
           html_keepws_keeps_leading_space; html_words_preserved holds for EVERY option setting (Props/C03.v).
     XML   xml_keepws_keeps_leading_space; xml_runs_preserved holds for both settings (Props/C06.v).
     JSON  json_keepnumbers_identity: with KeepNumbers the output is the compact text with every number lexeme unchanged.
     JS    keep_names_identity: scopes the renamer does not act on (KeepVarNames, with-functions, top level) keep every
           name; version_gates_ok: EVERY site of js/*.go that introduces syntax newer than ES5 — facts regenerated from the
           source on every run — is dominated by a minVersion test of at least the ECMA-262 edition that introduced it,
           and the extraction found all six kinds of site it looks for (gates_complete).
     CLI   cli_flags_reach_every_type: executing run()'s configuration events (regenerated from cmd/minify/main.go)
           symbolically, every flag reaches the option struct of EVERY media type served by its minifier family (value
           copies for php/asp/ejs/go templates are taken after f.Parse()); cli_flag_table_matches_doc: the flag -> field
           table equals the documented one.
   NOT proved — search: every oracle of C01-C07 runs over option products (js: KeepVarNames x Version 5..2022 with a
   scanner for newer syntax; html: all Keep* combinations with keep-* checks; css: KeepCSS2, precision; xml/svg/json
   options), harness/cmd/optcheck runs the real CLI binary with every flag on every type against the library. *)
From Coq Require Import List String ZArith.
Import ListNotations.
From MVGen Require Import Tables_gen JsTables_gen JsGates_gen CliOpts_gen.
From MV Require Import Base.MvBytes.
From MV Require Html.HtmlAttrLoop Html.HtmlAttrLoopProofs Html.HtmlWs Html.HtmlOpts Html.HtmlAttr Html.HtmlAttrProofs Html.HtmlWsProofs Xml.XmlModel Xml.XmlProofs
  Json.JsonModel Json.JsonSpec Json.JsonProofs Js.RenameModel Js.RenameProofs Js.RenameCapture Js.RenameTop Js.PrintGroup Cli.CliOpts.

Section Html.
Import HtmlWs HtmlOpts HtmlAttr.
Theorem keep_end_tags_honoured : forall o omit inpre raw t rest,
  keep_end_tags o = true -> tt t = HEndTag ->
  (negb (keep_doc_tags o) && is_doc_tag t) || name_is t n_colgroup = false ->
  exists ps, minify_pieces o omit inpre raw 0 (t :: rest) = PTag (end_tag_bytes t) t :: ps.
Proof. exact HtmlOpts.keep_end_tags_honoured. Qed.
Theorem keep_doc_tags_honoured_end : forall o omit inpre raw t rest,
  keep_doc_tags o = true -> tt t = HEndTag -> is_doc_tag t = true ->
  exists ps, minify_pieces o omit inpre raw 0 (t :: rest) = PTag (end_tag_bytes t) t :: ps.
Proof. exact HtmlOpts.keep_doc_tags_honoured_end. Qed.
Theorem keep_doc_tags_honoured_start : forall o omit inpre raw t rest,
  keep_doc_tags o = true -> tt t = HStartTag -> is_doc_tag t = true ->
  exists om ip rw sk, minify_pieces o omit inpre raw 0 (t :: rest) = PTag (data t ++ [62]) t :: minify_pieces o om ip rw sk rest.
Proof. exact HtmlOpts.keep_doc_tags_honoured_start. Qed.
Theorem text_ignores_tag_options : forall o o' omit inpre raw t rest,
  keepws o = keepws o' -> tt t = HText ->
  match minify_pieces o omit inpre raw 0 (t :: rest), minify_pieces o' omit inpre raw 0 (t :: rest) with
  | p :: _, p' :: _ => p = p'
  | _, _ => False
  end.
Proof. exact HtmlOpts.text_ignores_tag_options. Qed.
Theorem keepquotes_honoured : forall b orig, (orig = 34 \/ orig = 39) ->
  exists q body, (q = 34 \/ q = 39) /\ html_escape_attr_val b orig true = [q] ++ body ++ [q].
Proof. exact HtmlAttrProofs.mustquote_keeps_quotes. Qed.
Theorem html_keepws_keeps_leading_space : forall o t rest,
  tt t = HText -> data t <> [] -> (2 <= length (data t))%nat -> starts_ws (data t) = true ->
  exists p ps, minify_pieces o false false false 0 (t :: rest) = PText p :: ps /\ starts_ws p = true.
Proof. exact HtmlWsProofs.keepws_keeps_leading_space. Qed.
End Html.
Print Assumptions keep_end_tags_honoured.
Print Assumptions keep_doc_tags_honoured_end.
Print Assumptions keep_doc_tags_honoured_start.
Print Assumptions text_ignores_tag_options.
Print Assumptions keepquotes_honoured.
Print Assumptions html_keepws_keeps_leading_space.

Section HtmlAttrs.
Import HtmlAttrLoop.
(* KeepDefaultAttrVals: no attribute is dropped for having its default value; KeepQuotes: a quoted value stays quoted *)
Theorem keep_default_attrvals_honoured : forall o tag a, keep_default o = true -> attr_out o tag a = [] ->
  attr_value a = [] /\ empty_omitted tag (a_name a) = true.
Proof. exact HtmlAttrLoopProofs.keep_default_attrvals_honoured. Qed.
Theorem keep_quotes_honoured_in_loop : forall o tag a,
  keep_quotes o = true -> (a_quote a = 34 \/ a_quote a = 39) -> attr_value a <> [] -> is_boolean_attr (a_name a) = false -> attr_out o tag a <> [] ->
  exists q body, (q = 34 \/ q = 39) /\ attr_out o tag a = [32] ++ a_name a ++ [61] ++ [q] ++ body ++ [q].
Proof. exact HtmlAttrLoopProofs.keep_quotes_honoured_in_loop. Qed.
End HtmlAttrs.
Print Assumptions keep_default_attrvals_honoured.
Print Assumptions keep_quotes_honoured_in_loop.

Section Xml.
Import XmlModel.
Theorem xml_keepws_keeps_leading_space : forall t rest d,
  tt t = XText -> data t = d -> d <> [] ->
  exists p ps, minify_pieces true false 0 (t :: rest) = PText p :: ps /\
    (starts_with_ws d = true -> (2 <= length d)%nat -> starts_with_ws p = true).
Proof. exact XmlProofs.keepws_after_tag_keeps_leading_space. Qed.
End Xml.
Print Assumptions xml_keepws_keeps_leading_space.

Section Json.
Import JsonModel JsonSpec.
Theorem json_keepnumbers_identity : forall v, wf_jvalue v ->
  json_minify_events true (events_of SValue v) = compact (fun l => l) v.
Proof. exact JsonProofs.json_keepnumbers_identity. Qed.
End Json.
Print Assumptions json_keepnumbers_identity.

Section Js.
Import RenameModel RenameProofs RenameCapture PrintGroup.
Theorem keep_names_identity : forall start cont keywords prog orig,
  (forall sc, In sc prog -> srename sc = false) -> forall v, final start cont keywords prog orig v = orig v.
Proof. exact RenameTop.keep_names_identity_closed. Qed.
Theorem version_gates_ok : forall s, In s js_version_gates -> gate_ok s = true.
Proof. apply forallb_forall. vm_compute. reflexivity. Qed.
Theorem version_gates_complete : gates_complete = true.
Proof. vm_compute. reflexivity. Qed.
End Js.
Print Assumptions keep_names_identity.
Print Assumptions version_gates_ok.
Print Assumptions version_gates_complete.

Section Cli.
Import CliOpts.
Theorem cli_flags_reach_every_type : cli_flags_reach cli_events = true /\ cli_nested_events = 0%nat.
Proof. vm_compute. split; reflexivity. Qed.
Theorem cli_flag_table_matches_doc : cli_flag_table_ok cli_events = true.
Proof. vm_compute. reflexivity. Qed.
End Cli.
Print Assumptions cli_flags_reach_every_type.
Print Assumptions cli_flag_table_matches_doc.
