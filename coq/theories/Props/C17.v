(* Property C17 — built-in replacement tables agree with the standards.
   The tables are REGENERATED from /repo's sources on every run (translator -> coq/gen/Tables_gen.v) and the
   theorems below are re-checked against them; the domain is finite (the table itself), so each statement is
   "for every entry of the current table", proved by evaluating a boolean check on all entries (vm_compute) and
   lifting it with forallb_forall. References: Ref/RefHtml5Entities.v (2229 names, from Go's html package and
   x/net/html), Ref/RefCssColors.v (148 CSS Color 4 keywords), Ref/RefHtmlLists.v (HTML/CSS standard lists).
   Known finding K21 (ShortenColorName[lightslateblue] — not a CSS colour) is excluded by name from
   color_names_ok and exhibited by color_name_lightslateblue_refuted. *)
From MV Require Import Base.MvBytes Ref.RefHtml5Entities Ref.RefCssColors Ref.RefHtmlLists Tables.TablesCheck.
From MVGen Require Import Tables_gen.
From Coq Require Import String.
Open Scope Z_scope.

(* every named character reference replacement decodes to the same text and is not longer *)
Theorem html_entities_ok : forall e, In e html_entities -> entity_ok e = true /\ entity_shorter e = true.
Proof.
  intros e H. split; revert e H; apply forallb_forall; vm_compute; reflexivity.
Qed.
Print Assumptions html_entities_ok.

Theorem html_rev_entities_ok : forall e, In e html_text_rev_entities -> rev_entity_ok e = true.
Proof. apply forallb_forall. vm_compute. reflexivity. Qed.
Print Assumptions html_rev_entities_ok.

Theorem xml_entities_ok : (forall e, In e xml_entities -> xml_entity_ok e = true) /\
                          (forall e, In e xml_text_rev_entities -> xml_rev_entity_ok e = true).
Proof. split; apply forallb_forall; vm_compute; reflexivity. Qed.
Print Assumptions xml_entities_ok.

(* xml/table.go AttrRevEntitiesMap: every escape decodes to exactly its byte, and < & TAB LF CR all have one *)
Theorem xml_attr_rev_entities_ok : (forall e, In e xml_attr_rev_entities -> xml_attr_rev_entity_ok e = true) /\
                                   xml_attr_rev_complete xml_attr_rev_entities = true.
Proof. split; [apply forallb_forall|]; vm_compute; reflexivity. Qed.
Print Assumptions xml_attr_rev_entities_ok.

(* each hex -> keyword pair denotes the same sRGB colour, the keyword is a real CSS colour and not longer *)
Theorem color_hex_entries_ok : forall e, In e css_shorten_color_hex -> color_hex_ok e = true.
Proof. apply forallb_forall. vm_compute. reflexivity. Qed.
Print Assumptions color_hex_entries_ok.

Definition known_bad_color_names : list bytes := [s "lightslateblue"%string].
Theorem color_names_ok : forall e, In e css_shorten_color_name ->
  mem (fst e) known_bad_color_names = false -> color_name_ok e = true.
Proof.
  assert (H : forallb (fun e => mem (fst e) known_bad_color_names || color_name_ok e) css_shorten_color_name = true)
    by (vm_compute; reflexivity).
  rewrite forallb_forall in H. intros e He Hk. specialize (H e He). rewrite Hk in H. exact H.
Qed.
Print Assumptions color_names_ok.

Theorem color_name_lightslateblue_refuted :
  exists e, In e css_shorten_color_name /\ lookup (fst e) ref_colors = None.
Proof. exists (s "lightslateblue"%string, [35; 55; 56; 57]). split; [|reflexivity]. vm_compute. tauto. Qed.
Print Assumptions color_name_lightslateblue_refuted.

(* traits: boolean / URL attributes, raw-text elements, whitespace-dropping elements, zero units, svg colour attrs, js types *)
Theorem trait_tables_ok :
  subset (names_with trait_booleanAttr html_attr_traits) ref_boolean_attrs = true /\
  subset (names_with trait_urlAttr html_attr_traits) ref_url_attrs = true /\
  subset (names_with trait_rawTag html_tag_traits) ref_raw_text_elements = true /\
  subset (names_with trait_blockTag html_tag_traits) ref_block_like_elements = true /\
  subset (map fst css_zero_dimensions) ref_length_angle_units = true /\
  subset (map fst svg_color_attrs) ref_svg_color_attrs = true /\
  subset (map fst html_js_mimetypes) ref_js_mimetypes = true.
Proof. vm_compute. repeat split; reflexivity. Qed.
Print Assumptions trait_tables_ok.

(* non-vacuity: the tables are not empty and contain the expected kind of entries *)
Example tables_nonvacuous :
  (1000 < List.length html_entities)%nat /\ lookup (s "Aacute"%string) html_entities = Some (s "&#193;"%string) /\
  (25 < List.length css_shorten_color_hex)%nat /\ (10 < List.length (names_with trait_blockTag html_tag_traits))%nat /\
  (20 < List.length (names_with trait_booleanAttr html_attr_traits))%nat.
Proof. vm_compute. repeat split; lia. Qed.
