(* Property C18 — data URI and media type helpers preserve what they encode.
   Models (DataUri/DataUriModel.v): the re-encoding half of minify.DataURI (length comparison of original /
   base64 / percent-encoded forms, choice, default-parameter stripping; base64.StdEncoding and parse.EncodeURL with
   parse.DataURIEncodingTable written out) and an F1 transliteration of minify.Mediatype.
   Spec (DataUri/DataUriSpec.v): RFC 3986 percent-decoding ('+' stays '+') and RFC 4648 base64 decoding.
   Proved, for EVERY payload over all 256 byte values and every media type:
     percent_roundtrip, base64_roundtrip : the emitted payload decodes to exactly the bytes that were encoded;
     datauri_result_shape : the result is either the original argument (only when it is shorter than both encodings),
        or data:<stripped mediatype>[;base64],<payload> with the payload in the encoding whose total is shorter
        (ties go to percent-encoding), and that payload decodes to the given bytes;
     percent_length / base64_length : the two lengths the choice is made from are the real lengths.
   Not proved (decided by correspondence + oracle only): the decoding half (parse.DataURI, DecodeURL: dependency, run
   by the harness — known finding K40 '+' and K49 live there), that Mediatype (F1) equals strip-and-lowercase outside
   quotes (checked against an independent Go reference on generated strings), and "never longer" — which is false
   of the code: known finding K50. *)
From MV Require Import Base.MvBytes DataUri.DataUriModel DataUri.DataUriSpec DataUri.DataUriProofs DataUri.MediatypeProofs.

Theorem percent_roundtrip : forall d, bytes_ok d -> pct_decode (pct_encode d) = d.
Proof. exact pct_roundtrip. Qed.
Print Assumptions percent_roundtrip.

Theorem base64_roundtrip : forall d, bytes_ok d -> b64_decode (b64_encode d) = Some d.
Proof. exact b64_roundtrip. Qed.
Print Assumptions base64_roundtrip.

Theorem percent_length : forall d, zlen (pct_encode d) = zlen d + 2 * count_escapes d.
Proof. exact pct_encode_len. Qed.
Print Assumptions percent_length.

Theorem base64_length : forall d, zlen (b64_encode d) = 4 * ((zlen d + 2) / 3).
Proof. exact b64_encode_len. Qed.
Print Assumptions base64_length.

Theorem datauri_result_shape : forall orig mt data, bytes_ok data ->
  let out := datauri_encode orig mt data in
  (out = orig /\ zlen orig < 7 + zlen (b64_encode data) /\ zlen orig < zlen (pct_encode data)) \/
  (out = data_colon ++ strips (mt ++ semi_base64) ++ [44] ++ b64_encode data /\
     b64_decode (b64_encode data) = Some data /\ 7 + zlen (b64_encode data) < zlen (pct_encode data)) \/
  (out = data_colon ++ strips mt ++ [44] ++ pct_encode data /\
     pct_decode (pct_encode data) = data /\ zlen (pct_encode data) <= 7 + zlen (b64_encode data)).
Proof. exact datauri_shape. Qed.
Print Assumptions datauri_result_shape.

(* "never returns more bytes than it was given for validly encoded input" is false of the faithful model:
   data:text/css,a&b&c&d  (21 bytes, '&' is valid raw in a URI)  ->  data:text/css,a%26b%26c%26d  (27 bytes) *)
Theorem datauri_never_longer_refuted :
  exists orig mt data, bytes_ok data /\ pct_decode (skipn 14 orig) = data /\
    (length (datauri_encode orig mt data) > length orig)%nat.
Proof.
  exists [100;97;116;97;58;116;101;120;116;47;99;115;115;44;97;38;98;38;99;38;100],
         [116;101;120;116;47;99;115;115], [97;38;98;38;99;38;100].
  split; [repeat constructor; unfold byte_ok; lia|]. split; [reflexivity|]. vm_compute. lia.
Qed.
Print Assumptions datauri_never_longer_refuted.

Example datauri_shape_nonvacuous :
  datauri_encode [100;97;116;97;58;59;98;97;115;101;54;52;44;89;87;74;106;90;71;86;109;90;50;103;61]
                 text_plain [97;98;99;100;101;102;103;104]
  = [100;97;116;97;58;44;97;98;99;100;101;102;103;104] (* data:;base64,YWJjZGVmZ2g= -> data:,abcdefgh *).
Proof. vm_compute. reflexivity. Qed.

(* ---------- minify.Mediatype ----------
   The array-style model of the in-place function (write position, pending segment, ToLower on ranges; tied byte for byte with
   the real function on every generated string) EQUALS the plain specification "drop white space and lower-case outside
   double-quoted strings" for every input shorter than the function's own 1024 guard with an even number of quotes — a
   theorem only since the repair of K135 (before, bytes INSIDE a quoted string were lower-cased after dropped white space).
   With an odd number of quotes the tail of the unterminated string is lower-cased too (mediatype_unterminated_string), and
   beyond the guard a long unquoted run keeps its case (MediatypeProofs.guard_needed): both stated exactly. *)
Theorem mediatype_is_strip_and_lower_outside_quotes : forall b : bytes,
  (length b < 1024)%nat -> even_quotes b = true -> mediatype_min b = mt_spec false b.
Proof. exact mediatype_min_spec. Qed.
Print Assumptions mediatype_is_strip_and_lower_outside_quotes.

Theorem mediatype_unterminated_string : forall p s : bytes,
  (length (p ++ 34%Z :: s) < 1024)%nat -> even_quotes p = true -> has_quote s = false ->
  mediatype_min (p ++ 34%Z :: s) = mt_spec false p ++ 34%Z :: map to_lower s.
Proof. exact mediatype_min_odd. Qed.
Print Assumptions mediatype_unterminated_string.

Theorem mediatype_keeps_quoted_strings : forall b : bytes,
  (length b < 1024)%nat -> even_quotes b = true -> quoted false (mediatype_min b) = quoted false b.
Proof. exact mediatype_min_quoted. Qed.
Print Assumptions mediatype_keeps_quoted_strings.

Theorem mediatype_idempotent_and_never_longer : forall b : bytes, (length b < 1024)%nat ->
  mediatype_min (mediatype_min b) = mediatype_min b /\ (length (mediatype_min b) <= length b)%nat.
Proof. intros b H. split; [exact (mediatype_min_idem_any b H) | exact (mediatype_min_length b H)]. Qed.
Print Assumptions mediatype_idempotent_and_never_longer.

(* the K135 witness: the D inside the second quoted string stays *)
Example mediatype_nonvacuous :
  mediatype_min [61;34;88;34;32;113;61;34;97;68;34;34;66;34]%Z = [61;34;88;34;113;61;34;97;68;34;34;66;34]%Z.   (* ="X" q="aD""B" *)
Proof. vm_compute. reflexivity. Qed.
