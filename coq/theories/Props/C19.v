(* Property C19 — the CLI writes the library's output to the right place and never harms inputs.
   What is proved here (models Cli/CliModel.v, Cli/ConcatModel.v; both tied to the code on every run):
   (1) effect of a COMPLETE task, for every file system, every payload and every split of it into write calls:
       the destination holds exactly the payload (= the library's output, or the original bytes when the library
       failed: [payload]); a file minified onto itself ends with the new content and NO leftover backup; every other
       path is unchanged; a failed write restores the original and leaves no backup
       (inplace_task_spec, separate_task_spec, bundle_onto_task_spec, write_failure_restores);
   (2) bundles: the F1 model of concatFileReader delivers exactly the contents of the inputs in order, separated by the
       separator, for EVERY sequence of read-buffer sizes and every pattern of short reads of the underlying files
       (bundle_reader_sound / bundle_reader_correct), and reaches the end of the stream (bundle_reader_complete).
   Ties: (1) the operation lists are compared with strace skeletons of the real command for 18 families of invocation
   shapes (clifs -mode trace); (2) the extracted reader model is compared, Read call by Read call, with the real
   concatFileReader on real files through the verif-tagged test hook cmd/minify/verif_concat_test.go.
   NOT modelled (decided by search only — clifs -mode fs: generated trees x invocation shapes against a reference of the
   documented rules): flag parsing, createTasks / NewTask (which files are selected and where they go), filter
   patterns, attribute preservation, stdin/stdout plumbing. *)
From MV Require Import Base.MvBytes Cli.CliModel Cli.CliProofs Cli.CliFinal Cli.ConcatModel Cli.ConcatProofs Cli.GlobModel Cli.GlobSpec Cli.GlobProofs Cli.PathModel Cli.PathProofs Cli.PathTasks.

Theorem inplace_task_spec : forall p orig r outs f,
  f p = Some orig -> concat outs = payload orig r ->
  let f' := run (ops_of (InPlace p outs)) f in
  f' p = Some (payload orig r) /\ f' (bak p) = None /\ (forall q, q <> p -> q <> bak p -> f' q = f q).
Proof. exact CliFinal.inplace_task_spec. Qed.
Print Assumptions inplace_task_spec.

Theorem separate_task_spec : forall srcs dst input r outs f,
  concat outs = payload input r ->
  let f' := run (ops_of (Separate srcs dst outs)) f in
  f' dst = Some (payload input r) /\ (forall q, q <> dst -> f' q = f q).
Proof. exact CliFinal.separate_task_spec. Qed.
Print Assumptions separate_task_spec.

Theorem bundle_onto_task_spec : forall srcs dst orig input r outs f,
  f dst = Some orig -> concat outs = payload input r ->
  let f' := run (ops_of (BundleOnto srcs dst outs)) f in
  f' dst = Some (payload input r) /\ f' (bak dst) = None /\ (forall q, q <> dst -> q <> bak dst -> f' q = f q).
Proof. exact CliFinal.bundle_onto_task_spec. Qed.
Print Assumptions bundle_onto_task_spec.

Theorem write_failure_restores : forall p orig outs f,
  f p = Some orig ->
  let f' := run (ops_of (InPlaceWriteFails p outs)) f in f' p = Some orig /\ f' (bak p) = None.
Proof. exact CliFinal.write_failure_restores. Qed.
Print Assumptions write_failure_restores.

(* whatever has been delivered so far plus what is still to come is the separated concatenation *)
Theorem bundle_reader_sound : forall sched r d e r',
  cwf r -> read_sched r sched = (d, e, r') ->
  d ++ remaining r' = remaining r /\ (e = true -> remaining r' = []).
Proof. exact ConcatProofs.read_sched_sound. Qed.
Print Assumptions bundle_reader_sound.

Theorem bundle_reader_correct : forall fs sp sched d r',
  read_sched (cr_init fs sp) sched = (d, true, r') -> d = intercalate sp fs.
Proof. exact ConcatProofs.bundle_reader_correct. Qed.
Print Assumptions bundle_reader_correct.

Theorem bundle_reader_complete : forall sched r,
  cwf r -> Forall (fun cw => (0 < fst cw)%nat) sched -> (length (remaining r) < length sched)%nat ->
  exists d r', read_sched r sched = (d, true, r').
Proof. exact ConcatProofs.read_sched_complete. Qed.
Print Assumptions bundle_reader_complete.

(* non-vacuity: three files (one empty), separator ";\n", 2-byte buffers, 1-byte short reads *)
Example bundle_nonvacuous :
  fst (fst (read_sched (cr_init [[97; 98; 99]; []; [100]] [59; 10]) (repeat (2%nat, 1%nat) 12))) = [97; 98; 99; 59; 10; 59; 10; 100].
Proof. vm_compute. reflexivity. Qed.

(* ---------- which files are processed: --match / --include / --exclude ----------
   Cli/GlobModel.v restates compilePattern for glob patterns (regexp.QuoteMeta, then strings.ReplaceAll of \*\* by .* , of \*
   by [^/]* and of \? by [^/] , anchored) and fileFilter; tied on 3,000 cases per run through a verif test hook: the bytes
   of the regular expression the real compilePattern builds, what Go's regexp then matches, and fileFilter's decisions.
   For EVERY pattern (every byte string not starting with ~): the string-level pipeline produces exactly the item-wise
   translation of the glob — no replacement fires on a byte it was not meant for (literal backslashes, dots, three stars, a
   leading \~); the anchored match of those items is the meaning of the glob (Cli/GlobSpec.gmatch: ** any string without a
   line feed, * any string without /, ? exactly one character other than /); and fileFilter accepts a path iff some --match
   pattern (when there is one) matches its base name and the LAST include / exclude pattern matching the path is an include.
   While the model was written, `?` turned out to be compiled to `[^/]?` (zero or one character): K130, repaired.
   Trusted: Go's regexp for the fragment ^ literal .* [^/]* [^/] $ (its matches are compared on every case); `?` matches
   one character in Go and one byte in the model (the same for ASCII names); patterns starting with ~ are regular
   expressions handed to Go's regexp as they are and are outside the model. *)
Theorem glob_compiles_item_by_item : forall g, compile_src g = items_src (glob_tokens g).
Proof. exact compile_src_items. Qed.
Print Assumptions glob_compiles_item_by_item.

Theorem compiled_glob_matches_what_the_glob_means : forall g p,
  glob_matches g p = true <-> gmatch (strip_tilde_escape g) p.
Proof. exact glob_matches_spec. Qed.
Print Assumptions compiled_glob_matches_what_the_glob_means.

Theorem file_filter_decides_as_documented : forall matches filters path,
  file_filter matches filters path = true <->
  ((matches = [] \/ exists g, In g matches /\ glob_matches g (base_name path) = true) /\
   (last_decision filters path = None \/ last_decision filters path = Some true)).
Proof. exact file_filter_spec. Qed.
Print Assumptions file_filter_decides_as_documented.

(* non-vacuity: the README's example — exclude src/*/**, include src/foo/** — and a question mark *)
Example filters_nonvacuous :
  let b := fun (s : list Z) => s in
  let excl := b [115; 114; 99; 47; 42; 47; 42; 42] in                 (* src/*/** *)
  let incl := b [115; 114; 99; 47; 102; 111; 111; 47; 42; 42] in      (* src/foo/** *)
  file_filter [] [(false, excl); (true, incl)] (b [115; 114; 99; 47; 102; 111; 111; 47; 97]) = true /\    (* src/foo/a *)
  file_filter [] [(false, excl); (true, incl)] (b [115; 114; 99; 47; 98; 97; 114; 47; 97]) = false /\     (* src/bar/a *)
  glob_matches (b [97; 63]) (b [97]) = false /\ glob_matches (b [97; 63]) (b [97; 98]) = true.
Proof. vm_compute. repeat split; reflexivity. Qed.

(* ---------- the destination below an output directory ("directory mirror of the input tree") ----------
   Cli/PathModel.v transcribes Go's filepath.Clean / Join / Dir / Rel (Unix) on byte strings and NewTask of main.go: when
   the output argument is "." or ends in a separator the destination is Join(output, Rel(root, input)).  Tied to the real
   functions and to the real NewTask through the verif test hook on ~550 (root, input, output) triples per run.
   For every clean root and input below it (components: non-empty, not "." or "..", no separator; root "." included),
   whatever the output directory is spelled like (relative with leading "..", rooted, with "." / ".." / empty components):
   Rel gives back exactly the components of the input below the root; the destination is the cleaned output directory
   followed by exactly these components — every name kept as it is, hidden files included; two different inputs below one
   root never share a destination; and the destination never leaves the output directory. *)
Theorem rel_gives_the_path_below_root : forall rooted rc rest,
  plain_list rc = true -> plain_list rest = true ->
  rel (show (rooted, rc)) (show (rooted, rc ++ rest)) = Some (show (false, rest)).
Proof. exact T1_rel_prefix. Qed.
Print Assumptions rel_gives_the_path_below_root.

Theorem destination_mirrors_the_input_tree : forall rooted rc rest output,
  plain_list rc = true -> plain_list rest = true -> is_dir_output output = true ->
  new_task_dst (show (rooted, rc)) (show (rooted, rc ++ rest)) output =
    Some (show (fst (cleaned output), snd (cleaned output) ++ rest)).
Proof. exact T3_dst_mirrors. Qed.
Print Assumptions destination_mirrors_the_input_tree.

Theorem no_two_inputs_share_a_destination : forall rooted rc rest1 rest2 output,
  plain_list rc = true -> plain_list rest1 = true -> plain_list rest2 = true -> is_dir_output output = true ->
  new_task_dst (show (rooted, rc)) (show (rooted, rc ++ rest1)) output =
  new_task_dst (show (rooted, rc)) (show (rooted, rc ++ rest2)) output -> rest1 = rest2.
Proof. exact T4_dst_injective. Qed.
Print Assumptions no_two_inputs_share_a_destination.

Theorem destination_stays_below_the_output_directory : forall rooted rc rest output dst,
  plain_list rc = true -> plain_list rest = true -> is_dir_output output = true ->
  new_task_dst (show (rooted, rc)) (show (rooted, rc ++ rest)) output = Some dst ->
  snd (cleaned dst) = snd (cleaned output) ++ rest /\ clean dst = dst.
Proof. exact T5_dst_comps. Qed.
Print Assumptions destination_stays_below_the_output_directory.

Theorem a_file_output_is_taken_as_it_is : forall root input output,
  is_dir_output output = false -> new_task_dst root input output = Some output.
Proof. exact T6_file_output. Qed.
Print Assumptions a_file_output_is_taken_as_it_is.

(* non-vacuity: hidden names keep their dot (the seeded change U19-m3 broke exactly this) *)
Example destinations_nonvacuous :
  new_task_dst [46] [46; 97; 46; 106; 115; 111; 110] [46; 46; 47; 111; 117; 116; 47] =
    Some [46; 46; 47; 111; 117; 116; 47; 46; 97; 46; 106; 115; 111; 110] /\      (* "." ".a.json" "../out/" -> "../out/.a.json" *)
  new_task_dst [115; 114; 99] [115; 114; 99; 47; 115; 117; 98; 47; 46; 98] [111; 117; 116; 47] =
    Some [111; 117; 116; 47; 115; 117; 98; 47; 46; 98].                            (* "src" "src/sub/.b" "out/" -> "out/sub/.b" *)
Proof. vm_compute. split; reflexivity. Qed.

(* which root createTasks derives: root := Clean(Dir(input as typed)), taken BEFORE the input is cleaned — so a directory
   given without a trailing separator is mirrored together with its own name, one given with a trailing separator
   contributes its contents only, and a file given on the command line lands directly in the output directory *)
Theorem directory_input_is_mirrored_with_its_name : forall rooted rc d rest output,
  plain_list rc = true -> plain d = true -> plain_list rest = true -> is_dir_output output = true ->
  let typed := show (rooted, rc ++ [d]) in
  task_root typed = show (rooted, rc) /\
  walked_dst typed (show (rooted, rc ++ [d] ++ rest)) output = Some (show (fst (cleaned output), snd (cleaned output) ++ [d] ++ rest)).
Proof. exact R1_dir_no_slash. Qed.
Print Assumptions directory_input_is_mirrored_with_its_name.

Theorem directory_input_with_trailing_slash_gives_its_contents : forall rooted rc d rest output,
  plain_list rc = true -> plain d = true -> plain_list rest = true -> is_dir_output output = true ->
  let typed := show (rooted, rc ++ [d]) ++ [47] in
  task_root typed = show (rooted, rc ++ [d]) /\
  walked_dst typed (show (rooted, rc ++ [d] ++ rest)) output = Some (show (fst (cleaned output), snd (cleaned output) ++ rest)).
Proof. exact R2_dir_slash. Qed.
Print Assumptions directory_input_with_trailing_slash_gives_its_contents.

Theorem file_input_lands_in_the_output_directory : forall rooted rc f output,
  plain_list rc = true -> plain f = true -> is_dir_output output = true ->
  file_dst (show (rooted, rc ++ [f])) output = Some (show (fst (cleaned output), snd (cleaned output) ++ [f])).
Proof. exact R3_file. Qed.
Print Assumptions file_input_lands_in_the_output_directory.
