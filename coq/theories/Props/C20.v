(* Property C20 — killing the CLI at any instant never loses the user's only copy.
   Model: Cli/CliModel.v — per task shape, the list of file-system mutating system calls that minify(t Task) of
   cmd/minify/main.go performs (rename to .bak when source and destination are the same file, open-with-truncate,
   write calls, unlink of the backup; on a failed write: unlink destination, rename backup back), over a file
   system path -> option bytes. A kill point is a prefix of that list (the process dies between two calls); the
   output may be split into ANY list of write payloads, so kills in the middle of the output are covered.
   Proved for every file content, every output, every split into writes and EVERY prefix length k:
     crash_safe_inplace, crash_safe_inplace_write_fails, crash_safe_bundle_onto :
        the original bytes are at p, or at p.bak, or p holds the complete new output;
     separate_sources_untouched, inplace_others_untouched, bundle_other_sources_untouched :
        files that are only read (and every other path) are never modified.
   Tie: the operation lists of the model are compared with strace skeletons of the real command for every task shape
   (clifs -mode trace), and real SIGKILLs at every traced system call check the disk afterwards (clifs -mode crash).
   Not modelled: power loss / page cache durability (the property is about killing the process). *)
From MV Require Import Base.MvBytes Cli.CliModel Cli.CliProofs.

Theorem crash_safe_inplace : forall p orig outs f k,
  f p = Some orig -> safe orig (concat outs) p (run (firstn k (ops_of (InPlace p outs))) f).
Proof. exact CliProofs.crash_safe_inplace. Qed.
Print Assumptions crash_safe_inplace.

Theorem crash_safe_inplace_write_fails : forall p orig outs f k,
  f p = Some orig -> safe orig (concat outs) p (run (firstn k (ops_of (InPlaceWriteFails p outs))) f).
Proof. exact CliProofs.crash_safe_inplace_write_fails. Qed.
Print Assumptions crash_safe_inplace_write_fails.

Theorem crash_safe_bundle_onto : forall srcs dst orig outs f k,
  f dst = Some orig -> safe orig (concat outs) dst (run (firstn k (ops_of (BundleOnto srcs dst outs))) f).
Proof. exact CliProofs.crash_safe_bundle_onto. Qed.
Print Assumptions crash_safe_bundle_onto.

Theorem separate_sources_untouched : forall srcs dst outs f k q,
  q <> dst -> run (firstn k (ops_of (Separate srcs dst outs))) f q = f q.
Proof. exact CliProofs.separate_sources_untouched. Qed.
Print Assumptions separate_sources_untouched.

Theorem inplace_others_untouched : forall p outs f k q,
  q <> p -> q <> bak p -> run (firstn k (ops_of (InPlace p outs))) f q = f q.
Proof. exact CliProofs.inplace_others_untouched. Qed.
Print Assumptions inplace_others_untouched.

Theorem bundle_other_sources_untouched : forall srcs dst outs f k q,
  q <> dst -> q <> bak dst -> run (firstn k (ops_of (BundleOnto srcs dst outs))) f q = f q.
Proof. exact CliProofs.bundle_other_sources_untouched. Qed.
Print Assumptions bundle_other_sources_untouched.

(* non-vacuity: a kill in the middle of a two-write output leaves the original in the backup *)
Example crash_nonvacuous :
  let p := [97] in let f := fun q => if beqb q p then Some [1; 2; 3] else None in
  let f' := run (firstn 3 (ops_of (InPlace p [[9]; [8]]))) f in
  f' p = Some [9] /\ f' (bak p) = Some [1; 2; 3].
Proof. vm_compute. auto. Qed.
