(* Ref/RefHtmlLists.v — hand-written reference lists from the HTML Living Standard and CSS specifications.
   PINNED, independent of /repo. Names are lower-case byte strings (written with [s "..."] for readability). *)
From MV Require Import Base.MvBytes.
From Coq Require Import String Ascii.

Fixpoint s (x : string) : bytes :=
  match x with
  | EmptyString => []
  | String a r => Z.of_nat (nat_of_ascii a) :: s r
  end.

(* HTML Living Standard, "boolean attributes" (attributes index) *)
Definition ref_boolean_attrs : list bytes := map s [
  "allowfullscreen"; "async"; "autofocus"; "autoplay"; "checked"; "controls"; "default"; "defer"; "disabled";
  "formnovalidate"; "inert"; "ismap"; "itemscope"; "loop"; "multiple"; "muted"; "nomodule"; "novalidate"; "open";
  "playsinline"; "readonly"; "required"; "reversed"; "selected"; "shadowrootdelegatesfocus"; "shadowrootclonable";
  "shadowrootserializable"; "alpha"; "hidden" (* enumerated but boolean-like; not used as boolean by the minifier *)
]%string.

(* attributes whose value is a (valid) URL — HTML attributes index, incl. obsolete ones and xmlns (a namespace IRI) *)
Definition ref_url_attrs : list bytes := map s [
  "action"; "cite"; "data"; "formaction"; "href"; "itemid"; "manifest"; "poster"; "src"; "profile"; "background";
  "codebase"; "classid"; "longdesc"; "usemap"; "icon"; "xmlns"; "ping"; "itemtype"; "archive"
]%string.

(* raw text elements (script, style), escapable raw text elements (textarea, title) and the obsolete raw-text-like
   elements the tokenizer switches states for (iframe, noembed, noframes, noscript with scripting, xmp, plaintext) *)
Definition ref_raw_text_elements : list bytes := map s [
  "script"; "style"; "textarea"; "title"; "iframe"; "noembed"; "noframes"; "noscript"; "xmp"; "plaintext";
  (* foreign-content roots: their subtree is not HTML text at all and is handed as a unit to another minifier (C11) *)
  "svg"; "math"
]%string.

(* elements whose boundary makes adjacent white space insignificant for rendering: UA style sheet display
   block / list-item / table parts / none (not rendered), plus br (line break); HTML Living Standard, Rendering section *)
Definition ref_block_like_elements : list bytes := map s [
  (* display: block *)
  "address"; "article"; "aside"; "blockquote"; "body"; "center"; "dd"; "details"; "dialog"; "dir"; "div"; "dl"; "dt";
  "fieldset"; "figcaption"; "figure"; "footer"; "form"; "h1"; "h2"; "h3"; "h4"; "h5"; "h6"; "header"; "hgroup"; "hr";
  "html"; "legend"; "listing"; "main"; "menu"; "nav"; "ol"; "optgroup"; "option"; "p"; "plaintext"; "pre"; "search";
  "section"; "summary"; "ul"; "xmp"; "frameset"; "frame";
  (* display: list-item *)
  "li";
  (* table parts *)
  "table"; "caption"; "colgroup"; "col"; "thead"; "tbody"; "tfoot"; "tr"; "td"; "th";
  (* display: none / not rendered *)
  "area"; "base"; "basefont"; "datalist"; "head"; "link"; "meta"; "noembed"; "noframes"; "param"; "rp"; "script";
  "style"; "template"; "title"; "source"; "track"; "noscript";
  (* line break *)
  "br"; "wbr"
]%string.

(* CSS Values: length units and angle units (a zero may be written without unit for <length>; <angle> zero is
   accepted unitless in the legacy contexts the minifier targets) *)
Definition ref_length_angle_units : list bytes := map s [
  "em"; "rem"; "ex"; "rex"; "cap"; "rcap"; "ch"; "rch"; "ic"; "ric"; "lh"; "rlh";
  "vw"; "vh"; "vi"; "vb"; "vmin"; "vmax"; "svw"; "svh"; "lvw"; "lvh"; "dvw"; "dvh";
  "cm"; "mm"; "q"; "in"; "pt"; "pc"; "px";
  "deg"; "grad"; "rad"; "turn"
]%string.

(* SVG presentation attributes whose value is a <paint> or <color> *)
Definition ref_svg_color_attrs : list bytes := map s [
  "color"; "fill"; "stroke"; "stop-color"; "flood-color"; "lighting-color"
]%string.

(* JavaScript MIME type essence matches (HTML Living Standard / MIME Sniffing) *)
Definition ref_js_mimetypes : list bytes := map s [
  "application/ecmascript"; "application/javascript"; "application/x-ecmascript"; "application/x-javascript";
  "text/ecmascript"; "text/javascript"; "text/javascript1.0"; "text/javascript1.1"; "text/javascript1.2";
  "text/javascript1.3"; "text/javascript1.4"; "text/javascript1.5"; "text/jscript"; "text/livescript";
  "text/x-ecmascript"; "text/x-javascript"
]%string.
