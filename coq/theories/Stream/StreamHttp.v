(* Stream/StreamHttp.v — model of responseWriter / Middleware of /repo/minify.go.
   A handler is a script of calls on the wrapped http.ResponseWriter: set/delete the Content-Type and Content-Length
   headers, WriteHeader(status), Write(chunk); the middleware calls Close() after the handler returned.
   The underlying ResponseWriter (net/http, httptest) sends the header map as it is at the first WriteHeader — explicit,
   or implicit at the first body Write — and ignores later changes: [sent] records whether a Content-Length was in that
   snapshot.  The minifier is chosen at the FIRST Write: from the Content-Type header if it is non-empty, else from the
   media type derived from the request path's extension ([ext_mt]); [matchf] is M.Match (C15's model).
   When a minifier was chosen the chunks go into a pipe to the goroutine (StreamPipe.v: everything written is read, in
   order, before Close returns) and the minifier writes to the underlying writer; its first Write (also the empty probe
   write) sends the header. *)
From MV Require Import Base.MvBytes.

Inductive hop :=
| SetCT (mt : bytes)        (* Header().Set("Content-Type", mt); [] = delete *)
| SetCL                     (* Header().Set("Content-Length", <length of the unminified body>) *)
| WriteHeader
| Write (b : bytes).

Inductive chosen := NotYet | Pass | Mini (id : nat) (mt : bytes).

Record rw := {
  ct : bytes;               (* current Content-Type header, [] = absent *)
  cl : bool;                (* Content-Length currently in the header map *)
  sent : option bool;       (* header already sent? with Content-Length? *)
  z : chosen;
  piped : bytes;            (* bytes handed to the minifier's pipe *)
  body : bytes              (* bytes written to the underlying writer *)
}.

Section Http.
  Variable matchf : bytes -> option nat.           (* M.Match: which minifier serves this media type string *)
  Variable ext_mt : bytes.                         (* mime.TypeByExtension(path.Ext(RequestURI)) *)
  Variable run : nat -> bytes -> bytes -> bytes.   (* output of minifier id for media type mt on a complete input *)

  Definition rw_init : rw := {| ct := []; cl := false; sent := None; z := NotYet; piped := []; body := [] |}.

  Definition send_header (s : rw) : option bool := match sent s with Some x => Some x | None => Some (cl s) end.

  Definition hstep (s : rw) (o : hop) : rw :=
    match o with
    | SetCT mt => {| ct := mt; cl := cl s; sent := sent s; z := z s; piped := piped s; body := body s |}
    | SetCL => {| ct := ct s; cl := true; sent := sent s; z := z s; piped := piped s; body := body s |}
    | WriteHeader =>
        (* responseWriter.WriteHeader: Header().Del("Content-Length"); underlying WriteHeader(status) *)
        let s1 := {| ct := ct s; cl := false; sent := sent s; z := z s; piped := piped s; body := body s |} in
        {| ct := ct s1; cl := false; sent := send_header s1; z := z s; piped := piped s; body := body s |}
    | Write b =>
        let zz := match z s with
                  | NotYet => let mt := match ct s with [] => ext_mt | _ => ct s end in
                              match matchf mt with Some id => Mini id mt | None => Pass end
                  | c => c
                  end in
        match zz with
        | Mini id mt =>
            (* first write with a minifier: Header().Del("Content-Length"); later writes go to the pipe *)
            {| ct := ct s; cl := match z s with NotYet => false | _ => cl s end; sent := sent s; z := zz;
               piped := piped s ++ b; body := body s |}
        | _ =>
            {| ct := ct s; cl := cl s; sent := send_header s; z := zz; piped := piped s; body := body s ++ b |}
        end
    end.

  (* Close: the goroutine has read everything that was piped; the minifier's writes (at least the probe) send the header *)
  Definition hclose (s : rw) : rw :=
    match z s with
    | Mini id mt => {| ct := ct s; cl := cl s; sent := send_header s; z := z s; piped := piped s;
                       body := body s ++ run id mt (piped s) |}
    | _ => s
    end.

  Definition serve (script : list hop) : rw := hclose (fold_left hstep script rw_init).

  (* what Close returns (MiddlewareWithError hands it to the error function): the chosen minifier's error *)
  Variable runerr : nat -> bytes -> bytes -> bool.
  Definition close_err (script : list hop) : bool :=
    let s := fold_left hstep script rw_init in
    match z s with Mini id mt => runerr id mt (piped s) | _ => false end.

  (* the body bytes of a script, in order *)
  Fixpoint written (script : list hop) : bytes :=
    match script with [] => [] | Write b :: r => b ++ written r | _ :: r => written r end.
  (* the Content-Type header at the first Write *)
  Fixpoint ct_at_first_write (c : bytes) (script : list hop) : option bytes :=
    match script with
    | [] => None
    | SetCT mt :: r => ct_at_first_write mt r
    | Write _ :: _ => Some c
    | _ :: r => ct_at_first_write c r
    end.
  Definition selected (script : list hop) : option bytes :=   (* media type the choice is made from *)
    match ct_at_first_write [] script with
    | None => None
    | Some [] => Some ext_mt
    | Some c => Some c
    end.
End Http.
