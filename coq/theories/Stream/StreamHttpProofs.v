(* Stream/StreamHttpProofs.v — what the middleware delivers, for every handler script. *)
From MV Require Import Base.MvBytes Stream.StreamHttp.

Section HttpProofs.
  Variable matchf : bytes -> option nat.
  Variable ext_mt : bytes.
  Variable run : nat -> bytes -> bytes -> bytes.

  Notation hstep := (hstep matchf ext_mt).
  Notation serve := (serve matchf ext_mt run).

  Definition sent_ok (s : rw) : Prop := sent s = None \/ sent s = Some false.

  Fixpoint no_setcl (script : list hop) : bool :=
    match script with [] => true | SetCL :: _ => false | _ :: r => no_setcl r end.
  (* the handler does not put a Content-Length back after its first Write *)
  Fixpoint no_setcl_after_first_write (script : list hop) : bool :=
    match script with [] => true | Write _ :: r => no_setcl r | _ :: r => no_setcl_after_first_write r end.

  (* once a minifier is chosen everything written goes to the pipe, in order *)
  Lemma fold_mini script : forall s id mt, z s = Mini id mt ->
    let s' := fold_left hstep script s in
    z s' = Mini id mt /\ piped s' = piped s ++ written script /\ body s' = body s /\
    (no_setcl script = true -> cl s = false -> sent_ok s -> cl s' = false /\ sent_ok s').
  Proof.
    induction script as [|o script IH]; intros s id mt Hz; cbn [fold_left written no_setcl].
    - rewrite app_nil_r. auto.
    - destruct o as [m| | |b].
      + destruct (IH (hstep s (SetCT m)) id mt Hz) as (A & B & C & D). split; [|split; [|split]]; auto.
      + destruct (IH (hstep s SetCL) id mt Hz) as (A & B & C & D). split; [|split; [|split]]; auto. intros; discriminate.
      + destruct (IH (hstep s WriteHeader) id mt Hz) as (A & B & C & D). split; [|split; [|split]]; auto.
        intros Hn Hc Hs. apply D; auto. unfold sent_ok, send_header in *. simpl. destruct (sent s); [destruct Hs; [discriminate|right; auto]|right; reflexivity].
      + assert (Hz' : z (hstep s (Write b)) = Mini id mt) by (simpl; rewrite Hz; reflexivity).
        destruct (IH _ id mt Hz') as (A & B & C & D). split; [|split; [|split]]; auto.
        * rewrite B. simpl. rewrite Hz. simpl. rewrite <- app_assoc. reflexivity.
        * rewrite C. simpl. rewrite Hz. reflexivity.
        * intros Hn Hc Hs. apply D; auto; simpl; rewrite Hz; simpl; auto.
  Qed.

  Lemma fold_pass script : forall s, z s = Pass ->
    let s' := fold_left hstep script s in
    z s' = Pass /\ piped s' = piped s /\ body s' = body s ++ written script.
  Proof.
    induction script as [|o script IH]; intros s Hz; cbn [fold_left written].
    - rewrite app_nil_r. auto.
    - destruct o as [m| | |b].
      { destruct (IH (hstep s (SetCT m)) Hz) as (A & B & C); repeat split; auto. }
      { destruct (IH (hstep s SetCL) Hz) as (A & B & C); repeat split; auto. }
      { destruct (IH (hstep s WriteHeader) Hz) as (A & B & C); repeat split; auto. }
      assert (Hz' : z (hstep s (Write b)) = Pass) by (simpl; rewrite Hz; reflexivity).
      destruct (IH _ Hz') as (A & B & C). repeat split; auto.
      + rewrite B. simpl. rewrite Hz. reflexivity.
      + rewrite C. simpl. rewrite Hz. simpl. rewrite <- app_assoc. reflexivity.
  Qed.

  Definition sel_of (c : bytes) : bytes := match c with [] => ext_mt | _ => c end.

  (* before the first Write nothing is sent except by an explicit WriteHeader, which has deleted the Content-Length *)
  Lemma fold_notyet script : forall s, z s = NotYet -> piped s = [] -> body s = [] -> sent_ok s ->
    let s' := fold_left hstep script s in
    match ct_at_first_write (ct s) script with
    | None => z s' = NotYet /\ body s' = [] /\ piped s' = [] /\ written script = []
    | Some c =>
      match matchf (sel_of c) with
      | Some id => z s' = Mini id (sel_of c) /\ piped s' = written script /\ body s' = [] /\
                   (no_setcl_after_first_write script = true -> cl s' = false /\ sent_ok s')
      | None => z s' = Pass /\ body s' = written script /\ piped s' = []
      end
    end.
  Proof.
    induction script as [|o script IH]; intros s Hz Hp Hb Hs; cbn [fold_left written ct_at_first_write no_setcl_after_first_write].
    - auto.
    - destruct o as [m| | |b].
      + apply (IH (hstep s (SetCT m))); auto.
      + apply (IH (hstep s SetCL)); auto.
      + assert (Hs' : sent_ok (hstep s WriteHeader)).
        { unfold sent_ok, send_header in *. simpl. destruct (sent s); [destruct Hs; [discriminate|right; auto]|right; reflexivity]. }
        apply (IH (hstep s WriteHeader)); auto.
      + fold (sel_of (ct s)). destruct (matchf (sel_of (ct s))) as [id|] eqn:Em.
        * assert (Hz' : z (hstep s (Write b)) = Mini id (sel_of (ct s))).
          { simpl. rewrite Hz. unfold sel_of in Em. rewrite Em. reflexivity. }
          destruct (fold_mini script _ _ _ Hz') as (A & B & C & D).
          assert (Hst : piped (hstep s (Write b)) = b /\ body (hstep s (Write b)) = [] /\ cl (hstep s (Write b)) = false /\ sent (hstep s (Write b)) = sent s).
          { simpl. rewrite Hz. unfold sel_of in Em. rewrite Em. simpl. rewrite Hp, Hb. auto. }
          destruct Hst as (P1 & P2 & P3 & P4). split; [|split; [|split]]; auto.
          -- rewrite B, P1. reflexivity.
          -- rewrite C. exact P2.
          -- intros Hn. apply D; auto. unfold sent_ok. rewrite P4. exact Hs.
        * assert (Hz' : z (hstep s (Write b)) = Pass).
          { simpl. rewrite Hz. unfold sel_of in Em. rewrite Em. reflexivity. }
          destruct (fold_pass script _ Hz') as (A & B & C).
          assert (Hst : piped (hstep s (Write b)) = [] /\ body (hstep s (Write b)) = b).
          { simpl. rewrite Hz. unfold sel_of in Em. rewrite Em. simpl. rewrite Hp, Hb. auto. }
          destruct Hst as (P1 & P2). repeat split; auto.
          -- rewrite C, P2. reflexivity.
          -- rewrite B. exact P1.
  Qed.

  Lemma init_ok : z rw_init = NotYet /\ piped rw_init = [] /\ body rw_init = [] /\ sent_ok rw_init.
  Proof. repeat split; auto. left. reflexivity. Qed.

  (* ---- the statements ---- *)
  (* media type the minifier is picked from: Content-Type header at the first Write, else the path extension's type *)
  Theorem middleware_minifies : forall script mt id,
    selected ext_mt script = Some mt -> matchf mt = Some id ->
    body (serve script) = run id mt (written script) /\ z (serve script) = Mini id mt /\
    (no_setcl_after_first_write script = true -> sent (serve script) = Some false).
  Proof.
    intros script mt id Hsel Hm. unfold selected in Hsel.
    destruct init_ok as (I1 & I2 & I3 & I4).
    pose proof (fold_notyet script rw_init I1 I2 I3 I4) as H. cbn zeta in H. change (ct rw_init) with (@nil byte) in H.
    destruct (ct_at_first_write [] script) as [c|]; [|discriminate].
    assert (Hmt : sel_of c = mt) by (unfold sel_of; destruct c; inversion Hsel; reflexivity).
    rewrite Hmt, Hm in H. destruct H as (A & B & C & D).
    unfold StreamHttp.serve, hclose. rewrite A. simpl. rewrite B, C. repeat split; auto.
    intros Hn. destruct (D Hn) as (Hc & Hs). unfold send_header. destruct Hs as [Hs|Hs]; rewrite Hs; [rewrite Hc|]; reflexivity.
  Qed.

  Theorem middleware_passes_through : forall script mt,
    selected ext_mt script = Some mt -> matchf mt = None ->
    body (serve script) = written script /\ z (serve script) = Pass.
  Proof.
    intros script mt Hsel Hm. unfold selected in Hsel.
    destruct init_ok as (I1 & I2 & I3 & I4).
    pose proof (fold_notyet script rw_init I1 I2 I3 I4) as H. cbn zeta in H. change (ct rw_init) with (@nil byte) in H.
    destruct (ct_at_first_write [] script) as [c|]; [|discriminate].
    assert (Hmt : sel_of c = mt) by (unfold sel_of; destruct c; inversion Hsel; reflexivity).
    rewrite Hmt, Hm in H. destruct H as (A & B & C).
    unfold StreamHttp.serve, hclose. rewrite A. auto.
  Qed.

  Theorem middleware_reports_error : forall runerr script mt id,
    selected ext_mt script = Some mt -> matchf mt = Some id ->
    close_err matchf ext_mt runerr script = runerr id mt (written script).
  Proof.
    intros runerr script mt id Hsel Hm. unfold selected in Hsel.
    destruct init_ok as (I1 & I2 & I3 & I4).
    pose proof (fold_notyet script rw_init I1 I2 I3 I4) as H. cbn zeta in H. change (ct rw_init) with (@nil byte) in H.
    destruct (ct_at_first_write [] script) as [c|]; [|discriminate].
    assert (Hmt : sel_of c = mt) by (unfold sel_of; destruct c; inversion Hsel; reflexivity).
    rewrite Hmt, Hm in H. destruct H as (A & B & C & D).
    unfold close_err. rewrite A, B. reflexivity.
  Qed.

  (* consequence: only the concatenation of the written chunks matters, not how the handler splits them *)
  Corollary middleware_chunking_irrelevant : forall s1 s2 mt id,
    selected ext_mt s1 = Some mt -> selected ext_mt s2 = Some mt -> matchf mt = Some id ->
    written s1 = written s2 -> body (serve s1) = body (serve s2).
  Proof.
    intros s1 s2 mt id H1 H2 Hm Hw.
    destruct (middleware_minifies s1 mt id H1 Hm) as (A & _). destruct (middleware_minifies s2 mt id H2 Hm) as (B & _).
    rewrite A, B, Hw. reflexivity.
  Qed.
End HttpProofs.

(* non-vacuity: Content-Length set, no explicit WriteHeader, two chunks, type from the header (with parameters) *)
Example middleware_nonvacuous :
  let matchf := fun mt : bytes => match mt with 116 :: _ => Some 3%nat | _ => None end in
  let s := serve matchf [120] (fun _ _ inp => 0 :: inp) [SetCT [116; 59]; SetCL; Write [1]; Write [2]] in
  body s = [0; 1; 2] /\ sent s = Some false /\ z s = Mini 3 [116; 59].
Proof. vm_compute. auto. Qed.
