(* Stream/StreamModel.v — model of the streaming entry points of /repo/minify.go.
   Facts the model rests on (DESIGN.md section 1, validated by the correspondence run):
     * every package's Minify starts with parse.NewInput(r) = io.ReadAll(r): the minifier sees only the
       concatenation of the chunks, or the read error (then an empty input whose Err() is that error);
     * a minifier run is abstracted as [f : bytes -> run]: the payloads of its Write calls and how it ends;
     * every Minify ignores the results of intermediate writes and ends with a probe write w.Write(nil)
       (skeleton facts regenerated from source: coq/gen/IoSkeleton_gen.v).
   Executable definitions only; the small-step system of the Writer wrapper is in StreamPipe.v. *)
From MV Require Import Base.MvBytes.

(* ---------- readers ---------- *)
Inductive rstep := Chunk (b : bytes) | Fail (e : nat).      (* e identifies the injected error *)
Definition rscript := list rstep.                            (* end of list = io.EOF *)

Fixpoint read_all (r : rscript) : bytes * option nat :=      (* io.ReadAll *)
  match r with
  | [] => ([], None)
  | Chunk b :: r' => let (d, e) := read_all r' in (b ++ d, e)
  | Fail e :: _ => ([], Some e)
  end.

(* ---------- one minifier run ---------- *)
Inductive ending :=
| EndEOF                  (* lexer reached io.EOF *)
| EndLexErr (e : nat)     (* lexer/parser error other than EOF (syntax error, or the reader's error) *)
| EndEarly (e : nat).     (* return before the final probe (embedded minifier failed) *)
Record run := { writes : list bytes; fin : ending }.

Record skeleton := { final_probe : bool; lexer_err_returned : bool }.

Inductive result := ROk | RErr (e : nat).
Definition werr : nat := 999.                            (* the writer double's sentinel error *)

(* the writer fails from its k-th call on (1-based), forever; None = never *)
Definition wfails (wf : option nat) (call : nat) : bool :=
  match wf with Some k => Nat.leb k call | None => false end.

(* what a package-level Minify returns, and what reached the writer *)
Definition minify_result (sk : skeleton) (rn : run) (wf : option nat) : result :=
  match fin rn with
  | EndEarly e => RErr e
  | EndEOF =>
      if final_probe sk && wfails wf (S (length (writes rn))) then RErr werr else ROk
  | EndLexErr e =>
      if final_probe sk && wfails wf (S (length (writes rn))) then RErr werr
      else if lexer_err_returned sk then RErr e else ROk
  end.

(* bytes accepted by the writer: the writes before its first failing call *)
Definition delivered (rn : run) (wf : option nat) : bytes :=
  match wf with
  | None => concat (writes rn)
  | Some k => concat (firstn (k - 1) (writes rn))
  end.

Section Entry.
  Variable sk : skeleton.
  Variable f : bytes -> run.                 (* the minifier on a complete input *)
  Variable on_read_error : nat -> run.       (* what it does on an input whose Err() is a read error *)

  Definition the_run (r : rscript) : run :=
    match read_all r with
    | (d, None) => f d
    | (_, Some e) => on_read_error e
    end.

  (* plain m.Minify(mediatype, w, r) *)
  Definition entry_minify (r : rscript) (wf : option nat) : result * bytes :=
    let rn := the_run r in (minify_result sk rn wf, delivered rn wf).

  (* m.Bytes / m.String: input is one slice; output buffer never fails; original returned on error *)
  Definition entry_bytes (v : bytes) : result * bytes :=
    let rn := f v in
    match minify_result sk rn None with
    | ROk => (ROk, concat (writes rn))
    | RErr e => (RErr e, v)
    end.

  (* m.Reader: the consumer reads everything that was written, then gets the minifier's error (or EOF) *)
  Definition entry_reader (r : rscript) : result * bytes :=
    let rn := the_run r in (minify_result sk rn None, concat (writes rn)).

  (* m.Writer: the producer's chunks are the reader script; Close returns the minifier's error *)
  Definition entry_writer (chunks : list bytes) (wf : option nat) : result * bytes :=
    entry_minify (map Chunk chunks) wf.
End Entry.
