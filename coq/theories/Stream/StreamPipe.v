(* Stream/StreamPipe.v — small-step system of the Writer wrapper of /repo/minify.go:
     producer:  z.Write(c1); ...; z.Write(cn); z.Close()        (Close = pw.Close(); wg.Wait(); return z.err)
     goroutine: m.Minify(mediatype, w, pr) — io.ReadAll(pr), then the run; z.err = err; pr.Close(); wg.Done()
   over io.Pipe (synchronous: a Write returns when all its bytes were read or the read side is closed).
   A schedule is any sequence of enabled steps; the goroutine may also return early without reading
   (media type not registered: ErrNotExist), which closes the read side.
   Proved: progress (no reachable non-final state is stuck), termination (a measure decreases), and at the final
   state everything was delivered: the goroutine saw exactly the concatenation of the chunks. *)
From MV Require Import Base.MvBytes.

Inductive gphase :=
| GReading              (* inside io.ReadAll *)
| GDone (early : bool). (* returned; early = returned without reading (pr closed while the producer may still write) *)

Record st := {
  left : list bytes;       (* chunks the producer still has to write *)
  cur : option bytes;      (* bytes of the Write call in flight that are not yet read *)
  pclosed : bool;          (* pw.Close() happened (producer is in or past z.Close()) *)
  acc : bytes;             (* what the goroutine has read so far *)
  g : gphase;
  returned : bool          (* z.Close() returned *)
}.

Definition init (chunks : list bytes) : st :=
  {| left := chunks; cur := None; pclosed := false; acc := []; g := GReading; returned := false |}.

Inductive step : st -> st -> Prop :=
| SWriteStart s c r : left s = c :: r -> cur s = None -> pclosed s = false ->
    step s {| left := r; cur := Some c; pclosed := false; acc := acc s; g := g s; returned := false |}
| SRendezvous s b n : cur s = Some b -> g s = GReading -> (1 <= n <= length b)%nat ->
    (* the goroutine's Read takes n bytes of the write in flight *)
    step s {| left := left s; cur := (if Nat.eqb n (length b) then None else Some (skipn n b)); pclosed := pclosed s;
              acc := acc s ++ firstn n b; g := GReading; returned := false |}
| SRendezvousEmpty s : cur s = Some [] -> g s = GReading ->
    (* a zero-length Write still meets one Read *)
    step s {| left := left s; cur := None; pclosed := pclosed s; acc := acc s; g := GReading; returned := false |}
| SWriteFails s b e : cur s = Some b -> g s = GDone e ->
    (* read side closed: the Write in flight returns io.ErrClosedPipe *)
    step s {| left := left s; cur := None; pclosed := pclosed s; acc := acc s; g := g s; returned := false |}
| SClose s : left s = [] -> cur s = None -> pclosed s = false ->
    step s {| left := []; cur := None; pclosed := true; acc := acc s; g := g s; returned := false |}
| SEof s : g s = GReading -> pclosed s = true -> cur s = None ->
    (* ReadAll sees EOF; the run happens (writes to w never block); z.err set; pr.Close(); wg.Done() *)
    step s {| left := left s; cur := None; pclosed := true; acc := acc s; g := GDone false; returned := false |}
| SEarly s : g s = GReading -> acc s = [] ->
    (* m.Minify returns without reading (no minifier registered) *)
    step s {| left := left s; cur := cur s; pclosed := pclosed s; acc := []; g := GDone true; returned := false |}
| SCloseReturns s e : pclosed s = true -> g s = GDone e -> returned s = false ->
    step s {| left := left s; cur := cur s; pclosed := true; acc := acc s; g := g s; returned := true |}.

Inductive reach (s0 : st) : st -> Prop :=
| reach_refl : reach s0 s0
| reach_step s s' : reach s0 s -> step s s' -> reach s0 s'.

Definition cur_bytes (s : st) : bytes := match cur s with Some b => b | None => [] end.

(* everything the producer handed over is accounted for, as long as the goroutine did not bail out early *)
Definition Inv (chunks : list bytes) (s : st) : Prop :=
  (forall e, g s = GDone e -> e = false -> cur s = None /\ left s = [] /\ pclosed s = true) /\
  (g s = GDone true -> acc s = []) /\
  (g s <> GDone true -> acc s ++ cur_bytes s ++ concat (left s) = concat chunks) /\
  (pclosed s = true -> left s = [] /\ cur s = None) /\
  (returned s = true -> pclosed s = true /\ exists e, g s = GDone e).

Lemma inv_init chunks : Inv chunks (init chunks).
Proof.
  unfold Inv, init; simpl. repeat split; try discriminate; try congruence.
Qed.

Lemma firstn_skipn_app {A} n (l : list A) : firstn n l ++ skipn n l = l.
Proof. apply firstn_skipn. Qed.

Ltac use_H1 := match goal with
  | H1 : forall e, g ?s = GDone e -> e = false -> _, Hg : g ?s = GDone ?e, He : ?e = false |- _ =>
      destruct (H1 e Hg He) as (? & ? & ?); clear H1
  | H1 : forall e, g ?s = GDone e -> e = false -> _, Hg : g ?s = GDone false |- _ =>
      destruct (H1 false Hg eq_refl) as (? & ? & ?); clear H1
  end.
Ltac use_H4 := match goal with
  | H4 : pclosed ?s = true -> _, Hp : pclosed ?s = true |- _ => destruct (H4 Hp) as (? & ?); clear H4
  end.
Ltac auto_inv := intros; subst; try use_H1; try use_H4; try congruence; try discriminate; auto.

Lemma inv_step chunks s s' : Inv chunks s -> step s s' -> Inv chunks s'.
Proof.
  intros (H1 & H2 & H3 & H4 & H5) Hs. unfold Inv, cur_bytes in *.
  destruct Hs as [s c r Hl Hc Hp | s b n Hc Hg Hn | s Hc Hg | s b e Hc Hg | s Hl Hc Hp | s Hg Hp Hc | s Hg Ha | s e Hp Hg Hr];
    cbn [left cur pclosed acc g returned].
  - (* write starts *)
    repeat split; auto_inv.
    match goal with Hn : g s <> GDone true |- _ => specialize (H3 Hn) end. rewrite Hl, Hc in H3. exact H3.
  - (* rendezvous *)
    repeat split; auto_inv.
    assert (Hne : g s <> GDone true) by congruence. specialize (H3 Hne). rewrite Hc in H3.
    rewrite <- H3. destruct (Nat.eqb n (length b)) eqn:E.
    + apply Nat.eqb_eq in E. subst n. rewrite firstn_all. simpl. rewrite <- app_assoc. reflexivity.
    + rewrite <- app_assoc. f_equal. rewrite app_assoc. f_equal. apply firstn_skipn.
  - (* rendezvous with an empty write *)
    repeat split; auto_inv.
    assert (Hne : g s <> GDone true) by congruence. specialize (H3 Hne). rewrite Hc in H3. exact H3.
  - (* write fails on a closed read side *)
    repeat split; auto_inv.
    destruct e; [congruence|]. use_H1. congruence.
  - (* producer closes *)
    repeat split; auto_inv.
    match goal with Hn : g s <> GDone true |- _ => specialize (H3 Hn) end. rewrite Hl, Hc in H3. exact H3.
  - (* EOF: the run happens *)
    repeat split; auto_inv.
    assert (Hne : g s <> GDone true) by congruence. specialize (H3 Hne). rewrite Hc in H3. exact H3.
  - (* early return *)
    repeat split; auto_inv.
  - (* Close returns *)
    repeat split; auto_inv. exists e. exact Hg.
Qed.

Lemma inv_reach chunks s : reach (init chunks) s -> Inv chunks s.
Proof. induction 1; [apply inv_init | eapply inv_step; eauto]. Qed.

(* ---------- progress: no deadlock ---------- *)
Theorem progress chunks s : Inv chunks s -> returned s = false -> exists s', step s s'.
Proof.
  intros (H1 & H2 & H3 & H4 & H5) Hr.
  destruct (cur s) as [b|] eqn:Hc.
  - (* a write is in flight *)
    destruct (g s) as [|e] eqn:Hg.
    + destruct b as [|x b].
      * eexists. apply SRendezvousEmpty; assumption.
      * eexists. apply (SRendezvous s (x :: b) 1); [assumption|assumption|simpl; lia].
    + eexists. eapply SWriteFails; eassumption.
  - destruct (pclosed s) eqn:Hp.
    + destruct (g s) as [|e] eqn:Hg.
      * eexists. apply SEof; assumption.
      * eexists. eapply SCloseReturns; eassumption.
    + destruct (left s) as [|c r] eqn:Hl.
      * eexists. apply SClose; assumption.
      * eexists. eapply SWriteStart; eassumption.
Qed.

(* ---------- termination: a measure decreases on every step ---------- *)
Definition measure (s : st) : nat :=
  (fold_right (fun c n => length c + 2 + n) 0 (left s) +
   (match cur s with Some b => length b + 1 | None => 0 end) +
   (if pclosed s then 0 else 1) + (match g s with GReading => 1 | GDone _ => 0 end) + (if returned s then 0 else 1))%nat.

Lemma step_decreases chunks s s' : Inv chunks s -> step s s' -> (measure s' < measure s)%nat.
Proof.
  intros (H1 & H2 & H3 & H4 & H5) Hs. unfold measure.
  destruct Hs as [s c r Hl Hc Hp | s b n Hc Hg Hn | s Hc Hg | s b e Hc Hg | s Hl Hc Hp | s Hg Hp Hc | s Hg Ha | s e Hp Hg Hr]; simpl.
  - rewrite Hl, Hc, Hp. simpl. destruct (returned s) eqn:Hr; [destruct (H5 eq_refl) as (Hp' & _); congruence|]. lia.
  - rewrite Hc, Hg. destruct (returned s) eqn:Hr; [destruct (H5 eq_refl) as (_ & e & He); congruence|].
    destruct (Nat.eqb n (length b)) eqn:E; [lia|]. rewrite skipn_length. lia.
  - rewrite Hc, Hg. simpl. destruct (returned s) eqn:Hr; [destruct (H5 eq_refl) as (_ & e & He); congruence|]. lia.
  - rewrite Hc. destruct (returned s) eqn:Hr.
    + destruct (H5 eq_refl) as (Hp' & _). destruct (H4 Hp') as (_ & Hc'). congruence.
    + lia.
  - rewrite Hl, Hc, Hp. destruct (returned s) eqn:Hr; [destruct (H5 eq_refl) as (Hp' & _); congruence|]. simpl. lia.
  - rewrite Hg, Hp, Hc. destruct (returned s) eqn:Hr; [destruct (H5 eq_refl) as (_ & e & He); congruence|]. lia.
  - rewrite Hg. destruct (returned s) eqn:Hr; [destruct (H5 eq_refl) as (_ & e & He); congruence|]. lia.
  - rewrite Hp, Hg, Hr. lia.
Qed.

(* ---------- when Close has returned, the goroutine has seen exactly the concatenation of the chunks ---------- *)
Theorem close_delivers chunks s : reach (init chunks) s -> returned s = true ->
  (g s = GDone false /\ acc s = concat chunks /\ cur s = None /\ left s = []) \/
  (g s = GDone true /\ acc s = []).
Proof.
  intros Hr Hret. destruct (inv_reach _ _ Hr) as (H1 & H2 & H3 & H4 & H5).
  destruct (H5 Hret) as (Hp & e & He). destruct e.
  - right. split; [exact He | apply H2; exact He].
  - left. destruct (H1 false He eq_refl) as (Hc & Hl & _). repeat split; auto.
    assert (Hne : g s <> GDone true) by congruence. specialize (H3 Hne).
    unfold cur_bytes in H3. rewrite Hc, Hl in H3. simpl in H3. rewrite app_nil_r in H3. exact H3.
Qed.

(* a maximal schedule (no step enabled) has returned from Close *)
Corollary maximal_returned chunks s : reach (init chunks) s -> (forall s', ~ step s s') -> returned s = true.
Proof.
  intros Hr Hmax. destruct (returned s) eqn:E; [reflexivity|].
  destruct (progress chunks s (inv_reach _ _ Hr) E) as (s' & Hs). exfalso. eapply Hmax; eauto.
Qed.
