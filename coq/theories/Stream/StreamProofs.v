(* Stream/StreamProofs.v — chunking is irrelevant, entry points agree, I/O failures surface. *)
From MV Require Import Base.MvBytes Stream.StreamModel.

Lemma read_all_chunks cs : read_all (map Chunk cs) = (concat cs, None).
Proof. induction cs as [|c cs IH]; [reflexivity|]. cbn [map read_all concat]. rewrite IH. reflexivity. Qed.

Lemma read_all_fail pre e rest : read_all (map Chunk pre ++ Fail e :: rest) = (concat pre, Some e).
Proof.
  induction pre as [|c pre IH]; cbn [map app read_all concat]; [reflexivity|]. rewrite IH. reflexivity.
Qed.

Section Thms.
  Variable sk : skeleton.
  Variable f : bytes -> run.
  Variable on_read_error : nat -> run.

  (* any two partitions of the same byte string give the same result through every streaming entry point *)
  Theorem chunking_irrelevant cs cs' wf : concat cs = concat cs' ->
    entry_minify sk f on_read_error (map Chunk cs) wf = entry_minify sk f on_read_error (map Chunk cs') wf /\
    entry_reader sk f on_read_error (map Chunk cs) = entry_reader sk f on_read_error (map Chunk cs') /\
    entry_writer sk f on_read_error cs wf = entry_writer sk f on_read_error cs' wf.
  Proof.
    intros H. unfold entry_writer, entry_minify, entry_reader, the_run. rewrite !read_all_chunks, H. auto.
  Qed.

  (* all entry points produce the bytes of the plain reader-to-writer call on the whole input *)
  Theorem entry_points_agree cs v : concat cs = v ->
    let plain := entry_minify sk f on_read_error [Chunk v] None in
    entry_minify sk f on_read_error (map Chunk cs) None = plain /\
    entry_reader sk f on_read_error (map Chunk cs) = plain /\
    entry_writer sk f on_read_error cs None = plain /\
    (fst plain = ROk -> entry_bytes sk f v = plain) /\
    (forall e, fst plain = RErr e -> entry_bytes sk f v = (RErr e, v)).
  Proof.
    intros H. unfold entry_writer, entry_minify, entry_reader, entry_bytes, the_run, delivered.
    rewrite !read_all_chunks, H. cbn [map read_all concat]. rewrite app_nil_r. cbn [fst].
    repeat split; auto.
    - intros E. rewrite E. reflexivity.
    - intros e E. rewrite E. reflexivity.
  Qed.

  (* C14, reader side: the front end turns a failing reader into an empty input whose Err() is that error *)
  Hypothesis read_error_run : forall e, on_read_error e = {| writes := []; fin := EndLexErr e |}.

  Theorem reader_failure_surfaces pre e rest :
    lexer_err_returned sk = true ->
    fst (entry_minify sk f on_read_error (map Chunk pre ++ Fail e :: rest) None) = RErr e /\
    fst (entry_reader sk f on_read_error (map Chunk pre ++ Fail e :: rest)) = RErr e.
  Proof.
    intros Hsk. unfold entry_minify, entry_reader, the_run. rewrite read_all_fail, read_error_run.
    unfold minify_result; cbn [fin writes fst wfails]. rewrite andb_false_r, Hsk. auto.
  Qed.

  (* C14, writer side: a writer that fails from its k-th call on is noticed by the final probe at the latest *)
  Theorem writer_failure_surfaces rn k :
    final_probe sk = true -> (forall e, fin rn <> EndEarly e) -> (k <= S (length (writes rn)))%nat ->
    minify_result sk rn (Some k) = RErr werr.
  Proof.
    intros Hp Hne Hk. unfold minify_result. destruct (fin rn) as [|e|e] eqn:E.
    - rewrite Hp. cbn [wfails andb]. apply Nat.leb_le in Hk. rewrite Hk. reflexivity.
    - rewrite Hp. cbn [wfails andb]. apply Nat.leb_le in Hk. rewrite Hk. reflexivity.
    - exfalso. eapply Hne; reflexivity.
  Qed.

  (* ... and a failure that would only start after the last call changes nothing *)
  Theorem writer_failure_after_end rn k : (S (length (writes rn)) < k)%nat ->
    minify_result sk rn (Some k) = minify_result sk rn None /\ delivered rn (Some k) = delivered rn None.
  Proof.
    intros Hk. unfold minify_result, delivered, wfails.
    assert (H : Nat.leb k (S (length (writes rn))) = false) by (apply Nat.leb_gt; lia).
    rewrite H, !andb_false_r. split; [reflexivity|]. rewrite firstn_all2 by lia. reflexivity.
  Qed.

  (* never silent truncation: what reached the writer is a prefix of the full output *)
  Theorem delivered_prefix rn wf : exists rest, concat (writes rn) = delivered rn wf ++ rest.
  Proof.
    unfold delivered. destruct wf as [k|]; [|exists []; rewrite app_nil_r; reflexivity].
    exists (concat (skipn (k - 1) (writes rn))). rewrite <- concat_app, firstn_skipn. reflexivity.
  Qed.
End Thms.
