(* Svg/PathSep.v — F1 model of the separator logic of /repo/svg/pathdata.go (PathDataState.copyNumber, copyFlag):
   which of " ", "." or nothing is written between two items of path data, and the rewrite of a trailing "00" to "e2"
   (REPAIRED code: applied only to coordinates that contain no '.', 'e' or 'E', so 1e100 is no longer turned into 1e1e2).
   Items are the coordinates as minify.Number returns them and the arc flags.  Specification: the SVG 1.1 path-data BNF
   for numbers (maximal munch) and flags (single characters). *)
From MV Require Import Base.MvBytes.
From Coq Require Import Arith.

Inductive item := INum (lexeme : bytes) | IFlag (b : bool).
Record pstate := { prevDigit : bool; prevDigitIsInt : bool; prevFlag : bool }.
Definition st_cmd : pstate := {| prevDigit := false; prevDigitIsInt := false; prevFlag := false |}.  (* right after a command letter *)

Definition is_dot_or_e (c : byte) : bool := (c =? 46) || (c =? 101) || (c =? 69).
Definition ends_00 (l : bytes) : bool :=                                  (* isInt && len > 2 && the last two bytes are "00" *)
  match rev l with 48 :: 48 :: _ :: _ => negb (existsb is_dot_or_e l) | _ => false end.
Definition rewrite_00 (l : bytes) : bytes := if ends_00 l then firstn (length l - 2) l ++ [101; 50] else l.

(* copyNumber: returns the bytes appended to the buffer and the new state *)
Definition copy_number (st : pstate) (coord : bytes) : bytes * pstate :=
  let c0 := hd 0 coord in
  let needs := prevDigit st && (is_digit c0 || ((c0 =? 46) && prevDigitIsInt st)) in
  if needs && (c0 =? 48) && negb (prevDigitIsInt st)
  then ([46; 48], st)                                                      (* ".0": state unchanged *)
  else
    let sep := if needs then [32] else [] in
    let isint := if ends_00 coord then false else negb (existsb is_dot_or_e coord) in
    (sep ++ rewrite_00 coord, {| prevDigit := true; prevDigitIsInt := isint; prevFlag := false |}).

Definition copy_flag (st : pstate) (b : bool) : bytes * pstate :=
  ((if prevFlag st then [] else [32]) ++ [if b then 49 else 48],
   {| prevDigit := false; prevDigitIsInt := false; prevFlag := true |}).

Fixpoint emit (st : pstate) (items : list item) : bytes :=
  match items with
  | [] => []
  | INum c :: r => let '(o, st') := copy_number st c in o ++ emit st' r
  | IFlag b :: r => let '(o, st') := copy_flag st b in o ++ emit st' r
  end.

(* ---------- specification: SVG 1.1 number lexing (maximal munch) ---------- *)
Fixpoint span_digits (l : bytes) : bytes * bytes :=
  match l with
  | c :: r => if is_digit c then let '(d, rest) := span_digits r in (c :: d, rest) else ([], l)
  | [] => ([], [])
  end.

(* number: sign? ( digits "." digits? | "." digits | digits ) exponent?   with exponent = (e|E) sign? digits ;
   returns (lexeme, rest) *)
Definition lex_sign (l : bytes) : bytes * bytes :=
  match l with c :: r => if (c =? 45) || (c =? 43) then ([c], r) else ([], l) | [] => ([], []) end.
Definition lex_exponent (l : bytes) : bytes * bytes :=
  match l with
  | c :: r => if (c =? 101) || (c =? 69) then
                let '(s, r1) := lex_sign r in
                let '(d, r2) := span_digits r1 in
                match d with [] => ([], l) | _ => (c :: s ++ d, r2) end
              else ([], l)
  | [] => ([], [])
  end.
Definition lex_number (l : bytes) : option (bytes * bytes) :=
  let '(s, r0) := lex_sign l in
  let '(i, r1) := span_digits r0 in
  let '(frac, r2) := match r1 with
                     | 46 :: r => let '(f, r') := span_digits r in
                                  match i, f with [], [] => ([], r1) | _, _ => (46 :: f, r') end
                     | _ => ([], r1)
                     end in
  match i, frac with
  | [], [] => None
  | _, _ => let '(e, r3) := lex_exponent r2 in Some (s ++ i ++ frac ++ e, r3)
  end.

Definition is_sep (c : byte) : bool := (c =? 32) || (c =? 44) || (c =? 9) || (c =? 10) || (c =? 13).
Fixpoint skip_seps (l : bytes) : bytes := match l with c :: r => if is_sep c then skip_seps r else l | [] => [] end.

(* lexing a string against the expected kinds (true = flag) *)
Fixpoint lex_items (kinds : list bool) (l : bytes) : option (list item * bytes) :=
  match kinds with
  | [] => Some ([], l)
  | true :: ks =>
    match skip_seps l with
    | c :: r => if (c =? 48) || (c =? 49) then
                  match lex_items ks r with Some (its, rest) => Some (IFlag (c =? 49) :: its, rest) | None => None end
                else None
    | [] => None
    end
  | false :: ks =>
    match lex_number (skip_seps l) with
    | Some (lx, r) => match lex_items ks r with Some (its, rest) => Some (INum lx :: its, rest) | None => None end
    | None => None
    end
  end.

Definition kind_of (i : item) : bool := match i with IFlag _ => true | INum _ => false end.
(* the lexemes as they are written: "00" spelled "e2"; a zero after a non-integer number is written ".0" *)
Fixpoint emitted (st : pstate) (items : list item) : list item :=
  match items with
  | [] => []
  | INum c :: r => let '(o, st') := copy_number st c in
                   INum (match o with 32 :: o' => o' | _ => o end) :: emitted st' r
  | IFlag b :: r => let '(_, st') := copy_flag st b in IFlag b :: emitted st' r
  end.

(* what minify.Number returns (checked by the harness on every coordinate): -? ( D+ | D* . D+ ) ( e -? D+ )?  ,
   lower-case e, no '+', at least one digit.  The "00" -> "e2" rewrite is only sound for plain integers: with the repaired
   [ends_00] that is no longer a hypothesis ([rewrite_safe]) but a consequence of [min_number], see [ends_00_rewrite_safe] *)
Definition all_digits (l : bytes) : bool := forallb is_digit l.
Definition min_number (c : bytes) : bool :=
  match lex_number c with
  | Some (lx, []) => negb (existsb (fun x => (x =? 43) || (x =? 69)) c)
  | _ => false
  end.
Definition rewrite_safe (c : bytes) : bool :=
  if ends_00 c then match c with 45 :: d => all_digits d | d => all_digits d end else true.
(* minify.Number never leaves a leading zero: a coordinate that starts with '0' is exactly "0" *)
Definition zero_is_bare (c : bytes) : bool := match c with 48 :: _ :: _ => false | _ => true end.
Definition ok_item (i : item) : bool := match i with INum c => min_number c && zero_is_bare c | IFlag _ => true end.

(* flags come in pairs inside an arc and are followed by a number; a flag is never the first item after a number that
   ... (no constraint needed: a flag is always preceded by a space unless it follows a flag) *)


(* ================= proofs: helper lemmas ================= *)

Local Arguments is_digit : simpl never.
Local Arguments lex_number : simpl never.
Local Arguments copy_number : simpl never.
Local Arguments rewrite_00 : simpl never.
Local Arguments ends_00 : simpl never.

(* case analysis on a Z scrutinised by a literal pattern: only the path of the literal survives [tac] *)
Ltac dzt x tac := destruct x as [|x|x]; try tac; repeat (destruct x as [x|x|]; try tac).
Ltac dz x := dzt x reflexivity.

Lemma is_digit_range c : is_digit c = true <-> 48 <= c <= 57.
Proof. unfold is_digit. rewrite andb_true_iff, !Z.leb_le. tauto. Qed.
Lemma is_digit_false c : is_digit c = false <-> (c < 48 \/ 57 < c).
Proof. unfold is_digit. rewrite andb_false_iff, !Z.leb_gt. tauto. Qed.

Lemma hd_app_ne (l r : bytes) : l <> [] -> hd 0 (l ++ r) = hd 0 l.
Proof. destruct l; [congruence | reflexivity]. Qed.

Lemma strip32 (o : bytes) : hd 0 o <> 32 -> match o with 32 :: o' => o' | _ => o end = o.
Proof.
  destruct o as [|x o']; [reflexivity|]. simpl. intros H. dz x. exfalso; apply H; reflexivity.
Qed.

(* ---- span_digits ---- *)
Definition nd (r : bytes) : Prop := is_digit (hd 0 r) = false.

Lemma span_digits_app d r : forallb is_digit d = true -> nd r -> span_digits (d ++ r) = (d, r).
Proof.
  induction d as [|c d IH]; simpl; intros Hd Hr.
  - destruct r as [|x r]; [reflexivity|]. unfold nd in Hr; simpl in Hr. simpl. rewrite Hr. reflexivity.
  - apply andb_true_iff in Hd as [H1 H2]. rewrite H1, IH; auto.
Qed.

Lemma span_digits_spec l : forall d r, span_digits l = (d, r) -> l = d ++ r /\ forallb is_digit d = true /\ nd r.
Proof.
  induction l as [|c l IH]; simpl; intros d r H.
  - inversion H; subst. repeat split.
  - destruct (is_digit c) eqn:Hc.
    + destruct (span_digits l) as [d' r'] eqn:E. inversion H; subst.
      destruct (IH _ _ eq_refl) as (A & B & C). subst l. simpl. rewrite Hc. repeat split; auto.
    + inversion H; subst. repeat split. exact Hc.
Qed.

Lemma digits_hd d : forallb is_digit d = true -> d <> [] -> is_digit (hd 0 d) = true.
Proof. destruct d; [congruence|]. simpl. intros H _. apply andb_true_iff in H. tauto. Qed.

Lemma digits_no_dot_e d : forallb is_digit d = true -> existsb is_dot_or_e d = false.
Proof.
  induction d as [|c d IH]; simpl; intros H; [reflexivity|].
  apply andb_true_iff in H as [H1 H2]. rewrite (IH H2), orb_false_r.
  apply is_digit_range in H1. unfold is_dot_or_e.
  destruct (Z.eqb_spec c 46), (Z.eqb_spec c 101), (Z.eqb_spec c 69); simpl; try reflexivity; lia.
Qed.

(* ---- lex_sign ---- *)
Definition sign_shape (s : bytes) : Prop := s = [] \/ s = [45] \/ s = [43].
Definition nosign (r : bytes) : Prop := hd 0 r <> 45 /\ hd 0 r <> 43.

Lemma lex_sign_spec l s r : lex_sign l = (s, r) -> l = s ++ r /\ sign_shape s.
Proof.
  unfold lex_sign, sign_shape. destruct l as [|c l]; [inversion 1; auto|].
  destruct (Z.eqb_spec c 45); simpl; [inversion 1; subst; auto|].
  destruct (Z.eqb_spec c 43); simpl; inversion 1; subst; auto.
Qed.

Lemma lex_sign_app s r : sign_shape s -> (s = [] -> nosign r) -> lex_sign (s ++ r) = (s, r).
Proof.
  intros [-> | [-> | ->]] H; try reflexivity.
  destruct (H eq_refl) as [A B]. destruct r as [|c r]; [reflexivity|]. simpl in *.
  destruct (Z.eqb_spec c 45); [congruence|]. destruct (Z.eqb_spec c 43); [congruence|]. reflexivity.
Qed.

Lemma digit_nosign r : is_digit (hd 0 r) = true -> nosign r.
Proof. intros H. apply is_digit_range in H. unfold nosign. lia. Qed.

(* ---- lex_exponent ---- *)
Definition exp_shape (e : bytes) : Prop :=
  e = [] \/ exists ec es ed, e = ec :: es ++ ed /\ (ec = 101 \/ ec = 69) /\ sign_shape es /\
                             forallb is_digit ed = true /\ ed <> [].

Lemma lex_exponent_spec l e r : lex_exponent l = (e, r) -> l = e ++ r /\ exp_shape e.
Proof.
  unfold lex_exponent, exp_shape. destruct l as [|c l]; [inversion 1; auto|].
  destruct ((c =? 101) || (c =? 69)) eqn:Ec; [|inversion 1; auto].
  destruct (lex_sign l) as [s r1] eqn:Es. destruct (span_digits r1) as [d r2] eqn:Ed.
  apply lex_sign_spec in Es as [-> Hs]. apply span_digits_spec in Ed as (-> & Hd & _).
  destruct d as [|x d]; inversion 1; subst; [auto|]. split.
  - simpl. rewrite <- app_assoc. reflexivity.
  - right. exists c, s, (x :: d). repeat split; auto; [|congruence].
    apply orb_true_iff in Ec as [Ec|Ec]; apply Z.eqb_eq in Ec; auto.
Qed.

Lemma lex_exponent_app e r : exp_shape e -> nd r -> (e = [] -> hd 0 r <> 101 /\ hd 0 r <> 69) ->
  lex_exponent (e ++ r) = (e, r).
Proof.
  intros [-> | (ec & es & ed & -> & Hec & Hes & Hed & Hne)] Hnd H.
  - destruct (H eq_refl) as [A B]. destruct r as [|c r]; [reflexivity|]. simpl in *.
    destruct (Z.eqb_spec c 101); [congruence|]. destruct (Z.eqb_spec c 69); [congruence|]. reflexivity.
  - simpl. replace ((ec =? 101) || (ec =? 69)) with true by (destruct Hec as [-> | ->]; reflexivity).
    rewrite <- app_assoc. rewrite lex_sign_app; auto.
    + rewrite span_digits_app; auto. destruct ed; [congruence|]. reflexivity.
    + intros _. apply digit_nosign. rewrite hd_app_ne; auto. apply digits_hd; auto.
Qed.

(* ---- the fraction part of lex_number, named ---- *)
Definition lex_frac (i r1 : bytes) : bytes * bytes :=
  match r1 with
  | 46 :: r => let '(f, r') := span_digits r in
               match i, f with [], [] => ([], r1) | _, _ => (46 :: f, r') end
  | _ => ([], r1)
  end.

Lemma lex_number_eq l : lex_number l =
  let '(s, r0) := lex_sign l in
  let '(i, r1) := span_digits r0 in
  let '(frac, r2) := lex_frac i r1 in
  match i, frac with
  | [], [] => None
  | _, _ => let '(e, r3) := lex_exponent r2 in Some (s ++ i ++ frac ++ e, r3)
  end.
Proof. reflexivity. Qed.

Lemma lex_frac_46 i r : lex_frac i (46 :: r) =
  let '(f, r') := span_digits r in match i, f with [], [] => ([], 46 :: r) | _, _ => (46 :: f, r') end.
Proof. reflexivity. Qed.

Lemma lex_frac_not46 i r1 : hd 0 r1 <> 46 -> lex_frac i r1 = ([], r1).
Proof.
  destruct r1 as [|x r]; [reflexivity|]. simpl hd. intros H. unfold lex_frac. dz x.
  exfalso; apply H; reflexivity.
Qed.

Definition frac_shape (i f : bytes) : Prop :=
  (f = [] /\ i <> []) \/ exists fd, f = 46 :: fd /\ forallb is_digit fd = true /\ (i <> [] \/ fd <> []).

Lemma lex_frac_spec i r1 f r2 : lex_frac i r1 = (f, r2) ->
  r1 = f ++ r2 /\ (f = [] \/ exists fd, f = 46 :: fd /\ forallb is_digit fd = true /\ (i <> [] \/ fd <> [])).
Proof.
  destruct r1 as [|x r]; [inversion 1; auto|].
  destruct (Z.eq_dec x 46) as [->|n].
  - rewrite lex_frac_46. destruct (span_digits r) as [fd r'] eqn:E.
    apply span_digits_spec in E as (-> & Hd & _).
    destruct i as [|a i]; destruct fd as [|b fd]; inversion 1; subst; auto; split; auto; right;
      eexists; repeat split; eauto; try (left; congruence); right; congruence.
  - rewrite lex_frac_not46 by exact n. inversion 1; auto.
Qed.

Definition num_shape (s i f e : bytes) : Prop :=
  sign_shape s /\ forallb is_digit i = true /\ frac_shape i f /\ exp_shape e.

Lemma lex_number_shape l lx r : lex_number l = Some (lx, r) ->
  exists s i f e, lx = s ++ i ++ f ++ e /\ l = lx ++ r /\ num_shape s i f e.
Proof.
  rewrite lex_number_eq.
  destruct (lex_sign l) as [s r0] eqn:Es. destruct (span_digits r0) as [i r1] eqn:Ei.
  destruct (lex_frac i r1) as [f r2] eqn:Ef.
  apply lex_sign_spec in Es as [-> Hs]. apply span_digits_spec in Ei as (-> & Hi & _).
  apply lex_frac_spec in Ef as [-> Hf].
  assert (G : forall e r3, lex_exponent r2 = (e, r3) -> (i <> [] \/ f <> []) ->
              Some (s ++ i ++ f ++ e, r3) = Some (lx, r) ->
              exists s0 i0 f0 e0, lx = s0 ++ i0 ++ f0 ++ e0 /\ s ++ i ++ f ++ r2 = lx ++ r /\ num_shape s0 i0 f0 e0).
  { intros e r3 Ee Hne H. inversion H; subst. apply lex_exponent_spec in Ee as [-> He].
    exists s, i, f, e. split; [reflexivity|]. split; [rewrite <- !app_assoc; reflexivity|].
    repeat split; auto. destruct Hf as [-> | Hf]; [left | right; exact Hf].
    split; auto. destruct Hne; congruence. }
  destruct (lex_exponent r2) as [e r3] eqn:Ee.
  destruct i as [|a i]; destruct f as [|b f]; try discriminate; intros H;
    eapply G; eauto; try (left; congruence); right; congruence.
Qed.

Lemma lex_number_ext s i f e rest : num_shape s i f e -> nd rest ->
  (e = [] -> hd 0 rest <> 101 /\ hd 0 rest <> 69) ->
  (f = [] -> e = [] -> hd 0 rest <> 46) ->
  lex_number (s ++ i ++ f ++ e ++ rest) = Some (s ++ i ++ f ++ e, rest).
Proof.
  intros (Hs & Hi & Hf & He) Hnd H1 H2. rewrite lex_number_eq.
  (* first byte of e ++ rest *)
  assert (Ee : nd (e ++ rest) /\ (f = [] -> hd 0 (e ++ rest) <> 46)).
  { destruct He as [-> | (ec & es & ed & -> & Hec & _)]; simpl.
    - split; auto.
    - unfold nd; simpl. split; [|intros _]; destruct Hec as [-> | ->]; try reflexivity; lia. }
  destruct Ee as [Ee1 Ee2].
  assert (Ef : nd (f ++ e ++ rest)).
  { destruct Hf as [[-> _] | (fd & -> & _)]; [exact Ee1 | reflexivity]. }
  rewrite lex_sign_app; auto.
  2:{ intros _. destruct i as [|a i].
      - destruct Hf as [[_ C] | (fd & -> & _)]; [congruence|]. unfold nosign; simpl; lia.
      - apply digit_nosign. simpl. simpl in Hi. apply andb_true_iff in Hi. tauto. }
  rewrite span_digits_app; auto.
  assert (Hlx : lex_exponent (e ++ rest) = (e, rest)) by (apply lex_exponent_app; auto).
  destruct Hf as [[-> Hi0] | (fd & -> & Hfd & Hne)].
  - simpl app. rewrite lex_frac_not46 by auto. rewrite Hlx. destruct i; [congruence|reflexivity].
  - simpl app. rewrite lex_frac_46. rewrite span_digits_app; auto.
    destruct i as [|a i]; destruct fd as [|b fd]; try (rewrite Hlx; reflexivity). destruct Hne; congruence.
Qed.

(* ---- ends_00 / rewrite_00 ---- *)
Lemma ends_00_eq l : ends_00 l =
  match rev l with a :: b :: _ :: _ => (a =? 48) && (b =? 48) && negb (existsb is_dot_or_e l) | _ => false end.
Proof.
  unfold ends_00. destruct (rev l) as [|a [|b [|x t]]]; try reflexivity; dz a; dz b.
Qed.

Lemma ends_00_spec c : ends_00 c = true ->
  exists d, d <> [] /\ c = d ++ [48; 48] /\ existsb is_dot_or_e c = false.
Proof.
  rewrite ends_00_eq. destruct (rev c) as [|a [|b [|x t]]] eqn:E; try discriminate.
  intros H. apply andb_true_iff in H as [H Hn]. apply andb_true_iff in H as [Ha Hb].
  apply Z.eqb_eq in Ha, Hb. apply negb_true_iff in Hn. subst.
  exists (rev t ++ [x]). split; [destruct (rev t); discriminate|]. split; [|exact Hn].
  rewrite <- (rev_involutive c), E. simpl. rewrite <- !app_assoc. reflexivity.
Qed.

Lemma ends_00_no_dot_e c : ends_00 c = true -> existsb is_dot_or_e c = false.
Proof. intros E. destruct (ends_00_spec c E) as (d & _ & _ & H). exact H. Qed.

Lemma firstn_drop2 {A} (d : list A) x y : firstn (length (d ++ [x; y]) - 2) (d ++ [x; y]) = d.
Proof.
  rewrite app_length. simpl length. replace (length d + 2 - 2)%nat with (length d + 0)%nat by lia.
  rewrite firstn_app_2. simpl. apply app_nil_r.
Qed.

(* the rewrite as an equation: whenever the test fires, c = d00 with d non-empty and d00 is written de2 *)
Lemma rewrite_00_yes c : ends_00 c = true ->
  exists d, d <> [] /\ c = d ++ [48; 48] /\ rewrite_00 c = d ++ [101; 50].
Proof.
  intros E. destruct (ends_00_spec c E) as (d & Hd & Hc & _). exists d. repeat split; auto.
  unfold rewrite_00. rewrite E. subst c. rewrite firstn_drop2. reflexivity.
Qed.

Lemma ends_00_app d : d <> [] -> existsb is_dot_or_e d = false -> ends_00 (d ++ [48; 48]) = true.
Proof.
  intros Hd Hx. rewrite ends_00_eq, rev_app_distr. cbn [rev app]. destruct (rev d) eqn:R.
  - apply (f_equal (@rev _)) in R. rewrite rev_involutive in R. simpl in R. congruence.
  - rewrite existsb_app, Hx. reflexivity.
Qed.

Lemma rewrite_00_app d : d <> [] -> existsb is_dot_or_e d = false -> rewrite_00 (d ++ [48; 48]) = d ++ [101; 50].
Proof.
  intros Hd Hx. unfold rewrite_00. rewrite (ends_00_app d Hd Hx), firstn_drop2. reflexivity.
Qed.

Lemma rewrite_00_no c : ends_00 c = false -> rewrite_00 c = c.
Proof. unfold rewrite_00. intros ->. reflexivity. Qed.

Lemma rewrite_safe_spec c : rewrite_safe c = true -> ends_00 c = true ->
  (exists d, c = 45 :: d /\ all_digits d = true) \/ all_digits c = true.
Proof.
  unfold rewrite_safe. intros H E. rewrite E in H.
  destruct c as [|x c']; [right; exact H|].
  destruct (Z.eq_dec x 45) as [->|n]; [left; eexists; split; [reflexivity|exact H]|].
  right. revert H. dzt x ltac:(exact (fun h => h)). exfalso; apply n; reflexivity.
Qed.

(* ---- coordinates ---- *)
Lemma min_number_shape c : min_number c = true -> exists s i f e, c = s ++ i ++ f ++ e /\ num_shape s i f e.
Proof.
  unfold min_number. destruct (lex_number c) as [[lx [|? ?]]|] eqn:E; try discriminate. intros _.
  apply lex_number_shape in E as (s & i & f & e & -> & E2 & Hsh).
  exists s, i, f, e. split; auto. rewrite app_nil_r in E2. exact E2.
Qed.

Lemma min_number_no_plus c : min_number c = true -> existsb (fun x => (x =? 43) || (x =? 69)) c = false.
Proof.
  unfold min_number. destruct (lex_number c) as [[lx [|? ?]]|]; try discriminate. apply negb_true_iff.
Qed.

(* a coordinate without '.', 'e', 'E' (and without '+') is an optional '-' followed by digits *)
Lemma min_number_int_shape c : min_number c = true -> existsb is_dot_or_e c = false ->
  exists s d, c = s ++ d /\ (s = [] \/ s = [45]) /\ all_digits d = true /\ d <> [].
Proof.
  intros Hm Hx. pose proof (min_number_no_plus c Hm) as Hp.
  apply min_number_shape in Hm as (s & i & f & e & -> & Hs & Hi & Hf & He).
  rewrite !existsb_app in Hx. apply orb_false_iff in Hx as [_ Hx]. apply orb_false_iff in Hx as [_ Hx].
  apply orb_false_iff in Hx as [Hxf Hxe].
  assert (f = []) as ->.
  { destruct Hf as [[-> _] | (fd & -> & _)]; [reflexivity | discriminate Hxf]. }
  assert (e = []) as ->.
  { destruct He as [-> | (ec & es & ed & -> & [-> | ->] & _)]; [reflexivity | discriminate Hxe | discriminate Hxe]. }
  assert (i <> []) by (destruct Hf as [[_ Hi0] | (fd & C & _)]; [exact Hi0 | discriminate C]).
  exists s, i. rewrite !app_nil_r. repeat split; auto.
  destruct Hs as [-> | [-> | ->]]; auto. discriminate Hp.
Qed.

Lemma all_digits_rewrite_match l : all_digits l = true ->
  match l with 45 :: d => all_digits d | d => all_digits d end = true.
Proof.
  destruct l as [|x l']; [auto|]. intros H. revert H. dzt x ltac:(exact (fun h => h)).
  unfold all_digits. cbn [forallb]. intros H. apply andb_true_iff in H as [_ H]. exact H.
Qed.

(* REPAIR: the rewrite test now implies what used to be the hypothesis [rewrite_safe] (finding K70) *)
Lemma ends_00_rewrite_safe c : min_number c = true -> ends_00 c = true -> rewrite_safe c = true.
Proof.
  intros Hm E. unfold rewrite_safe. rewrite E.
  destruct (min_number_int_shape c Hm (ends_00_no_dot_e c E)) as (s & d & -> & [-> | ->] & Hd & _).
  - apply all_digits_rewrite_match. exact Hd.
  - exact Hd.
Qed.

Lemma min_number_rewrite_safe c : min_number c = true -> rewrite_safe c = true.
Proof.
  intros Hm. destruct (ends_00 c) eqn:E; [apply ends_00_rewrite_safe; auto|].
  unfold rewrite_safe. rewrite E. reflexivity.
Qed.

Definition num_start (x : byte) : Prop := x = 45 \/ x = 43 \/ x = 46 \/ is_digit x = true.

Lemma shape_hd s i f e : num_shape s i f e -> s ++ i ++ f ++ e <> [] /\ num_start (hd 0 (s ++ i ++ f ++ e)).
Proof.
  unfold num_start. intros (Hs & Hi & Hf & He). destruct Hs as [-> | [-> | ->]]; simpl; try (split; [congruence|auto]).
  destruct i as [|a i]; simpl.
  - destruct Hf as [[_ C] | (fd & -> & _)]; [congruence|]. simpl. split; [congruence|auto].
  - split; [congruence|]. simpl in Hi. apply andb_true_iff in Hi. tauto.
Qed.

Lemma num_hd c : min_number c = true -> c <> [] /\ num_start (hd 0 c).
Proof. intros H. apply min_number_shape in H as (s & i & f & e & -> & Hsh). apply shape_hd; auto. Qed.

Lemma rewrite_00_hd c : c <> [] -> rewrite_00 c <> [] /\ hd 0 (rewrite_00 c) = hd 0 c.
Proof.
  intros Hc. destruct (ends_00 c) eqn:E.
  - apply rewrite_00_yes in E as (d & Hd & -> & ->).
    destruct d; [congruence|]. split; [discriminate|reflexivity].
  - rewrite rewrite_00_no by auto. auto.
Qed.

Definition not_neg00 (c : bytes) : bool := negb (beqb c [45; 48; 48]).
Definition isint_of (c : bytes) : bool := if ends_00 c then false else negb (existsb is_dot_or_e c).
Definition stop_frac (r : bytes) : Prop := nd r /\ hd 0 r <> 101 /\ hd 0 r <> 69.

Lemma num_lex c rest : min_number c = true -> not_neg00 c = true ->
  stop_frac rest -> (isint_of c = true -> hd 0 rest <> 46) ->
  lex_number (rewrite_00 c ++ rest) = Some (rewrite_00 c, rest).
Proof.
  intros Hm Hn (Hnd & H101 & H69) Hint. unfold isint_of in Hint.
  pose proof (min_number_rewrite_safe c Hm) as Hs.
  assert (Eexp : exp_shape [101; 50]).
  { right. exists 101, [], [50]. repeat split; auto; [left; reflexivity | discriminate]. }
  destruct (ends_00 c) eqn:E.
  - destruct (rewrite_safe_spec _ Hs E) as [(d' & Hc & Hd') | Hall];
      destruct (rewrite_00_yes c E) as (d & Hd & -> & ->).
    + destruct d as [|y d0]; [congruence|]. simpl in Hc. inversion Hc; subst.
      unfold all_digits in Hd'. rewrite forallb_app in Hd'. apply andb_true_iff in Hd' as [Hd0 _].
      assert (d0 <> []) by (intros ->; vm_compute in Hn; discriminate).
      pose proof (lex_number_ext [45] d0 [] [101; 50] rest) as L. simpl in L.
      rewrite <- app_assoc. simpl. apply L; auto; try discriminate.
      repeat split; auto; [right; left; reflexivity | left; auto].
    + unfold all_digits in Hall. rewrite forallb_app in Hall. apply andb_true_iff in Hall as [Hd0 _].
      pose proof (lex_number_ext [] d [] [101; 50] rest) as L. simpl in L.
      rewrite <- app_assoc. simpl. apply L; auto; try discriminate.
      repeat split; auto; [left; reflexivity | left; auto].
  - rewrite rewrite_00_no by auto.
    apply min_number_shape in Hm as (s & i & f & e & -> & Hsh).
    rewrite <- !app_assoc. apply lex_number_ext; auto.
    intros -> ->. apply Hint. rewrite !app_nil_r.
    destruct Hsh as (Hsg & Hi & _). rewrite existsb_app, (digits_no_dot_e i Hi).
    destruct Hsg as [-> | [-> | ->]]; reflexivity.
Qed.

(* ---- copy_number, by cases ---- *)
Definition st_num (c : bytes) : pstate := {| prevDigit := true; prevDigitIsInt := isint_of c; prevFlag := false |}.

Lemma copy_number_cases st c :
  (copy_number st c = ([46; 48], st) /\ prevDigit st = true /\ prevDigitIsInt st = false /\ hd 0 c = 48)
  \/ (exists sep, copy_number st c = (sep ++ rewrite_00 c, st_num c) /\
        (sep = [32] \/ (sep = [] /\ (prevDigit st = true ->
             is_digit (hd 0 c) = false /\ (prevDigitIsInt st = true -> hd 0 c <> 46))))).
Proof.
  unfold copy_number, st_num, isint_of.
  set (needs := prevDigit st && (is_digit (hd 0 c) || (hd 0 c =? 46) && prevDigitIsInt st)).
  destruct (needs && (hd 0 c =? 48) && negb (prevDigitIsInt st)) eqn:A.
  - left. apply andb_true_iff in A as [A A3]. apply andb_true_iff in A as [A1 A2].
    unfold needs in A1. apply andb_true_iff in A1 as [A1 _]. apply Z.eqb_eq in A2.
    apply negb_true_iff in A3. auto.
  - right. destruct needs eqn:N.
    + exists [32]. auto.
    + exists []. split; [reflexivity|]. right. split; [reflexivity|]. intros P. unfold needs in N.
      rewrite P in N. simpl in N. apply orb_false_iff in N as [N1 N2]. split; [exact N1|].
      intros Q. rewrite Q, andb_true_r in N2. apply Z.eqb_neq in N2. exact N2.
Qed.

Lemma skip_seps_start l : is_sep (hd 0 l) = false -> skip_seps l = l.
Proof. destruct l as [|x l]; [reflexivity|]. simpl. intros ->. reflexivity. Qed.

Lemma num_start_facts x : num_start x ->
  is_sep x = false /\ x <> 32 /\ x <> 101 /\ x <> 69.
Proof.
  unfold num_start, is_sep. rewrite is_digit_range. intros H.
  destruct (Z.eqb_spec x 32), (Z.eqb_spec x 44), (Z.eqb_spec x 9), (Z.eqb_spec x 10), (Z.eqb_spec x 13);
    simpl; repeat split; try lia.
Qed.

(* ---- the corrected well-formedness predicate ---- *)
Definition ok_item' (i : item) : bool :=
  ok_item i && match i with INum c => not_neg00 c | IFlag _ => true end.

(* what a state with prevDigit = true requires of the bytes written next *)
Definition start_ok (st : pstate) (out : bytes) : Prop :=
  prevDigit st = true -> stop_frac out /\ (prevDigitIsInt st = true -> hd 0 out <> 46).
Definition st_wf (st : pstate) : Prop := prevDigit st = true -> prevFlag st = false.

Lemma emit_lexes : forall items st, forallb ok_item' items = true -> st_wf st ->
  lex_items (map kind_of items) (emit st items) = Some (emitted st items, []) /\ start_ok st (emit st items).
Proof.
  induction items as [|it items IH]; intros st Hok Hwf.
  - simpl. split; [reflexivity|]. intros _. unfold stop_frac, nd. simpl. repeat split; try reflexivity; lia.
  - cbn [forallb] in Hok. apply andb_true_iff in Hok as [Hit Hok]. destruct it as [c | b].
    + (* number *)
      unfold ok_item', ok_item in Hit. apply andb_true_iff in Hit as [Hit Hn].
      apply andb_true_iff in Hit as [Hm Hz].
      destruct (num_hd c Hm) as [Hne Hst]. destruct (rewrite_00_hd c Hne) as [Hwne Hwhd].
      cbn [map kind_of emit emitted lex_items].
      destruct (copy_number_cases st c) as [(-> & P & Q & Hc0) | (sep & -> & Hsep)].
      * (* ".0" *)
        destruct (IH st Hok Hwf) as [L S]. destruct (S P) as [Sf _].
        change ([46; 48] ++ emit st items) with ([] ++ [] ++ [46; 48] ++ [] ++ emit st items).
        rewrite skip_seps_start by reflexivity.
        rewrite lex_number_ext.
        -- simpl. rewrite L. split; [reflexivity|]. intros _. split; [|congruence].
           unfold stop_frac, nd. simpl. repeat split; try reflexivity; lia.
        -- repeat split; try reflexivity; [left; reflexivity | right; exists [48]; repeat split; auto; right; discriminate | left; reflexivity].
        -- apply Sf.
        -- intros _. apply Sf.
        -- discriminate.
      * assert (Hwf' : st_wf (st_num c)) by (intros _; reflexivity).
        destruct (IH (st_num c) Hok Hwf') as [L S]. destruct (S eq_refl) as [Sf Si].
        destruct (num_start_facts _ Hst) as (F1 & F2 & F3 & F4).
        assert (Hskip : skip_seps (sep ++ rewrite_00 c ++ emit (st_num c) items) = rewrite_00 c ++ emit (st_num c) items).
        { assert (G : skip_seps (rewrite_00 c ++ emit (st_num c) items) = rewrite_00 c ++ emit (st_num c) items).
          { apply skip_seps_start. rewrite hd_app_ne by auto. rewrite Hwhd. exact F1. }
          destruct Hsep as [-> | [-> _]]; simpl; exact G. }
        rewrite <- app_assoc, Hskip. rewrite num_lex; auto. rewrite L. split.
        -- destruct Hsep as [-> | [-> _]]; [reflexivity|].
           simpl. rewrite strip32; [reflexivity|]. rewrite Hwhd. exact F2.
        -- intros P. destruct Hsep as [-> | [-> Hsep]].
           ++ unfold stop_frac, nd. simpl. repeat split; try reflexivity; lia.
           ++ destruct (Hsep P) as [D1 D2]. simpl. rewrite hd_app_ne by auto. rewrite Hwhd.
              unfold stop_frac, nd. rewrite hd_app_ne by auto. rewrite Hwhd. auto.
    + (* flag *)
      cbn [map kind_of emit emitted lex_items copy_flag].
      set (st' := {| prevDigit := false; prevDigitIsInt := false; prevFlag := true |}).
      assert (Hwf' : st_wf st') by (intros C; discriminate C).
      destruct (IH st' Hok Hwf') as [L _]. split.
      * destruct (prevFlag st), b; simpl; rewrite L; reflexivity.
      * intros P. rewrite (Hwf P). unfold stop_frac, nd. simpl. repeat split; try reflexivity; lia.
Qed.

(* ================= statements ================= *)

(* COUNTEREXAMPLE to the two soundness statements as first written (with [ok_item]): the coordinate "-00" passes
   [ok_item] (it is one number lexeme, the "00" rewrite hits a signed plain integer, it does not start with '0'), yet
   [rewrite_00] turns it into "-e2", which has no digit before the exponent and is not a number of the SVG grammar. *)
Example ok_item_neg00 : ok_item (INum [45; 48; 48]) = true.
Proof. vm_compute. reflexivity. Qed.
Example neg00_written_as : emit st_cmd [INum [45; 48; 48]] = [45; 101; 50] /\ emitted st_cmd [INum [45; 48; 48]] = [INum [45; 101; 50]].
Proof. vm_compute. split; reflexivity. Qed.
Example path_separators_sound_counterexample :
  forallb ok_item [INum [45; 48; 48]] = true /\ prevDigit st_cmd = false /\
  lex_items (map kind_of [INum [45; 48; 48]]) (emit st_cmd [INum [45; 48; 48]]) = None.
Proof. vm_compute. repeat split; reflexivity. Qed.
Example path_separators_sound_after_number_counterexample :
  forallb ok_item (INum [45; 48; 48] :: []) = true /\
  lex_items (map kind_of (INum [45; 48; 48] :: [])) (emit st_cmd (INum [45; 48; 48] :: []))
    <> Some (emitted st_cmd (INum [45; 48; 48] :: []), []).
Proof. vm_compute. split; [reflexivity | discriminate]. Qed.
(* "-00" is the only obstruction: "-000" is rewritten to "-0e2", which is fine *)
Example neg000_fine : lex_items [false] (emit st_cmd [INum [45; 48; 48; 48]]) = Some ([INum [45; 48; 101; 50]], []).
Proof. vm_compute. reflexivity. Qed.

(* ORIGINAL (false, see the counterexamples above):
Theorem path_separators_sound : forall items st,
  forallb ok_item items = true -> prevDigit st = false ->
  lex_items (map kind_of items) (emit st items) = Some (emitted st items, []).
Theorem path_separators_sound_after_number : forall items p,
  forallb ok_item (INum p :: items) = true ->
  lex_items (map kind_of (INum p :: items)) (emit st_cmd (INum p :: items)) = Some (emitted st_cmd (INum p :: items), []).
*)

(* CORRECTED: [ok_item' i = ok_item i && (i is not the coordinate "-00")] — the weakest strengthening of [ok_item]
   (defined above, before [emit_lexes]).  minify.Number returns "0" for every zero, so it never returns "-00". *)

(* MAIN THEOREM: right after a command letter or a flag (prevDigit = false) the emitted bytes lex back — by the SVG number
   grammar with maximal munch, flags as single characters — to exactly the lexemes that were written, nothing left over *)
Theorem path_separators_sound : forall items st,
  forallb ok_item' items = true -> prevDigit st = false ->
  lex_items (map kind_of items) (emit st items) = Some (emitted st items, []).
Proof.
  intros items st Hok Hp. apply emit_lexes; auto. intros C. congruence.
Qed.

(* the general form: after a previous number p (already emitted) the continuation still splits correctly *)
Theorem path_separators_sound_after_number : forall items p,
  forallb ok_item' (INum p :: items) = true ->
  lex_items (map kind_of (INum p :: items)) (emit st_cmd (INum p :: items)) = Some (emitted st_cmd (INum p :: items), []).
Proof. intros items p Hok. apply path_separators_sound; auto. Qed.

(* stronger than the two theorems above: in ANY consistent state (prevDigit and prevFlag not both set) the continuation
   lexes back, and if a number was written just before, the continuation cannot extend it: it starts with no digit and
   no exponent letter, and with no '.' when the previous number was written as a plain integer *)
Theorem path_separators_sound_any_state : forall items st,
  forallb ok_item' items = true -> (prevDigit st = true -> prevFlag st = false) ->
  lex_items (map kind_of items) (emit st items) = Some (emitted st items, []) /\
  (prevDigit st = true ->
     let c := hd 0 (emit st items) in
     is_digit c = false /\ c <> 101 /\ c <> 69 /\ (prevDigitIsInt st = true -> c <> 46)).
Proof.
  intros items st Hok Hwf. destruct (emit_lexes items st Hok Hwf) as [L S]. split; [exact L|].
  intros P. destruct (S P) as [(A & B & C) D]. repeat split; auto.
Qed.

(* and a written number followed by such a continuation is split off exactly (the invariant used in the induction) *)
Theorem written_number_splits : forall c rest, ok_item' (INum c) = true ->
  is_digit (hd 0 rest) = false -> hd 0 rest <> 101 -> hd 0 rest <> 69 ->
  ((if ends_00 c then false else negb (existsb is_dot_or_e c)) = true -> hd 0 rest <> 46) ->
  lex_number (rewrite_00 c ++ rest) = Some (rewrite_00 c, rest).
Proof.
  intros c rest Hok A B C D. unfold ok_item', ok_item in Hok.
  apply andb_true_iff in Hok as [Hok Hn]. apply andb_true_iff in Hok as [Hm _].
  apply num_lex; auto. repeat split; auto.
Qed.

(* the natural reading of the harness check: minify.Number never returns a negative zero prefix "-0..." *)
Definition no_neg_zero (c : bytes) : bool := match c with 45 :: 48 :: _ => false | _ => true end.
Lemma no_neg_zero_ok c : ok_item (INum c) = true -> no_neg_zero c = true -> ok_item' (INum c) = true.
Proof.
  intros H N. unfold ok_item'. rewrite H. simpl. unfold not_neg00.
  destruct (beqb c [45; 48; 48]) eqn:E; [|reflexivity].
  apply beqb_eq in E. subst. discriminate N.
Qed.

(* every written lexeme is the coordinate itself, its "e2" spelling, or ".0" for the coordinate "0" *)
Theorem emitted_lexemes : forall items st, forallb ok_item items = true ->
  Forall2 (fun i o => match i, o with
                      | INum c, INum w => w = rewrite_00 c \/ (c = [48] /\ w = [46; 48])
                      | IFlag a, IFlag b => a = b
                      | _, _ => False
                      end) items (emitted st items).
Proof.
  induction items as [|it items IH]; intros st Hok; [constructor|].
  cbn [forallb] in Hok. apply andb_true_iff in Hok as [Hit Hok]. destruct it as [c | b].
  - unfold ok_item in Hit. apply andb_true_iff in Hit as [Hm Hz].
    destruct (num_hd c Hm) as [Hne Hst]. destruct (rewrite_00_hd c Hne) as [Hwne Hwhd].
    destruct (num_start_facts _ Hst) as (F1 & F2 & F3 & F4).
    cbn [emitted].
    destruct (copy_number_cases st c) as [(-> & P & Q & Hc0) | (sep & -> & Hsep)].
    + constructor; [|apply IH; exact Hok]. right. split; [|reflexivity].
      destruct c as [|x [|y c']]; [exfalso; apply Hne; reflexivity | simpl in Hc0; subst x; reflexivity |].
      simpl in Hc0. subst x. discriminate Hz.
    + constructor; [|apply IH; exact Hok]. left.
      destruct Hsep as [-> | [-> _]]; [reflexivity|].
      simpl. apply strip32. rewrite Hwhd. exact F2.
  - cbn [emitted copy_flag]. constructor; [reflexivity | apply IH; exact Hok].
Qed.

(* the "00" -> "e2" rewrite is applied to plain integers only: d00 becomes de2 (same value: d*100 = d*10^2);
   the hypothesis [rewrite_safe] is kept in the statement for compatibility, it is not used (and follows from
   [min_number], see [ends_00_rewrite_safe]) *)
Theorem rewrite_00_shape : forall c, rewrite_safe c = true -> ends_00 c = true ->
  exists d, c = d ++ [48; 48] /\ rewrite_00 c = d ++ [101; 50] /\ d <> [].
Proof.
  intros c _ E. destruct (rewrite_00_yes c E) as (d & Hd & Hc & Hw). exists d. auto.
Qed.

(* with the corrected predicate the rewritten prefix also keeps a digit: d is a non-empty digit string, optionally signed *)
Theorem rewrite_00_shape_digits : forall c, ok_item' (INum c) = true -> ends_00 c = true ->
  exists s d, c = s ++ d ++ [48; 48] /\ rewrite_00 c = s ++ d ++ [101; 50] /\
              (s = [] \/ s = [45]) /\ all_digits d = true /\ d <> [].
Proof.
  intros c Hok E. unfold ok_item', ok_item in Hok.
  apply andb_true_iff in Hok as [Hok Hn]. apply andb_true_iff in Hok as [Hm _].
  pose proof (ends_00_rewrite_safe c Hm E) as Hs.
  destruct (rewrite_safe_spec _ Hs E) as [(d' & Hc & Hd') | Hall];
    destruct (rewrite_00_yes c E) as (d & Hd & -> & ->).
  - destruct d as [|y d0]; [congruence|]. simpl in Hc. inversion Hc; subst.
    unfold all_digits in Hd'. rewrite forallb_app in Hd'. apply andb_true_iff in Hd' as [Hd0 _].
    exists [45], d0. repeat split; auto. intros ->. vm_compute in Hn. discriminate.
  - unfold all_digits in Hall. rewrite forallb_app in Hall. apply andb_true_iff in Hall as [Hd0 _].
    exists [], d. repeat split; auto.
Qed.

(* non-vacuity / regression examples from the implementation's own tests *)
Example sep_example_1 : emit st_cmd [INum [49]; INum [46; 53]; INum [48]; INum [45; 50]; INum [49; 48; 48]] = [49; 32; 46; 53; 46; 48; 45; 50; 32; 49; 101; 50].
Proof. vm_compute. reflexivity. Qed.
Example sep_example_arc : emit st_cmd [INum [49]; INum [49]; INum [48]; IFlag false; IFlag true; INum [53]; INum [53]] = [49; 32; 49; 32; 48; 32; 48; 49; 53; 32; 53].
Proof. vm_compute. reflexivity. Qed.
(* the hypotheses of the main theorem hold on these examples *)
Example sep_example_1_ok : forallb ok_item' [INum [49]; INum [46; 53]; INum [48]; INum [45; 50]; INum [49; 48; 48]] = true.
Proof. vm_compute. reflexivity. Qed.
Example sep_example_arc_ok : forallb ok_item' [INum [49]; INum [49]; INum [48]; IFlag false; IFlag true; INum [53]; INum [53]] = true.
Proof. vm_compute. reflexivity. Qed.

(* REPAIRED behaviour (finding K70): the exponent coordinate "1e100" ends in "00" but contains 'e', so it is no longer
   rewritten (the old code wrote "1e1e2"); it is written verbatim, is not a plain integer, and a following "0" is ".0" *)
Example exponent_00_not_rewritten :
  emit st_cmd [INum [49; 101; 49; 48; 48]; INum [48]] = [49; 101; 49; 48; 48; 46; 48].
Proof. vm_compute. reflexivity. Qed.
Example exponent_00_ok : ok_item (INum [49; 101; 49; 48; 48]) = true.
Proof. vm_compute. reflexivity. Qed.
Example exponent_00_facts :
  ends_00 [49; 101; 49; 48; 48] = false /\ rewrite_00 [49; 101; 49; 48; 48] = [49; 101; 49; 48; 48] /\
  forallb ok_item' [INum [49; 101; 49; 48; 48]; INum [48]] = true /\
  lex_items [false; false] (emit st_cmd [INum [49; 101; 49; 48; 48]; INum [48]])
    = Some ([INum [49; 101; 49; 48; 48]; INum [46; 48]], []).
Proof. vm_compute. repeat split; reflexivity. Qed.
(* the hypothesis that used to exclude this case is now a theorem about every coordinate *)
Theorem ok_item_rewrite_safe : forall c, ok_item (INum c) = true -> rewrite_safe c = true.
Proof.
  intros c H. unfold ok_item in H. apply andb_true_iff in H as [Hm _]. apply min_number_rewrite_safe; exact Hm.
Qed.
