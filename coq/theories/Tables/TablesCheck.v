(* Tables/TablesCheck.v — the checking functions applied to the generated tables (coq/gen/Tables_gen.v)
   against the pinned references (coq/theories/Ref). *)
From MV Require Import Base.MvBytes Ref.RefHtml5Entities Ref.RefCssColors Ref.RefHtmlLists.
From MVGen Require Import Tables_gen.

Fixpoint lookup {A} (k : bytes) (l : list (bytes * A)) : option A :=
  match l with
  | [] => None
  | (k', v) :: r => if beqb k' k then Some v else lookup k r
  end.
Definition mem (k : bytes) (l : list bytes) : bool := existsb (beqb k) l.

(* ---------- character references ---------- *)
Fixpoint parse_dec_acc (acc : Z) (l : bytes) : option Z :=
  match l with
  | [] => Some acc
  | c :: r => if is_digit c then parse_dec_acc (acc * 10 + (c - 48)) r else None
  end.

Definition utf8_encode (cp : Z) : bytes :=
  if cp <? 128 then [cp]
  else if cp <? 2048 then [192 + cp / 64; 128 + cp mod 64]
  else if cp <? 65536 then [224 + cp / 4096; 128 + (cp / 64) mod 64; 128 + cp mod 64]
  else [240 + cp / 262144; 128 + (cp / 4096) mod 64; 128 + (cp / 64) mod 64; 128 + cp mod 64].

Definition has_amp (l : bytes) : bool := existsb (fun c => c =? 38) l.

(* what a replacement string decodes to: literal text (no '&'), a lone "&", one decimal reference "&#N;",
   or one named reference "&name;" looked up in the REFERENCE table *)
Definition decode_repl (r : bytes) : option bytes :=
  match r with
  | [38] => Some [38]
  | 38 :: 35 :: rest =>
      match rev rest with
      | 59 :: ds => match ds with [] => None | _ => option_map utf8_encode (parse_dec_acc 0 (rev ds)) end
      | _ => None
      end
  | 38 :: rest => match rev rest with 59 :: _ => lookup rest ref_entities | _ => None end
  | _ => if has_amp r then None else Some r
  end.

Definition obeqb (a b : option bytes) : bool :=
  match a, b with Some x, Some y => beqb x y | _, _ => false end.

(* entry (name, repl): "&name;" and repl decode to the same text *)
Definition entity_ok (e : bytes * bytes) : bool :=
  obeqb (lookup (fst e ++ [59]) ref_entities) (decode_repl (snd e)).

(* the replacement is never longer than the reference it replaces *)
Definition entity_shorter (e : bytes * bytes) : bool := Nat.leb (length (snd e)) (length (fst e) + 2).

(* reverse map entry (byte, escape): the escape decodes to exactly that byte *)
Definition rev_entity_ok (e : bytes * bytes) : bool := obeqb (decode_repl (snd e)) (Some (fst e)).

(* XML: only the five predefined entities exist *)
Definition ref_xml_entities : list (bytes * bytes) :=
  [([108;116;59], [60]); ([103;116;59], [62]); ([97;109;112;59], [38]); ([97;112;111;115;59], [39]); ([113;117;111;116;59], [34])].
Definition xml_decode_repl (r : bytes) : option bytes :=
  match r with
  | 38 :: rest => lookup rest ref_xml_entities
  | _ => if has_amp r then None else Some r
  end.
Definition xml_entity_ok (e : bytes * bytes) : bool :=
  obeqb (lookup (fst e ++ [59]) ref_xml_entities) (xml_decode_repl (snd e)).
Definition xml_rev_entity_ok (e : bytes * bytes) : bool := obeqb (xml_decode_repl (snd e)) (Some (fst e)).
(* attribute values: an escape is a predefined entity or ONE decimal character reference, and decodes to exactly the byte;
   the characters that must stay escaped in a double-quoted attribute value (markup: < &; normalised away: TAB LF CR)
   all have an entry *)
Definition xml_decode_repl_num (r : bytes) : option bytes :=
  match r with
  | 38 :: 35 :: rest =>
      match rev rest with
      | 59 :: ds => match ds with [] => None | _ => option_map (fun n => [n]) (parse_dec_acc 0 (rev ds)) end
      | _ => None
      end
  | _ => xml_decode_repl r
  end.
Definition xml_attr_rev_entity_ok (e : bytes * bytes) : bool := obeqb (xml_decode_repl_num (snd e)) (Some (fst e)).
Definition xml_attr_rev_complete (l : list (bytes * bytes)) : bool :=
  forallb (fun c => existsb (fun e => beqb (fst e) [c]) l) [60; 38; 9; 10; 13].

(* ---------- colours ---------- *)
Definition hexv (c : byte) : option Z :=
  if is_digit c then Some (c - 48) else if (97 <=? c) && (c <=? 102) then Some (c - 87)
  else if (65 <=? c) && (c <=? 70) then Some (c - 55) else None.
Definition hex_rgb (h : bytes) : option (Z * Z * Z) :=
  match h with
  | [35; a; b; c] =>
      match hexv a, hexv b, hexv c with Some x, Some y, Some z => Some (x * 17, y * 17, z * 17) | _, _, _ => None end
  | [35; a; a'; b; b'; c; c'] =>
      match hexv a, hexv a', hexv b, hexv b', hexv c, hexv c' with
      | Some x, Some x', Some y, Some y', Some z, Some z' => Some (x * 16 + x', y * 16 + y', z * 16 + z')
      | _, _, _, _, _, _ => None
      end
  | _ => None
  end.
Definition rgb_eqb (a b : option (Z * Z * Z)) : bool :=
  match a, b with
  | Some (x, y, z), Some (x', y', z') => (x =? x') && (y =? y') && (z =? z')
  | _, _ => false
  end.
(* hex -> keyword entry: keyword is a CSS colour with exactly that sRGB value, and is not longer than the hex *)
Definition color_hex_ok (e : bytes * bytes) : bool :=
  rgb_eqb (hex_rgb (fst e)) (lookup (snd e) ref_colors) && Nat.leb (length (snd e)) (length (fst e)).
(* keyword -> hex entry *)
Definition color_name_ok (e : bytes * bytes) : bool :=
  rgb_eqb (lookup (fst e) ref_colors) (hex_rgb (snd e)) && Nat.leb (length (snd e)) (length (fst e)).

(* ---------- units after which a zero may lose its unit ---------- *)
(* CSS Values and Units 4, section 6 (absolute and relative lengths): a unitless 0 is a <length>; it is NOT an <angle>,
   <time>, <frequency> or <resolution> (finding K88: rotate:0deg became rotate:0) *)
Definition ref_css_length_units : list bytes :=
  [[112;120]; [99;109]; [109;109]; [113]; [105;110]; [112;116]; [112;99];
   [101;109]; [101;120]; [99;104]; [114;101;109]; [118;119]; [118;104]; [118;109;105;110]; [118;109;97;120];
   [99;97;112]; [105;99]; [108;104]; [114;108;104]; [118;105]; [118;98]].
Definition css_zero_dims_are_lengths (l : list (bytes * bytes)) : bool :=
  forallb (fun e => existsb (beqb (fst e)) ref_css_length_units) l.

(* ---------- traits ---------- *)
Definition has_trait (t : Z) (v : Z) : bool := negb (Z.land v t =? 0).
Definition names_with (t : Z) (l : list (bytes * Z)) : list bytes :=
  map fst (filter (fun e => has_trait t (snd e)) l).
Definition subset (a b : list bytes) : bool := forallb (fun x => mem x b) a.
