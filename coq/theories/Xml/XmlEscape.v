(* Xml/XmlEscape.v — re-quoting of attribute values and CDATA-to-text conversion keep exactly the characters.
   Specification side: decoders written from XML 1.0 (character references, predefined entities), restricted to the
   references the escapers can introduce. *)
From MV Require Import Base.MvBytes Xml.XmlModel.
From Coq Require Import Arith.

(* decode the two quote references, leave everything else *)
Fixpoint unref_quotes (b : bytes) : bytes :=
  match b with
  | 38 :: 35 :: 51 :: 57 :: 59 :: r => 39 :: unref_quotes r      (* &#39; *)
  | 38 :: 35 :: 51 :: 52 :: 59 :: r => 34 :: unref_quotes r      (* &#34; *)
  | c :: r => c :: unref_quotes r
  | [] => []
  end.

(* decode &lt; and &amp;, leave everything else *)
Fixpoint unref_text (b : bytes) : bytes :=
  match b with
  | 38 :: 108 :: 116 :: 59 :: r => 60 :: unref_text r            (* &lt; *)
  | 38 :: 97 :: 109 :: 112 :: 59 :: r => 38 :: unref_text r      (* &amp; *)
  | c :: r => c :: unref_text r
  | [] => []
  end.

(* ---------- helper lemmas ---------- *)

(* case analysis on the bits of a byte, as deep as the constants of the patterns need *)
Ltac zcase c := destruct c as [|c|c]; try reflexivity; repeat (destruct c as [c|c|]; try reflexivity).

(* [strip p b]: [Some r] when b = p ++ r *)
Fixpoint strip (p b : bytes) : option bytes :=
  match p, b with
  | [], _ => Some b
  | x :: p', y :: b' => if x =? y then strip p' b' else None
  | _ :: _, [] => None
  end.

Lemma strip_spec : forall p b r, strip p b = Some r -> b = p ++ r.
Proof.
  induction p as [|x p IH]; intros [|y b] r H; simpl in H; try congruence.
  - inversion H; reflexivity.
  - inversion H; reflexivity.
  - destruct (Z.eqb_spec x y) as [->|]; [|discriminate]. simpl. f_equal. apply IH; assumption.
Qed.

Lemma uq_cons_ne : forall c r, c <> 38 -> unref_quotes (c :: r) = c :: unref_quotes r.
Proof. intros c r H. zcase c. exfalso; apply H; reflexivity. Qed.

Lemma uq_nil : unref_quotes [] = [].
Proof. reflexivity. Qed.

Lemma uq_ref39 : forall r, unref_quotes (38 :: 35 :: 51 :: 57 :: 59 :: r) = 39 :: unref_quotes r.
Proof. reflexivity. Qed.

Lemma uq_ref34 : forall r, unref_quotes (38 :: 35 :: 51 :: 52 :: 59 :: r) = 34 :: unref_quotes r.
Proof. reflexivity. Qed.

Lemma uq_amp : forall r, unref_quotes (38 :: r) =
  match strip [35; 51; 57; 59] r with
  | Some r' => 39 :: unref_quotes r'
  | None => match strip [35; 51; 52; 59] r with
            | Some r' => 34 :: unref_quotes r'
            | None => 38 :: unref_quotes r
            end
  end.
Proof.
  intros r.
  destruct r as [|c1 r]; [reflexivity|]. zcase c1.
  destruct r as [|c2 r]; [reflexivity|]. zcase c2.
  destruct r as [|c3 r]; [reflexivity|]. zcase c3.
  all: destruct r as [|c4 r]; [reflexivity|]; zcase c4.
Qed.

Lemma ut_cons_ne : forall c r, c <> 38 -> unref_text (c :: r) = c :: unref_text r.
Proof. intros c r H. zcase c. exfalso; apply H; reflexivity. Qed.

Lemma ut_lt : forall r, unref_text (38 :: 108 :: 116 :: 59 :: r) = 60 :: unref_text r.
Proof. reflexivity. Qed.

Lemma ut_amp : forall r, unref_text (38 :: 97 :: 109 :: 112 :: 59 :: r) = 38 :: unref_text r.
Proof. reflexivity. Qed.

Global Arguments unref_quotes : simpl never.
Global Arguments unref_text : simpl never.

Lemma escape_q_cons : forall q esc c r,
  escape_q q esc (c :: r) = (if c =? q then esc else [c]) ++ escape_q q esc r.
Proof. reflexivity. Qed.

Lemma escape_q_app : forall q esc p r, ~ In q p -> escape_q q esc (p ++ r) = p ++ escape_q q esc r.
Proof.
  induction p as [|x p IH]; intros r H; [reflexivity|].
  simpl. destruct (Z.eqb_spec x q) as [->|N].
  - exfalso; apply H; left; reflexivity.
  - simpl. f_equal. apply IH. intros HI; apply H; right; assumption.
Qed.

(* a pattern without the quote and without '&' is found in the escaped value exactly when it is found in the value *)
Lemma strip_escape_q : forall q esc' p, ~ In q p -> ~ In 38 p -> forall b,
  strip p (escape_q q (38 :: esc') b) = option_map (escape_q q (38 :: esc')) (strip p b).
Proof.
  intros q esc'. induction p as [|x p IH]; intros Hq Ha b; [reflexivity|].
  destruct b as [|c b]; [reflexivity|].
  rewrite escape_q_cons. destruct (Z.eqb_spec c q) as [->|N].
  - simpl. destruct (Z.eqb_spec x 38) as [->|N38]; [exfalso; apply Ha; left; reflexivity|].
    destruct (Z.eqb_spec x q) as [->|Nq]; [exfalso; apply Hq; left; reflexivity|]. reflexivity.
  - simpl. destruct (Z.eqb_spec x c); [|reflexivity].
    apply IH; intros HI; [apply Hq | apply Ha]; right; assumption.
Qed.

Lemma escape_q_no_q : forall q esc b, ~ In q esc -> ~ In q (escape_q q esc b).
Proof.
  intros q esc b H. induction b as [|c b IH]; [intros []|].
  rewrite escape_q_cons. intros HI. apply in_app_or in HI as [HI|HI]; [|auto].
  destruct (Z.eqb_spec c q) as [->|N]; [auto|].
  destruct HI as [HI|[]]. congruence.
Qed.

Lemma strip_length : forall p b r, strip p b = Some r -> length b = (length p + length r)%nat.
Proof. intros p b r H. apply strip_spec in H. subst. apply app_length. Qed.

Lemma unref_escape_q_len : forall q esc,
  (q = 34 /\ esc = [38; 35; 51; 52; 59]) \/ (q = 39 /\ esc = [38; 35; 51; 57; 59]) ->
  forall n b, (length b <= n)%nat -> unref_quotes (escape_q q esc b) = unref_quotes b.
Proof.
  intros q esc Hq. induction n as [|n IH]; intros b Hn.
  - destruct b; [reflexivity | simpl in Hn; lia].
  - destruct b as [|c b]; [reflexivity|]. simpl in Hn.
    rewrite escape_q_cons. destruct (Z.eqb_spec c q) as [->|N].
    + (* the quote itself *)
      destruct Hq as [[-> ->]|[-> ->]]; simpl app.
      * rewrite uq_ref34, uq_cons_ne by lia. f_equal. apply IH; lia.
      * rewrite uq_ref39, uq_cons_ne by lia. f_equal. apply IH; lia.
    + simpl app. destruct (Z.eq_dec c 38) as [->|N38].
      * (* '&': the look-ahead sees the same thing on both sides *)
        rewrite !uq_amp.
        assert (S1 : strip [35; 51; 57; 59] (escape_q q esc b)
                     = option_map (escape_q q esc) (strip [35; 51; 57; 59] b)).
        { destruct Hq as [[-> ->]|[-> ->]]; apply strip_escape_q; simpl; lia. }
        assert (S2 : strip [35; 51; 52; 59] (escape_q q esc b)
                     = option_map (escape_q q esc) (strip [35; 51; 52; 59] b)).
        { destruct Hq as [[-> ->]|[-> ->]]; apply strip_escape_q; simpl; lia. }
        rewrite S1, S2.
        destruct (strip [35; 51; 57; 59] b) as [r'|] eqn:E1; cbn [option_map].
        { apply strip_length in E1. simpl in E1. f_equal. apply IH; lia. }
        destruct (strip [35; 51; 52; 59] b) as [r'|] eqn:E2; cbn [option_map].
        { apply strip_length in E2. simpl in E2. f_equal. apply IH; lia. }
        f_equal. apply IH; lia.
      * rewrite !uq_cons_ne by assumption. f_equal. apply IH; lia.
Qed.

Lemma unref_escape_q : forall q esc b,
  (q = 34 /\ esc = [38; 35; 51; 52; 59]) \/ (q = 39 /\ esc = [38; 35; 51; 57; 59]) ->
  unref_quotes (escape_q q esc b) = unref_quotes b.
Proof. intros q esc b H. apply (unref_escape_q_len q esc H (length b)). lia. Qed.

Lemma escape_q_length : forall q esc b, length esc = 5%nat ->
  length (escape_q q esc b) = (length b + 4 * count q b)%nat.
Proof.
  intros q esc b H. unfold count. induction b as [|c b IH]; [reflexivity|].
  rewrite escape_q_cons, app_length, IH. simpl filter. rewrite (Z.eqb_sym q c).
  destruct (c =? q); simpl length; rewrite ?H; lia.
Qed.

Lemma cdata_cost_spec : forall b n m, cdata_cost b n = Some m ->
  ((n <= 12)%nat -> (m <= 12)%nat) /\ (length (escape_text b) + n = length b + m)%nat.
Proof.
  induction b as [|c b IH]; intros n m H; simpl in H.
  - inversion H; subst. split; [auto | reflexivity].
  - simpl escape_text. rewrite app_length.
    destruct (c =? 60).
    + destruct (Nat.ltb_spec 12 (n + 3)); [discriminate|].
      apply IH in H as [H1 H2]. simpl length. unfold bytes, byte in *. split; lia.
    + destruct (c =? 38).
      * destruct (Nat.ltb_spec 12 (n + 4)); [discriminate|].
        apply IH in H as [H1 H2]. simpl length. unfold bytes, byte in *. split; lia.
      * apply IH in H as [H1 H2]. simpl length. unfold bytes, byte in *. split; lia.
Qed.

(* ---------- the theorems ---------- *)

(* the literal is delimited by one quote kind and does not contain that quote inside: it ends where intended *)
Theorem escape_attr_val_wellformed : forall b, exists q body,
  (q = 34 \/ q = 39) /\ escape_attr_val b = [q] ++ body ++ [q] /\ ~ In q body /\
  unref_quotes body = unref_quotes b.
Proof.
  intros b. unfold escape_attr_val. destruct (Nat.ltb (count 39 b) (count 34 b)).
  - exists 39, (escape_q 39 [38; 35; 51; 57; 59] b). split; [right; reflexivity|].
    split; [reflexivity|]. split.
    + apply escape_q_no_q. simpl. lia.
    + apply unref_escape_q. right. split; reflexivity.
  - exists 34, (escape_q 34 [38; 35; 51; 52; 59] b). split; [left; reflexivity|].
    split; [reflexivity|]. split.
    + apply escape_q_no_q. simpl. lia.
    + apply unref_escape_q. left. split; reflexivity.
Qed.

(* the quote kind that needs fewer escapes is chosen (double quotes on a tie) *)
Definition dq_body (b : bytes) : bytes := escape_q 34 [38; 35; 51; 52; 59] b.
Definition sq_body (b : bytes) : bytes := escape_q 39 [38; 35; 51; 57; 59] b.
Theorem escape_attr_val_shortest : forall b,
  (length (escape_attr_val b) <= length (dq_body b) + 2)%nat /\
  (length (escape_attr_val b) <= length (sq_body b) + 2)%nat.
Proof.
  intros b. unfold escape_attr_val, dq_body, sq_body.
  destruct (Nat.ltb_spec (count 39 b) (count 34 b));
    simpl app; simpl length; rewrite ?app_length, !escape_q_length by reflexivity; simpl length; lia.
Qed.

(* CDATA content turned into text decodes to exactly the content, contains no '<', and every '&' starts &lt; or &amp; *)
Theorem escape_text_exact : forall b, unref_text (escape_text b) = b.
Proof.
  induction b as [|c b IH]; [reflexivity|]. simpl escape_text.
  destruct (Z.eqb_spec c 60) as [->|N60].
  - simpl app. rewrite ut_lt, IH. reflexivity.
  - destruct (Z.eqb_spec c 38) as [->|N38].
    + simpl app. rewrite ut_amp, IH. reflexivity.
    + simpl app. rewrite ut_cons_ne, IH by assumption. reflexivity.
Qed.

Theorem escape_text_no_lt : forall b, ~ In 60 (escape_text b).
Proof.
  induction b as [|c b IH]; [intros []|]. simpl escape_text. intros H.
  apply in_app_or in H as [H|H]; [|auto].
  destruct (Z.eqb_spec c 60) as [->|N60]; [simpl in H; lia|].
  destruct (Z.eqb_spec c 38) as [->|N38]; simpl in H; lia.
Qed.

Theorem escape_cdata_val_spec : forall b e use, escape_cdata_val b = (e, use) ->
  (use = true -> e = escape_text b /\ (length e <= length b + 12)%nat) /\ (use = false -> e = b).
Proof.
  intros b e use H. unfold escape_cdata_val in H.
  destruct (cdata_cost b 0) as [m|] eqn:E; inversion H; subst; split; intros U; try discriminate.
  - split; [reflexivity|]. apply cdata_cost_spec in E as [E1 E2]. lia.
  - reflexivity.
Qed.

(* the text form is chosen only when it is not longer than the CDATA section <![CDATA[ b ]]> *)
Theorem escape_cdata_val_not_longer : forall b e, escape_cdata_val b = (e, true) -> (length e <= length b + 12)%nat.
Proof.
  intros b e H. apply escape_cdata_val_spec in H as [H _]. apply H. reflexivity.
Qed.
