(* Xml/XmlModel.v — F2 model of xml.Minify (/repo/xml/xml.go) over the token list of the parse/xml lexer.
   Same case structure as the Go loop: the omitSpace flag, the look-ahead that decides whether a trailing white-space
   byte of a text token goes, CDATA-to-text conversion, attribute re-quoting, collapse of empty elements, end-tag
   normalisation, KeepWhitespace.
   What the tokens carry (written by the harness from the real lexer):
     text tokens:      [text]  = the raw lexeme (what a look-ahead sees), [data] = parse.ReplaceMultipleWhitespaceAndEntities
                                 applied to it (run by the harness on a copy; that helper of the dependency is not modelled)
     CDATA tokens:     [data]  = the lexeme <![CDATA[...]]>, [text] = the section's content
     attribute tokens: [text]  = name, [attrval] = raw value lexeme incl. quotes,
                       [data]  = parse.ReplaceEntities of the inner value (harness, as above)
     end tags:         [data]  = lexeme, [text] = name
   EscapeAttrVal / EscapeCDATAVal of parse/xml are modelled here (F2) and compared with the real functions. *)
From MV Require Import Base.MvBytes.
From Coq Require Import Arith.

Inductive xtt := XError | XComment | XDoctype | XCData | XText | XStartTag | XStartTagPI | XAttribute
               | XStartTagClose | XStartTagCloseVoid | XStartTagClosePI | XEndTag.
Record xtok := { tt : xtt; data : bytes; text : bytes; attrval : bytes }.

Definition xtt_eqb (a b : xtt) : bool :=
  match a, b with
  | XError, XError | XComment, XComment | XDoctype, XDoctype | XCData, XCData | XText, XText | XStartTag, XStartTag
  | XStartTagPI, XStartTagPI | XAttribute, XAttribute | XStartTagClose, XStartTagClose
  | XStartTagCloseVoid, XStartTagCloseVoid | XStartTagClosePI, XStartTagClosePI | XEndTag, XEndTag => true
  | _, _ => false
  end.

Definition err_tok : xtok := {| tt := XError; data := []; text := []; attrval := [] |}.
Definition xpeek (ts : list xtok) (i : nat) : xtok := nth i ts err_tok.   (* past the end: the error token *)

Definition starts_with_ws (b : bytes) : bool := match b with c :: _ => is_ws c | [] => false end.
Definition last_is_ws (b : bytes) : bool := starts_with_ws (rev b).
Definition all_ws (b : bytes) : bool := forallb is_ws b.

(* ---------- parse/xml helpers ---------- *)
Definition count (c : byte) (b : bytes) : nat := length (filter (Z.eqb c) b).
Fixpoint escape_q (q : byte) (esc : bytes) (b : bytes) : bytes :=
  match b with [] => [] | c :: r => (if c =? q then esc else [c]) ++ escape_q q esc r end.
(* EscapeAttrVal: quote with the kind that occurs less often in the value (double quotes on a tie) *)
Definition escape_attr_val (b : bytes) : bytes :=
  if Nat.ltb (count 39 b) (count 34 b)
  then [39] ++ escape_q 39 [38; 35; 51; 57; 59] b ++ [39]          (* '...'  with &#39; *)
  else [34] ++ escape_q 34 [38; 35; 51; 52; 59] b ++ [34].         (* "..."  with &#34; *)

(* EscapeCDATAVal: text is used when escaping < and & costs at most len("<![CDATA[]]>") = 12 bytes *)
Fixpoint cdata_cost (b : bytes) (n : nat) : option nat :=            (* None = gave up *)
  match b with
  | [] => Some n
  | c :: r => if c =? 60 then (if Nat.ltb 12 (n + 3) then None else cdata_cost r (n + 3))
              else if c =? 38 then (if Nat.ltb 12 (n + 4) then None else cdata_cost r (n + 4))
              else cdata_cost r n
  end.
Fixpoint escape_text (b : bytes) : bytes :=
  match b with
  | [] => []
  | c :: r => (if c =? 60 then [38; 108; 116; 59] else if c =? 38 then [38; 97; 109; 112; 59] else [c]) ++ escape_text r
  end.
Definition escape_cdata_val (b : bytes) : bytes * bool :=
  match cdata_cost b 0 with Some _ => (escape_text b, true) | None => (b, false) end.

(* ---------- the minifier ---------- *)
(* the look-ahead of the text branch: does the trailing white-space byte go?  returns (trim, omitSpace') *)
Fixpoint trailing_decision (keepws : bool) (rest : list xtok) : bool * bool :=
  match rest with
  | [] => (true, false)                                               (* error token: EOF *)
  | n :: r =>
    match tt n with
    | XError => (true, false)
    | XText => if starts_with_ws (text n) then (true, false) else (false, true)
    | XCData => if starts_with_ws (text n) then (true, false) else (false, true)
    | XStartTag | XEndTag => if keepws then (false, true) else (true, false)
    | _ => trailing_decision keepws r
    end
  end.

(* one emitted piece, tagged with what it is (the tags are used by the statements, the bytes are the output) *)
Inductive piece := PText (b : bytes) | PCData (raw content : bytes) (* CDATA section kept *)
                 | PCText (esc content : bytes) (* CDATA section turned into text *) | PMarkup (b : bytes).
Definition piece_bytes (p : piece) : bytes := match p with PText b => b | PCData raw _ => raw | PCText esc _ => esc | PMarkup b => b end.

Definition end_tag_bytes (t : xtok) : bytes :=
  if Nat.ltb (3 + length (text t)) (length (data t))
  then firstn (2 + length (text t)) (data t) ++ [62]
  else data t.

Definition attr_bytes (t : xtok) : bytes :=
  let v := attrval t in
  let quoted := Nat.leb 2 (length v) && (hd 0 v =? 34) && (last v 0 =? 34) in
  [32] ++ text t ++ [61] ++ (if quoted then escape_attr_val (data t) else v).

(* the tag-close rule: <a></a> and (unless white space is kept) <a> </a> become <a/>; Some k = k tokens are swallowed *)
Definition close_collapses (keepws : bool) (rest : list xtok) : option nat :=
  let n0 := xpeek rest 0 in
  let ws_first := xtt_eqb (tt n0) XText && all_ws (text n0) && negb keepws in
  let nxt := if ws_first then xpeek rest 1 else n0 in
  if xtt_eqb (tt nxt) XEndTag then Some (if ws_first then 2 else 1)%nat else None.

Fixpoint minify_pieces (keepws : bool) (omit : bool) (skip : nat) (ts : list xtok) : list piece :=
  match ts with
  | [] => []
  | t :: rest =>
    match skip with
    | S k => minify_pieces keepws omit k rest               (* tokens consumed by the empty-element collapse *)
    | O =>
      match tt t with
      | XError => []
      | XComment => minify_pieces keepws omit 0 rest
      | XDoctype | XStartTagPI | XStartTagCloseVoid | XStartTagClosePI => PMarkup (data t) :: minify_pieces keepws omit 0 rest
      | XCData =>
        match text t with
        | [] => minify_pieces keepws omit 0 rest
        | _ =>
          let '(esc, use) := escape_cdata_val (text t) in
          (if use then PCText esc (text t) else PCData (data t) (text t)) :: minify_pieces keepws (last_is_ws (text t)) 0 rest
        end
      | XText =>
        let d1 := if omit && starts_with_ws (data t) then tl (data t) else data t in
        match d1 with
        | [] => PText [] :: minify_pieces keepws true 0 rest
        | _ =>
          if last_is_ws d1 then
            let '(trim, omit') := trailing_decision keepws rest in
            PText (if trim then removelast d1 else d1) :: minify_pieces keepws omit' 0 rest
          else PText d1 :: minify_pieces keepws false 0 rest
        end
      | XStartTag => PMarkup (data t) :: minify_pieces keepws (if keepws then false else omit) 0 rest
      | XAttribute => PMarkup (attr_bytes t) :: minify_pieces keepws omit 0 rest
      | XStartTagClose =>
        match close_collapses keepws rest with
        | Some k => PMarkup [47; 62] :: minify_pieces keepws omit k rest
        | None => PMarkup (data t) :: minify_pieces keepws omit 0 rest
        end
      | XEndTag => PMarkup (end_tag_bytes t) :: minify_pieces keepws (if keepws then false else omit) 0 rest
      end
    end
  end.

(* ---------- writing the pieces (writeText of xml.go) ----------
   Character data is written piece by piece (text tokens, CDATA sections turned into text; dropped comments and empty
   sections leave no piece in between).  `]]>` must not appear in character data: [br] is the number of `]` (at most 2) that
   end the character data written since the last markup; a `>` that would complete `]]>` across pieces is written `&gt;`. *)
Fixpoint lead_br (b : bytes) : nat := match b with c :: r => if c =? 93 then S (lead_br r) else O | [] => O end.
Definition trail_br (b : bytes) : nat := lead_br (rev b).
Definition write_text (br : nat) (b : bytes) : bytes * nat :=
  let n := lead_br b in
  let '(pre, b1, br1) :=
    match skipn n b with
    | c :: r => if (c =? 62) && Nat.leb 2 (br + n) then (firstn n b ++ [38; 103; 116; 59], r, O) else ([], b, br)
    | [] => ([], b, br)
    end in
  let m := trail_br b1 in
  (pre ++ b1, Nat.min 2 ((if Nat.eqb m (length b1) then br1 else O) + m)).

Fixpoint render_pieces (br : nat) (ps : list piece) : bytes :=
  match ps with
  | [] => []
  | PText b :: r => let '(o, br') := write_text br b in o ++ render_pieces br' r
  | PCText esc _ :: r => let '(o, br') := write_text br esc in o ++ render_pieces br' r
  | PCData raw _ :: r => raw ++ render_pieces O r
  | PMarkup b :: r => b ++ render_pieces O r
  end.

Definition xml_minify (keepws : bool) (ts : list xtok) : bytes :=
  render_pieces O (minify_pieces keepws true 0 ts).
