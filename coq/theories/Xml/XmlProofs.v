(* Xml/XmlProofs.v — the white-space state machine of xml.Minify never joins, splits or drops words. *)
From MV Require Import Base.MvBytes Base.Ws Xml.XmlModel Xml.XmlSpec.

Local Arguments is_ws : simpl never.

(* ---------- why the lexer's "text tokens are not empty" alone is not enough ----------
   The look-ahead of the text branch tests the RAW lexeme [text n] of a following text token, the piece emitted for that
   token is computed from its processed [data n].  If the raw lexeme starts with white space and the data does not,
   the trailing byte of the previous token is trimmed on the strength of a white-space byte that is never emitted,
   and two words are joined: *)
Definition cex_tok (ty : xtt) (d tx : bytes) : xtok := {| tt := ty; data := d; text := tx; attrval := [] |}.
Definition cex : list xtok := [cex_tok XText [97; 32] [97; 32]; cex_tok XText [98] [32; 98]].   (* "a " , raw " b" / data "b" *)

Example cex_text_nonempty : forall t, In t cex -> tt t = XText -> data t <> [].
Proof. intros t [H | [H | []]] _; subst t; discriminate. Qed.

Example cex_joins_words :
  merge (out_items (minify_pieces false true 0 cex)) = [IR [97; 98]] /\
  merge (in_items false 0 cex) = [IR [97; 32; 98]] /\
  words [97; 98] = [[97; 98]] /\ words [97; 32; 98] = [[97]; [98]].
Proof. vm_compute. repeat split. Qed.

Example cex_not_preserved :
  ~ Forall2 item_equiv (merge (out_items (minify_pieces false true 0 cex))) (merge (in_items false 0 cex)).
Proof.
  destruct cex_joins_words as (Ho & Hi & Wo & Wi). rewrite Ho, Hi. intros H.
  inversion H as [|x y l l' Hxy Hl]; subst. cbn [item_equiv] in Hxy. rewrite Wo, Wi in Hxy. discriminate Hxy.
Qed.

(* what the lexer guarantees (and the Go code relies on: it indexes t.Data[0]): text tokens are not empty;
   and what parse.ReplaceMultipleWhitespaceAndEntities guarantees: a leading white-space byte of the raw lexeme is still
   a white-space byte in the data (white-space runs collapse to one white-space byte; the converse may fail when a
   character reference decodes to white space, and is not needed) *)
Definition wf_tokens (ts : list xtok) : Prop :=
  forall t, In t ts -> tt t = XText ->
    data t <> [] /\ (starts_with_ws (text t) = true -> starts_with_ws (data t) = true).

(* ---------- bridging XmlModel's predicates to Base/Ws ---------- *)
Lemma sww_eq b : starts_with_ws b = starts_ws b.
Proof. reflexivity. Qed.
Lemma liw_eq b : last_is_ws b = ends_ws b.
Proof. reflexivity. Qed.

Lemma rev_ne (d : bytes) : d <> [] -> rev d <> [].
Proof. intros H E. apply H. rewrite <- (rev_involutive d), E. reflexivity. Qed.

Lemma rflag_app_ne a d : d <> [] -> rflag (a ++ d) = rflag d.
Proof.
  intros H. unfold rflag. rewrite rev_app_distr. pose proof (rev_ne d H) as Hr.
  destruct (rev d); [contradiction Hr; reflexivity | reflexivity].
Qed.

Lemma ends_ws_app_ne a d : d <> [] -> ends_ws (a ++ d) = ends_ws d.
Proof.
  intros H. unfold ends_ws. rewrite rev_app_distr. pose proof (rev_ne d H) as Hr.
  destruct (rev d); [contradiction Hr; reflexivity | reflexivity].
Qed.

Lemma rflag_ends_ws d : d <> [] -> rflag d = ends_ws d.
Proof.
  intros H. unfold rflag, ends_ws. pose proof (rev_ne d H) as Hr.
  destruct (rev d); [contradiction Hr; reflexivity | reflexivity].
Qed.

(* ---------- merge with a pending run ---------- *)
Definition pre (b : bool) (a : bytes) (l : list item) : list item := if b then IR a :: l else l.

Lemma merge_IR_IR a d l : merge (IR a :: IR d :: l) = merge (IR (a ++ d) :: l).
Proof.
  cbn [merge]. destruct (merge l) as [|[x|x] r]; try reflexivity.
  rewrite app_assoc. reflexivity.
Qed.

Lemma merge_pre_run b O d l : (b = false -> O = []) -> merge (pre b O (IR d :: l)) = merge (pre true (O ++ d) l).
Proof.
  destruct b; intros H; cbn [pre].
  - apply merge_IR_IR.
  - rewrite (H eq_refl). reflexivity.
Qed.

Lemma step_markup b O I x outs ins :
  words O = words I -> Forall2 item_equiv (merge outs) (merge ins) ->
  Forall2 item_equiv (merge (pre b O (IM x :: outs))) (merge (pre b I (IM x :: ins))).
Proof.
  intros Hw H. destruct b; cbn [pre merge].
  - constructor; [exact Hw|]. constructor; [reflexivity | exact H].
  - constructor; [reflexivity | exact H].
Qed.

Lemma step_end b O I : words O = words I -> Forall2 item_equiv (merge (pre b O [])) (merge (pre b I [])).
Proof.
  intros Hw. destruct b; cbn [pre merge]; [|constructor].
  constructor; [exact Hw | constructor].
Qed.

(* ---------- the invariant ---------- *)
Section Machine.
Variable keepws : bool.

Lemma td_cases rest :
  trailing_decision keepws rest = (true, false) \/ trailing_decision keepws rest = (false, true).
Proof.
  induction rest as [|n r IH]; cbn [trailing_decision]; [left; reflexivity|].
  destruct (tt n); try exact IH; try (left; reflexivity).
  - destruct (starts_with_ws (text n)); [left | right]; reflexivity.
  - destruct (starts_with_ws (text n)); [left | right]; reflexivity.
  - destruct keepws; [right | left]; reflexivity.
  - destruct keepws; [right | left]; reflexivity.
Qed.

(* [b]: a run is pending; [O], [I]: its character data so far on the output / input side.
   Either both sides end the run in the same way, or the trailing byte of the last text token was trimmed on the
   strength of the look-ahead, whose verdict about the remaining tokens is then still owed *)
Definition Inv (b omit : bool) (skip : nat) (ts : list xtok) (O I : bytes) : Prop :=
  (b = false -> O = [] /\ I = []) /\
  words O = words I /\
  (omit = true -> rflag O = true) /\
  (rflag I = rflag O \/
   (skip = 0%nat /\ omit = false /\ trailing_decision keepws ts = (true, false))).

Definition Concl (b omit : bool) (skip : nat) (ts : list xtok) (O I : bytes) : Prop :=
  Forall2 item_equiv (merge (pre b O (out_items (minify_pieces keepws omit skip ts))))
                     (merge (pre b I (in_items keepws skip ts))).

Definition IHyp (rest : list xtok) : Prop :=
  forall b omit skip O I, Inv b omit skip rest O I -> Concl b omit skip rest O I.

Lemma Inv_fresh omit skip ts : Inv false omit skip ts [] [].
Proof.
  split; [intros _; split; reflexivity|]. split; [reflexivity|]. split; [reflexivity|]. left; reflexivity.
Qed.

Lemma IHyp_fresh rest omit skip : IHyp rest ->
  Forall2 item_equiv (merge (out_items (minify_pieces keepws omit skip rest))) (merge (in_items keepws skip rest)).
Proof. intros IH. exact (IH false omit skip [] [] (Inv_fresh omit skip rest)). Qed.

(* a token that is transparent for the look-ahead and for the run leaves the invariant alone *)
Lemma Inv_transparent b omit t rest O I :
  trailing_decision keepws (t :: rest) = trailing_decision keepws rest ->
  Inv b omit 0 (t :: rest) O I -> Inv b omit 0 rest O I.
Proof.
  intros E (Hb & Hw & Ho & Hr). split; [exact Hb|]. split; [exact Hw|]. split; [exact Ho|].
  destruct Hr as [Hr | (Hs & Hom & T)]; [left; exact Hr|].
  right. split; [exact Hs|]. split; [exact Hom|]. rewrite <- E. exact T.
Qed.

(* the text branch, after the leading byte has been dealt with *)
Lemma text_tail rest b O I d1 dat :
  IHyp rest ->
  (b = false -> O = [] /\ I = []) ->
  d1 <> [] -> words (O ++ d1) = words (I ++ dat) -> rflag (O ++ d1) = rflag (I ++ dat) ->
  Forall2 item_equiv
    (merge (pre b O (out_items
       (if last_is_ws d1
        then let '(trim, omit') := trailing_decision keepws rest in
             PText (if trim then removelast d1 else d1) :: minify_pieces keepws omit' 0 rest
        else PText d1 :: minify_pieces keepws false 0 rest))))
    (merge (pre b I (IR dat :: in_items keepws 0 rest))).
Proof.
  intros IH Hb Hne Hw Hr.
  assert (HbO : b = false -> O = []) by (intros E; apply Hb; exact E).
  assert (HbI : b = false -> I = []) by (intros E; apply Hb; exact E).
  rewrite (merge_pre_run b I dat _ HbI).
  rewrite liw_eq. destruct (ends_ws d1) eqn:E.
  - destruct (td_cases rest) as [T | T]; rewrite T; cbn [out_items map out_item].
    + rewrite (merge_pre_run b O _ _ HbO). apply IH.
      split; [intros X; discriminate X|]. split.
      * rewrite <- removelast_app by exact Hne. rewrite words_removelast_ws; [exact Hw|].
        rewrite ends_ws_app_ne by exact Hne. exact E.
      * split; [intros X; discriminate X|]. right. split; [reflexivity|]. split; [reflexivity | exact T].
    + rewrite (merge_pre_run b O _ _ HbO). apply IH.
      split; [intros X; discriminate X|]. split; [exact Hw|]. split.
      * intros _. rewrite rflag_app_ne by exact Hne. rewrite rflag_ends_ws by exact Hne. exact E.
      * left. symmetry. exact Hr.
  - cbn [out_items map out_item]. rewrite (merge_pre_run b O _ _ HbO). apply IH.
    split; [intros X; discriminate X|]. split; [exact Hw|]. split; [intros X; discriminate X|].
    left. symmetry. exact Hr.
Qed.

Lemma main ts : wf_tokens ts -> IHyp ts.
Proof.
  induction ts as [|t rest IH]; intros Hwf b omit skip O I HI.
  - unfold Concl. cbn [minify_pieces in_items out_items map].
    destruct HI as (_ & Hw & _). apply step_end. exact Hw.
  - assert (Hwf' : wf_tokens rest) by (intros x Hx; apply Hwf; right; exact Hx).
    specialize (IH Hwf').
    destruct skip as [|k].
    2:{ unfold Concl. cbn [minify_pieces in_items]. apply IH.
        destruct HI as (Hb & Hw & Ho & Hr). split; [exact Hb|]. split; [exact Hw|]. split; [exact Ho|].
        destruct Hr as [Hr | (Hs & _)]; [left; exact Hr | discriminate Hs]. }
    pose proof HI as (Hb & Hw & Ho & Hr).
    unfold Concl. cbn [minify_pieces in_items]. destruct (tt t) eqn:Ett.
    + (* XError *) cbn [out_items map]. apply step_end. exact Hw.
    + (* XComment *) apply IH. apply (Inv_transparent b omit t rest O I); [|exact HI].
      cbn [trailing_decision]. rewrite Ett. reflexivity.
    + (* XDoctype *) cbn [out_items map out_item]. apply step_markup; [exact Hw | apply IHyp_fresh; exact IH].
    + (* XCData *)
      destruct (text t) as [|c0 cs] eqn:Etx.
      * apply IH. split; [exact Hb|]. split; [exact Hw|]. split; [exact Ho|].
        destruct Hr as [Hr | (_ & _ & T)]; [left; exact Hr|].
        cbn [trailing_decision] in T. rewrite Ett, Etx in T. cbn [starts_with_ws] in T. discriminate T.
      * destruct (escape_cdata_val (c0 :: cs)) as [esc use].
        assert (Eit : out_item (if use then PCText esc (c0 :: cs) else PCData (data t) (c0 :: cs)) = IR (c0 :: cs))
          by (destruct use; reflexivity).
        cbn [out_items map]. rewrite Eit.
        assert (Hne : c0 :: cs <> []) by discriminate.
        assert (HbO : b = false -> O = []) by (intros E; apply Hb; exact E).
        assert (HbI : b = false -> I = []) by (intros E; apply Hb; exact E).
        rewrite (merge_pre_run b O _ _ HbO), (merge_pre_run b I _ _ HbI). apply IH.
        split; [intros X; discriminate X|]. split.
        -- destruct Hr as [Hr | (_ & _ & T)].
           ++ apply words_app_congr_l; [exact Hw | symmetry; exact Hr].
           ++ cbn [trailing_decision] in T. rewrite Ett, Etx in T.
              destruct (starts_with_ws (c0 :: cs)) eqn:S; [|discriminate T].
              rewrite !words_app_starts_ws by exact S. rewrite Hw. reflexivity.
        -- split.
           ++ rewrite liw_eq. intros E. rewrite rflag_app_ne by exact Hne. rewrite rflag_ends_ws by exact Hne. exact E.
           ++ left. rewrite !rflag_app_ne by exact Hne. reflexivity.
    + (* XText *)
      destruct (Hwf t (or_introl eq_refl) Ett) as (Hdne & Hraw).
      assert (Hcase : (omit = true /\ starts_ws (data t) = true /\ rflag O = true /\ rflag I = true) \/
                      ((if omit && starts_with_ws (data t) then tl (data t) else data t) = data t /\
                       words (O ++ data t) = words (I ++ data t))).
      { destruct omit.
        - destruct (starts_with_ws (data t)) eqn:S.
          + left. specialize (Ho eq_refl). split; [reflexivity|]. split; [exact S|]. split; [exact Ho|].
            destruct Hr as [Hr | (_ & X & _)]; [rewrite Hr; exact Ho | discriminate X].
          + right. split; [reflexivity|].
            destruct Hr as [Hr | (_ & X & _)]; [|discriminate X].
            apply words_app_congr_l; [exact Hw | symmetry; exact Hr].
        - right. split; [reflexivity|].
          destruct Hr as [Hr | (_ & _ & T)].
          + apply words_app_congr_l; [exact Hw | symmetry; exact Hr].
          + cbn [trailing_decision] in T. rewrite Ett in T.
            destruct (starts_with_ws (text t)) eqn:S; [|discriminate T].
            specialize (Hraw eq_refl). rewrite sww_eq in Hraw.
            rewrite !words_app_starts_ws by exact Hraw. rewrite Hw. reflexivity. }
      destruct Hcase as [(Eo & S & HrO & HrI) | (Ed & Hww)].
      * subst omit. rewrite sww_eq, S. cbn [andb].
        destruct (data t) as [|c d'] eqn:Edat; [contradiction Hdne; reflexivity|].
        cbn [starts_ws] in S. cbn [tl].
        destruct d' as [|x d''].
        -- (* the whole token is one white-space byte: an empty piece *)
           cbn [out_items map out_item].
           assert (HbO : b = false -> O = []) by (intros E; apply Hb; exact E).
           assert (HbI : b = false -> I = []) by (intros E; apply Hb; exact E).
           rewrite (merge_pre_run b O _ _ HbO), (merge_pre_run b I _ _ HbI). apply IH.
           split; [intros X; discriminate X|]. split.
           ++ rewrite app_nil_r. rewrite words_snoc_ws by exact S. exact Hw.
           ++ split.
              ** intros _. rewrite app_nil_r. exact HrO.
              ** left. rewrite app_nil_r. rewrite rflag_app_ne by discriminate. rewrite HrO.
                 unfold rflag. cbn [rev app lflag]. exact S.
        -- apply (text_tail rest b O I (x :: d'') (c :: x :: d'') IH Hb).
           ++ discriminate.
           ++ rewrite (words_app_rflag O _ HrO), (words_app_rflag I _ HrI).
              rewrite (words_cons_ws c _ S). rewrite Hw. reflexivity.
           ++ rewrite !rflag_app_ne by discriminate. symmetry. apply rflag_cons2.
      * rewrite Ed.
        destruct (data t) as [|c d'] eqn:Edat; [contradiction Hdne; reflexivity|].
        apply (text_tail rest b O I (c :: d') (c :: d') IH Hb).
        -- discriminate.
        -- exact Hww.
        -- rewrite !rflag_app_ne by discriminate. reflexivity.
    + (* XStartTag *) cbn [out_items map out_item]. apply step_markup; [exact Hw | apply IHyp_fresh; exact IH].
    + (* XStartTagPI *) cbn [out_items map out_item]. apply step_markup; [exact Hw | apply IHyp_fresh; exact IH].
    + (* XAttribute *) cbn [out_items map out_item]. apply step_markup; [exact Hw | apply IHyp_fresh; exact IH].
    + (* XStartTagClose *)
      destruct (close_collapses keepws rest) as [k|]; cbn [out_items map out_item];
        (apply step_markup; [exact Hw | apply IHyp_fresh; exact IH]).
    + (* XStartTagCloseVoid *) cbn [out_items map out_item]. apply step_markup; [exact Hw | apply IHyp_fresh; exact IH].
    + (* XStartTagClosePI *) cbn [out_items map out_item]. apply step_markup; [exact Hw | apply IHyp_fresh; exact IH].
    + (* XEndTag *) cbn [out_items map out_item]. apply step_markup; [exact Hw | apply IHyp_fresh; exact IH].
Qed.

End Machine.

(* MAIN THEOREM: markup items are identical and in the same order; run by run the words are the same *)
Theorem xml_runs_preserved : forall keepws ts, wf_tokens ts ->
  Forall2 item_equiv (merge (out_items (minify_pieces keepws true 0 ts))) (merge (in_items keepws 0 ts)).
Proof.
  intros keepws ts Hwf. apply IHyp_fresh. apply main. exact Hwf.
Qed.

(* KeepWhitespace: a text token next to an element tag keeps a white-space byte it had there.
   Stated per token: if the token's data starts with white space and [omit] is false when it is reached, the emitted
   piece still starts with it (unless the whole piece is that single byte and it is emitted as the trailing one). *)
Theorem keepws_after_tag_keeps_leading_space : forall t rest d,
  tt t = XText -> data t = d -> d <> [] ->
  exists p ps, minify_pieces true false 0 (t :: rest) = PText p :: ps /\
    (starts_with_ws d = true -> (2 <= length d)%nat -> starts_with_ws p = true).
Proof.
  intros t rest d Ht Hd Hne. cbn [minify_pieces]. rewrite Ht. cbn [andb]. rewrite Hd.
  destruct d as [|c d']; [contradiction Hne; reflexivity|].
  destruct (last_is_ws (c :: d')).
  - destruct (td_cases true rest) as [T | T]; rewrite T.
    + eexists; eexists; split; [reflexivity|]. intros S L.
      destruct d' as [|x d'']; [cbn [length] in L; lia|]. exact S.
    + eexists; eexists; split; [reflexivity|]. intros S _. exact S.
  - eexists; eexists; split; [reflexivity|]. intros S _. exact S.
Qed.
