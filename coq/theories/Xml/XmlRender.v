(* Xml/XmlRender.v — writeText of xml.go (XmlModel.write_text / render_pieces): the only thing the writer changes is one
   `>` per text piece, turned into `&gt;` where it would complete `]]>` with the brackets already written; the state [br]
   is min 2 (number of `]` that end the character data written since the last markup); and, provided no single text piece
   contains `]]>` by itself, no character-data run of the output contains `]]>`. *)
From MV Require Import Base.MvBytes Xml.XmlModel.
From Coq Require Import Arith.

(* ---------- `]]>` in a byte list ---------- *)
Definition cd3 (b : bytes) : bool :=
  match b with c1 :: c2 :: c3 :: _ => (c1 =? 93) && (c2 =? 93) && (c3 =? 62) | _ => false end.
Fixpoint has_cdend (b : bytes) : bool :=
  match b with [] => false | c :: r => cd3 (c :: r) || has_cdend r end.

Theorem has_cdend_spec : forall b, has_cdend b = true <-> exists p s, b = p ++ 93 :: 93 :: 62 :: s.
Proof.
  induction b as [|c r IH]; split.
  - discriminate.
  - intros (p & s & E). destruct p; discriminate E.
  - cbn [has_cdend]. intros H. apply orb_true_iff in H as [H | H].
    + destruct r as [|c2 [|c3 r']]; try discriminate H. cbn [cd3] in H.
      apply andb_true_iff in H as [H H3]. apply andb_true_iff in H as [H1 H2].
      apply Z.eqb_eq in H1, H2, H3. subst. exists [], r'. reflexivity.
    + apply IH in H as (p & s & E). exists (c :: p), s. rewrite E. reflexivity.
  - intros (p & s & E). cbn [has_cdend]. destruct p as [|x p].
    + cbn [app] in E. rewrite E. reflexivity.
    + cbn [app] in E. injection E as -> E. apply orb_true_iff. right. apply IH. exists p, s. exact E.
Qed.

Lemma has_cdend_app_r : forall x y, has_cdend (x ++ y) = false -> has_cdend y = false.
Proof.
  induction x as [|c x IH]; intros y H; [exact H|].
  cbn [app has_cdend] in H. apply orb_false_iff in H as [_ H]. apply IH. exact H.
Qed.

Lemma has_cdend_app_l : forall x y, has_cdend (x ++ y) = false -> has_cdend x = false.
Proof.
  intros x y H. destruct (has_cdend x) eqn:E; [|reflexivity].
  apply has_cdend_spec in E as (p & s & E). rewrite <- H. symmetry. apply has_cdend_spec.
  exists p, (s ++ y). rewrite E, <- app_assoc. reflexivity.
Qed.

(* ---------- leading / trailing brackets ---------- *)
Definition all93 (b : bytes) : bool := forallb (fun c => c =? 93) b.

Lemma all93_app x y : all93 (x ++ y) = all93 x && all93 y.
Proof. apply forallb_app. Qed.

Lemma all93_rev x : all93 (rev x) = all93 x.
Proof.
  induction x as [|c x IH]; [reflexivity|]. cbn [rev]. rewrite all93_app, IH. cbn [all93 forallb].
  rewrite andb_true_r. apply andb_comm.
Qed.

Lemma all93_repeat n : all93 (repeat 93 n) = true.
Proof. induction n as [|n IH]; [reflexivity | exact IH]. Qed.

Lemma lead_all93 b : all93 b = true -> lead_br b = length b.
Proof.
  induction b as [|c r IH]; [reflexivity|]. cbn [all93 forallb lead_br length]. intros H.
  apply andb_true_iff in H as [H1 H2]. rewrite H1. f_equal. apply IH. exact H2.
Qed.

Lemma lead_lt b : all93 b = false -> (lead_br b < length b)%nat.
Proof.
  induction b as [|c r IH]; [discriminate|]. cbn [all93 forallb lead_br length]. intros H.
  destruct (c =? 93); [|lia]. cbn [andb] in H. specialize (IH H). lia.
Qed.

Lemma lead_br_app x y : lead_br (x ++ y) = if all93 x then (length x + lead_br y)%nat else lead_br x.
Proof.
  induction x as [|c x IH]; [reflexivity|]. cbn [app lead_br all93 forallb length].
  destruct (c =? 93); [|reflexivity]. cbn [andb]. rewrite IH. fold (all93 x). destruct (all93 x); reflexivity.
Qed.

Lemma lead_firstn b : firstn (lead_br b) b = repeat 93 (lead_br b).
Proof.
  induction b as [|c r IH]; [reflexivity|]. cbn [lead_br]. destruct (c =? 93) eqn:E; [|reflexivity].
  apply Z.eqb_eq in E. subst c. cbn [firstn repeat]. f_equal. exact IH.
Qed.

Lemma lead_split b : b = repeat 93 (lead_br b) ++ skipn (lead_br b) b.
Proof. rewrite <- lead_firstn. symmetry. apply firstn_skipn. Qed.

Lemma trail_all93 b : all93 b = true -> trail_br b = length b.
Proof. intros H. unfold trail_br. rewrite lead_all93, rev_length; [reflexivity | rewrite all93_rev; exact H]. Qed.

Lemma trail_lt b : all93 b = false -> (trail_br b < length b)%nat.
Proof. intros H. unfold trail_br. rewrite <- (rev_length b). apply lead_lt. rewrite all93_rev. exact H. Qed.

Lemma trail_br_cons c r :
  trail_br (c :: r) = if all93 r then ((if Z.eqb c 93 then 1 else 0) + length r)%nat else trail_br r.
Proof.
  unfold trail_br. cbn [rev]. rewrite lead_br_app, all93_rev, rev_length. cbn [lead_br].
  destruct (all93 r); [|reflexivity]. destruct (c =? 93); lia.
Qed.

(* ---------- `]]>` as an automaton: the state is min 2 (number of `]` just read) ---------- *)
Definition bump (st : nat) : nat := Nat.min 2 (S st).
Fixpoint scan (st : nat) (b : bytes) : bool :=
  match b with
  | [] => false
  | c :: r => if c =? 93 then scan (bump st) r else if (c =? 62) && (2 <=? st)%nat then true else scan 0 r
  end.
Fixpoint st_after (st : nat) (b : bytes) : nat :=
  match b with [] => st | c :: r => if c =? 93 then st_after (bump st) r else st_after 0 r end.

Lemma scan_app st x y : scan st (x ++ y) = scan st x || scan (st_after st x) y.
Proof.
  revert st; induction x as [|c x IH]; intros st; cbn [app scan st_after]; [reflexivity|].
  destruct (c =? 93); [apply IH|]. destruct ((c =? 62) && (2 <=? st)%nat); [reflexivity | apply IH].
Qed.

Lemma st_after_app st x y : st_after st (x ++ y) = st_after (st_after st x) y.
Proof.
  revert st; induction x as [|c x IH]; intros st; cbn [app st_after]; [reflexivity|].
  destruct (c =? 93); apply IH.
Qed.

Lemma scan_repeat st n : scan st (repeat 93 n) = false.
Proof. revert st; induction n as [|n IH]; intros st; [reflexivity | apply IH]. Qed.

(* (the state is capped as soon as a byte is read: stated for capped states) *)
Lemma st_after_spec st b : (st <= 2)%nat ->
  st_after st b = if all93 b then Nat.min 2 (st + length b) else Nat.min 2 (trail_br b).
Proof.
  revert st; induction b as [|c r IH]; intros st Hst.
  - cbn [st_after all93 forallb length]. lia.
  - cbn [st_after all93 forallb length]. rewrite trail_br_cons. fold (all93 r). destruct (c =? 93) eqn:E; cbn [andb].
    + rewrite IH by (unfold bump; lia). destruct (all93 r); [unfold bump; lia | reflexivity].
    + rewrite IH by lia. destruct (all93 r); [f_equal; lia | reflexivity].
Qed.

Lemma st_after_0 b : st_after 0 b = Nat.min 2 (trail_br b).
Proof.
  rewrite st_after_spec by lia. destruct (all93 b) eqn:E; [|reflexivity]. rewrite (trail_all93 b E). reflexivity.
Qed.

(* the brackets already read matter only for a `>` right after the leading brackets *)
Definition hd62 (b : bytes) : bool := match b with c :: _ => c =? 62 | [] => false end.
Definition cross (st : nat) (b : bytes) : bool := (2 <=? st + lead_br b)%nat && hd62 (skipn (lead_br b) b).

Lemma lead2_cdend : forall b k, lead_br b = S (S k) -> hd62 (skipn (lead_br b) b) = true -> has_cdend b = true.
Proof.
  induction b as [|c r IH]; intros k Hl Hh; [discriminate Hl|].
  cbn [lead_br] in Hl, Hh. destruct (c =? 93) eqn:E; [|discriminate Hl]. injection Hl as Hl.
  cbn [skipn] in Hh. destruct k as [|k].
  - destruct r as [|c2 r2]; [discriminate Hl|]. cbn [lead_br] in Hl, Hh.
    destruct (c2 =? 93) eqn:E2; [|discriminate Hl]. injection Hl as Hl. rewrite Hl in Hh. cbn [skipn] in Hh.
    destruct r2 as [|c3 r3]; [discriminate Hh|]. cbn [hd62] in Hh.
    cbn [has_cdend cd3]. rewrite E, E2, Hh. reflexivity.
  - cbn [has_cdend]. rewrite (IH k Hl Hh). apply orb_true_r.
Qed.

Lemma cross0 b : cross 0 b = true -> has_cdend b = true.
Proof.
  unfold cross. intros H. apply andb_true_iff in H as [H1 H2]. apply Nat.leb_le in H1. cbn [Nat.add] in H1.
  destruct (lead_br b) as [|[|k]] eqn:El; try lia. apply (lead2_cdend b k El). rewrite El. exact H2.
Qed.

Lemma cd3_ne (c : byte) (r : bytes) : (c =? 93) = false -> cd3 (c :: r) = false.
Proof. intros E. destruct r as [|c2 [|c3 r']]; cbn [cd3]; try reflexivity. rewrite E. reflexivity. Qed.

Lemma scan_eq : forall b st, scan st b = has_cdend b || cross st b.
Proof.
  induction b as [|c r IH]; intros st.
  - unfold cross. cbn. rewrite andb_false_r. reflexivity.
  - cbn [scan has_cdend]. destruct (c =? 93) eqn:E.
    + rewrite IH.
      assert (Ec : cross (bump st) r = cross st (c :: r)).
      { unfold cross. cbn [lead_br]. rewrite E. cbn [skipn]. f_equal.
        unfold bump. destruct (2 <=? st + S (lead_br r))%nat eqn:L.
        - apply Nat.leb_le in L. apply Nat.leb_le. lia.
        - apply Nat.leb_gt in L. apply Nat.leb_gt. lia. }
      rewrite Ec. destruct (cd3 (c :: r)) eqn:E3; [|reflexivity].
      cbn [orb]. destruct r as [|c2 [|c3 r']]; try discriminate E3. cbn [cd3] in E3.
      apply andb_true_iff in E3 as [E3 H3]. apply andb_true_iff in E3 as [_ H2].
      unfold cross. cbn [lead_br]. rewrite E, H2. cbn [lead_br].
      assert (E9 : (c3 =? 93) = false) by (apply Z.eqb_eq in H3; subst c3; reflexivity).
      rewrite E9. cbn [skipn hd62]. rewrite H3.
      replace (2 <=? st + 2)%nat with true by (symmetry; apply Nat.leb_le; lia).
      apply orb_true_r.
    + rewrite (cd3_ne c r E). cbn [orb]. unfold cross at 1. cbn [lead_br]. rewrite E. cbn [skipn hd62].
      rewrite Nat.add_0_r. rewrite IH. destruct (has_cdend r) eqn:Hr.
      * cbn [orb]. destruct ((c =? 62) && (2 <=? st)%nat); reflexivity.
      * destruct (cross 0 r) eqn:C0; [apply cross0 in C0; congruence|].
        cbn [orb]. rewrite andb_comm. destruct ((2 <=? st)%nat && (c =? 62)); reflexivity.
Qed.

Lemma scan0 b : scan 0 b = has_cdend b.
Proof.
  rewrite scan_eq. destruct (has_cdend b) eqn:H; [reflexivity|]. cbn [orb].
  destruct (cross 0 b) eqn:C; [apply cross0 in C; congruence | reflexivity].
Qed.

(* ---------- 2a: write_text replaces at most one `>`, the one after the leading brackets, and only when needed ---------- *)
Definition gt_ref : bytes := [38; 103; 116; 59].

Lemma write_text_cases br b :
  (exists r, b = repeat 93 (lead_br b) ++ 62 :: r /\ (2 <= br + lead_br b)%nat /\
             write_text br b = (repeat 93 (lead_br b) ++ gt_ref ++ r, Nat.min 2 (trail_br r))) \/
  (cross br b = false /\
   write_text br b = (b, Nat.min 2 ((if Nat.eqb (trail_br b) (length b) then br else O) + trail_br b))).
Proof.
  unfold write_text, cross. pose proof (lead_split b) as Hs. rewrite <- lead_firstn in Hs.
  destruct (skipn (lead_br b) b) as [|c r] eqn:Es.
  - right. split; [apply andb_false_r | reflexivity].
  - destruct ((c =? 62) && Nat.leb 2 (br + lead_br b)) eqn:Ec.
    + left. apply andb_true_iff in Ec as [E1 E2]. apply Z.eqb_eq in E1. subst c. apply Nat.leb_le in E2.
      exists r. split; [rewrite <- lead_firstn; exact Hs|]. split; [exact E2|].
      rewrite lead_firstn. rewrite <- app_assoc. f_equal.
      destruct (Nat.eqb (trail_br r) (length r)); reflexivity.
    + right. split; [|reflexivity]. cbn [hd62]. rewrite andb_comm. exact Ec.
Qed.

Theorem write_text_one_gt : forall br b o br', write_text br b = (o, br') ->
  o = b \/ exists k r, b = repeat 93 k ++ [62] ++ r /\ o = repeat 93 k ++ [38; 103; 116; 59] ++ r /\ (2 <= br + k)%nat.
Proof.
  intros br b o br' H. destruct (write_text_cases br b) as [(r & Eb & L & W) | (_ & W)]; rewrite W in H; injection H as Ho _.
  - right. exists (lead_br b), r. split; [exact Eb|]. split; [symmetry; exact Ho | exact L].
  - left. symmetry. exact Ho.
Qed.

(* the same in the form "a prefix of `]` only" *)
Corollary write_text_one_gt' : forall br b o br', write_text br b = (o, br') ->
  o = b \/ exists p r, b = p ++ [62] ++ r /\ o = p ++ [38; 103; 116; 59] ++ r /\ forallb (Z.eqb 93) p = true.
Proof.
  intros br b o br' H. destruct (write_text_one_gt br b o br' H) as [E | (k & r & Eb & Eo & _)]; [left; exact E|].
  right. exists (repeat 93 k), r. split; [exact Eb|]. split; [exact Eo|].
  clear. induction k as [|k IH]; [reflexivity | exact IH].
Qed.

(* lifted to piece lists: the output is the plain concatenation of the pieces, after that one replacement in some
   text pieces; markup, kept CDATA sections and the [content] tags are untouched *)
Inductive gt_repl : bytes -> bytes -> Prop :=
| gt_same : forall b, gt_repl b b
| gt_one : forall k r, gt_repl (repeat 93 k ++ [62] ++ r) (repeat 93 k ++ [38; 103; 116; 59] ++ r).

Inductive piece_repl : piece -> piece -> Prop :=
| pr_text : forall b o, gt_repl b o -> piece_repl (PText b) (PText o)
| pr_ctext : forall e o c, gt_repl e o -> piece_repl (PCText e c) (PCText o c)
| pr_cdata : forall raw c, piece_repl (PCData raw c) (PCData raw c)
| pr_markup : forall b, piece_repl (PMarkup b) (PMarkup b).

Lemma write_text_repl br b o br' : write_text br b = (o, br') -> gt_repl b o.
Proof.
  intros H. destruct (write_text_one_gt br b o br' H) as [E | (k & r & Eb & Eo & _)].
  - subst o. constructor.
  - subst b o. constructor.
Qed.

Theorem render_pieces_only_gt : forall ps br, exists ps',
  Forall2 piece_repl ps ps' /\ render_pieces br ps = concat (map piece_bytes ps').
Proof.
  induction ps as [|p ps IH]; intros br.
  - exists []. split; [constructor | reflexivity].
  - destruct p as [b | raw c | e c | b]; cbn [render_pieces].
    + destruct (write_text br b) as [o br'] eqn:W. destruct (IH br') as (ps' & HF & HR).
      exists (PText o :: ps'). split; [constructor; [constructor; exact (write_text_repl _ _ _ _ W) | exact HF]|].
      cbn [map concat piece_bytes]. rewrite HR. reflexivity.
    + destruct (IH O) as (ps' & HF & HR).
      exists (PCData raw c :: ps'). split; [constructor; [constructor | exact HF]|].
      cbn [map concat piece_bytes]. rewrite HR. reflexivity.
    + destruct (write_text br e) as [o br'] eqn:W. destruct (IH br') as (ps' & HF & HR).
      exists (PCText o c :: ps'). split; [constructor; [constructor; exact (write_text_repl _ _ _ _ W) | exact HF]|].
      cbn [map concat piece_bytes]. rewrite HR. reflexivity.
    + destruct (IH O) as (ps' & HF & HR).
      exists (PMarkup b :: ps'). split; [constructor; [constructor | exact HF]|].
      cbn [map concat piece_bytes]. rewrite HR. reflexivity.
Qed.

(* ---------- 2b: the state is min 2 (trailing brackets of the run written so far) ---------- *)
Lemma write_text_state br b o br' : (br <= 2)%nat -> write_text br b = (o, br') -> br' = st_after br o.
Proof.
  intros Hbr H. destruct (write_text_cases br b) as [(r & Eb & L & W) | (_ & W)]; rewrite W in H; injection H as Ho Hs; subst o br'.
  - rewrite st_after_app. unfold gt_ref. cbn [app st_after]. cbn. symmetry. apply st_after_0.
  - rewrite st_after_spec by exact Hbr. destruct (all93 b) eqn:A.
    + rewrite (trail_all93 b A), Nat.eqb_refl. reflexivity.
    + pose proof (trail_lt b A) as L. destruct (Nat.eqb (trail_br b) (length b)) eqn:E; [apply Nat.eqb_eq in E; lia|].
      reflexivity.
Qed.

Theorem write_text_trail : forall acc br b o br',
  br = Nat.min 2 (trail_br acc) -> write_text br b = (o, br') -> br' = Nat.min 2 (trail_br (acc ++ o)).
Proof.
  intros acc br b o br' Hbr W. rewrite <- st_after_0, st_after_app, st_after_0, <- Hbr.
  apply (write_text_state br b); [lia | exact W].
Qed.

(* the writer's state and the current run after a list of pieces ([acc]: the run so far) *)
Fixpoint render_st (br : nat) (acc : bytes) (ps : list piece) : nat * bytes :=
  match ps with
  | [] => (br, acc)
  | PText b :: r => let '(o, br') := write_text br b in render_st br' (acc ++ o) r
  | PCText esc _ :: r => let '(o, br') := write_text br esc in render_st br' (acc ++ o) r
  | PCData _ _ :: r => render_st O [] r
  | PMarkup _ :: r => render_st O [] r
  end.

(* [render_st] is the state with which [render_pieces] goes on ... *)
Lemma render_pieces_app : forall ps qs br acc,
  render_pieces br (ps ++ qs) = render_pieces br ps ++ render_pieces (fst (render_st br acc ps)) qs.
Proof.
  induction ps as [|p ps IH]; intros qs br acc; [reflexivity|].
  destruct p as [b | raw c | e c | b]; cbn [app render_pieces render_st].
  - destruct (write_text br b) as [o br']. rewrite <- app_assoc. f_equal. apply IH.
  - rewrite <- app_assoc. f_equal. apply IH.
  - destruct (write_text br e) as [o br']. rewrite <- app_assoc. f_equal. apply IH.
  - rewrite <- app_assoc. f_equal. apply IH.
Qed.

(* ... and its run is the end of what was written *)
Lemma render_st_suffix : forall ps br acc, exists pre, acc ++ render_pieces br ps = pre ++ snd (render_st br acc ps).
Proof.
  induction ps as [|p ps IH]; intros br acc.
  - exists []. cbn. apply app_nil_r.
  - destruct p as [b | raw c | e c | b]; cbn [render_pieces render_st].
    + destruct (write_text br b) as [o br']. destruct (IH br' (acc ++ o)) as (pre & E). exists pre.
      rewrite app_assoc. exact E.
    + destruct (IH O []) as (pre & E). exists (acc ++ raw ++ pre). cbn [app] in E. rewrite E, <- !app_assoc. reflexivity.
    + destruct (write_text br e) as [o br']. destruct (IH br' (acc ++ o)) as (pre & E). exists pre.
      rewrite app_assoc. exact E.
    + destruct (IH O []) as (pre & E). exists (acc ++ b ++ pre). cbn [app] in E. rewrite E, <- !app_assoc. reflexivity.
Qed.

Theorem render_state_invariant : forall ps br acc br' acc',
  br = Nat.min 2 (trail_br acc) -> render_st br acc ps = (br', acc') -> br' = Nat.min 2 (trail_br acc').
Proof.
  induction ps as [|p ps IH]; intros br acc br' acc' Hbr H.
  - cbn [render_st] in H. injection H as <- <-. exact Hbr.
  - destruct p as [b | raw c | e c | b]; cbn [render_st] in H.
    + destruct (write_text br b) as [o br1] eqn:W. apply (IH br1 (acc ++ o)); [|exact H].
      exact (write_text_trail acc br b o br1 Hbr W).
    + apply (IH O []); [reflexivity | exact H].
    + destruct (write_text br e) as [o br1] eqn:W. apply (IH br1 (acc ++ o)); [|exact H].
      exact (write_text_trail acc br e o br1 Hbr W).
    + apply (IH O []); [reflexivity | exact H].
Qed.

Corollary render_state_invariant0 : forall ps br' acc',
  render_st O [] ps = (br', acc') -> br' = Nat.min 2 (trail_br acc').
Proof. intros ps br' acc'. apply render_state_invariant. reflexivity. Qed.

(* ---------- 2c: no `]]>` across pieces ---------- *)
Lemma write_text_scan br b o br' : has_cdend b = false -> write_text br b = (o, br') -> scan br o = false.
Proof.
  intros Hb H. destruct (write_text_cases br b) as [(r & Eb & L & W) | (C & W)]; rewrite W in H; injection H as Ho _; subst o.
  - rewrite scan_app, scan_repeat. unfold gt_ref. cbn [orb app scan]. cbn. rewrite scan0.
    rewrite Eb in Hb. apply has_cdend_app_r in Hb. cbn [has_cdend] in Hb. apply orb_false_iff in Hb as [_ Hb]. exact Hb.
  - rewrite scan_eq, Hb, C. reflexivity.
Qed.

(* one step: [acc] is the character data written so far in the current run *)
Theorem write_text_no_cdend : forall acc br b o br',
  has_cdend acc = false -> br = Nat.min 2 (trail_br acc) -> has_cdend b = false -> write_text br b = (o, br') ->
  has_cdend (acc ++ o) = false /\ br' = Nat.min 2 (trail_br (acc ++ o)).
Proof.
  intros acc br b o br' Ha Hbr Hb W. split; [|exact (write_text_trail acc br b o br' Hbr W)].
  rewrite <- scan0, scan_app, scan0, Ha, st_after_0, <- Hbr. cbn [orb]. exact (write_text_scan br b o br' Hb W).
Qed.

(* the output as a sequence of maximal character-data runs and markup *)
Inductive seg := SRun (b : bytes) | SMark (b : bytes).
Definition seg_bytes (s : seg) : bytes := match s with SRun b => b | SMark b => b end.
Definition cons_run (o : bytes) (l : list seg) : list seg :=
  match l with SRun x :: l' => SRun (o ++ x) :: l' | _ => SRun o :: l end.

Fixpoint render_segs (br : nat) (ps : list piece) : list seg :=
  match ps with
  | [] => []
  | PText b :: r => let '(o, br') := write_text br b in cons_run o (render_segs br' r)
  | PCText esc _ :: r => let '(o, br') := write_text br esc in cons_run o (render_segs br' r)
  | PCData raw _ :: r => SMark raw :: render_segs O r
  | PMarkup b :: r => SMark b :: render_segs O r
  end.

Fixpoint runs_of (l : list seg) : list bytes :=
  match l with [] => [] | SRun b :: r => b :: runs_of r | SMark _ :: r => runs_of r end.
Definition render_runs (br : nat) (ps : list piece) : list bytes := runs_of (render_segs br ps).

Lemma cons_run_bytes o l : concat (map seg_bytes (cons_run o l)) = o ++ concat (map seg_bytes l).
Proof. destruct l as [|[x|x] l']; cbn [cons_run map concat seg_bytes]; [reflexivity | apply app_assoc_reverse | reflexivity]. Qed.

(* the segments, in order, are the output *)
Theorem render_segs_bytes : forall ps br, concat (map seg_bytes (render_segs br ps)) = render_pieces br ps.
Proof.
  induction ps as [|p ps IH]; intros br; [reflexivity|].
  destruct p as [b | raw c | e c | b]; cbn [render_segs render_pieces].
  - destruct (write_text br b) as [o br']. rewrite cons_run_bytes, IH. reflexivity.
  - cbn [map concat seg_bytes]. rewrite IH. reflexivity.
  - destruct (write_text br e) as [o br']. rewrite cons_run_bytes, IH. reflexivity.
  - cbn [map concat seg_bytes]. rewrite IH. reflexivity.
Qed.

(* the runs are maximal: two runs are never adjacent *)
Fixpoint runs_separated (l : list seg) : bool :=
  match l with
  | [] => true
  | s :: r => (match s, r with SRun _, SRun _ :: _ => false | _, _ => true end) && runs_separated r
  end.

Lemma cons_run_separated o l : runs_separated l = true -> runs_separated (cons_run o l) = true.
Proof.
  destruct l as [|[x|x] l']; cbn [cons_run runs_separated]; intros H; [reflexivity | exact H | exact H].
Qed.

Theorem render_segs_maximal : forall ps br, runs_separated (render_segs br ps) = true.
Proof.
  induction ps as [|p ps IH]; intros br; [reflexivity|].
  destruct p as [b | raw c | e c | b]; cbn [render_segs].
  - destruct (write_text br b) as [o br']. apply cons_run_separated, IH.
  - cbn [runs_separated]. apply IH.
  - destruct (write_text br e) as [o br']. apply cons_run_separated, IH.
  - cbn [runs_separated]. apply IH.
Qed.

Definition piece_ok (p : piece) : Prop :=
  match p with PText b => has_cdend b = false | PCText esc _ => has_cdend esc = false | _ => True end.
Definition run_ok (r : bytes) : Prop := has_cdend r = false.

Lemma cons_run_app a o l : cons_run a (cons_run o l) = cons_run (a ++ o) l.
Proof. destruct l as [|[x|x] l']; cbn [cons_run]; [reflexivity | rewrite app_assoc; reflexivity | reflexivity]. Qed.

Lemma runs_cons_nil l : Forall run_ok (runs_of (cons_run [] l)) -> Forall run_ok (runs_of l).
Proof.
  destruct l as [|[x|x] l']; cbn [cons_run runs_of app]; intros H; [constructor | exact H | inversion H; assumption].
Qed.

Lemma render_runs_inv : forall ps acc br,
  Forall piece_ok ps -> has_cdend acc = false -> br = Nat.min 2 (trail_br acc) ->
  Forall run_ok (runs_of (cons_run acc (render_segs br ps))).
Proof.
  induction ps as [|p ps IH]; intros acc br Hps Ha Hbr.
  - cbn [render_segs cons_run runs_of]. constructor; [exact Ha | constructor].
  - inversion Hps as [|p' ps' Hp Hps']; subst p' ps'.
    destruct p as [b | raw c | e c | b]; cbn [render_segs]; cbn [piece_ok] in Hp.
    + destruct (write_text br b) as [o br'] eqn:W. rewrite cons_run_app.
      destruct (write_text_no_cdend acc br b o br' Ha Hbr Hp W) as (Ha' & Hbr'). apply IH; assumption.
    + cbn [cons_run runs_of]. constructor; [exact Ha|]. apply runs_cons_nil. apply IH; [exact Hps' | reflexivity | reflexivity].
    + destruct (write_text br e) as [o br'] eqn:W. rewrite cons_run_app.
      destruct (write_text_no_cdend acc br e o br' Ha Hbr Hp W) as (Ha' & Hbr'). apply IH; assumption.
    + cbn [cons_run runs_of]. constructor; [exact Ha|]. apply runs_cons_nil. apply IH; [exact Hps' | reflexivity | reflexivity].
Qed.

(* MAIN THEOREM: if no text piece contains `]]>` by itself, no character-data run of the output contains `]]>` *)
Theorem render_no_cdend_across_pieces : forall ps,
  Forall piece_ok ps -> Forall (fun r => has_cdend r = false) (render_runs O ps).
Proof.
  intros ps Hps. unfold render_runs. apply runs_cons_nil. apply render_runs_inv; [exact Hps | reflexivity | reflexivity].
Qed.

(* ---------- the same for the minifier: from tokens to output ---------- *)
Lemma scan_escape_text : forall b st, scan st (escape_text b) = scan st b.
Proof.
  induction b as [|c r IH]; intros st; [reflexivity|]. cbn [escape_text].
  destruct (c =? 60) eqn:E60; [apply Z.eqb_eq in E60; subst c; cbn [app scan]; cbn; apply IH|].
  destruct (c =? 38) eqn:E38; [apply Z.eqb_eq in E38; subst c; cbn [app scan]; cbn; apply IH|].
  cbn [app scan]. destruct (c =? 93); [apply IH|]. destruct ((c =? 62) && (2 <=? st)%nat); [reflexivity | apply IH].
Qed.

Lemma has_cdend_escape_text b : has_cdend (escape_text b) = has_cdend b.
Proof. rewrite <- !scan0. apply scan_escape_text. Qed.

Lemma has_cdend_tl b : has_cdend b = false -> has_cdend (tl b) = false.
Proof. destruct b as [|c r]; [intros H; exact H|]. intros H. exact (has_cdend_app_r [c] r H). Qed.

Lemma has_cdend_removelast b : has_cdend b = false -> has_cdend (removelast b) = false.
Proof.
  destruct b as [|c r]; [intros H; exact H|]. intros H.
  rewrite (app_removelast_last 0 (l := c :: r)) in H by discriminate. exact (has_cdend_app_l _ _ H).
Qed.

(* no text token (after entity and white-space processing) and no CDATA section content contains `]]>` *)
Definition tokens_no_cdend (ts : list xtok) : Prop :=
  forall t, In t ts -> (tt t = XText -> has_cdend (data t) = false) /\ (tt t = XCData -> has_cdend (text t) = false).

Lemma minify_pieces_ok keepws : forall ts omit skip, tokens_no_cdend ts -> Forall piece_ok (minify_pieces keepws omit skip ts).
Proof.
  induction ts as [|t rest IH]; intros omit skip Hts; [constructor|].
  assert (Hrest : tokens_no_cdend rest) by (intros x Hx; apply Hts; right; exact Hx).
  destruct (Hts t (or_introl eq_refl)) as (HT & HC).
  cbn [minify_pieces]. destruct skip as [|k]; [|apply IH; exact Hrest].
  destruct (tt t) eqn:Ett; try (apply IH; exact Hrest); try (constructor; [exact I | apply IH; exact Hrest]).
  - constructor.
  - (* XCData *) specialize (HC eq_refl). destruct (text t) as [|c0 cs] eqn:Etx; [apply IH; exact Hrest|].
    unfold escape_cdata_val. destruct (cdata_cost (c0 :: cs) 0).
    + constructor; [|apply IH; exact Hrest]. cbn [piece_ok]. rewrite has_cdend_escape_text. exact HC.
    + constructor; [exact I | apply IH; exact Hrest].
  - (* XText *) specialize (HT eq_refl).
    remember (if omit && starts_with_ws (data t) then tl (data t) else data t) as d1 eqn:Ed1.
    assert (Hd1 : has_cdend d1 = false)
      by (subst d1; destruct (omit && starts_with_ws (data t)); [apply has_cdend_tl; exact HT | exact HT]).
    clear Ed1.
    destruct d1 as [|c d].
    + constructor; [reflexivity | apply IH; exact Hrest].
    + destruct (last_is_ws (c :: d)).
      * destruct (trailing_decision keepws rest) as [trim omit']. constructor; [|apply IH; exact Hrest].
        cbn [piece_ok]. destruct trim; [apply has_cdend_removelast; exact Hd1 | exact Hd1].
      * constructor; [exact Hd1 | apply IH; exact Hrest].
  - (* XStartTagClose *) destruct (close_collapses keepws rest); (constructor; [exact I | apply IH; exact Hrest]).
Qed.

Theorem xml_minify_segs : forall keepws ts,
  xml_minify keepws ts = concat (map seg_bytes (render_segs O (minify_pieces keepws true 0 ts))).
Proof. intros keepws ts. symmetry. apply render_segs_bytes. Qed.

Theorem xml_minify_no_cdend : forall keepws ts, tokens_no_cdend ts ->
  Forall (fun r => has_cdend r = false) (render_runs O (minify_pieces keepws true 0 ts)).
Proof. intros keepws ts Hts. apply render_no_cdend_across_pieces. apply minify_pieces_ok. exact Hts. Qed.

(* ---------- examples ---------- *)
Example ex_two_then_gt : render_pieces O [PText [97; 93; 93]; PText [62; 98]] = [97; 93; 93; 38; 103; 116; 59; 98].
Proof. vm_compute. reflexivity. Qed.
Example ex_one_one_gt : render_pieces O [PText [93]; PText [93; 62]] = [93; 93; 38; 103; 116; 59].
Proof. vm_compute. reflexivity. Qed.
Example ex_three_pieces : render_pieces O [PText [93]; PText [93]; PText [62]] = [93; 93; 38; 103; 116; 59].
Proof. vm_compute. reflexivity. Qed.
Example ex_many_brackets : render_pieces O [PText [93; 93; 93]; PText [93; 62; 93; 93]; PText [62]] =
  [93; 93; 93; 93; 38; 103; 116; 59; 93; 93; 38; 103; 116; 59].
Proof. vm_compute. reflexivity. Qed.
Example ex_cdata_text : render_pieces O [PCText [93; 93] [93; 93]; PText [62]] = [93; 93; 38; 103; 116; 59].
Proof. vm_compute. reflexivity. Qed.
Example ex_markup_between : render_pieces O [PText [93; 93]; PMarkup [60; 98; 47; 62]; PText [62]] = [93; 93; 60; 98; 47; 62; 62].
Proof. vm_compute. reflexivity. Qed.
Example ex_markup_between_runs :
  render_runs O [PText [93; 93]; PMarkup [60; 98; 47; 62]; PText [62]] = [[93; 93]; [62]].
Proof. vm_compute. reflexivity. Qed.
Example ex_other_byte_between : render_pieces O [PText [93; 93]; PText [120]; PText [62]] = [93; 93; 120; 62].
Proof. vm_compute. reflexivity. Qed.
Example ex_after_escape : render_pieces O [PText [93; 93]; PText [62]; PText [62]] = [93; 93; 38; 103; 116; 59; 62].
Proof. vm_compute. reflexivity. Qed.
(* the hypothesis of the main theorem is needed: `]]>` inside one piece is written as it is *)
Example ex_single_piece_kept :
  render_pieces O [PText [97; 93; 93; 62]] = [97; 93; 93; 62] /\
  render_runs O [PText [97; 93; 93; 62]] = [[97; 93; 93; 62]] /\ has_cdend [97; 93; 93; 62] = true.
Proof. vm_compute. repeat split. Qed.
(* ... also at the start of a piece, where the writer looks: with two brackets of its own the `>` is escaped, *)
Example ex_single_piece_leading : render_pieces O [PText [93; 93; 62]] = [93; 93; 38; 103; 116; 59].
Proof. vm_compute. reflexivity. Qed.
(* but only the first `>` of a piece is looked at *)
Example ex_single_piece_second :
  render_pieces O [PText [93]; PText [93; 62; 93; 93; 62]] = [93; 93; 38; 103; 116; 59; 93; 93; 62].
Proof. vm_compute. reflexivity. Qed.

Print Assumptions has_cdend_spec.
Print Assumptions write_text_one_gt.
Print Assumptions write_text_one_gt'.
Print Assumptions render_pieces_only_gt.
Print Assumptions write_text_trail.
Print Assumptions render_pieces_app.
Print Assumptions render_st_suffix.
Print Assumptions render_state_invariant.
Print Assumptions write_text_no_cdend.
Print Assumptions render_segs_bytes.
Print Assumptions render_segs_maximal.
Print Assumptions render_no_cdend_across_pieces.
Print Assumptions xml_minify_segs.
Print Assumptions xml_minify_no_cdend.
