(* Xml/XmlSpec.v — what "same infoset up to insignificant white space" means for the token-level model:
   the document is a sequence of markup items and character-data runs; comments vanish; a run is the concatenation of
   the character data of the text tokens and CDATA sections between two markup items; two documents agree when they
   have the same markup items in the same order and, run by run, the same WORDS (Base/Ws.v). *)
From MV Require Import Base.MvBytes Base.Ws Xml.XmlModel.

Inductive item := IM (b : bytes) | IR (chars : bytes).

(* concatenate adjacent runs *)
Fixpoint merge (l : list item) : list item :=
  match l with
  | [] => []
  | IR a :: r => match merge r with IR b :: r' => IR (a ++ b) :: r' | r' => IR a :: r' end
  | IM b :: r => IM b :: merge r
  end.

Definition item_equiv (a b : item) : Prop :=
  match a, b with
  | IM x, IM y => x = y
  | IR x, IR y => words x = words y
  | _, _ => False
  end.

(* the input side: one item per token; text contributes its (white-space-collapsed) data, a CDATA section its content;
   markup is rendered by the same per-token functions as in the model (attr_bytes, end_tag_bytes, close_collapses):
   the statement below is about the text, the markup rendering has its own statements *)
Fixpoint in_items (keepws : bool) (skip : nat) (ts : list xtok) : list item :=
  match ts with
  | [] => []
  | t :: rest =>
    match skip with
    | S k => in_items keepws k rest
    | O =>
      match tt t with
      | XError => []
      | XComment => in_items keepws 0 rest
      | XText => IR (data t) :: in_items keepws 0 rest
      | XCData => match text t with [] => in_items keepws 0 rest | _ => IR (text t) :: in_items keepws 0 rest end
      | XAttribute => IM (attr_bytes t) :: in_items keepws 0 rest
      | XEndTag => IM (end_tag_bytes t) :: in_items keepws 0 rest
      | XStartTagClose =>
        match close_collapses keepws rest with
        | Some k => IM [47; 62] :: in_items keepws k rest
        | None => IM (data t) :: in_items keepws 0 rest
        end
      | _ => IM (data t) :: in_items keepws 0 rest
      end
    end
  end.

(* the output side: the character data of an emitted piece *)
Definition out_item (p : piece) : item :=
  match p with PText b => IR b | PCData _ content => IR content | PCText _ content => IR content | PMarkup b => IM b end.
Definition out_items (ps : list piece) : list item := map out_item ps.
