package main

// Mode crash: property C20.  Every case is traced once; then the command is re-run on an identical
// tree once per (system call name, k) with `strace --inject=<name>:signal=SIGKILL:when=k`.
// strace keeps one injection counter per system call *and per thread*, so a shared "N-th mutating
// call" counter is impossible; instead the log of every kill run is parsed and tells exactly
// which operations had completed when the process died.

import (
	"bytes"
	"fmt"
	"os"
	"path/filepath"
	"sort"
	"strings"
	"time"

	"verifharness/internal/vh"
)

type killPoint struct {
	Syscall string
	K       int
}

type killResult struct {
	kp        killPoint
	killed    bool
	done      int    // operations below the scratch root completed before the kill
	mutations int    // of which changed the tree
	lastOp    string // kind of the last completed operation below root ("start" if none)
	nextOp    string // kind of the operation the kill pre-empted ("other" if not below root)
	findings  []Finding
	opsText   []string
	err       error
}

// crashCheck applies C20 to the tree left behind by a killed run.
func crashCheck(exp *Expect, before, after Snapshot, ops []Op) []Finding {
	var fs []Finding
	// the window is named after the operations on the affected file (p or p.bak) only, so that
	// the signature does not depend on how other tasks happened to interleave
	window := func(p string) string {
		last, next := "start", "unrelated-call"
		for _, o := range ops {
			hit := false
			for _, w := range strings.Fields(o.Text) {
				if w == p || w == p+".bak" {
					hit = true
				}
			}
			if !hit {
				continue
			}
			if o.Complete {
				last = o.Kind
			} else {
				next = o.Kind
			}
		}
		return "after-" + last + "-before-" + next
	}
	inplaceOut := map[string][]byte{}
	dst := map[string]bool{}
	for p, ef := range exp.Files {
		dst[p] = true
		if ef.InPlace && ef.Kind == "file" {
			inplaceOut[p] = ef.Data
		}
	}
	for _, p := range before.Paths() {
		b := before[p]
		a, ok := after[p]
		switch {
		case b.Kind == "dir":
			continue
		case dst[p] && inplaceOut[p] == nil:
			continue // pre-existing separate destination: not an input, may be partial
		case dst[p] && b.Kind == "symlink":
			continue // the destination path is a link: it holds no content of its own; the file it points to is judged under its own path
		case inplaceOut[p] != nil || (dst[p] && b.Kind == "file"):
			// input minified onto itself: original at p, original at p.bak, or complete output at p
			if ok && a.Kind == "file" && bytes.Equal(a.Data, b.Data) {
				continue
			}
			if bak, okb := after[p+".bak"]; okb && bak.Kind == "file" && bytes.Equal(bak.Data, b.Data) {
				continue
			}
			if ok && a.Kind == "file" && bytes.Equal(a.Data, inplaceOut[p]) {
				continue
			}
			obs := "absent"
			if ok {
				obs = fmt.Sprintf("%d B %s", len(a.Data), clip(a.Data, 60))
			}
			bakObs := "absent"
			if bak, okb := after[p+".bak"]; okb {
				bakObs = fmt.Sprintf("%d B", len(bak.Data))
			}
			fs = append(fs, Finding{Signature: "crash:original-nowhere:" + window(p),
				Observed: fmt.Sprintf("%s: %s; %s.bak: %s", p, obs, p, bakObs),
				Expected: fmt.Sprintf("original (%d B) at %s or %s.bak, or complete output (%d B) at %s", len(b.Data), p, p, len(inplaceOut[p]), p)})
		default:
			// only read, or unrelated: bit-identical
			if !ok {
				fs = append(fs, Finding{Signature: "crash:read-only-file-removed:" + window(p), Observed: p + " is gone", Expected: "unchanged"})
			} else if a.Kind != b.Kind || a.Target != b.Target || !bytes.Equal(a.Data, b.Data) {
				fs = append(fs, Finding{Signature: "crash:read-only-file-modified:" + window(p),
					Observed: fmt.Sprintf("%s: %s %d B %s", p, a.Kind, len(a.Data), clip(a.Data, 60)), Expected: fmt.Sprintf("%s %d B unchanged", b.Kind, len(b.Data))})
			}
		}
	}
	return fs
}

// killRun re-creates the tree, runs the command with the injection and checks the outcome.
func killRun(bin, work string, c Case, kp killPoint, env ...string) killResult {
	kr := killResult{kp: kp}
	root, err := newScratch(work)
	if err != nil {
		kr.err = err
		return kr
	}
	defer os.RemoveAll(root)
	tree := filepath.Join(root, "w")
	os.Mkdir(tree, 0o755)
	if err := c.Tree.Materialise(tree); err != nil {
		kr.err = err
		return kr
	}
	argv := substRoot(c.Argv, tree)
	inv, unparsed := ParseArgv(argv)
	if unparsed != "" {
		kr.err = fmt.Errorf("unparsed argv")
		return kr
	}
	exp := Reference(tree, inv, []byte(c.Stdin))
	clearRepaired(exp)
	if exp.NotJudged != "" {
		kr.err = fmt.Errorf("not judged: %s", exp.NotJudged)
		return kr
	}
	before, err := Snap(tree)
	if err != nil {
		kr.err = err
		return kr
	}
	logPath := filepath.Join(root, "strace.log")
	inject := fmt.Sprintf("%s:signal=SIGKILL:when=%d", kp.Syscall, kp.K)
	failOnly := false
	if k := strings.IndexByte(kp.Syscall, '!'); k > 0 {
		// "write!ENOSPC": the call FAILS once instead of the process being killed; the run then ends by itself and the
		// tree it leaves behind is judged like the tree after a kill ("at no instant is a file's content nowhere on disk")
		inject = fmt.Sprintf("%s:error=%s:when=%d", kp.Syscall[:k], kp.Syscall[k+1:], kp.K)
		failOnly = true
	}
	_, _, _, err = straceRun(bin, tree, argv, []byte(c.Stdin), logPath, inject, 30*time.Second, env...)
	if err != nil {
		kr.err = err
		return kr
	}
	log, _ := os.ReadFile(logPath)
	calls, killed := parseStrace(log)
	if failOnly {
		killed = bytes.Contains(log, []byte("(INJECTED)"))
	}
	kr.killed = killed
	if !killed {
		return kr
	}
	ops := canonicalise(calls, tree, tree)
	kr.lastOp, kr.nextOp = "start", "other"
	for _, o := range ops {
		kr.opsText = append(kr.opsText, o.Text)
		if o.Complete {
			kr.done++
			kr.lastOp = o.Kind
			if o.Mutates {
				kr.mutations++
			}
		} else {
			kr.nextOp = o.Kind
		}
	}
	after, err := Snap(tree)
	if err != nil {
		kr.err = err
		return kr
	}
	kr.findings = crashCheck(exp, before, after, ops)
	if exp.Known != "" {
		for i := range kr.findings {
			kr.findings[i].Signature = exp.Known + ":" + kr.findings[i].Signature
		}
	}
	return kr
}

// usableForCrash filters random cases: judged, writes to files, no known-condition shapes.
func usableForCrash(tr *traced) bool {
	if tr.nj != "" || tr.exp == nil || tr.exp.NotJudged != "" {
		return false
	}
	if tr.exp.Known != "" && !allowKnown() {
		return false
	}
	return len(tr.exp.Files) > 0
}

func runCrash(bin, work string, res *vh.Result) {
	res.Rule = "evaluations = kill runs in which the process was killed and the tree judged; distinct_nontrivial = distinct (tree, argv, completed-operation count) kill points at which the command had already changed the file system"
	type ccase struct {
		name string
		c    Case
	}
	var cases []ccase
	if *flagWitness != "" {
		cases = append(cases, ccase{"witness", loadWitness(*flagWitness)})
	} else {
		for _, s := range family() {
			cases = append(cases, ccase{fmt.Sprintf("%s/%d", s.Shape, s.Size), s.Case})
		}
		n := *flagN
		if n == 0 {
			n = quickCrash
			if *flagTier == "thorough" {
				n = 10 * quickCrash
			}
		}
		r := vh.NewRand(*flagSeed).Fork() // Fork: NewRand(s+1) is NewRand(s) shifted by one draw
		for i := 0; i < n; i++ {
			c := genCase(r.Fork(), genOpts{known: *flagKnown})
			c.Mode = "crash"
			cases = append(cases, ccase{fmt.Sprintf("random-%d", i), c})
		}
	}
	// 1. baseline traces
	trs := make([]*traced, len(cases))
	errs := make([]error, len(cases))
	parallel(len(cases), func(i int) { trs[i], errs[i] = traceCase(bin, work, cases[i].c, cases[i].name) })
	type job struct {
		ci int
		kp killPoint
	}
	var jobsList []job
	perCaseBudget := 60
	if *flagTier == "thorough" {
		perCaseBudget = 1 << 30
	}
	for i, tr := range trs {
		if errs[i] != nil {
			fatal("trace %s: %v", cases[i].name, errs[i])
		}
		if !usableForCrash(tr) {
			res.NotJudged++
			reason := "no-file-destination"
			if tr.nj != "" {
				reason = tr.nj
			} else if tr.exp != nil && tr.exp.NotJudged != "" {
				reason = tr.exp.NotJudged
			}
			res.Hist("not_judged", reason)
			continue
		}
		res.Hist("shapes", tr.exp.Shape)
		for _, t := range tr.exp.Tasks {
			if t.Failed {
				res.Hist("task_kinds", "minify-fails")
			} else if t.Copy {
				res.Hist("task_kinds", "copy")
			} else {
				res.Hist("task_kinds", "minify-ok")
			}
		}
		counts := map[string]int{}
		for _, c := range tr.calls {
			counts[c.Name]++
		}
		var kps []killPoint
		if *flagWitness != "" && cases[i].c.Kill > 0 && cases[i].c.KillOn != "" {
			kps = []killPoint{{cases[i].c.KillOn, cases[i].c.Kill}}
		} else {
			names := make([]string, 0, len(counts))
			for n := range counts {
				names = append(names, n)
			}
			sort.Strings(names)
			// calls made before the first operation below the scratch root (loader, runtime start-up)
			// all give the same trivial kill point: keep one of them
			pre := map[string]int{}
			if len(tr.ops) > 0 {
				for _, c := range tr.calls[:tr.ops[0].CallIdx] {
					pre[c.Name]++
				}
			}
			keptStartup := false
			for _, n := range names {
				for k := 1; k <= counts[n]; k++ {
					if k <= pre[n] {
						if keptStartup {
							continue
						}
						keptStartup = true
					}
					kps = append(kps, killPoint{n, k})
				}
			}
			var failPoints []killPoint
			for k := 1; k <= counts["write"] && k <= 12; k++ {
				failPoints = append(failPoints, killPoint{"write!ENOSPC", k})
			}
			if len(kps) > perCaseBudget {
				// sample evenly
				var s []killPoint
				for j := 0; j < perCaseBudget; j++ {
					s = append(s, kps[j*len(kps)/perCaseBudget])
				}
				kps = s
				res.Hist("kill_points", "sampled-cases")
			}
			kps = append(kps, failPoints...)
		}
		for _, kp := range kps {
			jobsList = append(jobsList, job{i, kp})
		}
	}
	// 2. kill runs
	distinct := map[string]bool{}
	boundaries := map[int]map[int]bool{}
	seenSig := map[string]bool{}
	tried := map[string]int{}
	bad := map[int][]killResult{}
	absorb := func(jobsList []job, env ...string) {
		results := make([]killResult, len(jobsList))
		parallel(len(jobsList), func(j int) { results[j] = killRun(bin, work, cases[jobsList[j].ci].c, jobsList[j].kp, env...) })
		for j, kr := range results {
			ci := jobsList[j].ci
			tried[fmt.Sprintf("%d/%s/%d", ci, kr.kp.Syscall, kr.kp.K)]++
			if kr.err != nil {
				if kr.err.Error() == "timeout" {
					res.Hist("outcomes", "timeout")
					continue
				}
				fatal("kill run %s %v: %v", cases[ci].name, kr.kp, kr.err)
			}
			if !kr.killed {
				res.Hist("outcomes", "kill-point-not-reached")
				continue
			}
			res.Evaluations++
			res.Hist("kill_syscall", kr.kp.Syscall)
			res.Hist("kill_window", "after-"+kr.lastOp+"-before-"+kr.nextOp)
			if boundaries[ci] == nil {
				boundaries[ci] = map[int]bool{}
			}
			boundaries[ci][kr.done] = true
			if kr.mutations > 0 {
				distinct[fmt.Sprintf("%d/%d", ci, kr.done)] = true
			}
			if len(kr.findings) == 0 {
				res.Hist("outcomes", "ok")
				if len(res.Samples) < 3 && kr.mutations > 0 && j%11 == 0 {
					res.Samples = append(res.Samples, map[string]interface{}{"argv": cases[ci].c.Argv, "tree": cases[ci].c.Tree.Listing(),
						"kill": fmt.Sprintf("%s when=%d", kr.kp.Syscall, kr.kp.K), "ops_before_kill": kr.opsText, "result": "every input intact at p, p.bak or complete at p"})
				}
				continue
			}
			res.Hist("outcomes", "violation")
			bad[ci] = append(bad[ci], kr)
		}
	}
	absorb(jobsList)
	// 3. strace counts injections per system call *and per thread*; when the Go scheduler moves the
	// goroutine to another thread a kill point is hit later or not at all.  For cases with a
	// deterministic operation order (one task, or -v which serialises the tasks) retry the
	// boundaries that no run has hit yet.
	deterministic := func(ci int) bool {
		tr := trs[ci]
		if !usableForCrash(tr) || *flagWitness != "" {
			return false
		}
		if *flagTier != "thorough" && strings.HasPrefix(cases[ci].name, "random-") {
			return false
		}
		inv, _ := ParseArgv(cases[ci].c.Argv)
		return len(tr.exp.Tasks) <= 1 || inv.Verbose > 0
	}
	rounds := 6
	if *flagTier == "thorough" {
		rounds = 12
	}
	for round := 0; round < rounds; round++ {
		var retry []job
		for ci, tr := range trs {
			if !deterministic(ci) {
				continue
			}
			pre := map[string]int{}
			if len(tr.ops) > 0 {
				for _, c := range tr.calls[:tr.ops[0].CallIdx] {
					pre[c.Name]++
				}
			}
			for d, op := range tr.ops {
				if boundaries[ci][d] {
					continue
				}
				name := tr.calls[op.CallIdx].Name
				rank := 0
				for _, c := range tr.calls[:op.CallIdx+1] {
					if c.Name == name {
						rank++
					}
				}
				k := rank
				if round%2 == 1 && rank-pre[name] > 0 {
					k = rank - pre[name] // the goroutine left the start-up thread
				}
				retry = append(retry, job{ci, killPoint{name, k}})
			}
		}
		if len(retry) == 0 {
			break
		}
		res.Hist("kill_points", "retry-rounds")
		// GOMAXPROCS=1 keeps the goroutine on one thread almost always; same program, same call sequence
		absorb(retry, "GOMAXPROCS=1")
	}
	// one report per case: the earliest kill point that shows the damage names the root cause,
	// later kill points of the same run merely still see it
	var badCases []int
	for ci := range bad {
		badCases = append(badCases, ci)
	}
	sort.Ints(badCases)
	for _, ci := range badCases {
		krs := bad[ci]
		sort.SliceStable(krs, func(i, j int) bool { return krs[i].done < krs[j].done })
		kr := krs[0]
		emitted := map[string]bool{}
		for _, f := range kr.findings {
			if emitted[f.Signature] || (seenSig[f.Signature] && len(res.Violations) > 60) {
				continue
			}
			emitted[f.Signature] = true
			seenSig[f.Signature] = true
			wc := cases[ci].c
			wc.Mode = "crash"
			wc.Kill, wc.KillOn = kr.kp.K, kr.kp.Syscall
			v := vh.Violation{Kind: "oracle", Signature: f.Signature, Input: caseInput(wc) + fmt.Sprintf("\nkill: %s when=%d", kr.kp.Syscall, kr.kp.K), Observed: f.Observed, Expected: f.Expected,
				Detail: fmt.Sprintf("operations before the kill: %s (%d kill points of this case show a violation; this is the earliest)", strings.Join(kr.opsText, "; "), len(krs)),
				Case: ci, Options: map[string]string{"witness": caseJSON(wc)}}
			if trs[ci].exp.Known != "" {
				v.Options["known_id"] = trs[ci].exp.Known
			}
			res.Violations = append(res.Violations, v)
		}
	}
	// coverage of operation boundaries per case (the baseline trace says how many there are):
	// boundary d = "killed on entry to the operation with index d", d in [0, len(ops))
	covered, total := 0, 0
	famCov := map[string]string{}
	famFull := 0
	for ci, tr := range trs {
		if boundaries[ci] == nil || !deterministic(ci) {
			continue
		}
		total += len(tr.ops)
		c := 0
		for d := range boundaries[ci] {
			if d < len(tr.ops) {
				c++
			}
		}
		covered += c
		if !strings.HasPrefix(cases[ci].name, "random-") {
			famCov[cases[ci].name] = fmt.Sprintf("%d/%d", c, len(tr.ops))
			if c == len(tr.ops) {
				famFull++
			}
		}
	}
	res.Extra["deterministic_family_boundary_coverage"] = famCov
	res.Extra["deterministic_family_cases_fully_covered"] = fmt.Sprintf("%d/%d", famFull, len(famCov))
	res.Extra["boundaries_covered"] = covered
	res.Extra["boundaries_in_baselines"] = total
	res.Extra["strace"] = "strace -f -o <log> -e " + traceExpr() + " --inject=<syscall>:signal=SIGKILL:when=<k> <bin> <argv>"
	res.DistinctNontrivial = len(distinct)
	res.Exhaustive = false
	_ = vh.Hex
}
