package main

// Mode fs: run one invocation on one scratch tree and compare with the reference (property C19).

import (
	"bytes"
	"context"
	"fmt"
	"os"
	"os/exec"
	"path/filepath"
	"sort"
	"strings"
	"time"
)

// Case is the witness format.
type Case struct {
	Mode   string   `json:"mode"`
	Tree   Tree     `json:"tree"`
	Argv   []string `json:"argv"`
	Stdin  string   `json:"stdin,omitempty"`
	Kill   int      `json:"kill,omitempty"`         // crash mode: kill on entry to the N-th call ...
	KillOn string   `json:"kill_syscall,omitempty"` // ... of this system call ("" = N-th traced call overall is searched)
}

type Finding struct {
	Signature string
	Observed  string
	Expected  string
	Detail    string
}

type Outcome struct {
	NotJudged string
	Findings  []Finding
	Changed   bool
	Exit      int
	Stdout    []byte
	Stderr    []byte
	Shape     string
	Known     string
	Inv       *Inv
	Exp       *Expect
	Before    Snapshot
	After     Snapshot
	ToolErr   error
}

func substRoot(argv []string, root string) []string {
	out := make([]string, len(argv))
	for i, a := range argv {
		out[i] = strings.ReplaceAll(a, rootToken, root)
	}
	return out
}

// newScratch makes an empty directory under work and returns its symlink-free absolute path.
func newScratch(work string) (string, error) {
	d, err := os.MkdirTemp(work, "t")
	if err != nil {
		return "", err
	}
	r, err := filepath.EvalSymlinks(d)
	if err != nil {
		return "", err
	}
	return r, nil
}

func runCmd(bin, cwd string, argv []string, stdin []byte, timeout time.Duration) (exit int, stdout, stderr []byte, err error) {
	ctx, cancel := context.WithTimeout(context.Background(), timeout)
	defer cancel()
	cmd := exec.CommandContext(ctx, bin, argv...)
	cmd.Dir = cwd
	cmd.Stdin = bytes.NewReader(stdin)
	var so, se bytes.Buffer
	cmd.Stdout, cmd.Stderr = &so, &se
	cmd.Env = append(os.Environ(), "COLUMNS=200")
	rerr := cmd.Run()
	if ctx.Err() != nil {
		return -1, so.Bytes(), se.Bytes(), fmt.Errorf("timeout")
	}
	if rerr != nil {
		if ee, ok := rerr.(*exec.ExitError); ok {
			return ee.ExitCode(), so.Bytes(), se.Bytes(), nil
		}
		return -1, so.Bytes(), se.Bytes(), rerr
	}
	return 0, so.Bytes(), se.Bytes(), nil
}

// evalFS evaluates one case completely.
func evalFS(bin, work string, c Case) *Outcome {
	o := &Outcome{}
	root, err := newScratch(work)
	if err != nil {
		o.ToolErr = err
		return o
	}
	defer os.RemoveAll(root)
	if err := c.Tree.Materialise(root); err != nil {
		o.ToolErr = fmt.Errorf("materialise: %v", err)
		return o
	}
	argv := substRoot(c.Argv, root)
	inv, unparsed := ParseArgv(argv)
	o.Inv = inv
	if unparsed != "" {
		o.NotJudged = "argv:" + unparsed
		return o
	}
	exp := Reference(root, inv, []byte(c.Stdin))
	clearRepaired(exp)
	o.Exp = exp
	o.Known = exp.Known
	if exp.NotJudged != "" {
		o.NotJudged = exp.NotJudged
		return o
	}
	o.Shape = exp.Shape
	if exp.Known != "" && !allowKnown() {
		o.NotJudged = "avoided-known-condition:" + exp.Known
		return o
	}
	before, err := Snap(root)
	if err != nil {
		o.ToolErr = err
		return o
	}
	exit, so, se, err := runCmd(bin, root, argv, []byte(c.Stdin), 20*time.Second)
	o.Exit, o.Stdout, o.Stderr = exit, so, se
	if err != nil {
		if err.Error() == "timeout" {
			o.Findings = append(o.Findings, Finding{Signature: "timeout", Observed: "no exit within 20 s", Expected: "termination"})
			return o
		}
		o.ToolErr = err
		return o
	}
	after, err := Snap(root)
	if err != nil {
		o.ToolErr = err
		return o
	}
	o.Before, o.After = before, after
	o.Changed = before.Hash(nil) != after.Hash(nil)
	o.Findings = compare(root, inv, exp, before, after, exit, so, se)
	if exp.Known != "" {
		for i := range o.Findings {
			o.Findings[i].Signature = exp.Known + ":" + o.Findings[i].Signature
		}
	}
	return o
}

// allowKnown: the shapes of known findings are evaluated only with -known or for an explicit witness.
func allowKnown() bool { return *flagKnown || *flagWitness != "" }

func dontCare(exp *Expect, p string) bool {
	for _, d := range exp.DontCare {
		if under(p, d) {
			return true
		}
	}
	return false
}

func compare(root string, inv *Inv, exp *Expect, before, after Snapshot, exit int, stdout, stderr []byte) []Finding {
	var fs []Finding
	add := func(sig, obs, want, detail string) {
		fs = append(fs, Finding{Signature: sig, Observed: obs, Expected: want, Detail: detail})
	}
	if exit == 2 && bytes.Contains(stderr, []byte("goroutine ")) {
		add("cli-panic", clip(stderr, 300), "no panic", "")
	}
	srcOf := map[string]bool{}
	for _, t := range exp.Tasks {
		for _, s := range t.SrcRel {
			srcOf[s] = true
		}
	}
	// destinations
	dsts := make([]string, 0, len(exp.Files))
	for p := range exp.Files {
		dsts = append(dsts, p)
	}
	sort.Strings(dsts)
	for _, p := range dsts {
		ef := exp.Files[p]
		t := exp.Tasks[ef.Task]
		a, ok := after[p]
		if !ok {
			sig := "dst-missing"
			// does the expected content sit somewhere else?
			for q, e := range after {
				if _, was := before[q]; !was && e.Kind == "file" && bytes.Equal(e.Data, ef.Data) {
					sig = "dst-wrong-path"
					add(sig, "found at "+q, "at "+p, "")
					break
				}
			}
			if sig == "dst-missing" {
				if t.Copy {
					sig += ":sync-unselected-not-copied"
				} else if t.Failed {
					sig += ":on-minify-failure"
				}
				add(sig, "no file at "+p, fmt.Sprintf("%s with %d bytes", p, len(ef.Data)), "")
			}
			continue
		}
		if ef.Kind == "symlink" {
			if a.Kind != "symlink" || a.Target != ef.Target {
				add("dst-symlink-differs", fmt.Sprintf("%s %s -> %s", a.Kind, p, a.Target), "symlink -> "+ef.Target, "")
			}
			continue
		}
		data := a.Data
		if a.Kind == "symlink" && t.Alias {
			data, _ = os.ReadFile(filepath.Join(root, p))
		} else if a.Kind != "file" {
			add("dst-kind-differs", a.Kind+" at "+p, "regular file", "")
			continue
		}
		if !bytes.Equal(data, ef.Data) {
			cause := contentCause(inv, &t, data)
			add("dst-content-differs:"+cause, fmt.Sprintf("%s = %s (%d B)", p, clip(data, 120), len(data)), fmt.Sprintf("%s (%d B)", clip(ef.Data, 120), len(ef.Data)), "sources "+strings.Join(t.SrcRel, ","))
			continue
		}
		if ef.Mode != nil && a.Kind == "file" && a.Mode != *ef.Mode {
			add("mode-not-preserved", fmt.Sprintf("%s mode %o", p, a.Mode), fmt.Sprintf("%o", *ef.Mode), "")
		}
		if ef.Mtime != nil && a.Kind == "file" && !a.Mtime.Equal(*ef.Mtime) {
			add("timestamp-not-preserved", fmt.Sprintf("%s mtime %s", p, a.Mtime.UTC().Format(time.RFC3339)), ef.Mtime.UTC().Format(time.RFC3339), "")
		}
	}
	// new paths
	for _, p := range after.Paths() {
		if _, was := before[p]; was {
			continue
		}
		if _, ok := exp.Files[p]; ok {
			continue
		}
		a := after[p]
		if a.Kind == "dir" && exp.NewDirsOK[p] {
			continue
		}
		if dontCare(exp, p) {
			continue
		}
		switch {
		case strings.HasSuffix(p, ".bak"):
			add("stray-file:.bak", fmt.Sprintf("%s (%s)", p, a.Kind), "no such path", "")
		case a.Kind == "dir":
			// a stray directory is only reported when nothing inside it is reported
			inner := false
			for q := range after {
				if q != p && under(q, p) && after[q].Kind != "dir" {
					inner = true
				}
			}
			if !inner {
				add("stray-dir", p+"/", "no such directory", "")
			}
		case exp.OutDir != "" && under(p, exp.OutDir) && isHiddenPath(strings.TrimPrefix(p, exp.OutDir)):
			add("stray-file:hidden-file-processed", p, "hidden files are skipped without -a", "")
		default:
			add("stray-file:unexpected-destination", fmt.Sprintf("%s (%s, %d B)", p, a.Kind, len(a.Data)), "no such path", "")
		}
	}
	// pre-existing paths
	for _, p := range before.Paths() {
		if _, ok := exp.Files[p]; ok {
			continue
		}
		b := before[p]
		a, ok := after[p]
		who := "other-file"
		if srcOf[p] {
			who = "source-file"
		} else if inv.Sync {
			who = "unselected-file"
		}
		if !ok {
			add(who+"-removed", p+" is gone", "unchanged", "")
			continue
		}
		if b.Kind == "dir" && a.Kind == "dir" {
			want, judged := exp.DirModes[p]
			if judged {
				if want != 0o7777 && a.Mode != want {
					add("dir-mode-not-preserved", fmt.Sprintf("%s/ mode %o", p, a.Mode), fmt.Sprintf("%o", want), "")
				}
			} else if a.Mode != b.Mode {
				add("other-dir-mode-changed", fmt.Sprintf("%s/ mode %o", p, a.Mode), fmt.Sprintf("%o", b.Mode), "")
			}
			continue
		}
		if alt, ok := exp.SrcAlt[p]; ok && a.Kind == "file" && bytes.Equal(a.Data, alt) {
			continue
		}
		switch {
		case a.Kind != b.Kind || a.Target != b.Target:
			add(who+"-modified:kind", fmt.Sprintf("%s now %s %s", p, a.Kind, a.Target), fmt.Sprintf("%s %s", b.Kind, b.Target), "")
		case !bytes.Equal(a.Data, b.Data):
			add(who+"-modified:content", fmt.Sprintf("%s = %s (%d B)", p, clip(a.Data, 80), len(a.Data)), fmt.Sprintf("%s (%d B)", clip(b.Data, 80), len(b.Data)), "")
		case a.Mode != b.Mode:
			add(who+"-modified:mode", fmt.Sprintf("%s mode %o", p, a.Mode), fmt.Sprintf("%o", b.Mode), "")
		case a.Kind == "file" && !a.Mtime.Equal(b.Mtime):
			add(who+"-modified:mtime", p+" mtime changed", "unchanged", "")
		}
	}
	// new destination directories whose mode is expected
	for d, want := range exp.DirModes {
		if _, was := before[d]; was || want == 0o7777 {
			continue
		}
		if a, ok := after[d]; ok && a.Kind == "dir" && a.Mode != want {
			add("dir-mode-not-preserved", fmt.Sprintf("%s/ mode %o", d, a.Mode), fmt.Sprintf("%o", want), "")
		}
	}
	// exit status [R8]
	if exp.Fail && exit == 0 {
		add("exit-status:zero-on-failure", "exit 0", "non-zero", clip(stderr, 200))
	} else if !exp.Fail && exit != 0 {
		add("exit-status:nonzero-on-success", fmt.Sprintf("exit %d", exit), "0", clip(stderr, 200))
	}
	if exp.StdoutJ && !bytes.Equal(stdout, exp.Stdout) {
		var t *RTask
		if len(exp.Tasks) > 0 {
			t = &exp.Tasks[0]
		}
		cause := "other"
		if t != nil {
			cause = contentCause(inv, t, stdout)
		}
		add("stdout-differs:"+cause, fmt.Sprintf("%s (%d B)", clip(stdout, 120), len(stdout)), fmt.Sprintf("%s (%d B)", clip(exp.Stdout, 120), len(exp.Stdout)), "")
	}
	sort.SliceStable(fs, func(i, j int) bool { return fs[i].Signature < fs[j].Signature })
	return fs
}

// contentCause names the most specific explanation for wrong destination bytes.
func contentCause(inv *Inv, t *RTask, got []byte) string {
	lib := NewLib(inv.Lib)
	if len(t.Srcs) > 1 {
		// bundle: does another separator explain the bytes?
		var parts [][]byte
		for _, s := range t.SrcAbs {
			b, err := os.ReadFile(s)
			if err != nil {
				break
			}
			parts = append(parts, b)
		}
		if len(parts) == len(t.Srcs) {
			for _, sep := range []string{"", "\n", ";", ";\n"} {
				joined := bytes.Join(parts, []byte(sep))
				if bytes.Equal(joined, got) {
					return "bundle-separator"
				}
				if out, err := lib.Minify(t.Mime, joined); err == nil && bytes.Equal(out, got) {
					return "bundle-separator"
				}
			}
		}
	}
	switch {
	case t.Failed && len(got) == 0:
		return "empty-on-failure"
	case t.Failed:
		return "not-original-on-failure"
	case t.Copy:
		if out, err := lib.Minify(defaultExtMap()[extOf(t.Srcs[0])], t.Input); err == nil && len(t.Srcs) == 1 && bytes.Equal(out, got) {
			return "unselected-file-minified"
		}
		return "sync-copy-not-verbatim"
	case len(got) == 0:
		return "empty"
	case bytes.Equal(got, t.Input):
		if inv.Sync {
			return "sync-selected-copied-verbatim"
		}
		return "original-instead-of-minified"
	case len(t.Srcs) > 1:
		return "bundle-other"
	case bytes.HasPrefix(t.Output, got):
		return "truncated"
	}
	return "other"
}

// shrink drops tree entries and argv words while the first signature stays the same.
func shrink(bin, work string, c Case, sig string, budget int) Case {
	same := func(x Case) bool {
		if budget <= 0 {
			return false
		}
		budget--
		o := evalFS(bin, work, x)
		return o.ToolErr == nil && o.NotJudged == "" && len(o.Findings) > 0 && o.Findings[0].Signature == sig
	}
	changed := true
	for changed && budget > 0 {
		changed = false
		// tree entries, deepest first
		ps := c.Tree.Paths()
		for i := len(ps) - 1; i >= 0; i-- {
			p := ps[i]
			if _, ok := c.Tree[p]; !ok {
				continue
			}
			t2 := Tree{}
			for q, n := range c.Tree {
				if !under(q, p) {
					t2[q] = n
				}
			}
			x := c
			x.Tree = t2
			if same(x) {
				c = x
				changed = true
			}
		}
		// argv words (single words and option+value pairs)
		for i := 0; i < len(c.Argv); i++ {
			for _, w := range []int{1, 2} {
				if i+w > len(c.Argv) {
					continue
				}
				a2 := append(append([]string{}, c.Argv[:i]...), c.Argv[i+w:]...)
				x := c
				x.Argv = a2
				if same(x) {
					c = x
					changed = true
					i--
					break
				}
			}
		}
		// file contents: try the smallest valid content
		for _, p := range c.Tree.Paths() {
			n := c.Tree[p]
			if n.Kind != "file" || len(n.Bytes()) <= 16 {
				continue
			}
			for _, d := range []string{"", "var a = 1 ;\n"} {
				x := c
				x.Tree = c.Tree.Clone()
				n2 := n
				n2.Data, n2.DataHex = d, ""
				x.Tree[p] = n2
				if same(x) {
					c = x
					changed = true
					break
				}
			}
		}
	}
	return c
}
