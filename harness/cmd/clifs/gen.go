package main

// Generators: scratch trees and invocation shapes, all driven by one vh.Rand.

import (
	"fmt"
	"path/filepath"
	"sort"
	"strings"

	"verifharness/internal/vh"
)

const rootToken = "@ROOT@" // replaced by the absolute scratch root at run time

var namePool = []string{"a", "b", "main", "app", "index", "style", "data", "util", "page", "icon", "feed", "x1", "lib", "core"}

var knownExts = []string{"js", "js", "js", "js", "css", "css", "css", "html", "html", "html", "svg", "svg", "xml", "xml", "json", "json", "htm", "mjs", "xhtml", "rss", "webmanifest", "tmpl", "php", "asp"}
var unknownExts = []string{"txt", "md", "bin", "", "JS", "scss", "xjs", "map"}

func ident(r *vh.Rand) string {
	return r.Pick("alpha", "beta", "gamma", "delta", "count", "total", "item", "value", "node", "left") + fmt.Sprint(r.Intn(50))
}

// genContent returns content for a file of the given extension.  bad asks for content on which
// the library is likely to fail (the reference asks the library, so "likely" is enough).
func genContent(r *vh.Rand, ext string, bad bool, size int) []byte {
	var unit func(i int) string
	var head, tail string
	switch ext {
	case "js", "mjs", "xjs":
		if bad {
			return []byte(r.Pick("var = ;\n", "function ( {\n", "let x = ( ;\n", "if (a { b() }\n"))
		}
		unit = func(i int) string {
			id := ident(r)
			switch r.Intn(4) {
			case 0:
				return fmt.Sprintf("var %s_%d = %d ;\n", id, i, r.Intn(1000))
			case 1:
				return fmt.Sprintf("function fn_%d ( x , y ) { return x + y * %d ; }\n", i, r.Intn(9)+1)
			case 2:
				return fmt.Sprintf("if ( %s_%d ) { run_%d ( ) ; } else { stop ( %d ) ; }\n", id, i, i, r.Intn(10))
			default:
				return fmt.Sprintf("window . %s_%d = { key : %d , list : [ 1 , 2 , 3 ] } ;\n", id, i, i)
			}
		}
	case "css", "scss":
		if bad {
			return []byte(r.Pick("a { color : red ;\n", "}}} {\n", "@media ( { a { b : c } \n"))
		}
		unit = func(i int) string {
			return fmt.Sprintf(".c%d > %s { color : %s ; margin : %dpx 0px 0px 0px ; }\n", i, r.Pick("p", "div", "a", "li"), r.Pick("#ffffff", "red", "#ff0000", "rgb(0,0,0)"), r.Intn(20))
		}
	case "html", "htm", "tmpl", "php", "asp":
		if bad {
			return []byte(r.Pick("<html><body><script> var = ; </script></body></html>\n", "<p>x</p><script>function ( {</script>\n"))
		}
		head = "<!doctype html>\n<html>\n<head>\n  <title> T </title>\n</head>\n<body>\n"
		tail = "</body>\n</html>\n"
		unit = func(i int) string {
			switch r.Intn(3) {
			case 0:
				return fmt.Sprintf("  <p class=\"c%d\" >  hello   world %d </p>\n", i, r.Intn(100))
			case 1:
				return fmt.Sprintf("  <div id=\"d%d\"><span> a </span>  <!-- note %d -->  <b>b</b></div>\n", i, i)
			default:
				return fmt.Sprintf("  <script> var s%d = %d ; </script>\n", i, r.Intn(100))
			}
		}
	case "svg":
		if bad {
			return []byte("<svg><style> a { </style><script> var = ; </script></svg>\n")
		}
		head = "<?xml version=\"1.0\" encoding=\"UTF-8\"?>\n<svg xmlns=\"http://www.w3.org/2000/svg\" width=\"100.0\" height=\"100.0\">\n"
		tail = "</svg>\n"
		unit = func(i int) string {
			return fmt.Sprintf("  <rect x=\"%d.50\" y=\"1.0\" width=\"10\" height=\"10\" fill=\"#ff0000\" />\n  <path d=\"M 10 10 L 20 %d L 30 30 Z\" />\n", i%90, r.Intn(50))
		}
	case "xml", "xhtml", "rss":
		if bad {
			return []byte("<root><a></root\n")
		}
		head = "<?xml version=\"1.0\" ?>\n<root>\n"
		tail = "</root>\n"
		unit = func(i int) string {
			return fmt.Sprintf("  <item id = \"%d\" >  text %d  </item>\n  <!-- c%d -->\n", i, r.Intn(100), i)
		}
	case "json", "webmanifest", "map":
		if bad {
			return []byte(r.Pick("{ \"a\" : }\n", "[ 1 , 2 ,, ]\n", "{ \"k\" 1 }\n"))
		}
		head = "{ \"list\" : [\n"
		tail = "  null ] , \"name\" : \"n\" }\n"
		unit = func(i int) string {
			return fmt.Sprintf("  { \"id\" : %d , \"v\" : %d.0 , \"ok\" : true } ,\n", i, r.Intn(100))
		}
	default:
		unit = func(i int) string { return fmt.Sprintf("plain   text line %d  \n", i) }
	}
	switch {
	case size == 0:
		return []byte{}
	case size == 1:
		switch ext {
		case "js", "mjs", "xjs":
			return []byte(";")
		case "json", "webmanifest", "map":
			return []byte("1")
		default:
			return []byte(" ")
		}
	case size < 0: // small
		var b strings.Builder
		b.WriteString(head)
		n := 1 + r.Intn(3)
		for i := 0; i < n; i++ {
			b.WriteString(unit(i))
		}
		b.WriteString(tail)
		out := b.String()
		if (ext == "js" || ext == "mjs") && r.Chance(1, 4) {
			// no terminator at the end of the file: only the bundle separator keeps the next file apart
			out = strings.TrimSuffix(strings.TrimSuffix(out, "\n"), " ;") + r.Pick("", "\nlast_call ( 1 )", "\nvar tail_v = 2")
		}
		return []byte(out)
	}
	// exact size: fill with units, then pad with newlines in a place that is harmless for the format
	var b strings.Builder
	b.WriteString(head)
	for i := 0; ; i++ {
		u := unit(i)
		if b.Len()+len(u)+len(tail) > size {
			break
		}
		b.WriteString(u)
	}
	pad := size - b.Len() - len(tail)
	if pad < 0 {
		// size smaller than head+tail: fall back to plain units trimmed
		s := head + tail
		if len(s) > size {
			s = s[:size]
		}
		return []byte(s)
	}
	b.WriteString(strings.Repeat("\n", pad))
	b.WriteString(tail)
	return []byte(b.String())
}

type genOpts struct {
	known bool // allow the shapes of known findings
}

func pickSize(r *vh.Rand) int {
	switch x := r.Intn(100); {
	case x < 84:
		return -1
	case x < 89:
		return 0
	case x < 92:
		return 1
	case x < 97:
		return 4096
	default:
		return 200000
	}
}

func pickMode(r *vh.Rand, dir bool) uint32 {
	if dir {
		return []uint32{0, 0, 0, 0, 0, 0o750, 0o700, 0o775}[r.Intn(8)]
	}
	return []uint32{0, 0, 0, 0, 0, 0o600, 0o755, 0o640, 0o664, 0o444}[r.Intn(10)]
}

// genTree builds a random tree.
func genTree(r *vh.Rand) Tree {
	t := Tree{}
	dirs := []string{"src"}
	if r.Chance(7, 10) {
		dirs = append(dirs, "src/sub")
		if r.Chance(4, 10) {
			dirs = append(dirs, "src/sub/deep")
		}
	}
	if r.Chance(4, 10) {
		dirs = append(dirs, "lib")
	}
	if r.Chance(4, 10) {
		dirs = append(dirs, "src/.hid")
	}
	if r.Chance(2, 10) {
		dirs = append(dirs, "assets/img")
	}
	for _, d := range dirs {
		t[d] = Node{Kind: "dir", Mode: pickMode(r, true)}
	}
	addFiles := func(dir string, n int) {
		prev := ""
		for i := 0; i < n; i++ {
			base := namePool[r.Intn(len(namePool))]
			if prev != "" && r.Chance(3, 10) {
				base = prev // same name, other type
			}
			prev = base
			ext := knownExts[r.Intn(len(knownExts))]
			if r.Chance(2, 10) {
				ext = unknownExts[r.Intn(len(unknownExts))]
			}
			name := base
			if ext != "" {
				name += "." + ext
			}
			if r.Chance(1, 10) {
				name = "." + name
			}
			p := name
			if dir != "" {
				p = dir + "/" + name
			}
			if _, dup := t[p]; dup {
				continue
			}
			bad := r.Chance(12, 100)
			data := genContent(r, ext, bad, pickSize(r))
			t[p] = Node{Kind: "file", Data: string(data), Mode: pickMode(r, false)}
		}
	}
	for _, d := range dirs {
		addFiles(d, 1+r.Intn(4))
	}
	addFiles("", r.Intn(4))
	// make sure src has at least one JavaScript file
	if _, ok := t["src/a.js"]; !ok && r.Chance(8, 10) {
		t["src/a.js"] = Node{Kind: "file", Data: string(genContent(r, "js", false, -1))}
	}
	// symlinks
	if r.Chance(35, 100) {
		files := t.filePaths(func(p string) bool { return true })
		for k := 0; k < 1+r.Intn(2); k++ {
			switch r.Intn(4) {
			case 0, 1: // to a file in the same directory
				if len(files) == 0 {
					continue
				}
				f := files[r.Intn(len(files))]
				ln := filepath.Join(filepath.Dir(f), "ln"+fmt.Sprint(k)+filepath.Ext(f))
				if _, dup := t[ln]; !dup {
					t[ln] = Node{Kind: "symlink", Target: filepath.Base(f)}
				}
			case 2: // to a directory that is not an ancestor
				if _, ok := t["src/sub"]; ok {
					t["src/ld"] = Node{Kind: "symlink", Target: "sub"}
				} else if _, ok := t["lib"]; ok {
					t["src/ld"] = Node{Kind: "symlink", Target: "../lib"}
				}
			default: // dangling
				t["src/gone"+fmt.Sprint(k)+".js"] = Node{Kind: "symlink", Target: "missing.js"}
			}
		}
	}
	// pre-existing output directory with stale content
	if r.Chance(25, 100) {
		t["out"] = Node{Kind: "dir"}
		t["out/stale.txt"] = Node{Kind: "file", Data: "stale\n"}
		if r.Bool() {
			files := t.filePaths(func(p string) bool { return strings.HasPrefix(p, "src/") && !isHiddenPath(p) })
			if len(files) > 0 {
				f := files[r.Intn(len(files))]
				t["out/"+strings.TrimPrefix(f, "src/")] = Node{Kind: "file", Data: "old content that is longer than the new one, to see truncation ........................\n", Mode: 0o600}
			}
		}
	}
	return t
}

func (t Tree) filePaths(keep func(string) bool) []string {
	var out []string
	for _, p := range t.Paths() {
		if t[p].Kind == "file" && keep(p) {
			out = append(out, p)
		}
	}
	return out
}

func (t Tree) dirPaths() []string {
	var out []string
	for _, p := range t.Paths() {
		if t[p].Kind == "dir" {
			out = append(out, p)
		}
	}
	return out
}

func knownExt(p string) bool {
	_, ok := defaultExtMap()[extOf(p)]
	return ok
}

func stylePath(r *vh.Rand, p string) string {
	switch r.Intn(12) {
	case 0:
		return "./" + p
	case 1, 2:
		return rootToken + "/" + p
	}
	return p
}

// genCase builds a tree and an invocation.
func genCase(r *vh.Rand, o genOpts) Case {
	t := genTree(r.Fork())
	c := Case{Mode: "fs", Tree: t}
	var opts [][]string // option groups; a group whose first word is greedy must not be followed by an input
	var inputs []string
	greedy := map[int]bool{}
	addOpt := func(words ...string) { opts = append(opts, words) }

	visible := t.filePaths(func(p string) bool { return !isHiddenPath(p) && !strings.HasPrefix(p, "out/") })
	knownFiles := t.filePaths(func(p string) bool {
		return !isHiddenPath(p) && knownExt(p) && !strings.HasPrefix(p, "out/")
	})
	if len(knownFiles) == 0 {
		t["src/a.js"] = Node{Kind: "file", Data: string(genContent(r, "js", false, -1))}
		knownFiles = []string{"src/a.js"}
		visible = append(visible, "src/a.js")
	}
	hiddenKnown := t.filePaths(func(p string) bool {
		return isHiddenPath(p) && knownExt(p) && !strings.HasPrefix(p, "out/")
	})
	pickKnown := func() string {
		if len(hiddenKnown) > 0 && r.Chance(1, 8) {
			return hiddenKnown[r.Intn(len(hiddenKnown))] // a hidden file named on the command line
		}
		return knownFiles[r.Intn(len(knownFiles))]
	}
	dirs := []string{}
	for _, d := range t.dirPaths() {
		if !isHiddenPath(d) && d != "out" {
			dirs = append(dirs, d)
		}
	}
	pickDir := func() string { return dirs[r.Intn(len(dirs))] }
	outFlag := func(v string) {
		switch r.Intn(5) {
		case 0:
			addOpt("--output", v)
		case 1:
			addOpt("--output=" + v)
		case 2:
			addOpt("-o" + v)
		default:
			addOpt("-o", v)
		}
	}
	outDirName := func() string {
		d := r.Pick("out", "out", "out", "dist", "build/min", "out")
		if r.Chance(1, 8) {
			return rootToken + "/" + d + "/"
		}
		return d + "/"
	}
	recFlag := func() {
		if r.Bool() {
			addOpt("-r")
		} else {
			addOpt("--recursive")
		}
	}
	dirInput := func(d string) string {
		s := stylePath(r, d)
		if r.Bool() {
			s += "/"
		}
		return s
	}
	sameTypeFiles := func(n int) []string {
		f0 := pickKnown()
		mt := defaultExtMap()[extOf(f0)]
		cands := []string{}
		for _, f := range knownFiles {
			if defaultExtMap()[extOf(f)] == mt && f != f0 {
				cands = append(cands, f)
			}
		}
		out := []string{f0}
		for len(out) < n && len(cands) > 0 {
			k := r.Intn(len(cands))
			out = append(out, cands[k])
			cands = append(cands[:k], cands[k+1:]...)
		}
		return out
	}
	dirShape := false
	shape := r.Intn(100)
	switch {
	case shape < 6: // file -> stdout
		inputs = []string{stylePath(r, pickKnown())}
	case shape < 14: // file -> file
		f := pickKnown()
		inputs = []string{stylePath(r, f)}
		out := r.Pick("out"+filepath.Ext(f), "min/x.min"+filepath.Ext(f), "build/a/b/o"+filepath.Ext(f))
		if r.Chance(3, 10) && len(visible) > 1 {
			// overwrite an existing, unrelated file
			g := visible[r.Intn(len(visible))]
			if g != f {
				out = g
			}
		}
		outFlag(out)
	case shape < 20: // file -> directory
		inputs = []string{stylePath(r, pickKnown())}
		outFlag(outDirName())
	case shape < 30: // file in place
		f := pickKnown()
		switch r.Intn(4) {
		case 0:
			inputs = []string{f}
			outFlag(filepath.Dir(f) + "/")
		case 1:
			sp := stylePath(r, f) // the same spelling on both sides (different spellings are the K41 condition)
			if r.Intn(3) != 0 { // same spelling; else two spellings of the same file (K41, fixed in /repo)
				inputs = []string{sp}
				outFlag(sp)
			} else {
				inputs = []string{stylePath(r, f)}
				outFlag(stylePath(r, f))
			}
		default:
			inputs = []string{f}
			outFlag(f)
		}
	case shape < 38: // many files -> directory
		n := 2 + r.Intn(3)
		seen := map[string]bool{}
		for i := 0; i < n; i++ {
			f := pickKnown()
			if !seen[f] {
				seen[f] = true
				inputs = append(inputs, stylePath(r, f))
			}
		}
		o := outDirName()
		if len(inputs) > 1 && r.Chance(1, 4) {
			o = strings.TrimSuffix(o, "/")
		}
		outFlag(o)
	case shape < 48: // bundle
		fs := sameTypeFiles(2 + r.Intn(2))
		for _, f := range fs {
			inputs = append(inputs, stylePath(r, f))
		}
		if r.Bool() {
			addOpt("-b")
		} else {
			addOpt("--bundle")
		}
		switch r.Intn(5) {
		case 0: // stdout
		case 1: // onto one of the inputs, spelled the same way (another spelling is the K41 condition)
			outFlag(inputs[r.Intn(len(inputs))])
		default:
			outFlag(r.Pick("bundle", "out/all", "dist/b.min") + filepath.Ext(fs[0]))
		}
	case shape < 64: // directory -> directory
		dirShape = true
		recFlag()
		inputs = []string{dirInput(pickDir())}
		if r.Chance(1, 10) {
			inputs = []string{r.Pick(".", "./")} // the working directory itself: top-level entries are mirrored under their own names
		} else if r.Chance(1, 6) && len(dirs) > 1 {
			inputs = append(inputs, dirInput(pickDir()))
			if inputs[0] == inputs[1] {
				inputs = inputs[:1]
			}
		}
		if r.Chance(1, 6) {
			inputs = append(inputs, stylePath(r, pickKnown()))
		}
		o := outDirName()
		if r.Chance(1, 4) {
			o = strings.TrimSuffix(o, "/")
		}
		outFlag(o)
	case shape < 72: // directory in place
		dirShape = true
		recFlag()
		d := pickDir()
		switch r.Intn(4) {
		case 0:
			inputs = []string{d}
			outFlag(r.Pick(".", "./"))
			if strings.Contains(d, "/") {
				// `-o . src/sub` mirrors to ./sub: not in place, still a valid shape
			}
		case 1:
			inputs = []string{d}
			outFlag(filepath.Dir(d) + "/")
		default:
			inputs = []string{d + "/"}
			outFlag(d + "/")
		}
	case shape < 84: // sync
		dirShape = true
		recFlag()
		if r.Bool() {
			addOpt("-s")
		} else {
			addOpt("--sync")
		}
		inputs = []string{dirInput(pickDir())}
		if r.Chance(1, 8) {
			// in place sync
			d := strings.TrimSuffix(inputs[0], "/")
			inputs = []string{d + "/"}
			outFlag(d + "/")
		} else {
			outFlag(outDirName())
		}
		if r.Chance(1, 5) {
			inputs = append(inputs, stylePath(r, pickKnown()))
		}
	case shape < 90: // directory bundle
		dirShape = true
		recFlag()
		addOpt("-b")
		ext := r.Pick("js", "css", "html", "json")
		if r.Bool() {
			addOpt("--match", "*."+ext)
			greedy[len(opts)-1] = true
		} else {
			addOpt("--type=" + ext)
		}
		inputs = []string{dirInput(pickDir())}
		if r.Chance(3, 4) {
			outFlag(r.Pick("all", "out/bundle") + "." + ext)
		}
	case shape < 95: // stdin
		ext := r.Pick("js", "css", "html", "svg", "xml", "json")
		c.Stdin = string(genContent(r, ext, r.Chance(15, 100), pickSize(r)))
		switch r.Intn(3) {
		case 0:
			addOpt("--type=" + ext)
		case 1:
			addOpt("--type", defaultExtMap()[ext])
		default:
			addOpt("--mime=" + defaultExtMap()[ext])
		}
		if r.Bool() {
			outFlag(r.Pick("stdin.out", "out/s."+ext))
		}
		if r.Chance(1, 3) {
			inputs = []string{"-"}
		}
	default: // directory without -r, possibly with files
		inputs = []string{dirInput(pickDir())}
		if r.Bool() {
			inputs = append(inputs, stylePath(r, pickKnown()))
		}
		outFlag(outDirName())
	}

	// modifiers
	if dirShape && r.Chance(25, 100) {
		if r.Bool() {
			addOpt("-a")
		} else {
			addOpt("--all")
		}
	}
	if (dirShape && r.Chance(35, 100)) || (!dirShape && len(inputs) > 0 && inputs[0] != "-" && r.Chance(8, 100)) {
		switch r.Intn(6) {
		case 0:
			addOpt("--match", "*."+r.Pick("js", "css", "html", "svg"))
		case 1:
			addOpt("--match", "*.js", "*.css")
		case 2:
			addOpt("--exclude", "**/sub/**")
		case 3:
			addOpt("--exclude", "**/*."+r.Pick("js", "css", "html"), "--include", "**/"+r.Pick("a", "b", "main", "index")+".*")
		case 4:
			if o.known {
				addOpt("--match", "~^[a-m].*\\.(js|css)$") // N05
			} else {
				addOpt("--match", "a*.js", "*.css")
			}
		default:
			addOpt("--exclude", "**", "--include", "**/*."+r.Pick("js", "json", "xml"))
		}
		greedy[len(opts)-1] = true
	}
	hasType := false
	for _, g := range opts {
		if strings.HasPrefix(g[0], "--type") || strings.HasPrefix(g[0], "--mime") {
			hasType = true
		}
	}
	isSync := false
	for _, g := range opts {
		if g[0] == "-s" || g[0] == "--sync" {
			isSync = true
		}
	}
	if !hasType && !isSync && len(inputs) > 0 && inputs[0] != "-" && r.Chance(8, 100) {
		v := r.Pick("js", "css", "html", "text/css", "application/json", "image/svg+xml", "xml")
		if r.Bool() {
			addOpt("--type=" + v)
		} else {
			addOpt("--type", v)
		}
	}
	if r.Chance(10, 100) {
		switch r.Intn(3) {
		case 0:
			addOpt("--ext.scss=text/css")
		case 1:
			addOpt("--ext.xjs=js", "--ext.map=json")
		default:
			addOpt("--ext", "{scss:css", "xjs:js}")
		}
	}
	hasOut := false
	for _, g := range opts {
		if strings.HasPrefix(g[0], "-o") || strings.HasPrefix(g[0], "--output") {
			hasOut = true
		}
	}
	if len(inputs) > 0 && inputs[0] != "-" && (hasOut || r.Chance(1, 10)) && r.Chance(20, 100) {
		v := r.Pick("mode", "timestamps", "links", "all", "mode,timestamps", "mode,links", "ownership")
		switch r.Intn(4) {
		case 0:
			addOpt("-p", v)
		case 1:
			addOpt("--preserve=" + v)
		case 2:
			addOpt("--preserve", v)
		default:
			addOpt("-p" + v)
		}
	}
	if r.Chance(15, 100) {
		addOpt(r.Pick("-q", "--quiet"))
	}
	if r.Chance(15, 100) {
		addOpt(r.Pick("-v", "-vv", "--verbose", "-vvv"))
	}
	if r.Chance(10, 100) {
		addOpt(r.Pick("--js-keep-var-names", "--html-keep-comments", "--html-keep-whitespace", "--html-keep-end-tags", "--html-keep-quotes",
			"--html-keep-document-tags", "--svg-keep-comments", "--xml-keep-whitespace", "--json-keep-numbers", "--css-precision=2",
			"--svg-precision=1", "--js-version=2015", "--html-keep-default-attrvals", "--json-precision=1"))
	}

	// known-finding shapes, only on request
	// (the shapes of findings that were repaired in /repo — K41 links, N02 `src/.`, N03 sync of unknown types — are part of
	// the default stream; N01 and N04 are open findings and generated only with -known)
	if (o.known && r.Chance(30, 100)) || (!o.known && r.Chance(6, 100)) {
		pick := r.Intn(5)
		if !o.known {
			pick = []int{0, 2, 3}[r.Intn(3)]
		}
		switch pick {
		case 0: // K41: destination is a link to the source
			f := pickKnown()
			inputs = []string{f}
			opts = [][]string{{"-o", "k41out/"}}
			greedy = map[int]bool{}
			kind := r.Pick("symlink", "hardlink")
			dst := "k41out/" + filepath.Base(f)
			if kind == "symlink" {
				t[dst] = Node{Kind: "symlink", Target: "../" + f}
			} else {
				t[dst] = Node{Kind: "hardlink", Target: f}
			}
		case 1: // N01: --match=PATTERN directly followed by the input
			opts = [][]string{{"-r"}, {"-o", "n01out/"}, {"--match=*.js"}}
			greedy = map[int]bool{}
			inputs = []string{"src/"}
			c.Argv = []string{"-r", "-o", "n01out/", "--match=*.js", "src/"}
			c.Tree = t
			return c
		case 2: // N02: src/. documented as equivalent to src/
			opts = [][]string{{"-r"}, {"-o", "n02out/"}}
			greedy = map[int]bool{}
			inputs = []string{"src/."}
		case 3: // N03: sync with an explicitly named file of unknown type
			t["src/notes.txt"] = Node{Kind: "file", Data: "plain  text\n"}
			opts = [][]string{{"-s"}, {"-o", "n03out/"}}
			greedy = map[int]bool{}
			inputs = []string{"src/notes.txt", pickKnown()}
		default: // N04: in place with a pre-existing sibling .bak
			f := pickKnown()
			t[f+".bak"] = Node{Kind: "file", Data: "my own backup\n"}
			opts = [][]string{{"-o", f}}
			greedy = map[int]bool{}
			inputs = []string{f}
		}
	}

	// assemble argv: shuffle option groups; a greedy group must be followed by another option or `--`
	order := make([]int, len(opts))
	for i := range order {
		order[i] = i
	}
	for i := len(order) - 1; i > 0; i-- {
		j := r.Intn(i + 1)
		order[i], order[j] = order[j], order[i]
	}
	var argv []string
	inputsFirst := len(inputs) > 0 && r.Chance(15, 100)
	if inputsFirst {
		argv = append(argv, inputs...)
	}
	lastGreedy := false
	for _, k := range order {
		argv = append(argv, opts[k]...)
		lastGreedy = greedy[k]
	}
	if !inputsFirst {
		if lastGreedy || (len(inputs) > 0 && r.Chance(15, 100)) {
			argv = append(argv, "--")
		}
		argv = append(argv, inputs...)
	}
	c.Argv = argv
	c.Tree = t
	return c
}

func sortedKeys(m map[string]int) []string {
	ks := make([]string, 0, len(m))
	for k := range m {
		ks = append(ks, k)
	}
	sort.Strings(ks)
	return ks
}
