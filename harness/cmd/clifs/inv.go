package main

// Invocation model: our own reading of the documented command line (README "Usage" and
// `minify --help`).  Forms whose meaning the documentation does not fix are reported as
// "unparsed" and the case is not judged.

import (
	"sort"
	"strconv"
	"strings"
)

type Inv struct {
	Inputs  []string
	Output  string
	Type    string
	Mime    string
	Match   []string
	Filters []string // "+pattern" (include) or "-pattern" (exclude), in command-line order
	Ext     map[string]string

	Recursive, All, List, Quiet, Watch, Sync, Bundle, Version, Help bool
	Verbose                                                        int

	Preserve     []string // explicit values, nil when the option is absent
	PreserveLong bool     // given as --preserve (the command rejects that with stdin/stdout)

	Lib LibOpts

	// N01 condition: `--match=P` (or include/exclude) directly followed by a non-option word.
	// The README example `minify -r -o out/ --match=*.js src/` reads this as one pattern and one input.
	PatternEqFollowed bool
}

var boolLong = map[string]func(*Inv) *bool{
	"recursive":                  func(i *Inv) *bool { return &i.Recursive },
	"all":                        func(i *Inv) *bool { return &i.All },
	"list":                       func(i *Inv) *bool { return &i.List },
	"quiet":                      func(i *Inv) *bool { return &i.Quiet },
	"watch":                      func(i *Inv) *bool { return &i.Watch },
	"sync":                       func(i *Inv) *bool { return &i.Sync },
	"bundle":                     func(i *Inv) *bool { return &i.Bundle },
	"version":                    func(i *Inv) *bool { return &i.Version },
	"help":                       func(i *Inv) *bool { return &i.Help },
	"html-keep-comments":         func(i *Inv) *bool { return &i.Lib.HTMLKeepComments },
	"html-keep-special-comments": func(i *Inv) *bool { return &i.Lib.HTMLKeepSpecialComments },
	"html-keep-default-attrvals": func(i *Inv) *bool { return &i.Lib.HTMLKeepDefaultAttrVals },
	"html-keep-document-tags":    func(i *Inv) *bool { return &i.Lib.HTMLKeepDocumentTags },
	"html-keep-end-tags":         func(i *Inv) *bool { return &i.Lib.HTMLKeepEndTags },
	"html-keep-whitespace":       func(i *Inv) *bool { return &i.Lib.HTMLKeepWhitespace },
	"html-keep-quotes":           func(i *Inv) *bool { return &i.Lib.HTMLKeepQuotes },
	"js-keep-var-names":          func(i *Inv) *bool { return &i.Lib.JSKeepVarNames },
	"json-keep-numbers":          func(i *Inv) *bool { return &i.Lib.JSONKeepNumbers },
	"svg-keep-comments":          func(i *Inv) *bool { return &i.Lib.SVGKeepComments },
	"xml-keep-whitespace":        func(i *Inv) *bool { return &i.Lib.XMLKeepWhitespace },
}

var boolShort = map[byte]string{'r': "recursive", 'a': "all", 'l': "list", 'q': "quiet", 'w': "watch", 's': "sync", 'b': "bundle", 'h': "help"}

var intLong = map[string]func(*Inv) *int{
	"css-precision":  func(i *Inv) *int { return &i.Lib.CSSPrecision },
	"js-precision":   func(i *Inv) *int { return &i.Lib.JSPrecision },
	"js-version":     func(i *Inv) *int { return &i.Lib.JSVersion },
	"json-precision": func(i *Inv) *int { return &i.Lib.JSONPrecision },
	"svg-precision":  func(i *Inv) *int { return &i.Lib.SVGPrecision },
}

var strLong = map[string]func(*Inv) *string{
	"output": func(i *Inv) *string { return &i.Output },
	"mime":   func(i *Inv) *string { return &i.Mime },
	"type":   func(i *Inv) *string { return &i.Type },
	"url":    func(i *Inv) *string { return &i.Lib.URL },
}

var preserveWords = map[string]bool{"mode": true, "ownership": true, "timestamps": true, "links": true, "all": true}

func boolLike(s string) bool {
	_, err := strconv.ParseBool(s)
	return err == nil
}

// ParseArgv reads argv (without the program name).  The second result is non-empty when argv uses
// a form we do not model; such cases are not judged.
func ParseArgv(argv []string) (*Inv, string) {
	inv := &Inv{}
	i := 0
	next := func() (string, bool) {
		if i+1 < len(argv) {
			return argv[i+1], true
		}
		return "", false
	}
	setPreserve := func(v string, long bool) string {
		if v == "" {
			return "preserve-empty"
		}
		for _, w := range strings.Split(v, ",") {
			if !preserveWords[w] {
				return "preserve-value-not-an-option-word"
			}
			inv.Preserve = append(inv.Preserve, w)
		}
		if long {
			inv.PreserveLong = true
		}
		return ""
	}
	for ; i < len(argv); i++ {
		arg := argv[i]
		if arg == "--" {
			inv.Inputs = append(inv.Inputs, argv[i+1:]...)
			break
		}
		if arg == "" {
			continue
		}
		if len(arg) < 2 || arg[0] != '-' {
			inv.Inputs = append(inv.Inputs, arg)
			continue
		}
		if strings.HasPrefix(arg, "--") {
			name, val, hasEq := arg[2:], "", false
			if k := strings.IndexByte(arg, '='); k != -1 {
				name, val, hasEq = arg[2:k], arg[k+1:], true
				if val == "" {
					return inv, "empty-value-after-equals"
				}
			}
			lname := strings.ToLower(name)
			if f, ok := boolLong[lname]; ok {
				if hasEq {
					b, err := strconv.ParseBool(val)
					if err != nil {
						return inv, "bool-value"
					}
					*f(inv) = b
				} else {
					if n, ok := next(); ok && boolLike(n) {
						return inv, "bool-option-followed-by-bool-like-word"
					}
					*f(inv) = true
				}
				continue
			}
			if f, ok := strLong[lname]; ok {
				if !hasEq {
					n, ok := next()
					if !ok {
						return inv, "missing-value"
					}
					val = n
					i++
				}
				*f(inv) = val
				continue
			}
			if f, ok := intLong[lname]; ok {
				if !hasEq {
					n, ok := next()
					if !ok {
						return inv, "missing-value"
					}
					val = n
					i++
				}
				x, err := strconv.Atoi(val)
				if err != nil {
					return inv, "int-value"
				}
				*f(inv) = x
				continue
			}
			switch {
			case lname == "verbose":
				if hasEq {
					x, err := strconv.Atoi(val)
					if err != nil {
						return inv, "verbose-value"
					}
					inv.Verbose = x
				} else {
					if n, ok := next(); ok && n != "" && n[0] >= '0' && n[0] <= '9' {
						return inv, "verbose-followed-by-number"
					}
					inv.Verbose++
				}
			case lname == "match" || lname == "include" || lname == "exclude":
				var pats []string
				if hasEq {
					pats = []string{val}
					if n, ok := next(); ok && !strings.HasPrefix(n, "-") {
						inv.PatternEqFollowed = true
					}
				} else {
					for {
						n, ok := next()
						if !ok || strings.HasPrefix(n, "-") {
							break
						}
						pats = append(pats, n)
						i++
					}
				}
				for _, p := range pats {
					switch lname {
					case "match":
						inv.Match = append(inv.Match, p)
					case "include":
						inv.Filters = append(inv.Filters, "+"+p)
					default:
						inv.Filters = append(inv.Filters, "-"+p)
					}
				}
			case lname == "preserve":
				if !hasEq {
					n, ok := next()
					if !ok {
						return inv, "missing-value"
					}
					val = n
					i++
				}
				if r := setPreserve(val, true); r != "" {
					return inv, r
				}
			case strings.HasPrefix(lname, "ext."):
				key := name[4:]
				if !hasEq {
					n, ok := next()
					if !ok {
						return inv, "missing-value"
					}
					val = n
					i++
				}
				if inv.Ext == nil {
					inv.Ext = map[string]string{}
				}
				inv.Ext[key] = val
			case lname == "ext":
				// --ext {a:b c:d}
				var toks []string
				if hasEq {
					toks = append(toks, val)
				}
				for len(toks) == 0 || !strings.HasSuffix(toks[len(toks)-1], "}") {
					n, ok := next()
					if !ok {
						return inv, "ext-map-unterminated"
					}
					toks = append(toks, n)
					i++
				}
				s := strings.Join(toks, " ")
				if !strings.HasPrefix(s, "{") || strings.Count(s, "{") != 1 || strings.Count(s, "}") != 1 {
					return inv, "ext-map-form"
				}
				s = strings.TrimSuffix(strings.TrimPrefix(s, "{"), "}")
				if inv.Ext == nil {
					inv.Ext = map[string]string{}
				}
				for _, kv := range strings.Fields(s) {
					k := strings.IndexByte(kv, ':')
					if k <= 0 || k == len(kv)-1 || strings.Contains(kv, ",") {
						return inv, "ext-map-form"
					}
					inv.Ext[kv[:k]] = kv[k+1:]
				}
			default:
				return inv, "unknown-option"
			}
			continue
		}
		// short cluster
		for j := 1; j < len(arg); j++ {
			c := arg[j]
			rest := arg[j+1:]
			if long, ok := boolShort[c]; ok {
				if rest == "" {
					if n, ok := next(); ok && boolLike(n) {
						return inv, "bool-option-followed-by-bool-like-word"
					}
				} else if boolLike(rest) || rest[0] == '=' {
					return inv, "bool-cluster-value"
				}
				*boolLong[long](inv) = true
				continue
			}
			switch c {
			case 'v':
				if rest == "" {
					if n, ok := next(); ok && n != "" && n[0] >= '0' && n[0] <= '9' {
						return inv, "verbose-followed-by-number"
					}
				} else if rest[0] >= '0' && rest[0] <= '9' || rest[0] == '=' {
					return inv, "verbose-cluster-value"
				}
				inv.Verbose++
				continue
			case 'o', 'p':
				val := strings.TrimPrefix(rest, "=")
				if val == "" {
					n, ok := next()
					if !ok {
						return inv, "missing-value"
					}
					val = n
					i++
				}
				if c == 'o' {
					inv.Output = val
				} else if r := setPreserve(val, false); r != "" {
					return inv, r
				}
				j = len(arg)
			default:
				return inv, "unknown-option"
			}
		}
	}
	return inv, ""
}

// ExtPairs returns the --ext mappings in a fixed order.
func (inv *Inv) ExtPairs() [][2]string {
	var ks []string
	for k := range inv.Ext {
		ks = append(ks, k)
	}
	sort.Strings(ks)
	var out [][2]string
	for _, k := range ks {
		out = append(out, [2]string{k, inv.Ext[k]})
	}
	return out
}

// FlagNames lists the options used, for histograms.
func (inv *Inv) FlagNames() []string {
	var fs []string
	add := func(c bool, n string) {
		if c {
			fs = append(fs, n)
		}
	}
	add(inv.Output != "", "-o")
	add(inv.Recursive, "-r")
	add(inv.All, "-a")
	add(inv.Quiet, "-q")
	add(inv.Verbose > 0, "-v")
	add(inv.Sync, "-s")
	add(inv.Bundle, "-b")
	add(inv.Type != "", "--type")
	add(inv.Mime != "", "--mime")
	add(len(inv.Match) > 0, "--match")
	for _, f := range inv.Filters {
		if f[0] == '+' {
			add(true, "--include")
		} else {
			add(true, "--exclude")
		}
	}
	add(len(inv.Ext) > 0, "--ext")
	add(inv.Preserve != nil, "--preserve")
	for _, w := range inv.Preserve {
		add(true, "--preserve="+w)
	}
	add(inv.Lib != LibOpts{}, "minifier-option")
	return fs
}
