package main

// Library reference: a minify.M with the same minifiers that cmd/minify registers
// (read off /repo/cmd/minify/main.go run(): css, html, svg, js regexp, json regexp, xml regexp,
// and the three template flavours of the html minifier).  No cmd/minify code is called.

import (
	"bytes"
	"net/url"
	"regexp"

	"github.com/tdewolff/minify/v2"
	"github.com/tdewolff/minify/v2/css"
	"github.com/tdewolff/minify/v2/html"
	"github.com/tdewolff/minify/v2/js"
	"github.com/tdewolff/minify/v2/json"
	"github.com/tdewolff/minify/v2/svg"
	"github.com/tdewolff/minify/v2/xml"
)

// LibOpts are the minifier options reachable from the command line that we model.
type LibOpts struct {
	CSSPrecision            int    `json:"css_precision,omitempty"`
	HTMLKeepComments        bool   `json:"html_keep_comments,omitempty"`
	HTMLKeepSpecialComments bool   `json:"html_keep_special_comments,omitempty"`
	HTMLKeepDefaultAttrVals bool   `json:"html_keep_default_attrvals,omitempty"`
	HTMLKeepDocumentTags    bool   `json:"html_keep_document_tags,omitempty"`
	HTMLKeepEndTags         bool   `json:"html_keep_end_tags,omitempty"`
	HTMLKeepWhitespace      bool   `json:"html_keep_whitespace,omitempty"`
	HTMLKeepQuotes          bool   `json:"html_keep_quotes,omitempty"`
	JSPrecision             int    `json:"js_precision,omitempty"`
	JSKeepVarNames          bool   `json:"js_keep_var_names,omitempty"`
	JSVersion               int    `json:"js_version,omitempty"`
	JSONPrecision           int    `json:"json_precision,omitempty"`
	JSONKeepNumbers         bool   `json:"json_keep_numbers,omitempty"`
	SVGKeepComments         bool   `json:"svg_keep_comments,omitempty"`
	SVGPrecision            int    `json:"svg_precision,omitempty"`
	XMLKeepWhitespace       bool   `json:"xml_keep_whitespace,omitempty"`
	URL                     string `json:"url,omitempty"`
}

// defaultExtMap is the documented extension table (README "Types" plus `minify --list`).
func defaultExtMap() map[string]string {
	return map[string]string{
		"asp":         "text/asp",
		"css":         "text/css",
		"ejs":         "text/x-ejs-template",
		"gohtml":      "text/x-go-template",
		"handlebars":  "text/x-handlebars-template",
		"htm":         "text/html",
		"html":        "text/html",
		"js":          "application/javascript",
		"json":        "application/json",
		"mjs":         "application/javascript",
		"mustache":    "text/x-mustache-template",
		"php":         "application/x-httpd-php",
		"rss":         "application/rss+xml",
		"svg":         "image/svg+xml",
		"tmpl":        "text/x-go-template",
		"webmanifest": "application/manifest+json",
		"xhtml":       "application/xhtml-xml",
		"xml":         "text/xml",
	}
}

// Lib minifies byte strings the way the command's registry would.
type Lib struct {
	m   *minify.M
	err error
}

func NewLib(o LibOpts) *Lib {
	cssMin := &css.Minifier{Precision: o.CSSPrecision}
	htmlMin := &html.Minifier{
		KeepComments:        o.HTMLKeepComments,
		KeepSpecialComments: o.HTMLKeepSpecialComments,
		KeepDefaultAttrVals: o.HTMLKeepDefaultAttrVals,
		KeepDocumentTags:    o.HTMLKeepDocumentTags,
		KeepEndTags:         o.HTMLKeepEndTags,
		KeepWhitespace:      o.HTMLKeepWhitespace,
		KeepQuotes:          o.HTMLKeepQuotes,
	}
	jsMin := &js.Minifier{Precision: o.JSPrecision, KeepVarNames: o.JSKeepVarNames, Version: o.JSVersion}
	jsonMin := &json.Minifier{Precision: o.JSONPrecision, KeepNumbers: o.JSONKeepNumbers}
	svgMin := &svg.Minifier{KeepComments: o.SVGKeepComments, Precision: o.SVGPrecision}
	xmlMin := &xml.Minifier{KeepWhitespace: o.XMLKeepWhitespace}

	m := minify.New()
	m.Add("text/css", cssMin)
	m.Add("text/html", htmlMin)
	m.Add("image/svg+xml", svgMin)
	m.AddRegexp(regexp.MustCompile("^(application|text)/(x-)?(java|ecma|j|live)script(1\\.[0-5])?$|^module$"), jsMin)
	m.AddRegexp(regexp.MustCompile("[/+]json$"), jsonMin)
	m.AddRegexp(regexp.MustCompile("[/+]xml$"), xmlMin)

	asp := *htmlMin
	asp.TemplateDelims = [2]string{"<%", "%>"}
	m.Add("text/asp", &asp)
	m.Add("text/x-ejs-template", &asp)

	php := *htmlMin
	php.TemplateDelims = [2]string{"<?", "?>"}
	m.Add("application/x-httpd-php", &php)

	tmpl := *htmlMin
	tmpl.TemplateDelims = [2]string{"{{", "}}"}
	m.Add("text/x-go-template", &tmpl)
	m.Add("text/x-mustache-template", &tmpl)
	m.Add("text/x-handlebars-template", &tmpl)

	l := &Lib{m: m}
	l.m.URL, l.err = url.Parse(o.URL)
	return l
}

// Minify returns the library output for data of the given media type; the input is copied first
// so that a library that scribbles over its input cannot disturb the expectation.
func (l *Lib) Minify(mediatype string, data []byte) (out []byte, err error) {
	defer func() {
		if r := recover(); r != nil {
			out, err = nil, errPanic{r}
		}
	}()
	in := append([]byte{}, data...)
	var w bytes.Buffer
	if err := l.m.Minify(mediatype, &w, bytes.NewReader(in)); err != nil {
		return nil, err
	}
	return w.Bytes(), nil
}

type errPanic struct{ v interface{} }

func (e errPanic) Error() string { return "library panic" }
