// Command clifs is test equipment for the command-line tool cmd/minify:
//
//	-mode fs     property C19 (file-system image after a run equals the documented one)
//	-mode trace  system-call skeletons of a fixed family of task shapes (correspondence data)
//	-mode crash  property C20 (kill at every system-call boundary, no content is ever lost)
//
// It builds the CLI from the current working tree of -repo on every run.
package main

import (
	"encoding/json"
	"flag"
	"fmt"
	"os"
	"os/exec"
	"path/filepath"
	"runtime"
	"sort"
	"strings"
	"sync"
	"time"

	"verifharness/internal/vh"
)

var (
	flagMode    = flag.String("mode", "fs", "fs | trace | crash")
	flagSeed    = flag.Uint64("seed", 1, "seed")
	flagN       = flag.Int("n", 0, "number of cases (0 = quick default of the mode)")
	flagOut     = flag.String("out", "", "output directory")
	flagTier    = flag.String("tier", "quick", "quick | thorough")
	flagWitness = flag.String("witness", "", "evaluate exactly the case in this JSON file")
	flagKnown   = flag.Bool("known", false, "also generate the shapes of known findings (K41, N01..)")
	flagRepo    = flag.String("repo", "/repo", "repository the CLI is built from")
	flagJobs    = flag.Int("j", 0, "parallel jobs (0 = number of CPUs)")
	flagKeep    = flag.Bool("keep", false, "keep scratch directories")
)

// quick defaults (see FINDINGS.md for the timings they were chosen from)
const (
	quickFS    = 4000
	quickCrash = 150
)

func fatal(format string, a ...interface{}) {
	fmt.Fprintf(os.Stderr, "clifs: "+format+"\n", a...)
	os.Exit(2)
}

func buildCLI(repo, out string) (string, error) {
	bin := filepath.Join(out, "minify-cli")
	cmd := exec.Command("go", "build", "-o", bin, "./cmd/minify")
	cmd.Dir = repo
	env := os.Environ()
	for _, kv := range []string{"GOFLAGS=-mod=mod", "GOPROXY=off", "GOSUMDB=off", "GOTOOLCHAIN=local"} {
		if os.Getenv(strings.SplitN(kv, "=", 2)[0]) == "" {
			env = append(env, kv)
		}
	}
	cmd.Env = env
	b, err := cmd.CombinedOutput()
	if err != nil {
		return "", fmt.Errorf("go build ./cmd/minify in %s: %v\n%s", repo, err, b)
	}
	return bin, nil
}

func jobs() int {
	if *flagJobs > 0 {
		return *flagJobs
	}
	return runtime.NumCPU()
}

func main() {
	flag.Parse()
	if *flagOut == "" {
		fatal("-out is required")
	}
	out, err := filepath.Abs(*flagOut)
	if err != nil {
		fatal("%v", err)
	}
	if err := os.MkdirAll(out, 0o755); err != nil {
		fatal("%v", err)
	}
	for _, bad := range []string{"/repo", "/verif/harness", "/verif/coq"} {
		if under(out, bad) {
			fatal("refusing to use %s as output directory (inside %s)", out, bad)
		}
	}
	start := time.Now()
	bin, err := buildCLI(*flagRepo, out)
	if err != nil {
		fatal("%v", err)
	}
	work, err := os.MkdirTemp(out, "scratch-")
	if err != nil {
		fatal("%v", err)
	}
	if !*flagKeep {
		defer os.RemoveAll(work)
	}
	res := &vh.Result{Engine: "clifs-" + *flagMode, Seed: *flagSeed, Tier: *flagTier, Extra: map[string]interface{}{}}
	res.Extra["repo"] = *flagRepo
	res.Extra["build_seconds"] = time.Since(start).Seconds()
	switch *flagMode {
	case "fs":
		runFS(bin, work, res)
	case "trace":
		runTrace(bin, work, out, res)
	case "crash":
		runCrash(bin, work, res)
	default:
		fatal("unknown mode %q", *flagMode)
	}
	res.Extra["wall_seconds"] = time.Since(start).Seconds()
	if err := res.Write(filepath.Join(out, "result.json")); err != nil {
		fatal("%v", err)
	}
	if !*flagKeep {
		os.RemoveAll(work)
	}
	fmt.Printf("clifs-%s seed=%d evaluations=%d nontrivial=%d not_judged=%d violations=%d wall=%.1fs\n",
		*flagMode, *flagSeed, res.Evaluations, res.DistinctNontrivial, res.NotJudged, len(res.Violations), time.Since(start).Seconds())
	for _, v := range res.Violations {
		fmt.Printf("  VIOLATION case %d: %s\n", v.Case, v.Signature)
	}
}

func loadWitness(path string) Case {
	b, err := os.ReadFile(path)
	if err != nil {
		fatal("%v", err)
	}
	var c Case
	if err := json.Unmarshal(b, &c); err != nil {
		fatal("witness %s: %v", path, err)
	}
	return c
}

func caseInput(c Case) string {
	return "argv: " + strings.Join(c.Argv, " ") + "\ntree:\n  " + strings.Join(c.Tree.Listing(), "\n  ")
}

func caseJSON(c Case) string {
	b, _ := json.Marshal(c)
	return string(b)
}

// parallel runs f(i) for i in [0,n) on the job pool.
func parallel(n int, f func(i int)) {
	var wg sync.WaitGroup
	ch := make(chan int)
	for w := 0; w < jobs(); w++ {
		wg.Add(1)
		go func() {
			defer wg.Done()
			for i := range ch {
				f(i)
			}
		}()
	}
	for i := 0; i < n; i++ {
		ch <- i
	}
	close(ch)
	wg.Wait()
}

func runFS(bin, work string, res *vh.Result) {
	res.Rule = "evaluations = invocations judged against the reference; distinct_nontrivial = distinct (tree, argv) cases in which the command changed the file system"
	var cases []Case
	if *flagWitness != "" {
		cases = []Case{loadWitness(*flagWitness)}
	} else {
		n := *flagN
		if n == 0 {
			n = quickFS
			if *flagTier == "thorough" {
				n = 20 * quickFS
			}
		}
		r := vh.NewRand(*flagSeed).Fork() // Fork: NewRand(s+1) is NewRand(s) shifted by one draw
		for i := 0; i < n; i++ {
			cases = append(cases, genCase(r.Fork(), genOpts{known: *flagKnown}))
		}
	}
	outs := make([]*Outcome, len(cases))
	parallel(len(cases), func(i int) { outs[i] = evalFS(bin, work, cases[i]) })

	distinct := map[string]bool{}
	seenSig := map[string]bool{}
	for i, o := range outs {
		c := cases[i]
		if o.ToolErr != nil {
			fatal("case %d: %v", i, o.ToolErr)
		}
		if o.Inv != nil {
			seen := map[string]bool{}
			for _, f := range o.Inv.FlagNames() {
				if !seen[f] {
					seen[f] = true
					res.Hist("flags", f)
				}
			}
		}
		for _, n := range c.Tree {
			res.Hist("file_kinds", n.Kind)
		}
		if o.NotJudged != "" {
			res.NotJudged++
			res.Hist("not_judged", o.NotJudged)
			res.Hist("outcomes", "not-judged")
			continue
		}
		res.Evaluations++
		res.Hist("shapes", o.Shape)
		if o.Changed {
			distinct[caseJSON(c)] = true
		}
		for _, t := range o.Exp.Tasks {
			switch {
			case t.Link:
				res.Hist("task_kinds", "symlink-copy")
			case t.Copy:
				res.Hist("task_kinds", "sync-copy")
			case t.Failed:
				res.Hist("task_kinds", "minify-fails")
			default:
				res.Hist("task_kinds", "minify-ok")
			}
			if len(t.Srcs) > 1 {
				res.Hist("task_kinds", "bundle")
			}
			if t.InPlace {
				res.Hist("task_kinds", "in-place")
			}
		}
		if len(o.Exp.Tasks) == 0 {
			res.Hist("task_kinds", "no-task")
		}
		switch {
		case len(o.Findings) > 0:
			res.Hist("outcomes", "violation")
		case o.Exit != 0:
			res.Hist("outcomes", "ok-exit-nonzero")
		case o.Changed:
			res.Hist("outcomes", "ok-changed")
		default:
			res.Hist("outcomes", "ok-unchanged")
		}
		if len(o.Findings) == 0 {
			if len(res.Samples) < 3 && o.Changed && (i%7 == 0 || len(cases) < 10) {
				res.Samples = append(res.Samples, sampleOf(c, o))
			}
			continue
		}
		sig := o.Findings[0].Signature
		wc := c
		if *flagWitness == "" && !seenSig[sig] {
			wc = shrink(bin, work, c, sig, 120)
			o2 := evalFS(bin, work, wc)
			if o2.ToolErr == nil && len(o2.Findings) > 0 && o2.Findings[0].Signature == sig {
				o = o2
			} else {
				wc = c
			}
		}
		seenSig[sig] = true
		perSig := map[string]int{}
		for _, f := range o.Findings {
			perSig[f.Signature]++
		}
		emitted := map[string]bool{}
		for _, f := range o.Findings {
			if emitted[f.Signature] {
				continue // one violation per signature and case; the count goes into the detail
			}
			emitted[f.Signature] = true
			if perSig[f.Signature] > 1 {
				f.Detail = strings.TrimSpace(f.Detail + fmt.Sprintf(" (%d paths of this case show the same signature)", perSig[f.Signature]))
			}
			v := vh.Violation{Kind: "oracle", Signature: f.Signature, Input: caseInput(wc), Observed: f.Observed, Expected: f.Expected, Detail: f.Detail, Case: i,
				Options: map[string]string{"witness": caseJSON(wc), "exit": fmt.Sprint(o.Exit), "stderr": clip(o.Stderr, 300)}}
			if o.Known != "" {
				v.Options["known_id"] = o.Known
			}
			res.Violations = append(res.Violations, v)
		}
	}
	if len(res.Samples) == 0 {
		for i, o := range outs {
			if o.NotJudged == "" && len(res.Samples) < 3 {
				res.Samples = append(res.Samples, sampleOf(cases[i], o))
			}
		}
	}
	res.DistinctNontrivial = len(distinct)
}

func sampleOf(c Case, o *Outcome) interface{} {
	m := map[string]interface{}{
		"argv":   c.Argv,
		"tree":   c.Tree.Listing(),
		"exit":   o.Exit,
		"shape":  o.Shape,
		"stdout": clip(o.Stdout, 200),
		"stderr": clip(o.Stderr, 200),
	}
	if o.After != nil {
		var diff []string
		for _, p := range o.After.Paths() {
			a := o.After[p]
			b, was := o.Before[p]
			if !was || a.Kind != b.Kind || string(a.Data) != string(b.Data) || a.Target != b.Target {
				diff = append(diff, fmt.Sprintf("%s %s %o (%d B) %s", p, a.Kind, a.Mode, len(a.Data), clip(a.Data, 60)))
			}
		}
		m["written"] = diff
	}
	if len(o.Findings) > 0 {
		m["result"] = "violation: " + o.Findings[0].Signature
	} else {
		m["result"] = "matches reference"
	}
	return m
}

func sortedSet(m map[string]bool) []string {
	var ks []string
	for k := range m {
		ks = append(ks, k)
	}
	sort.Strings(ks)
	return ks
}
