package main

// Reference semantics of the command, written from the documentation (README.md of cmd/minify,
// `minify --help`) and evaluated against the real scratch tree *before* the command runs.
// Each rule carries a tag [Rn] that FINDINGS.md maps to the place in the documentation.

import (
	"fmt"
	"os"
	"path/filepath"
	"regexp"
	"sort"
	"strings"
	"syscall"
	"time"
)

// RTask is one unit of work the documentation implies.
type RTask struct {
	Srcs    []string // as the command names them: cleaned, relative to cwd or absolute
	Dst     string   // "" = stdout
	Root    string
	Copy    bool // sync mode: copied verbatim
	Link    bool // symlink copied as is (preserve links + sync)
	Mime    string
	Input   []byte // bytes fed to the library (concatenation for bundles)
	Output  []byte // bytes the destination must hold
	Failed  bool
	InPlace bool // destination is one of the sources
	Alias   bool // ... under a different name (symlink / hard link): K41 condition
	SrcRel  []string
	SrcAbs  []string
	DstRel  string
}

type ExpFile struct {
	Kind    string // file | symlink
	Data    []byte
	Target  string
	Mode    *os.FileMode
	Mtime   *time.Time
	Task    int
	InPlace bool
}

type Expect struct {
	NotJudged string
	Shape     string
	Tasks     []RTask
	Files     map[string]*ExpFile // by path relative to the scratch root
	Stdout    []byte
	StdoutJ   bool
	Fail      bool
	NewDirsOK map[string]bool
	DirModes  map[string]os.FileMode
	DontCare  []string          // path prefixes (relative) whose presence/content the documentation leaves open
	SrcAlt    map[string][]byte // K41 condition: source may hold the original or these bytes
	Known     string            // id of a known condition present in this case ("K41", "N01", ...)
	OutDir    string            // relative path of the output directory ("" if none)
	Selected  map[string]bool   // source paths (relative) that are minified
}

func (e *Expect) nj(reason string) *Expect { e.NotJudged = reason; return e }

// globMatch implements the documented glob flavour: `*` does not cross a path separator, `**` does. [R5]
func globMatch(pat, s string) bool {
	for len(pat) > 0 {
		if strings.HasPrefix(pat, "**") {
			rest := pat[2:]
			for k := 0; k <= len(s); k++ {
				if globMatch(rest, s[k:]) {
					return true
				}
			}
			return false
		}
		if pat[0] == '*' {
			rest := pat[1:]
			for k := 0; k <= len(s); k++ {
				if globMatch(rest, s[k:]) {
					return true
				}
				if k < len(s) && s[k] == '/' {
					break
				}
			}
			return false
		}
		if len(s) == 0 || s[0] != pat[0] {
			return false
		}
		pat, s = pat[1:], s[1:]
	}
	return len(s) == 0
}

type pattern struct {
	re   *regexp.Regexp
	glob string
}

func compilePat(p string) (pattern, string) {
	if strings.HasPrefix(p, "~") {
		re, err := regexp.Compile(p[1:])
		if err != nil {
			return pattern{}, "usage:bad-regexp"
		}
		return pattern{re: re}, ""
	}
	if strings.HasPrefix(p, `\~`) {
		p = p[1:]
	}
	if strings.ContainsAny(p, "?") {
		return pattern{}, "pattern-with-question-mark" // documentation does not define `?`
	}
	return pattern{glob: p}, ""
}

func (p pattern) match(s string) bool {
	if p.re != nil {
		return p.re.MatchString(s)
	}
	return globMatch(p.glob, s)
}

type refCtx struct {
	cwd     string
	inv     *Inv
	ext     map[string]string
	mime    string
	matches []pattern
	filters []pattern
	links   bool
	exp     *Expect
}

// filter: --match on the base name, --include/--exclude on the whole path, last one wins. [R5]
func (c *refCtx) filter(path string) bool {
	if len(c.matches) > 0 {
		ok := false
		for _, p := range c.matches {
			if p.match(filepath.Base(path)) {
				ok = true
			}
		}
		if !ok {
			return false
		}
	}
	res := true
	for i, p := range c.filters {
		if p.match(path) {
			res = c.inv.Filters[i][0] == '+'
		}
	}
	return res
}

func extOf(path string) string {
	e := filepath.Ext(path)
	if len(e) > 0 {
		e = e[1:]
	}
	return e
}

func (c *refCtx) abs(p string) string {
	if filepath.IsAbs(p) {
		return filepath.Clean(p)
	}
	return filepath.Join(c.cwd, p)
}

func (c *refCtx) rel(p string) (string, bool) {
	r, err := filepath.Rel(c.cwd, c.abs(p))
	if err != nil || r == ".." || strings.HasPrefix(r, "../") {
		return "", false
	}
	return r, true
}

func fileID(path string) (string, bool) {
	fi, err := os.Stat(path)
	if err != nil {
		return "", false
	}
	if st, ok := fi.Sys().(*syscall.Stat_t); ok {
		return fmt.Sprintf("%d:%d", st.Dev, st.Ino), true
	}
	return "", false
}

// identity of a path that may not exist yet: inode if it exists, else resolved parent + remainder.
func (c *refCtx) identity(p string) string {
	a := c.abs(p)
	if id, ok := fileID(a); ok {
		return id
	}
	rest := ""
	cur := a
	for {
		if r, err := filepath.EvalSymlinks(cur); err == nil {
			return "path:" + filepath.Join(r, rest)
		}
		rest = filepath.Join(filepath.Base(cur), rest)
		nxt := filepath.Dir(cur)
		if nxt == cur {
			return "path:" + a
		}
		cur = nxt
	}
}

// Reference computes the expected outcome of running the command with cwd as working directory.
func Reference(cwd string, inv *Inv, stdin []byte) *Expect {
	exp := &Expect{Files: map[string]*ExpFile{}, NewDirsOK: map[string]bool{}, DirModes: map[string]os.FileMode{}, SrcAlt: map[string][]byte{}, Selected: map[string]bool{}}
	c := &refCtx{cwd: cwd, inv: inv, exp: exp}

	if inv.Help || inv.Version || inv.List || inv.Watch {
		return exp.nj("usage:help-version-list-watch")
	}
	// extension table [R1]
	c.ext = defaultExtMap()
	for _, kv := range inv.ExtPairs() {
		k, v := kv[0], kv[1]
		if _, chained := inv.Ext[v]; chained {
			return exp.nj("ext-mapping-chain")
		}
		if k == "js" {
			return exp.nj("ext-remaps-js")
		}
		if mt, ok := defaultExtMap()[v]; ok {
			c.ext[k] = mt
		} else if strings.Contains(v, "/") {
			c.ext[k] = v
		} else {
			return exp.nj("usage:ext-unknown-filetype")
		}
	}
	// --type / --mime [R1]
	if inv.Type != "" && inv.Mime != "" {
		return exp.nj("usage:type-and-mime")
	}
	c.mime = inv.Type
	if inv.Mime != "" {
		c.mime = inv.Mime
	}
	if c.mime != "" && !strings.Contains(c.mime, "/") {
		mt, ok := c.ext[c.mime]
		if !ok {
			return exp.nj("usage:unknown-filetype")
		}
		c.mime = mt
	}
	inputs := inv.Inputs
	output := inv.Output
	useStdin := len(inputs) == 0 || (len(inputs) == 1 && inputs[0] == "-")
	if useStdin {
		inputs = nil
		if output == "-" {
			return exp.nj("usage:dash-output-with-stdin")
		}
	} else if output == "-" {
		output = ""
	}
	for _, in := range inputs {
		if in == "-" {
			return exp.nj("usage:mix-stdin-and-files")
		}
	}
	// conflicting flags: plain usage errors, not judged
	switch {
	case (useStdin || output == "") && inv.Sync:
		return exp.nj("usage:sync-with-stdio")
	case useStdin && (inv.Bundle || inv.Recursive):
		return exp.nj("usage:bundle-or-recursive-with-stdin")
	case output == "" && inv.Recursive && !inv.Bundle:
		return exp.nj("usage:recursive-to-stdout")
	case c.mime == "" && useStdin:
		return exp.nj("usage:stdin-without-type")
	case c.mime != "" && inv.Sync:
		return exp.nj("usage:sync-with-type")
	case inv.Bundle && inv.Sync:
		return exp.nj("usage:sync-with-bundle")
	case output == "" && !inv.Bundle && len(inputs) > 1:
		return exp.nj("usage:many-inputs-to-stdout")
	}
	explicit := inv.Preserve != nil
	has := func(w string) bool {
		for _, x := range inv.Preserve {
			if x == w || x == "all" {
				return true
			}
		}
		return false
	}
	if explicit && (useStdin || output == "") {
		return exp.nj("usage:preserve-with-stdio")
	}
	c.links = has("links")
	modeJ := output != "" && !useStdin && (!explicit || has("mode"))       // [R10]
	timeJ := output != "" && !useStdin && (!explicit || has("timestamps")) // [R10]

	for _, p := range inv.Match {
		pt, r := compilePat(p)
		if r != "" {
			return exp.nj(r)
		}
		c.matches = append(c.matches, pt)
	}
	for _, p := range inv.Filters {
		pt, r := compilePat(p[1:])
		if r != "" {
			return exp.nj(r)
		}
		c.filters = append(c.filters, pt)
	}
	if inv.PatternEqFollowed {
		exp.Known = "N01"
	}
	for _, p := range append(append([]string{}, inv.Match...), inv.Filters...) {
		if strings.HasPrefix(strings.TrimLeft(p, "+-"), "~") && exp.Known == "" {
			exp.Known = "N05" // regular-expression patterns: the command keeps the tilde in the expression
		}
	}

	// output kind [R2]
	isRealDir := func(p string) bool {
		fi, err := os.Lstat(c.abs(p))
		return err == nil && fi.IsDir()
	}
	dirDst := false
	if output != "" {
		switch {
		case strings.HasSuffix(output, "/"):
			dirDst = true
		case !inv.Bundle && len(inputs) > 1:
			dirDst = true
		case !inv.Bundle && len(inputs) == 1 && isRealDir(filepath.Clean(inputs[0])):
			dirDst = true
		}
		if dirDst && inv.Bundle {
			return exp.nj("usage:bundle-to-directory")
		}
	}
	outClean := ""
	outIsDir := false
	if output != "" {
		outClean = filepath.Clean(output)
		outIsDir = dirDst || outClean == "."
		if inv.Bundle && outClean == "." {
			return exp.nj("usage:bundle-to-directory")
		}
		fi, err := os.Stat(c.abs(outClean))
		if err == nil && fi.IsDir() && !outIsDir {
			return exp.nj("usage:output-file-is-a-directory")
		}
		if err == nil && !fi.IsDir() && outIsDir {
			return exp.nj("usage:output-directory-is-a-file")
		}
		if lfi, lerr := os.Lstat(c.abs(outClean)); lerr == nil && lfi.Mode()&os.ModeSymlink != 0 && err != nil {
			return exp.nj("output-is-dangling-symlink")
		}
		r, ok := c.rel(outClean)
		if !ok {
			return exp.nj("output-outside-scratch")
		}
		if dirDst {
			exp.OutDir = r
			for d := r; d != "." && d != "/"; d = filepath.Dir(d) {
				exp.NewDirsOK[d] = true
			}
		}
	}

	// shape label
	exp.Shape = shapeOf(inv, useStdin, output, outIsDir, len(inputs))

	// tasks
	var tasks []RTask
	if useStdin {
		tasks = append(tasks, RTask{Srcs: nil, Dst: outClean})
	}
	addTask := func(root, src string, copy, link bool) string {
		dst := outClean
		if outIsDir {
			rel, err := filepath.Rel(root, src)
			if err != nil {
				return "rel-error"
			}
			dst = filepath.Join(outClean, rel) // [R3]
		}
		tasks = append(tasks, RTask{Srcs: []string{src}, Dst: dst, Root: root, Copy: copy, Link: link})
		return ""
	}
	for _, in := range inputs {
		ts := strings.HasSuffix(in, "/")
		if strings.HasSuffix(in, "/.") {
			// README: "Both `src/` and `src/.` are equivalent" [R3]
			ts = true
			if exp.Known == "" {
				exp.Known = "N02"
			}
		}
		p := filepath.Clean(in)
		if _, ok := c.rel(p); !ok {
			return exp.nj("input-outside-scratch")
		}
		root := filepath.Dir(p)
		if ts {
			root = p // trailing slash: contents only [R3]
		}
		lfi, lerr := os.Lstat(c.abs(p))
		if lerr != nil {
			return exp.nj("usage:input-missing")
		}
		isLink := lfi.Mode()&os.ModeSymlink != 0
		fi, err := os.Stat(c.abs(p))
		if err != nil && !(c.links && isLink) {
			return exp.nj("dangling-symlink-input")
		}
		// a hidden file the command line names is an input like any other: -a ("including hidden files") governs what a
		// directory walk picks up, not what the user names; its destination keeps its name (mirror of the input tree)
		switch {
		case c.links && isLink:
			if !inv.Sync {
				return exp.nj("usage:symlink-input-without-sync")
			}
			if r := addTask(root, p, true, true); r != "" {
				return exp.nj(r)
			}
		case fi.Mode().IsRegular():
			if ts {
				return exp.nj("usage:file-input-with-trailing-slash")
			}
			valid := c.filter(p)
			if !valid && !inv.Sync {
				continue // filtered out [R5]
			}
			known := c.mime != ""
			if !known {
				_, known = c.ext[extOf(p)]
			}
			if !known && !inv.Sync {
				return exp.nj("usage:explicit-input-unknown-extension")
			}
			if !known && inv.Sync && valid {
				// "Copy all files to destination directory and minify when filetype matches" [R6]
				if exp.Known == "" {
					exp.Known = "N03"
				}
				valid = false
			}
			if r := addTask(root, p, !valid, false); r != "" {
				return exp.nj(r)
			}
		case fi.IsDir():
			if isLink && !dirDst && output != "" && !inv.Bundle {
				return exp.nj("symlink-to-directory-input-with-file-output")
			}
			if !inv.Recursive {
				continue // omitted [R3]
			}
			if r := c.walk(root, p, inv, &tasks, addTask, 0); r != "" {
				return exp.nj(r)
			}
		default:
			return exp.nj("usage:input-not-file-or-directory")
		}
	}

	// bundle [R7]
	if inv.Bundle && len(tasks) > 1 {
		b := tasks[0]
		for _, t := range tasks[1:] {
			b.Srcs = append(b.Srcs, t.Srcs[0])
		}
		tasks = []RTask{b}
	}
	if !inv.Bundle && !outIsDir && len(tasks) > 1 {
		return exp.nj("many-tasks-to-one-file")
	}

	// resolve each task
	lib := NewLib(inv.Lib)
	if lib.err != nil {
		return exp.nj("usage:bad-url")
	}
	srcIDs := make([][]string, len(tasks))
	dstIDs := make([]string, len(tasks))
	for ti := range tasks {
		t := &tasks[ti]
		if t.Dst != "" {
			r, ok := c.rel(t.Dst)
			if !ok {
				return exp.nj("destination-outside-scratch")
			}
			t.DstRel = r
			dstIDs[ti] = c.identity(t.Dst)
			if lfi, err := os.Lstat(c.abs(t.Dst)); err == nil {
				if lfi.IsDir() {
					return exp.nj("destination-is-a-directory")
				}
				if lfi.Mode()&os.ModeSymlink != 0 {
					if _, err := os.Stat(c.abs(t.Dst)); err != nil {
						return exp.nj("destination-is-dangling-symlink")
					}
				}
			}
			// a destination whose parent is a regular file cannot be created
			for d := filepath.Dir(c.abs(t.Dst)); len(d) > len(c.cwd); d = filepath.Dir(d) {
				if fi, err := os.Stat(d); err == nil && !fi.IsDir() {
					return exp.nj("destination-parent-is-a-file")
				}
			}
		}
		for _, s := range t.Srcs {
			r, _ := c.rel(s)
			t.SrcRel = append(t.SrcRel, r)
			t.SrcAbs = append(t.SrcAbs, c.abs(s))
			srcIDs[ti] = append(srcIDs[ti], c.identity(s))
		}
	}
	// tasks must be independent of each other (documentation silent otherwise)
	for i := range tasks {
		for j := range tasks {
			if i == j {
				continue
			}
			if dstIDs[i] != "" && dstIDs[i] == dstIDs[j] {
				return exp.nj("two-inputs-one-destination")
			}
			for _, sid := range srcIDs[j] {
				if dstIDs[i] != "" && dstIDs[i] == sid {
					return exp.nj("destination-is-another-tasks-source")
				}
			}
		}
	}

	for ti := range tasks {
		t := &tasks[ti]
		// in place?
		for k, s := range t.Srcs {
			if t.Dst == "" || srcIDs[ti][k] != dstIDs[ti] {
				continue
			}
			if _, err := os.Stat(c.abs(t.Dst)); err != nil {
				continue
			}
			t.InPlace = true
			if c.abs(s) != c.abs(t.Dst) {
				t.Alias = true
			} else if filepath.Clean(s) != filepath.Clean(t.Dst) {
				// same file spelled differently (absolute vs relative): same root cause as K41
				exp.Known = "K41"
			} else {
				real, err := filepath.EvalSymlinks(c.abs(s))
				if err != nil || real != c.abs(s) {
					return exp.nj("in-place-through-symlink")
				}
			}
		}
		if t.Alias {
			exp.Known = "K41"
		}
		if t.InPlace && exp.Known == "" {
			for _, s := range t.Srcs {
				if _, err := os.Lstat(c.abs(s) + ".bak"); err == nil {
					exp.Known = "N04" // a pre-existing <name>.bak is overwritten by the backup and then removed
				}
			}
		}
		if t.Link {
			target, err := os.Readlink(c.abs(t.Srcs[0]))
			if err != nil {
				return exp.nj("readlink-failed")
			}
			if t.InPlace {
				continue
			}
			if _, err := os.Lstat(c.abs(t.Dst)); err == nil {
				return exp.nj("symlink-copy-onto-existing-path")
			}
			exp.Files[t.DstRel] = &ExpFile{Kind: "symlink", Target: target, Task: ti}
			continue
		}
		// input bytes
		mime := c.mime
		var parts [][]byte
		for k, s := range t.Srcs {
			b, err := os.ReadFile(c.abs(s))
			if err != nil {
				return exp.nj("unreadable-source")
			}
			parts = append(parts, b)
			sm := c.mime
			if sm == "" && !t.Copy {
				var ok bool
				if sm, ok = c.ext[extOf(s)]; !ok {
					return exp.nj("internal:selected-without-type")
				}
			}
			if k == 0 {
				mime = sm
			} else if sm != mime {
				return exp.nj("bundle-of-mixed-types")
			}
		}
		switch {
		case len(t.Srcs) == 0:
			t.Input = stdin
		case len(t.Srcs) == 1:
			t.Input = parts[0]
		default:
			// separator between bundled JavaScript files is ";\n", nothing for other types [R7]
			if mime != "application/javascript" && lib.isJS(mime) {
				return exp.nj("bundle-js-under-other-mimetype")
			}
			for k, b := range parts {
				if k > 0 && mime == "application/javascript" {
					t.Input = append(t.Input, ";\n"...)
				}
				t.Input = append(t.Input, b...)
			}
		}
		t.Mime = mime
		if t.Copy {
			t.Output = t.Input // [R6]
		} else {
			out, err := lib.Minify(mime, t.Input)
			if _, isPanic := err.(errPanic); isPanic {
				return exp.nj("library-panic")
			}
			if err != nil {
				t.Failed = true // destination receives the original bytes [R8]
				t.Output = t.Input
				exp.Fail = true
			} else {
				t.Output = out
			}
			for _, r := range t.SrcRel {
				exp.Selected[r] = true
			}
		}
		if t.Dst == "" {
			exp.Stdout = t.Output
			exp.StdoutJ = true
			continue
		}
		ef := &ExpFile{Kind: "file", Data: t.Output, Task: ti, InPlace: t.InPlace}
		if !t.InPlace {
			// preserve options [R10]
			var perms []os.FileMode
			var mt time.Time
			for _, s := range t.Srcs {
				if fi, err := os.Stat(c.abs(s)); err == nil {
					perms = append(perms, fi.Mode().Perm())
					mt = fi.ModTime()
				}
			}
			same := len(perms) == len(t.Srcs) && len(perms) > 0
			for _, p := range perms {
				if p != perms[0] {
					same = false
				}
			}
			if modeJ && same && len(t.Srcs) == 1 { // what preserving means for a bundle is not documented
				m := perms[0]
				ef.Mode = &m
			}
			if len(t.Srcs) == 1 && !outIsDir && !useStdin {
				// N06: the output is a single file, yet the command also copies the attributes of the
				// source's parent directories onto the parent directories of the output file
				if rel, err := filepath.Rel(t.Root, t.Srcs[0]); err == nil && filepath.Dir(rel) != "." && exp.Known == "" {
					exp.Known = "N06"
				}
			}
			if timeJ && len(t.Srcs) == 1 {
				ef.Mtime = &mt
			}
			if len(t.Srcs) == 1 && outIsDir {
				rel, _ := filepath.Rel(t.Root, t.Srcs[0])
				for d := filepath.Dir(rel); d != "." && d != "/"; d = filepath.Dir(d) {
					fi, err := os.Stat(c.abs(filepath.Join(t.Root, d)))
					if err != nil {
						break
					}
					dr, ok := c.rel(filepath.Join(outClean, d))
					if !ok {
						break
					}
					if !modeJ {
						exp.DirModes[dr] = 0o7777 // explicit --preserve without "mode": not judged
					} else if old, seen := exp.DirModes[dr]; seen && old != fi.Mode().Perm() {
						exp.DirModes[dr] = 0o7777 // conflicting sources: not judged
					} else if !seen {
						exp.DirModes[dr] = fi.Mode().Perm()
					}
				}
			}
		}
		if t.Alias {
			for _, r := range t.SrcRel {
				exp.SrcAlt[r] = t.Output
			}
		}
		exp.Files[t.DstRel] = ef
	}
	for p := range exp.Files {
		for d := filepath.Dir(p); d != "." && d != "/"; d = filepath.Dir(d) {
			exp.NewDirsOK[d] = true
		}
	}
	exp.Tasks = tasks
	for _, t := range tasks {
		if t.InPlace && !strings.Contains(exp.Shape, "+inplace") {
			exp.Shape += "+inplace"
		}
	}
	return exp
}

func (l *Lib) isJS(mime string) bool {
	return regexp.MustCompile("^(application|text)/(x-)?(java|ecma|j|live)script(1\\.[0-5])?$|^module$").MatchString(mime)
}

// walk enumerates a directory input in name order. [R3][R4][R5][R6]
func (c *refCtx) walk(root, dir string, inv *Inv, tasks *[]RTask, addTask func(root, src string, copy, link bool) string, depth int) string {
	if depth > 40 {
		return "symlink-loop"
	}
	ents, err := os.ReadDir(c.abs(dir))
	if err != nil {
		return "unreadable-directory"
	}
	sort.Slice(ents, func(i, j int) bool { return ents[i].Name() < ents[j].Name() })
	for _, e := range ents {
		name := e.Name()
		p := filepath.Join(dir, name)
		if name[0] == '.' && !inv.All {
			// hidden files are skipped unless -a [R4]; whether sync copies them is left open
			if inv.Sync {
				if outp, ok := c.hiddenDst(root, p); ok {
					c.exp.DontCare = append(c.exp.DontCare, outp)
				}
			}
			continue
		}
		lfi, err := os.Lstat(c.abs(p))
		if err != nil {
			return "lstat-failed"
		}
		isLink := lfi.Mode()&os.ModeSymlink != 0
		if isLink && c.links {
			if inv.Sync {
				if r := addTask(root, p, true, true); r != "" {
					return r
				}
			}
			continue // omitted without --sync
		}
		fi, err := os.Stat(c.abs(p))
		if err != nil {
			return "dangling-symlink-in-walk" // the command aborts; documentation silent
		}
		switch {
		case fi.IsDir():
			if r := c.walk(root, p, inv, tasks, addTask, depth+1); r != "" {
				return r
			}
		case fi.Mode().IsRegular():
			valid := c.filter(p)
			if valid && c.mime == "" {
				_, valid = c.ext[extOf(p)]
			}
			if valid || inv.Sync {
				if r := addTask(root, p, !valid, false); r != "" {
					return r
				}
			}
		}
	}
	return ""
}

func (c *refCtx) hiddenDst(root, p string) (string, bool) {
	if c.inv.Output == "" {
		return "", false
	}
	rel, err := filepath.Rel(root, p)
	if err != nil {
		return "", false
	}
	return c.rel(filepath.Join(filepath.Clean(c.inv.Output), rel))
}

func shapeOf(inv *Inv, stdin bool, output string, outIsDir bool, nin int) string {
	var in string
	switch {
	case stdin:
		in = "stdin"
	case nin == 1:
		in = "one"
	default:
		in = "many"
	}
	if inv.Recursive {
		in += "-r"
	}
	out := "file"
	if output == "" {
		out = "stdout"
	} else if outIsDir {
		out = "dir"
	}
	s := in + "->" + out
	if inv.Bundle {
		s += "+bundle"
	}
	if inv.Sync {
		s += "+sync"
	}
	return s
}

// known conditions whose defects were repaired in /repo (K41, K54 = N05, K55 = N02, K56 = N03): their shapes are judged like
// any other case again, so that a regression is reported as a new violation
var repairedConditions = map[string]bool{"K41": true, "N05": true, "N02": true, "N03": true}

func clearRepaired(exp *Expect) {
	if exp != nil && repairedConditions[exp.Known] {
		exp.Known = ""
	}
}
