package main

// Mode trace: run task shapes under strace and canonicalise the system-call skeleton.

import (
	"bytes"
	"context"
	"encoding/json"
	"fmt"
	"os"
	"os/exec"
	"path/filepath"
	"regexp"
	"strconv"
	"strings"
	"time"

	"verifharness/internal/vh"
)

// traceSet is the set given in the brief minus `futimens` (not a system call name for strace 6.1:
// futimens(3) is utimensat(fd, NULL, ...)) plus copy_file_range/sendfile, which Go's io.Copy uses
// for file-to-file copies (sync mode) instead of write.
var traceSet = []string{"rename", "renameat", "renameat2", "open", "openat", "creat", "write", "pwrite64", "close", "unlink", "unlinkat",
	"chmod", "fchmod", "fchmodat", "fchown", "fchownat", "lchown", "chown", "utimensat", "mkdir", "mkdirat", "symlink", "symlinkat",
	"link", "linkat", "ftruncate", "truncate", "copy_file_range", "sendfile"}

func traceExpr() string { return "trace=" + strings.Join(traceSet, ",") }

// Call is one parsed strace line.
type Call struct {
	PID      string
	Name     string
	Args     []string
	Ret      string // "0", "7", "-1", "?" (killed before completion)
	Errno    string
	Complete bool
}

var lineRe = regexp.MustCompile(`^(\d+)\s+(.*)$`)

// splitArgs splits the text between the parentheses of a call at top-level commas.
func splitArgs(s string) []string {
	var args []string
	depth := 0
	inStr := false
	start := 0
	for i := 0; i < len(s); i++ {
		c := s[i]
		if inStr {
			if c == '\\' {
				i++
			} else if c == '"' {
				inStr = false
			}
			continue
		}
		switch c {
		case '"':
			inStr = true
		case '[', '{', '(':
			depth++
		case ']', '}', ')':
			depth--
		case ',':
			if depth == 0 {
				args = append(args, strings.TrimSpace(s[start:i]))
				start = i + 1
			}
		}
	}
	if strings.TrimSpace(s[start:]) != "" {
		args = append(args, strings.TrimSpace(s[start:]))
	}
	return args
}

// unquote turns a strace string literal into its value.
func unquote(s string) string {
	s = strings.TrimSuffix(s, "...")
	if len(s) >= 2 && s[0] == '"' && s[len(s)-1] == '"' {
		if u, err := strconv.Unquote(s); err == nil {
			return u
		}
		return s[1 : len(s)-1]
	}
	return s
}

// parseStrace reads a `strace -f -o` log.  killed reports whether the process died from the injected SIGKILL.
func parseStrace(log []byte) (calls []Call, killed bool) {
	pending := map[string]string{}
	for _, ln := range bytes.Split(log, []byte("\n")) {
		m := lineRe.FindSubmatch(ln)
		if m == nil {
			continue
		}
		pid, rest := string(m[1]), string(m[2])
		if strings.HasPrefix(rest, "+++ killed by SIGKILL") {
			killed = true
			continue
		}
		if strings.HasPrefix(rest, "+++") || strings.HasPrefix(rest, "---") {
			continue
		}
		if strings.HasSuffix(rest, "<unfinished ...>") {
			pending[pid] = strings.TrimSuffix(rest, "<unfinished ...>")
			continue
		}
		if strings.HasPrefix(rest, "<... ") {
			k := strings.Index(rest, " resumed>")
			if k < 0 {
				continue
			}
			rest = pending[pid] + rest[k+len(" resumed>"):]
			delete(pending, pid)
		}
		// name(args) = ret
		p := strings.IndexByte(rest, '(')
		eq := strings.LastIndex(rest, " = ")
		if p <= 0 || eq < 0 {
			continue
		}
		c := Call{PID: pid, Name: rest[:p]}
		body := strings.TrimSpace(rest[p+1 : eq])
		body = strings.TrimSuffix(body, ")")
		c.Args = splitArgs(body)
		retf := strings.Fields(rest[eq+3:])
		if len(retf) > 0 {
			c.Ret = retf[0]
		}
		if c.Ret == "-1" && len(retf) > 1 {
			c.Errno = retf[1]
		}
		c.Complete = c.Ret != "?"
		calls = append(calls, c)
	}
	// calls that never resumed were interrupted by the kill
	for pid, pre := range pending {
		p := strings.IndexByte(pre, '(')
		if p > 0 {
			calls = append(calls, Call{PID: pid, Name: pre[:p], Args: splitArgs(strings.TrimSpace(pre[p+1:])), Ret: "?"})
		}
	}
	return calls, killed
}

// Op is one canonical operation.
type Op struct {
	Text     string
	Kind     string // rename openr openw open write close unlink chmod chown utimes mkdir symlink link truncate copy rmdir
	Complete bool   // false: the call was entered but the process was killed before it executed
	Mutates  bool   // changes the tree below root (successful, not a read-only open / close of a read-only fd)
	CallIdx  int    // index of the system call in the parsed log
}

// canonicalise maps calls to operations on paths below root (cwd is the working directory of the traced process).
func canonicalise(calls []Call, root, cwd string) []Op {
	fds := map[string]string{}    // fd -> path relative to root, "" when outside
	wr := map[string]bool{}       // fd opened for writing
	rel := func(p string) (string, bool) {
		if !filepath.IsAbs(p) {
			p = filepath.Join(cwd, p)
		}
		p = filepath.Clean(p)
		r, err := filepath.Rel(root, p)
		if err != nil || r == ".." || strings.HasPrefix(r, "../") {
			return "", false
		}
		return r, true
	}
	at := func(dirfd, p string) (string, bool) {
		p = unquote(p)
		if p == "NULL" {
			r, ok := fds[dirfd]
			return r, ok && r != ""
		}
		if filepath.IsAbs(p) || dirfd == "AT_FDCWD" {
			return rel(p)
		}
		d, ok := fds[dirfd]
		if !ok || d == "" {
			return "", false
		}
		return rel(filepath.Join(root, d, p))
	}
	var ops []Op
	cur := 0
	emit := func(c Call, kind, text string, mutates bool) {
		o := Op{Kind: kind, Text: text, Complete: c.Complete, Mutates: mutates && c.Complete && c.Errno == "", CallIdx: cur}
		if c.Errno != "" {
			o.Text += " !" + c.Errno
		}
		if !c.Complete {
			o.Text += " !KILLED"
		}
		ops = append(ops, o)
	}
	arg := func(c Call, i int) string {
		if i < len(c.Args) {
			return c.Args[i]
		}
		return ""
	}
	for ci, c := range calls {
		cur = ci
		switch c.Name {
		case "open", "openat", "creat":
			var p, flags string
			var ok bool
			switch c.Name {
			case "open":
				p, ok = at("AT_FDCWD", arg(c, 0))
				flags = arg(c, 1)
			case "creat":
				p, ok = at("AT_FDCWD", arg(c, 0))
				flags = "O_WRONLY|O_CREAT|O_TRUNC"
			default:
				p, ok = at(arg(c, 0), arg(c, 1))
				flags = arg(c, 2)
			}
			fl := map[string]bool{}
			var keep []string
			for _, f := range strings.Split(flags, "|") {
				fl[f] = true
				if f != "O_CLOEXEC" && f != "O_LARGEFILE" {
					keep = append(keep, f)
				}
			}
			writable := fl["O_WRONLY"] || fl["O_RDWR"]
			if c.Complete && c.Errno == "" {
				if ok {
					fds[c.Ret] = p
				} else {
					fds[c.Ret] = ""
				}
				wr[c.Ret] = writable
			}
			if !ok {
				continue
			}
			switch {
			case !writable:
				emit(c, "openr", "openr "+p, false)
			case fl["O_WRONLY"] && fl["O_CREAT"] && fl["O_TRUNC"] && len(keep) == 3:
				emit(c, "openw", "openw "+p, true)
			default:
				emit(c, "open", "open "+p+" "+strings.Join(keep, "|"), fl["O_CREAT"] || fl["O_TRUNC"])
			}
		case "write", "pwrite64":
			fd := arg(c, 0)
			n := c.Ret
			if c.Errno != "" || !c.Complete {
				n = "0"
			}
			switch {
			case fd == "1":
				emit(c, "write", "write STDOUT "+n, false)
			case fd == "2":
				emit(c, "write", "write STDERR "+n, false)
			case fds[fd] != "":
				emit(c, "write", "write "+fds[fd]+" "+n, true)
			}
		case "copy_file_range", "sendfile":
			in, out := arg(c, 0), arg(c, 2)
			if c.Name == "sendfile" {
				out, in = arg(c, 0), arg(c, 1)
			}
			n := c.Ret
			if c.Errno != "" || !c.Complete {
				n = "0"
			}
			if fds[out] != "" {
				src := fds[in]
				if src == "" {
					src = "?"
				}
				emit(c, "copy", "copy "+src+" "+fds[out]+" "+n, n != "0")
			}
		case "close":
			fd := arg(c, 0)
			if p := fds[fd]; p != "" {
				emit(c, "close", "close "+p, false)
			}
			if c.Complete && c.Errno == "" {
				delete(fds, fd)
				delete(wr, fd)
			}
		case "rename", "renameat", "renameat2":
			var a, b string
			var oka, okb bool
			if c.Name == "rename" {
				a, oka = at("AT_FDCWD", arg(c, 0))
				b, okb = at("AT_FDCWD", arg(c, 1))
			} else {
				a, oka = at(arg(c, 0), arg(c, 1))
				b, okb = at(arg(c, 2), arg(c, 3))
			}
			if oka || okb {
				emit(c, "rename", "rename "+a+" "+b, true)
			}
		case "unlink":
			if p, ok := at("AT_FDCWD", arg(c, 0)); ok {
				emit(c, "unlink", "unlink "+p, true)
			}
		case "unlinkat":
			if p, ok := at(arg(c, 0), arg(c, 1)); ok {
				if strings.Contains(arg(c, 2), "AT_REMOVEDIR") {
					emit(c, "rmdir", "rmdir "+p, true)
				} else {
					emit(c, "unlink", "unlink "+p, true)
				}
			}
		case "chmod":
			if p, ok := at("AT_FDCWD", arg(c, 0)); ok {
				emit(c, "chmod", "chmod "+p+" "+arg(c, 1), true)
			}
		case "fchmodat":
			if p, ok := at(arg(c, 0), arg(c, 1)); ok {
				emit(c, "chmod", "chmod "+p+" "+arg(c, 2), true)
			}
		case "fchmod":
			if p := fds[arg(c, 0)]; p != "" {
				emit(c, "chmod", "chmod "+p+" "+arg(c, 1), true)
			}
		case "chown", "lchown":
			if p, ok := at("AT_FDCWD", arg(c, 0)); ok {
				emit(c, "chown", "chown "+p, true)
			}
		case "fchownat":
			if p, ok := at(arg(c, 0), arg(c, 1)); ok {
				emit(c, "chown", "chown "+p, true)
			}
		case "fchown":
			if p := fds[arg(c, 0)]; p != "" {
				emit(c, "chown", "chown "+p, true)
			}
		case "utimensat":
			if p, ok := at(arg(c, 0), arg(c, 1)); ok {
				emit(c, "utimes", "utimes "+p, true)
			}
		case "mkdir":
			if p, ok := at("AT_FDCWD", arg(c, 0)); ok {
				emit(c, "mkdir", "mkdir "+p, true)
			}
		case "mkdirat":
			if p, ok := at(arg(c, 0), arg(c, 1)); ok {
				emit(c, "mkdir", "mkdir "+p, true)
			}
		case "symlink":
			if p, ok := at("AT_FDCWD", arg(c, 1)); ok {
				emit(c, "symlink", "symlink "+unquote(arg(c, 0))+" "+p, true)
			}
		case "symlinkat":
			if p, ok := at(arg(c, 1), arg(c, 2)); ok {
				emit(c, "symlink", "symlink "+unquote(arg(c, 0))+" "+p, true)
			}
		case "link":
			a, oka := at("AT_FDCWD", arg(c, 0))
			b, okb := at("AT_FDCWD", arg(c, 1))
			if oka || okb {
				emit(c, "link", "link "+a+" "+b, true)
			}
		case "linkat":
			a, oka := at(arg(c, 0), arg(c, 1))
			b, okb := at(arg(c, 2), arg(c, 3))
			if oka || okb {
				emit(c, "link", "link "+a+" "+b, true)
			}
		case "truncate":
			if p, ok := at("AT_FDCWD", arg(c, 0)); ok {
				emit(c, "truncate", "truncate "+p+" "+arg(c, 1), true)
			}
		case "ftruncate":
			if p := fds[arg(c, 0)]; p != "" {
				emit(c, "truncate", "truncate "+p+" "+arg(c, 1), true)
			}
		}
	}
	return ops
}

// straceRun runs the CLI under strace; inject is "" or "<syscall>:signal=SIGKILL:when=N".
func straceRun(bin, cwd string, argv []string, stdin []byte, logPath, inject string, timeout time.Duration, env ...string) (exit int, stdout, stderr []byte, err error) {
	args := []string{"-f", "-o", logPath, "-e", traceExpr()}
	if inject != "" {
		args = append(args, "--inject="+inject)
	}
	args = append(args, bin)
	args = append(args, argv...)
	ctx, cancel := context.WithTimeout(context.Background(), timeout)
	defer cancel()
	cmd := exec.CommandContext(ctx, "strace", args...)
	cmd.Dir = cwd
	cmd.Stdin = bytes.NewReader(stdin)
	var so, se bytes.Buffer
	cmd.Stdout, cmd.Stderr = &so, &se
	if len(env) > 0 {
		cmd.Env = append(os.Environ(), env...)
	}
	rerr := cmd.Run()
	if ctx.Err() != nil {
		return -1, so.Bytes(), se.Bytes(), fmt.Errorf("timeout")
	}
	if rerr != nil {
		if ee, ok := rerr.(*exec.ExitError); ok {
			return ee.ExitCode(), so.Bytes(), se.Bytes(), nil
		}
		return -1, so.Bytes(), se.Bytes(), rerr
	}
	return 0, so.Bytes(), se.Bytes(), nil
}

// shapeCase is one member of the fixed family.
type shapeCase struct {
	Shape string
	Size  int
	Case  Case
}

func jsOfSize(seed uint64, size int, bad bool) string {
	r := vh.NewRand(seed)
	if bad {
		switch {
		case size == 0:
			return ""
		case size == 1:
			return "("
		case size < 16:
			return strings.Repeat("(", size)
		}
		rest := genContent(r, "js", false, size-8)
		return "var = ;\n" + string(rest)
	}
	return string(genContent(r, "js", false, size))
}

var familySizes = []int{0, 1, 4096, 200000}

// family returns the fixed family of task shapes x sizes.
func family() []shapeCase {
	var out []shapeCase
	for _, sz := range familySizes {
		a := jsOfSize(11, sz, false)
		b := jsOfSize(12, sz, false)
		bad := jsOfSize(13, sz, true)
		css := string(genContent(vh.NewRand(14), "css", false, sz))
		f := func(d string) Node { return Node{Kind: "file", Data: d} }
		add := func(shape string, t Tree, argv ...string) {
			out = append(out, shapeCase{Shape: shape, Size: sz, Case: Case{Mode: "trace", Tree: t, Argv: argv}})
		}
		add("inplace-file", Tree{"a.js": f(a)}, "-o", "a.js", "a.js")
		add("stdout-file(no -o is stdout, not in place)", Tree{"a.js": f(a)}, "a.js")
		add("separate-output-absent", Tree{"a.js": f(a)}, "-o", "out.js", "a.js")
		add("separate-output-existing", Tree{"a.js": f(a), "out.js": f("old old old old old old old old old old old old\n")}, "-o", "out.js", "a.js")
		add("dir-to-dir", Tree{"src/a.js": f(a), "src/sub/b.css": f(css)}, "-r", "-o", "out/", "src/")
		add("dir-to-dir-serial(-v)", Tree{"src/a.js": f(a), "src/sub/b.css": f(css)}, "-v", "-r", "-o", "out/", "src/")
		add("inplace-dir", Tree{"src/a.js": f(a), "src/sub/b.css": f(css)}, "-r", "-o", "src/", "src/")
		add("inplace-dir-serial(-v)", Tree{"src/a.js": f(a), "src/sub/b.css": f(css)}, "-v", "-r", "-o", "src/", "src/")
		add("inplace-dir-without-o(usage error)", Tree{"src/a.js": f(a)}, "-r", "src/")
		add("bundle", Tree{"a.js": f(a), "b.js": f(b)}, "-b", "-o", "out.js", "a.js", "b.js")
		add("bundle-onto-input", Tree{"a.js": f(a), "b.js": f(b)}, "-b", "-o", "a.js", "a.js", "b.js")
		add("bundle-onto-second-input", Tree{"a.js": f(a), "b.js": f(b), "c.js": f(a)}, "-b", "-o", "b.js", "a.js", "b.js", "c.js")
		add("bundle-onto-last-input", Tree{"a.js": f(a), "b.js": f(b)}, "-b", "-o", "b.js", "a.js", "b.js")
		add("inplace-source-is-symlink", Tree{"app.js": f(a), "latest.js": Node{Kind: "symlink", Target: "app.js"}}, "-o", "app.js", "latest.js")
		add("inplace-destination-is-symlink", Tree{"app.js": f(a), "latest.js": Node{Kind: "symlink", Target: "app.js"}}, "-o", "latest.js", "app.js")
		add("inplace-destination-is-hardlink", Tree{"app.js": f(a), "other.js": Node{Kind: "hardlink", Target: "app.js"}}, "-o", "other.js", "app.js")
		add("inplace-other-spelling", Tree{"d/a.js": f(a)}, "-o", "d/../d/a.js", "d/a.js")
		add("sync", Tree{"src/a.js": f(a), "src/readme.txt": f(strings.Repeat("t", sz))}, "-r", "-s", "-o", "out/", "src/")
		add("sync-serial(-v)", Tree{"src/a.js": f(a), "src/readme.txt": f(strings.Repeat("t", sz))}, "-v", "-r", "-s", "-o", "out/", "src/")
		add("fail-inplace", Tree{"bad.js": f(bad)}, "-o", "bad.js", "bad.js")
		add("fail-separate-output", Tree{"bad.js": f(bad)}, "-o", "out.js", "bad.js")
		add("preserve-explicit", Tree{"a.js": Node{Kind: "file", Data: a, Mode: 0o640}}, "--preserve=mode,timestamps", "-o", "out.js", "a.js")
		add("preserve-all-dir", Tree{"src/sub/a.js": Node{Kind: "file", Data: a, Mode: 0o600}, "src/sub": Node{Kind: "dir", Mode: 0o750}}, "-p", "all", "-r", "-o", "out/", "src/")
		add("preserve-links-sync", Tree{"src/a.js": f(a), "src/l.js": Node{Kind: "symlink", Target: "a.js"}}, "-v", "-r", "-s", "--preserve=links", "-o", "out/", "src/")
	}
	return out
}

// TraceRec is one element of traces.json.
type TraceRec struct {
	Shape   string         `json:"shape"`
	Argv    []string       `json:"argv"`
	Files   map[string]int `json:"files"`
	LibOK   bool           `json:"lib_ok"`
	OutLen  int            `json:"outlen"`
	OutLens map[string]int `json:"outlens,omitempty"`
	Tasks   int            `json:"tasks"`
	Exit    int            `json:"exit"`
	Ops     []string       `json:"ops"`
}

// traceOne runs one case under strace and returns the record plus raw data for crash mode.
type traced struct {
	rec    TraceRec
	calls  []Call
	ops    []Op
	exp    *Expect
	before Snapshot
	after  Snapshot
	nj     string
}

func traceCase(bin, work string, c Case, shape string) (*traced, error) {
	root, err := newScratch(work)
	if err != nil {
		return nil, err
	}
	defer os.RemoveAll(root)
	tree := filepath.Join(root, "w")
	if err := os.Mkdir(tree, 0o755); err != nil {
		return nil, err
	}
	if err := c.Tree.Materialise(tree); err != nil {
		return nil, err
	}
	argv := substRoot(c.Argv, tree)
	tr := &traced{}
	inv, unparsed := ParseArgv(argv)
	if unparsed != "" {
		tr.nj = "argv:" + unparsed
		return tr, nil
	}
	tr.exp = Reference(tree, inv, []byte(c.Stdin))
	clearRepaired(tr.exp) // shapes of repaired conditions are kill-tested like any other
	tr.before, err = Snap(tree)
	if err != nil {
		return nil, err
	}
	logPath := filepath.Join(root, "strace.log")
	exit, _, _, err := straceRun(bin, tree, argv, []byte(c.Stdin), logPath, "", 30*time.Second)
	if err != nil {
		return nil, fmt.Errorf("strace: %v", err)
	}
	log, err := os.ReadFile(logPath)
	if err != nil {
		return nil, err
	}
	tr.calls, _ = parseStrace(log)
	tr.ops = canonicalise(tr.calls, tree, tree)
	tr.after, _ = Snap(tree)
	rec := TraceRec{Shape: shape, Argv: c.Argv, Files: map[string]int{}, LibOK: true, Exit: exit, Ops: []string{}}
	for p, n := range c.Tree {
		if n.Kind == "file" {
			rec.Files[p] = len(n.Bytes())
		}
	}
	if tr.exp.NotJudged == "" {
		rec.Tasks = len(tr.exp.Tasks)
		for _, t := range tr.exp.Tasks {
			if t.Failed {
				rec.LibOK = false
			}
			if t.Link {
				continue
			}
			rec.OutLen += len(t.Output)
			if len(tr.exp.Tasks) > 1 {
				if rec.OutLens == nil {
					rec.OutLens = map[string]int{}
				}
				rec.OutLens[t.DstRel] = len(t.Output)
			}
		}
	}
	for _, o := range tr.ops {
		rec.Ops = append(rec.Ops, o.Text)
	}
	tr.rec = rec
	return tr, nil
}

func runTrace(bin, work, out string, res *vh.Result) {
	res.Rule = "evaluations = traces recorded; distinct_nontrivial = traces in which the command changed the file system"
	var fam []shapeCase
	if *flagWitness != "" {
		fam = []shapeCase{{Shape: "witness", Case: loadWitness(*flagWitness)}}
	} else {
		fam = family()
	}
	recs := make([]*traced, len(fam))
	errs := make([]error, len(fam))
	parallel(len(fam), func(i int) {
		recs[i], errs[i] = traceCase(bin, work, fam[i].Case, fmt.Sprintf("%s/%d", fam[i].Shape, fam[i].Size))
	})
	var list []TraceRec
	for i, tr := range recs {
		if errs[i] != nil {
			fatal("trace %s: %v", fam[i].Shape, errs[i])
		}
		if tr.nj != "" {
			res.NotJudged++
			res.Hist("not_judged", tr.nj)
			continue
		}
		res.Evaluations++
		list = append(list, tr.rec)
		res.Hist("shapes", fam[i].Shape)
		for _, o := range tr.ops {
			res.Hist("ops", o.Kind)
		}
		if tr.before.Hash(nil) != tr.after.Hash(nil) {
			res.DistinctNontrivial++
			res.Hist("outcomes", "changed")
		} else {
			res.Hist("outcomes", "unchanged")
		}
		if len(res.Samples) < 3 && (i == 0 || i == len(fam)/2 || i == len(fam)-8) {
			res.Samples = append(res.Samples, map[string]interface{}{"argv": tr.rec.Argv, "tree": fam[i].Case.Tree.Listing(), "result": tr.rec.Ops, "shape": tr.rec.Shape})
		}
	}
	b, _ := json.MarshalIndent(list, "", " ")
	if err := os.WriteFile(filepath.Join(out, "traces.json"), b, 0o644); err != nil {
		fatal("%v", err)
	}
	res.Extra["strace"] = "strace -f -o <log> -e " + traceExpr() + " <bin> <argv>"
}
