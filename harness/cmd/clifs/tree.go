package main

// Scratch trees: specification, materialisation, snapshots and diffs.

import (
	"crypto/sha256"
	"encoding/hex"
	"fmt"
	"os"
	"path/filepath"
	"sort"
	"strings"
	"syscall"
	"time"
)

// Node is one entry of a tree specification (the witness format).
type Node struct {
	Kind    string `json:"kind"` // file | dir | symlink | hardlink
	Data    string `json:"data,omitempty"`
	DataHex string `json:"data_hex,omitempty"` // used instead of Data for non-UTF-8 content
	Target  string `json:"target,omitempty"`   // symlink: link text; hardlink: tree path of the other name
	Mode    uint32 `json:"mode,omitempty"`     // permission bits, 0 = 0644 / 0755
}

type Tree map[string]Node

func (n Node) Bytes() []byte {
	if n.DataHex != "" {
		b, err := hex.DecodeString(n.DataHex)
		if err == nil {
			return b
		}
	}
	return []byte(n.Data)
}

func (t Tree) Clone() Tree {
	c := Tree{}
	for k, v := range t {
		c[k] = v
	}
	return c
}

func (t Tree) Paths() []string {
	ps := make([]string, 0, len(t))
	for p := range t {
		ps = append(ps, p)
	}
	sort.Strings(ps)
	return ps
}

// Listing is the compact printable form used in samples and violation inputs.
func (t Tree) Listing() []string {
	var out []string
	for _, p := range t.Paths() {
		n := t[p]
		switch n.Kind {
		case "dir":
			out = append(out, p+"/")
		case "symlink":
			out = append(out, p+" -> "+n.Target)
		case "hardlink":
			out = append(out, p+" => "+n.Target)
		default:
			d := n.Bytes()
			s := string(d)
			if len(s) > 40 {
				s = s[:40] + "..."
			}
			out = append(out, fmt.Sprintf("%s (%d B) %q", p, len(d), s))
		}
	}
	return out
}

var baseTime = time.Date(2001, 2, 3, 4, 5, 6, 0, time.UTC)

// Materialise creates the tree under root (which must exist and be empty).
// File mtimes are set to distinct old instants so that timestamp preservation is observable.
func (t Tree) Materialise(root string) error {
	paths := t.Paths()
	// directories first (parents are implied)
	for _, p := range paths {
		if t[p].Kind == "dir" {
			if err := os.MkdirAll(filepath.Join(root, p), 0o755); err != nil {
				return err
			}
		}
	}
	for i, p := range paths {
		n := t[p]
		if n.Kind != "file" {
			continue
		}
		full := filepath.Join(root, p)
		if err := os.MkdirAll(filepath.Dir(full), 0o755); err != nil {
			return err
		}
		if err := os.WriteFile(full, n.Bytes(), 0o644); err != nil {
			return err
		}
		mode := os.FileMode(0o644)
		if n.Mode != 0 {
			mode = os.FileMode(n.Mode)
		}
		if err := os.Chmod(full, mode); err != nil {
			return err
		}
		mt := baseTime.Add(time.Duration(i) * 1000 * time.Second)
		if err := os.Chtimes(full, mt, mt); err != nil {
			return err
		}
	}
	for _, p := range paths {
		n := t[p]
		full := filepath.Join(root, p)
		switch n.Kind {
		case "symlink":
			if err := os.MkdirAll(filepath.Dir(full), 0o755); err != nil {
				return err
			}
			if err := os.Symlink(n.Target, full); err != nil {
				return err
			}
		case "hardlink":
			if err := os.MkdirAll(filepath.Dir(full), 0o755); err != nil {
				return err
			}
			if err := os.Link(filepath.Join(root, n.Target), full); err != nil {
				return err
			}
		}
	}
	// directory modes and times last (deepest first so that children do not disturb parents)
	for i := len(paths) - 1; i >= 0; i-- {
		p := paths[i]
		n := t[p]
		if n.Kind != "dir" {
			continue
		}
		full := filepath.Join(root, p)
		mode := os.FileMode(0o755)
		if n.Mode != 0 {
			mode = os.FileMode(n.Mode)
		}
		if err := os.Chmod(full, mode); err != nil {
			return err
		}
		mt := baseTime.Add(time.Duration(i)*1000*time.Second + 500*time.Second)
		os.Chtimes(full, mt, mt)
	}
	return nil
}

// Entry is one path of a snapshot.
type Entry struct {
	Kind   string // file | dir | symlink | other
	Data   []byte
	Mode   os.FileMode // permission bits only
	Target string
	Mtime  time.Time
	Ino    uint64
	Nlink  uint64
	UID    uint32
}

type Snapshot map[string]Entry

// Snap records every path below root (root itself excluded), not following symlinks.
func Snap(root string) (Snapshot, error) {
	s := Snapshot{}
	err := filepath.Walk(root, func(p string, info os.FileInfo, err error) error {
		if err != nil {
			return err
		}
		if p == root {
			return nil
		}
		rel, _ := filepath.Rel(root, p)
		e := Entry{Mode: info.Mode().Perm(), Mtime: info.ModTime()}
		if st, ok := info.Sys().(*syscall.Stat_t); ok {
			e.Ino, e.Nlink, e.UID = st.Ino, uint64(st.Nlink), st.Uid
		}
		switch {
		case info.Mode()&os.ModeSymlink != 0:
			e.Kind = "symlink"
			e.Target, _ = os.Readlink(p)
		case info.IsDir():
			e.Kind = "dir"
		case info.Mode().IsRegular():
			e.Kind = "file"
			b, err := os.ReadFile(p)
			if err != nil {
				return err
			}
			e.Data = b
		default:
			e.Kind = "other"
		}
		s[rel] = e
		return nil
	})
	return s, err
}

func (s Snapshot) Paths() []string {
	ps := make([]string, 0, len(s))
	for p := range s {
		ps = append(ps, p)
	}
	sort.Strings(ps)
	return ps
}

// Hash is a digest of the whole tree image (kind, bytes, mode, link target of every path).
func (s Snapshot) Hash(skip func(string) bool) string {
	h := sha256.New()
	for _, p := range s.Paths() {
		if skip != nil && skip(p) {
			continue
		}
		e := s[p]
		fmt.Fprintf(h, "%s\x00%s\x00%o\x00%s\x00%d\x00", p, e.Kind, e.Mode, e.Target, len(e.Data))
		h.Write(e.Data)
	}
	return hex.EncodeToString(h.Sum(nil))[:16]
}

// Listing of a snapshot for reports.
func (s Snapshot) Listing() []string {
	var out []string
	for _, p := range s.Paths() {
		e := s[p]
		switch e.Kind {
		case "dir":
			out = append(out, fmt.Sprintf("%s/ %o", p, e.Mode))
		case "symlink":
			out = append(out, p+" -> "+e.Target)
		default:
			out = append(out, fmt.Sprintf("%s %o (%d B) %s", p, e.Mode, len(e.Data), clip(e.Data, 40)))
		}
	}
	return out
}

func clip(b []byte, n int) string {
	s := string(b)
	if len(s) > n {
		return fmt.Sprintf("%q...", s[:n])
	}
	return fmt.Sprintf("%q", s)
}

// under reports whether path p is dir itself or below it.
func under(p, dir string) bool {
	if dir == "." || dir == "" {
		return true
	}
	return p == dir || strings.HasPrefix(p, dir+"/")
}

func isHiddenPath(p string) bool {
	for _, c := range strings.Split(p, "/") {
		if len(c) > 0 && c[0] == '.' && c != "." && c != ".." {
			return true
		}
	}
	return false
}
