// conccheck: oracle for C13 — one registered registry used from many goroutines at once. Built with -race by bin/check.
//
//	conccheck -seed N -n COUNT -out DIR [-tier quick|thorough] [-witness FILE]
//
// Every result is compared with the sequential result of the same call, option structs with deep copies taken before,
// a watchdog detects calls blocked on one another; data races are reported by the race detector (GORACE log_path).
package main

import (
	"bytes"
	"encoding/json"
	"flag"
	"fmt"
	"io"
	"os"
	"os/exec"
	"path/filepath"
	"reflect"
	"regexp"
	"runtime"
	"strings"
	"sync"
	"time"

	"github.com/tdewolff/minify/v2"
	"github.com/tdewolff/minify/v2/css"
	"github.com/tdewolff/minify/v2/html"
	"github.com/tdewolff/minify/v2/js"
	mjson "github.com/tdewolff/minify/v2/json"
	"github.com/tdewolff/minify/v2/svg"
	"github.com/tdewolff/minify/v2/xml"
	"verifharness/internal/vh"
)

var res = &vh.Result{Engine: "conccheck"}
var mu sync.Mutex

func viol(sig, in, obs, exp, det string) {
	mu.Lock()
	defer mu.Unlock()
	if len(res.Violations) < 200 {
		res.Violations = append(res.Violations, vh.Violation{Kind: "oracle", Signature: sig, Input: trunc(in, 300), Observed: trunc(obs, 300), Expected: trunc(exp, 300), Detail: det})
	}
}

func trunc(s string, n int) string {
	if len(s) > n {
		return s[:n] + "..."
	}
	return s
}

type opts struct {
	css  *css.Minifier
	html *html.Minifier
	js   *js.Minifier
	json *mjson.Minifier
	svg  *svg.Minifier
	xml  *xml.Minifier
}

func build(variant int) (*minify.M, opts) {
	o := opts{
		css:  &css.Minifier{Precision: variant % 3, KeepCSS2: variant%2 == 1},
		html: &html.Minifier{KeepEndTags: variant%2 == 1, KeepQuotes: variant%3 == 1, KeepSpecialComments: variant%2 == 0},
		js:   &js.Minifier{KeepVarNames: variant%2 == 1, Version: []int{0, 2015, 2020}[variant%3]},
		json: &mjson.Minifier{KeepNumbers: variant%2 == 1},
		svg:  &svg.Minifier{Precision: variant % 3, KeepComments: variant%2 == 1},
		xml:  &xml.Minifier{KeepWhitespace: variant%2 == 1},
	}
	m := minify.New()
	m.Add("text/css", o.css)
	m.Add("text/html", o.html)
	m.Add("image/svg+xml", o.svg)
	m.AddRegexp(regexp.MustCompile("^(application|text)/(x-)?(java|ecma)script$"), o.js)
	m.AddRegexp(regexp.MustCompile("[/+]json$"), o.json)
	m.AddRegexp(regexp.MustCompile("[/+]xml$"), o.xml)
	return m, o
}

type call struct {
	entry string // minify | bytes | string | reader | writer | match
	mt    string
	in    string
}

func doCall(m *minify.M, c call) (string, string) {
	switch c.entry {
	case "minify":
		var w bytes.Buffer
		err := m.Minify(c.mt, &w, strings.NewReader(c.in))
		return w.String(), errS(err)
	case "bytes":
		b, err := m.Bytes(c.mt, []byte(c.in))
		return string(b), errS(err)
	case "string":
		s, err := m.String(c.mt, c.in)
		return s, errS(err)
	case "reader":
		b, err := io.ReadAll(m.Reader(c.mt, strings.NewReader(c.in)))
		return string(b), errS(err)
	case "writer":
		var w bytes.Buffer
		z := m.Writer(c.mt, &w)
		for i := 0; i < len(c.in); i += 97 {
			e := i + 97
			if e > len(c.in) {
				e = len(c.in)
			}
			z.Write([]byte(c.in[i:e]))
		}
		err := z.Close()
		return w.String(), errS(err)
	default:
		name, params, f := m.Match(c.mt)
		return fmt.Sprint(name, len(params), f != nil), ""
	}
}

func errS(e error) string {
	if e == nil {
		return ""
	}
	return e.Error()
}

var docs = map[string][]string{}

func loadDocs() {
	add := func(mt, s string) { docs[mt] = append(docs[mt], s) }
	add("text/html", `<!doctype html><html><head><title>t</title><style>a { color : #ff0000 }</style><script>var a = 1 + 2; function f(x){ return x }</script></head><body><p class=" a  b " style="color: red" onclick="javascript:f( 1 )">x <b>y</b> <a href="data:text/css;base64,YSB7IGNvbG9yIDogcmVkIH0=">z</a></p><svg><path d="M 10 10 L 20 20 z"/><style>b{c:d}</style></svg><script type="application/ld+json">{ "a" : 1.0 }</script><iframe srcdoc="x"></iframe></body></html>`)
	add("text/css", `a{b:url(data:image/svg+xml,%3Csvg%20xmlns=%22http://www.w3.org/2000/svg%22%3E%3Cpath%20d=%22M0%200L10%2010%22/%3E%3C/svg%3E);margin:0px 1px 0px 1px;color:rgb(255,0,0)}`)
	add("image/svg+xml", `<svg xmlns="http://www.w3.org/2000/svg"><style>a { b : c }</style><g style="fill: #ff0000"><path d="M10,10 L20,20 30,30z"/></g></svg>`)
	add("application/javascript", "function g(aaa,bbb){var ccc=aaa+bbb;if(ccc){return ccc*2}else{return 0}}\nvar x=g(1,2)+`t${x}`;")
	add("application/json", `{ "a" : [ 1.0 , 2e3 ] , "b" : { "c" : null } }`)
	add("text/xml", `<?xml version="1.0"?><a>  <b x='1'> t </b> <![CDATA[ c ]]> </a>`)
	add("text/html", "<p>broken <script>var a = ;</script>")
	add("application/javascript", "var a = ;")
	for mt, glob := range map[string]string{"text/css": "*.css", "text/html": "*.html", "image/svg+xml": "*.svg", "application/javascript": "*.js", "application/json": "*.json", "text/xml": "*.xml"} {
		files, _ := filepath.Glob("/repo/_benchmarks/" + glob)
		for _, f := range files {
			if b, err := os.ReadFile(f); err == nil && len(b) > 0 && len(b) < 120000 {
				add(mt, string(b))
			}
		}
	}
}

func main() {
	seed := flag.Uint64("seed", 1, "")
	n := flag.Int("n", 600, "")
	outDir := flag.String("out", ".", "")
	tier := flag.String("tier", "quick", "")
	witness := flag.String("witness", "", "")
	flag.Parse()
	os.MkdirAll(*outDir, 0o755)
	res.Seed, res.Tier = *seed, *tier
	if *tier == "thorough" && *n == 600 {
		*n = 6000
	}
	loadDocs()
	r := vh.NewRand(*seed)
	entries := []string{"minify", "bytes", "string", "reader", "writer", "match"}
	var mts []string
	for mt := range docs {
		mts = append(mts, mt)
	}
	// deterministic order
	for i := 0; i < len(mts); i++ {
		for j := i + 1; j < len(mts); j++ {
			if mts[j] < mts[i] {
				mts[i], mts[j] = mts[j], mts[i]
			}
		}
	}
	only := ""
	if *witness != "" {
		var w struct {
			Input string `json:"input"`
		}
		b, _ := os.ReadFile(*witness)
		json.Unmarshal(b, &w)
		only = w.Input
	}

	if only == "" || only == "registry" {
		for round, cfg := range []struct{ gor, procs int }{{2, 1}, {8, 4}, {64, 16}, {16, 16}} {
			runtime.GOMAXPROCS(cfg.procs)
			m, o := build(round)
			before := []interface{}{*o.css, *o.html, *o.js, *o.json, *o.svg, *o.xml}
			var calls []call
			for i := 0; i < *n/4; i++ {
				mt := mts[r.Intn(len(mts))]
				d := docs[mt][r.Intn(len(docs[mt]))]
				q := mt
				if r.Chance(1, 4) {
					q = mt + "; charset=utf-8"
				}
				calls = append(calls, call{entries[r.Intn(len(entries))], q, d})
			}
			// sequential reference (twice: repeating a call gives the same bytes)
			want := make([][2]string, len(calls))
			for i, c := range calls {
				a, e := doCall(m, c)
				want[i] = [2]string{a, e}
				if i%7 == 0 {
					a2, e2 := doCall(m, c)
					if a2 != a || e2 != e {
						viol("nondeterministic-repeat", c.entry+" "+c.mt, a2, a, "two sequential calls differ")
					}
				}
			}
			// concurrent
			got := make([][2]string, len(calls))
			var wg sync.WaitGroup
			idx := make(chan int, len(calls))
			for i := range calls {
				idx <- i
			}
			close(idx)
			done := make(chan struct{})
			for g := 0; g < cfg.gor; g++ {
				wg.Add(1)
				go func() {
					defer wg.Done()
					for i := range idx {
						a, e := doCall(m, calls[i])
						got[i] = [2]string{a, e}
					}
				}()
			}
			go func() { wg.Wait(); close(done) }()
			blocked := false
			select {
			case <-done:
			case <-time.After(30 * time.Second):
				viol("calls-blocked", fmt.Sprintf("%d goroutines, GOMAXPROCS %d", cfg.gor, cfg.procs), "concurrent calls did not finish in 30 s", "every call returns", "one registered registry, no registration in flight: no call may block on another")
				blocked = true
			}
			if blocked {
				// the goroutines are still running: their results must not be read; report what was found and stop
				res.Rule = "run stopped: concurrent calls blocked"
				res.Write(filepath.Join(*outDir, "result.json"))
				os.Exit(0)
			}
			for i := range calls {
				res.Evaluations++
				res.Hist("entry", calls[i].entry)
				if got[i] != want[i] {
					viol("concurrent-result-differs", calls[i].entry+" "+calls[i].mt+" "+trunc(calls[i].in, 80), got[i][0]+" / "+got[i][1], want[i][0]+" / "+want[i][1], fmt.Sprintf("%d goroutines, GOMAXPROCS %d", cfg.gor, cfg.procs))
				}
				if want[i][0] != calls[i].in {
					res.DistinctNontrivial++
				}
			}
			after := []interface{}{*o.css, *o.html, *o.js, *o.json, *o.svg, *o.xml}
			for i := range before {
				if !reflect.DeepEqual(before[i], after[i]) {
					viol("option-struct-mutated", fmt.Sprintf("%T", before[i]), fmt.Sprintf("%+v", after[i]), fmt.Sprintf("%+v", before[i]), "")
				}
			}
		}
	}
	runtime.GOMAXPROCS(16)
	// deprecated html option that writes the caller's struct (known finding K36)
	if only == "" || only == "K36" {
		o := &html.Minifier{KeepConditionalComments: true}
		before := *o
		m := minify.New()
		m.Add("text/html", o)
		old := os.Stdout
		devnull, _ := os.Open(os.DevNull)
		os.Stdout, _ = os.OpenFile(os.DevNull, os.O_WRONLY, 0)
		m.String("text/html", "<p>x<!--[if IE]>y<![endif]-->")
		os.Stdout = old
		devnull.Close()
		res.Evaluations++
		if !reflect.DeepEqual(before, *o) {
			viol("K36-html-deprecated-option-mutates-struct", "html.Minifier{KeepConditionalComments:true}", fmt.Sprintf("%+v", *o), fmt.Sprintf("%+v", before), "the caller's option struct was written by Minify")
		}
	}
	// command minifiers: repeated and concurrent calls with $in/$out placeholders
	if only == "" || only == "cmd" {
		m := minify.New()
		m.AddCmd("text/x-cat", exec.Command("sh", "-c", "cat $0 > $1", "$in.txt", "$out.txt"))
		m.AddCmd("text/x-stdin", exec.Command("cat"))
		for _, mt := range []string{"text/x-cat", "text/x-stdin"} {
			a, e1 := m.String(mt, "first")
			b, e2 := m.String(mt, "second")
			res.Evaluations += 2
			if e1 != nil || e2 != nil || a != "first" || b != "second" {
				viol("cmd-minifier-repeat", mt, a+" | "+b+" | "+errS(e1)+errS(e2), "first | second", "second call must see its own input")
			}
			var wg sync.WaitGroup
			for g := 0; g < 8; g++ {
				wg.Add(1)
				go func(g int) {
					defer wg.Done()
					in := fmt.Sprintf("payload-%d", g)
					out, err := m.String(mt, in)
					mu.Lock()
					res.Evaluations++
					mu.Unlock()
					if err != nil || out != in {
						viol("cmd-minifier-concurrent", mt, out+" "+errS(err), in, "")
					}
				}(g)
			}
			wg.Wait()
		}
	}
	res.Rule = "one fully registered registry (literal and pattern registrations, shared option structs) used from 2/8/64/16 goroutines with GOMAXPROCS 1/4/16/16 through Minify, Bytes, String, Reader, Writer and Match over benchmark documents of all six types and documents whose embedded content re-enters the registry; every result compared with the sequential result, repeated calls compared, option structs deep-compared, 120 s watchdog; command minifiers repeated and concurrent; run under the race detector; distinct_nontrivial = calls whose output differs from the input"
	res.Samples = []interface{}{map[string]string{"entry": "writer", "mediatype": "text/html; charset=utf-8", "document": trunc(docs["text/html"][0], 160)}}
	if err := res.Write(filepath.Join(*outDir, "result.json")); err != nil {
		panic(err)
	}
}
