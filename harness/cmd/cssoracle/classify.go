package main

// Root-cause classification: maps a finding onto the ids of defects that are already known on the
// pinned tree (K..: known before this tool, N..: found by this tool). The id becomes the prefix of
// the signature. Classification never suppresses a finding.

import (
	"regexp"
	"strings"
)

var (
	reRightPct      = regexp.MustCompile(`(?i)right[\s]+(/\*.*?\*/\s*)?[-+]?[0-9.]+(e[-+]?[0-9]+)?%`)
	reBottomPct     = regexp.MustCompile(`(?i)bottom[\s]+(/\*.*?\*/\s*)?[-+]?[0-9.]+(e[-+]?[0-9]+)?%`)
	reFarFracPct    = regexp.MustCompile(`(?i)(right|bottom)[\s]+(/\*.*?\*/\s*)?[-+]?[0-9]*\.[0-9]*[1-9][0-9]*(e[-+]?[0-9]+)?%`)
	reFarExpPct     = regexp.MustCompile(`(?i)(right|bottom)[\s]+(/\*.*?\*/\s*)?[-+]?[0-9.]+e-[0-9]+%`)
	reQuotedKw      = regexp.MustCompile(`(?i)["'](inherit|initial|unset|revert|revert-layer|default|serif|sans-serif|monospace|cursive|fantasy|system-ui|ui-serif|ui-sans-serif|ui-monospace|ui-rounded|emoji|math|fangsong)["']`)
	reExpNumber     = regexp.MustCompile(`[0-9.][eE][-+]?[0-9]`)
	reHslNumbers    = regexp.MustCompile(`(?i)hsla?\(\s*[-+0-9.a-z]+\s+[-+]?[0-9.]+\s+[-+]?[0-9.]+\s*(/|\))`)
	reAngleZero     = regexp.MustCompile(`(?i)(^|[^0-9a-z.#_-])[-+]?(0*\.?0+|0+\.?0*)(e[-+]?[0-9]+)?(deg|rad|grad|turn)\b`)
	reAll9          = regexp.MustCompile(`(^|[^0-9.])0*\.?0*9`)
	reSFlag         = regexp.MustCompile(`(?i)\ss\s*\]`)
	reSlashStar     = regexp.MustCompile(`/\s+\*`)
	rePlusGlue      = regexp.MustCompile(`\([^)]*[0-9a-zA-Z%]\+[0-9.]`)
	reHexEscComment = regexp.MustCompile(`\\[0-9a-fA-F]{1,6}/\*`)
	reCommentGlue   = regexp.MustCompile(`[A-Za-z0-9_%-]/\*.*?\*/[A-Za-z0-9_#.-]`)
	reDanglingDot   = regexp.MustCompile(`[0-9]\.([^0-9]|$)`)
	reTwoValueSize  = regexp.MustCompile(`(?i)/\s*[-+]?[0-9.]+(e[-+]?[0-9]+)?[a-z%]*\s+[-+]?[0-9.]+(e[-+]?[0-9]+)?[a-z%]*`)
	reNewMath       = regexp.MustCompile(`(?i)(^|[^a-z-])(hypot|abs|sign|mod|rem|round|sin|cos|tan|asin|acos|atan|atan2|pow|sqrt|log|exp)\(`)
	reDashFamily    = regexp.MustCompile(`\s-[A-Za-z][A-Za-z0-9-]*\s+[A-Za-z]`)
)

func classify(f *Finding, input string, cfg Config) {
	if reHexEscComment.MatchString(f.InPart) && (strings.Contains(f.Sig, "ident:") || strings.Contains(f.Sig, "tokens-") || strings.Contains(f.Sig, "fusion:")) {
		f.ID = "N20"
		return
	}
	rawIn := f.InPart
	in := stripComments(f.InPart)
	low := strings.ToLower(in)
	sig := f.Sig
	has := func(s string) bool { return strings.Contains(sig, s) }
	switch {
	case f.Kind == "panic":
		// N21: a third box keyword in background after "padding-box border-box" (index -1 in minifyProperty)
		if n21Shape(input) && strings.Contains(f.Detail, "minifyProperty") {
			f.ID = "N21"
		}
		return
	case f.Kind == "timeout":
		return
	case strings.HasPrefix(sig, "selector:case-changed"):
		f.ID = "K22"
	case strings.HasPrefix(sig, "selector:") && reSFlag.MatchString(in):
		f.ID = "N05"
	case has("fusion:") && reCommentGlue.MatchString(rawIn) && (f.Kind == "selector" || strings.HasPrefix(sig, "opaque-block:") || strings.HasPrefix(sig, "junk:") || strings.HasPrefix(sig, "custom-property:")):
		f.ID = "N06"
	case f.Family != "unicode-range" && oddUnit(in) && (has("number:") || has("tokens-") || has("zero-unit") || has("output-not-in-grammar") || has("fusion:")):
		f.ID = "N18"
	case f.Kind == "decl" && rePlusGlue.MatchString(in) && (has("number:") || has("fusion:") || has("tokens-")):
		f.ID = "N19"
	case strings.Contains(low, "lightslateblue"):
		f.ID = "K21"
	case f.Family == "unicode-range" && has("output-not-in-grammar"):
		f.ID = "N15"
	case reNewMath.MatchString(in) && (f.Family == "bgpos" || f.Family == "background") && (has("output-not-in-grammar") || has("tokens-") || has("position-")):
		f.ID = "N22" // a math function as an offset of a background position (before the rules of repaired findings, whose shapes it can contain)
	case cfg.Keep && hasExponentNumber(Tokenize(preprocess(in))) && (has("number:") || has("fusion:") || has("tokens-") || has("output-not-in-grammar") || has("zero-unit") || has("unit-changed")):
		f.ID = "N01"
	case cfg.Keep && cfg.Prec > 0 && reAll9.MatchString(in) && reDanglingDot.MatchString(f.OutPart) && (has("number:") || has("tokens-") || has("fusion:") || has("output-not-in-grammar")):
		f.ID = "K29"
	case (f.Family == "bgpos" || f.Family == "background") && reRightPct.MatchString(in) && reBottomPct.MatchString(in):
		f.ID = "K20"
	case (f.Family == "bgpos" || f.Family == "background") && farPctNotPlainInt(in):
		f.ID = "N03"
	case reNewMath.MatchString(in) && has("zero-unit-dropped:length"):
		f.ID = "N13" // K92, repaired: a recurrence is a new violation
	case f.Family == "bgpos" && laterLayerHas3(in):
		f.ID = "N16"
	case f.Family == "background" && reTwoValueSize.MatchString(in) && (has("width:") || has("height:") || has("size:") || has("output-not-in-grammar")):
		f.ID = "N14"
	case has("zero-unit-dropped:length"):
		f.ID = "N13"
	case f.Family == "border-color" && strings.Contains(low, "currentcolor") && has("output-not-in-grammar"):
		f.ID = "N02"
	case f.Family == "font" && has("output-not-in-grammar") && reDashFamily.MatchString(in):
		f.ID = "N17"
	case (f.Family == "font-family" || f.Family == "font") && reQuotedKw.MatchString(in) && has("family:"):
		f.ID = "K23"
	case reHslNumbers.MatchString(in) && (has("color:") || has("tokens-") || has("output-not-in-grammar")):
		f.ID = "N04"
	case has("color:rgb-differs") && alphaZeroHex(in):
		f.ID = "K45"
	case has("zero-unit-dropped:angle"):
		f.ID = "N08"
	case (f.Family == "flex" || f.Family == "flex-basis") && (has("basis:")):
		f.ID = "N09"
	case reSlashStar.MatchString(in) && (has("tokens-") || has("fusion:") || has("important:")):
		f.ID = "N10"
	case f.Kind == "structure" && reSlashStar.MatchString(stripComments(input)):
		f.ID = "N10"
	case has("important:") && strings.Contains(low, "data:") && payloadHasQuote(in):
		f.ID = "N07"
	case has("datauri:") || has("url:") || has("string:") || has("tokens-") || has("output-not-in-grammar"):
		if hasDataScheme(urlOf(in)) || strings.Contains(low, "data:") {
			u := dataPart(in)
			switch {
			case strings.Contains(low, "data:;") && has("mediatype-changed"):
				f.ID = "N12"
			case strings.Contains(u, "\\"):
				f.ID = "N11"
			case plusInPlainDataURI(in) && has("payload-changed"):
				f.ID = "K40"
			case payloadHasQuote(in):
				f.ID = "N07"
			}
		}
		if f.ID == "" && reSlashStar.MatchString(in) {
			f.ID = "N10"
		}
	case reSlashStar.MatchString(in) && (has("tokens-") || has("fusion:")):
		f.ID = "N10"
	}
}

func urlOf(decl string) string {
	i := strings.Index(strings.ToLower(decl), "url(")
	if i < 0 {
		return ""
	}
	s := strings.TrimLeft(decl[i+4:], " \t\n\"'")
	return s
}

func dataPart(decl string) string {
	i := strings.Index(strings.ToLower(decl), "data:")
	if i < 0 {
		return ""
	}
	return decl[i:]
}

// payloadHasQuote: does the decoded payload of a quoted data URI contain its own delimiter?
func payloadHasQuote(decl string) bool {
	for _, t := range Tokenize(preprocess(decl)) {
		var val string
		switch t.K {
		case KString, KURL:
			val = t.Val
		default:
			continue
		}
		if d, ok := parseDataURI(val); ok {
			if strings.ContainsAny(string(d.Payload), "'") {
				return true
			}
		}
	}
	return false
}

func alphaZeroHex(decl string) bool {
	for _, t := range Tokenize(preprocess(decl)) {
		if t.K == KHash {
			h := t.Val
			if len(h) == 8 && h[6] == '0' && h[7] == '0' || len(h) == 4 && h[3] == '0' {
				return true
			}
		}
	}
	return false
}

// plusInPlainDataURI: a literal '+' in the payload of a data URI that is not base64 encoded.
func plusInPlainDataURI(decl string) bool {
	for _, t := range Tokenize(preprocess(decl)) {
		if t.K != KString && t.K != KURL {
			continue
		}
		if !hasDataScheme(t.Val) {
			continue
		}
		if c := strings.IndexByte(t.Val, ','); c >= 0 {
			if !strings.Contains(strings.ToLower(t.Val[:c]), ";base64") && strings.Contains(t.Val[c:], "+") {
				return true
			}
		}
	}
	return false
}

var reFarPct = regexp.MustCompile(`(?i)(right|bottom)\s+([-+]?[0-9.]+(e[-+]?[0-9]+)?)%`)
var rePlainInt = regexp.MustCompile(`^[-+]?0*[0-9]{1,3}(\.0*)?$`)

// farPctNotPlainInt: a percentage offset from right/bottom whose minified lexeme is not a plain
// integer (fraction, or >= 1000 which is printed as 1e3): the minifier reads it with ParseInt.
func farPctNotPlainInt(decl string) bool {
	for _, m := range reFarPct.FindAllStringSubmatch(decl, -1) {
		if !rePlainInt.MatchString(m[2]) {
			return true
		}
	}
	return false
}

// oddUnit: a dimension whose unit is not made of ASCII letters only (escape, digit, '-', '_').
func oddUnit(decl string) bool {
	for _, t := range Tokenize(preprocess(decl)) {
		if t.K != KDimension {
			continue
		}
		u := t.Raw[len(t.NumRepr):]
		for i := 0; i < len(u); i++ {
			c := u[i]
			if !(c >= 'a' && c <= 'z' || c >= 'A' && c <= 'Z') {
				return true
			}
		}
	}
	return false
}

// laterLayerHas3: a background-position list whose second or later layer uses the 3/4-value syntax.
func laterLayerHas3(decl string) bool {
	if i := strings.IndexByte(decl, ':'); i >= 0 {
		decl = decl[i+1:]
	}
	for i, l := range strings.Split(decl, ",") {
		if i > 0 && len(strings.Fields(l)) >= 3 {
			return true
		}
	}
	return false
}

// n21Shape: "padding-box" followed by two more "border-box" (the minifier panics on
// background:padding-box border-box border-box).
func n21Shape(input string) bool {
	l := strings.ToLower(input)
	i := strings.Index(l, "padding-box")
	return i >= 0 && strings.Count(l[i:], "border-box") >= 2
}
