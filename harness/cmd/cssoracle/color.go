package main

// Colour interpretation: CSS Color 4 named colours (x/image colornames = the 147 SVG names, plus
// rebeccapurple and transparent), hex notations, rgb()/rgba()/hsl()/hsla() in legacy (comma) and
// modern (space, "/ alpha") syntax. All arithmetic is exact (math/big.Rat).

import (
	"fmt"
	"math/big"
	"strings"

	"golang.org/x/image/colornames"
)

type Color struct {
	R, G, B *big.Rat // 0..255
	A       *big.Rat // 0..1
	Quant   bool     // came from an 8-bit notation (hex or keyword)
	Special string   // currentcolor
}

func (c *Color) String() string {
	if c.Special != "" {
		return c.Special
	}
	return fmt.Sprintf("rgba(%s,%s,%s,%s)", c.R.FloatString(3), c.G.FloatString(3), c.B.FloatString(3), c.A.FloatString(4))
}

var named = map[string][3]uint8{}

func init() {
	for k, v := range colornames.Map {
		named[k] = [3]uint8{v.R, v.G, v.B}
	}
	named["rebeccapurple"] = [3]uint8{0x66, 0x33, 0x99}
}

func ri(i int64) *big.Rat    { return new(big.Rat).SetInt64(i) }
func rf(a, b int64) *big.Rat { return big.NewRat(a, b) }

func clampRat(v, lo, hi *big.Rat) *big.Rat {
	if v.Cmp(lo) < 0 {
		return new(big.Rat).Set(lo)
	}
	if v.Cmp(hi) > 0 {
		return new(big.Rat).Set(hi)
	}
	return v
}

func isColorKeyword(s string) bool {
	s = strings.ToLower(s)
	if s == "transparent" || s == "currentcolor" {
		return true
	}
	_, ok := named[s]
	return ok
}

func hexColor(h string) (*Color, bool) {
	for i := 0; i < len(h); i++ {
		if !isHex(h[i]) {
			return nil, false
		}
	}
	hv := func(c byte) int64 {
		switch {
		case c <= '9':
			return int64(c - '0')
		case c <= 'F':
			return int64(c-'A') + 10
		}
		return int64(c-'a') + 10
	}
	var v [4]int64
	v[3] = 255
	switch len(h) {
	case 3, 4:
		for i := 0; i < len(h); i++ {
			v[i] = hv(h[i]) * 17
		}
	case 6, 8:
		for i := 0; i < len(h)/2; i++ {
			v[i] = hv(h[2*i])*16 + hv(h[2*i+1])
		}
	default:
		return nil, false
	}
	return &Color{R: ri(v[0]), G: ri(v[1]), B: ri(v[2]), A: rf(v[3], 255), Quant: true}, true
}

// colorOf interprets a component value as a colour.
func colorOf(n Node) (*Color, bool) {
	switch n.T.K {
	case KIdent:
		s := strings.ToLower(n.T.Val)
		if s == "transparent" {
			return &Color{R: ri(0), G: ri(0), B: ri(0), A: ri(0), Quant: true}, true
		}
		if s == "currentcolor" {
			return &Color{Special: "currentcolor"}, true
		}
		if v, ok := named[s]; ok {
			return &Color{R: ri(int64(v[0])), G: ri(int64(v[1])), B: ri(int64(v[2])), A: ri(1), Quant: true}, true
		}
	case KHash:
		if n.T.Raw[1:] != n.T.Val { // escapes inside: not a colour we judge
			return nil, false
		}
		return hexColor(n.T.Val)
	case KFunction:
		if !n.Closed {
			return nil, false
		}
		switch strings.ToLower(n.T.Val) {
		case "rgb", "rgba":
			return colorFn(n, false)
		case "hsl", "hsla":
			return colorFn(n, true)
		}
	}
	return nil, false
}

func colorFn(n Node, hsl bool) (*Color, bool) {
	var args []Node
	legacy := false
	slash := false
	var parts []Node // significant nodes
	for _, k := range n.Kids {
		if k.T.K == KWS {
			continue
		}
		if k.T.Comment && len(parts) > 0 {
			// comment between tokens is fine
		}
		parts = append(parts, k)
		if k.T.K == KComma {
			legacy = true
		}
	}
	if legacy {
		// a , b , c [, d]
		if len(parts) != 5 && len(parts) != 7 {
			return nil, false
		}
		for i, p := range parts {
			if i%2 == 1 {
				if p.T.K != KComma {
					return nil, false
				}
			} else {
				args = append(args, p)
			}
		}
	} else {
		switch len(parts) {
		case 3:
			args = parts
		case 5:
			if parts[3].T.K != KDelim || parts[3].T.Val != "/" {
				return nil, false
			}
			args = append(append([]Node{}, parts[:3]...), parts[4])
			slash = true
		default:
			return nil, false
		}
	}
	_ = slash
	num := func(p Node) bool { return p.T.K == KNumber && p.T.Num != nil }
	pct := func(p Node) bool { return p.T.K == KPercentage && p.T.Num != nil }
	none := func(p Node) bool { return !legacy && p.T.K == KIdent && strings.EqualFold(p.T.Val, "none") }
	c := &Color{A: ri(1)}
	if len(args) == 4 {
		a := args[3]
		switch {
		case num(a):
			c.A = clampRat(new(big.Rat).Set(a.T.Num), ri(0), ri(1))
		case pct(a):
			c.A = clampRat(new(big.Rat).Quo(a.T.Num, ri(100)), ri(0), ri(1))
		case none(a):
			c.A = ri(0)
		default:
			return nil, false
		}
	}
	if !hsl {
		nNum, nPct := 0, 0
		var v [3]*big.Rat
		for i := 0; i < 3; i++ {
			a := args[i]
			switch {
			case num(a):
				nNum++
				v[i] = clampRat(new(big.Rat).Set(a.T.Num), ri(0), ri(255))
			case pct(a):
				nPct++
				v[i] = clampRat(new(big.Rat).Mul(a.T.Num, rf(255, 100)), ri(0), ri(255))
			case none(a):
				v[i] = ri(0)
			default:
				return nil, false
			}
		}
		if legacy && nNum != 0 && nPct != 0 {
			return nil, false // mixing is invalid in the legacy syntax
		}
		c.R, c.G, c.B = v[0], v[1], v[2]
		return c, true
	}
	// hsl
	var h *big.Rat
	a := args[0]
	switch {
	case num(a):
		h = new(big.Rat).Set(a.T.Num)
	case a.T.K == KDimension && a.T.Num != nil:
		switch strings.ToLower(a.T.Val) {
		case "deg":
			h = new(big.Rat).Set(a.T.Num)
		case "grad":
			h = new(big.Rat).Mul(a.T.Num, rf(360, 400))
		case "turn":
			h = new(big.Rat).Mul(a.T.Num, ri(360))
		default:
			return nil, false
		}
	case none(a):
		h = ri(0)
	default:
		return nil, false
	}
	var sl [2]*big.Rat
	for i := 0; i < 2; i++ {
		a := args[1+i]
		switch {
		case pct(a):
			sl[i] = clampRat(new(big.Rat).Quo(a.T.Num, ri(100)), ri(0), ri(1))
		case num(a) && !legacy: // CSS Color 4 modern syntax: number = percentage
			sl[i] = clampRat(new(big.Rat).Quo(a.T.Num, ri(100)), ri(0), ri(1))
		case none(a):
			sl[i] = ri(0)
		default:
			return nil, false
		}
	}
	// h mod 360 -> [0,1)
	hh := new(big.Rat).Quo(h, ri(360))
	fl := ratFloor(hh)
	hh.Sub(hh, new(big.Rat).SetInt(fl))
	r, g, b := hsl2rgb(hh, sl[0], sl[1])
	m := ri(255)
	c.R, c.G, c.B = r.Mul(r, m), g.Mul(g, m), b.Mul(b, m)
	return c, true
}

func ratFloor(r *big.Rat) *big.Int {
	q := new(big.Int)
	m := new(big.Int)
	q.DivMod(r.Num(), r.Denom(), m) // Euclidean: m >= 0, so q is the floor for positive denominators
	return q
}

// hsl2rgb follows https://www.w3.org/TR/css-color-3/#hsl-color with exact arithmetic.
func hsl2rgb(h, s, l *big.Rat) (*big.Rat, *big.Rat, *big.Rat) {
	var m2 *big.Rat
	if l.Cmp(rf(1, 2)) <= 0 {
		m2 = new(big.Rat).Mul(l, new(big.Rat).Add(s, ri(1)))
	} else {
		m2 = new(big.Rat).Add(l, s)
		m2.Sub(m2, new(big.Rat).Mul(l, s))
	}
	m1 := new(big.Rat).Mul(l, ri(2))
	m1.Sub(m1, m2)
	third := rf(1, 3)
	return hue2rgb(m1, m2, new(big.Rat).Add(h, third)), hue2rgb(m1, m2, new(big.Rat).Set(h)), hue2rgb(m1, m2, new(big.Rat).Sub(h, third))
}

func hue2rgb(m1, m2, h *big.Rat) *big.Rat {
	if h.Sign() < 0 {
		h.Add(h, ri(1))
	}
	if h.Cmp(ri(1)) > 0 {
		h.Sub(h, ri(1))
	}
	d := new(big.Rat).Sub(m2, m1)
	switch {
	case new(big.Rat).Mul(h, ri(6)).Cmp(ri(1)) < 0:
		return d.Mul(d, new(big.Rat).Mul(h, ri(6))).Add(d, m1)
	case new(big.Rat).Mul(h, ri(2)).Cmp(ri(1)) < 0:
		return new(big.Rat).Set(m2)
	case new(big.Rat).Mul(h, ri(3)).Cmp(ri(2)) < 0:
		t := new(big.Rat).Sub(rf(2, 3), h)
		t.Mul(t, ri(6))
		return d.Mul(d, t).Add(d, m1)
	}
	return new(big.Rat).Set(m1)
}

var (
	halfTol  = new(big.Rat).Add(rf(1, 2), rf(1, 1000000))
	alphaTol = new(big.Rat).Add(rf(1, 510), rf(1, 1000000))
)

func ratAbsDiff(a, b *big.Rat) *big.Rat {
	d := new(big.Rat).Sub(a, b)
	return d.Abs(d)
}

// colorDiff returns "" when the output colour means the same as the input colour, else what differs.
// lenientAlpha0: when both colours are fully transparent the RGB components are not compared (K45).
func colorDiff(in, out *Color, lenientAlpha0 bool) string {
	if in.Special != "" || out.Special != "" {
		if in.Special == out.Special {
			return ""
		}
		return "keyword-differs"
	}
	if out.Quant && !in.Quant {
		if ratAbsDiff(in.A, out.A).Cmp(alphaTol) > 0 {
			return "alpha-differs"
		}
	} else if in.A.Cmp(out.A) != 0 {
		return "alpha-differs"
	}
	if lenientAlpha0 && in.A.Cmp(alphaTol) <= 0 && out.A.Sign() == 0 {
		return ""
	}
	pairs := [3][2]*big.Rat{{in.R, out.R}, {in.G, out.G}, {in.B, out.B}}
	for _, p := range pairs {
		if out.Quant && !in.Quant {
			if ratAbsDiff(p[0], p[1]).Cmp(halfTol) > 0 {
				return "rgb-differs"
			}
		} else if p[0].Cmp(p[1]) != 0 {
			return "rgb-differs"
		}
	}
	return ""
}
