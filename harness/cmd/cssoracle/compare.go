package main

// Structural comparison of input and output: rule / at-rule sequence, preludes, selectors,
// declarations.

import (
	"fmt"
	"strings"
)

// Finding is one definite difference in meaning.
type Finding struct {
	Sig     string // family + what differed (without known id)
	ID      string // known id ("" = none)
	Detail  string
	InPart  string // the declaration / prelude concerned, input side
	OutPart string
	Kind    string // decl | selector | atrule | structure
	Prop    string
	Family  string
	Wrap    []string // enclosing at-rule openers, outermost first (for shrinking)
	Sel     string   // selector of the enclosing style rule
}

// idSignature: one stable root-cause signature per known id.
var idSignature = map[string]string{
	"K20": "bgpos:right-bottom-percent-aliasing",
	"K21": "color:lightslateblue-is-not-a-css-colour",
	"K22": "selector:case-changed",
	"K23": "font-family:quoted-keyword-unquoted",
	"K29": "number:decimal-carry",
	"K40": "datauri:plus-decoded-as-space",
	"K45": "color:transparent-rgb-lost",
	"N01": "keepcss2:exponent-number-mangled",
	"N02": "border-color:currentcolor-to-initial-in-list",
	"N03": "bgpos:fractional-percent-truncated",
	"N04": "color:hsl-number-saturation-lightness",
	"N05": "selector:attr-flag-s-fused",
	"N06": "fusion:comment-only-separator-dropped",
	"N07": "datauri:payload-quote-equals-delimiter",
	"N08": "zero-unit-dropped:angle",
	"N09": "flex:zero-basis-unit",
	"N10": "fusion:slash-star-opens-comment",
	"N11": "datauri:css-escape-in-url",
	"N12": "datauri:charset-without-type-dropped",
	"N13": "math-function:newer-css-values-4-function-not-understood",
	"N14": "background:size-minified-as-position",
	"N22": "background:math-function-as-position-offset",
	"N15": "unicode-range:initial-in-list",
	"N16": "bgpos:zero-removed-from-earlier-layer",
	"N17": "font:first-word-of-dash-family-quoted",
	"N18": "dimension:unit-with-non-letter-mangled",
	"N19": "fusion:plus-sign-removed-inside-function",
	"N20": "fusion:hex-escape-swallows-separator",
	"N21": "panic:background-third-box-keyword",
}

func (f *Finding) Signature() string {
	if f.ID != "" {
		if s, ok := idSignature[f.ID]; ok {
			return f.ID + ":" + s
		}
		return f.ID + ":" + f.Sig
	}
	return f.Sig
}

// Stats collects histogram material for one evaluation.
type Stats struct {
	NJ       []string
	Families map[string]int
	Fired    map[string]int
	AtRules  map[string]int
	Decls    int
	Judged   int
}

func newStats() *Stats {
	return &Stats{Families: map[string]int{}, Fired: map[string]int{}, AtRules: map[string]int{}}
}

type cmp struct {
	ctx  *Ctx
	st   *Stats
	wrap []string
	sel  string
}

func compareSheets(in, out *Sheet, ctx *Ctx, st *Stats) *Finding {
	c := &cmp{ctx: ctx, st: st}
	return c.items(in.Items, out.Items)
}

func describeItem(it Item) string {
	switch {
	case it.D != nil:
		return "decl " + it.D.Name
	case it.R != nil && it.R.At:
		return "@" + it.R.Name
	case it.R != nil:
		return "rule " + nodesRaw(it.R.Prelude)
	}
	return "junk " + nodesRaw(it.Junk)
}

func (c *cmp) finding(kind, sig, detail, inPart, outPart string) *Finding {
	return &Finding{Kind: kind, Sig: sig, Detail: detail, InPart: inPart, OutPart: outPart, Wrap: append([]string{}, c.wrap...), Sel: c.sel}
}

func (c *cmp) items(in, out []Item) *Finding {
	n := len(in)
	if len(out) < n {
		n = len(out)
	}
	for i := 0; i < n; i++ {
		a, b := in[i], out[i]
		switch {
		case a.R != nil && b.R != nil:
			if f := c.rule(a.R, b.R); f != nil {
				return f
			}
		case a.D != nil && b.D != nil:
			if f := c.decl(a.D, b.D); f != nil {
				return f
			}
		case a.Junk != nil && b.Junk != nil:
			ia := wsAtoms(a.Junk, c.ctx, "")
			oa := wsAtoms(b.Junk, c.ctx, "")
			if _, why := atomsEq(ia, oa, c.ctx); why != "" {
				return c.finding("structure", "junk:"+why, "", nodesRaw(a.Junk), nodesRaw(b.Junk))
			}
		default:
			return c.finding("structure", "structure:item-kind-changed", fmt.Sprintf("item %d: %s vs %s", i, describeItem(a), describeItem(b)), describeItem(a), describeItem(b))
		}
	}
	if len(in) != len(out) {
		var extra string
		if len(in) > len(out) {
			extra = describeItem(in[n])
		} else {
			extra = describeItem(out[n])
		}
		return c.finding("structure", "structure:item-count-changed", fmt.Sprintf("%d items in, %d out; first unmatched: %s", len(in), len(out), extra), extra, "")
	}
	return nil
}

func (c *cmp) rule(a, b *Rule) *Finding {
	if a.At != b.At || a.Name != b.Name {
		return c.finding("structure", "structure:rule-kind-changed", "", a.Raw, b.Raw)
	}
	if a.HasBlock != b.HasBlock {
		return c.finding("structure", "structure:block-presence-changed", "", a.Raw, b.Raw)
	}
	if a.At {
		c.st.AtRules[a.Name]++
		if f := c.atPrelude(a, b); f != nil {
			return f
		}
	} else {
		ia := selAtoms(a.Prelude, c.ctx, false, "")
		oa := selAtoms(b.Prelude, c.ctx, false, "")
		if _, why := atomsEq(ia, oa, c.ctx); why != "" {
			sig := "selector:" + selWhy(why, a.Prelude, b.Prelude, c.ctx)
			return c.finding("selector", sig, atomsString(ia)+"  vs  "+atomsString(oa), nodesRaw(a.Prelude), nodesRaw(b.Prelude))
		}
	}
	if !a.HasBlock {
		return nil
	}
	switch a.BlockKind {
	case BlockOpaque:
		ia := wsAtoms(a.Opaque, c.ctx, "")
		oa := wsAtoms(b.Opaque, c.ctx, "")
		if _, why := atomsEq(ia, oa, c.ctx); why != "" {
			return c.finding("atrule", "opaque-block:"+why, "", "@"+a.Name+" "+nodesRaw(a.Prelude)+"{"+nodesRaw(a.Opaque)+"}", "@"+b.Name+" "+nodesRaw(b.Prelude)+"{"+nodesRaw(b.Opaque)+"}")
		}
		return nil
	default:
		saveSel := c.sel
		if a.At {
			c.wrap = append(c.wrap, "@"+a.Name+" "+nodesRaw(a.Prelude))
		} else {
			c.sel = nodesRaw(a.Prelude)
		}
		f := c.items(a.Items, b.Items)
		if a.At {
			c.wrap = c.wrap[:len(c.wrap)-1]
		}
		c.sel = saveSel
		return f
	}
}

func (c *cmp) atPrelude(a, b *Rule) *Finding {
	var ia, oa []Atom
	if a.Name == "import" {
		ia, oa = importAtoms(a.Prelude, c.ctx), importAtoms(b.Prelude, c.ctx)
	} else {
		ia, oa = wsAtoms(a.Prelude, c.ctx, ",:"), wsAtoms(b.Prelude, c.ctx, ",:")
	}
	if _, why := atomsEq(ia, oa, c.ctx); why != "" {
		return c.finding("atrule", "at-prelude:"+why, atomsString(ia)+"  vs  "+atomsString(oa), "@"+a.Name+" "+nodesRaw(a.Prelude), "@"+b.Name+" "+nodesRaw(b.Prelude))
	}
	return nil
}

// wsAtoms keeps the presence of whitespace between tokens (amount ignored); whitespace at both ends
// of a list and next to the delimiters in dropAdj is insignificant.
func wsAtoms(ns []Node, ctx *Ctx, dropAdj string) []Atom {
	var out []Atom
	for i := range ns {
		n := &ns[i]
		if n.T.K == KWS {
			if len(out) > 0 && out[len(out)-1].K != 'w' {
				out = append(out, Atom{K: 'w'})
			}
			continue
		}
		var a Atom
		switch n.T.K {
		case KFunction, KLParen, KLBracket, KLBrace:
			a = nodeAtom(n, false, false, false, ctx)
			if a.K == 'f' || a.K == 'b' {
				a.Kids = wsAtoms(n.Kids, ctx, dropAdj)
			}
		default:
			a = nodeAtom(n, false, false, false, ctx)
		}
		out = append(out, a)
	}
	return dropWS(out, dropAdj)
}

func dropWS(as []Atom, dropAdj string) []Atom {
	adj := func(a Atom) bool {
		return a.K == 'd' && len(a.S) == 1 && strings.Contains(dropAdj, a.S)
	}
	out := as[:0:0]
	for i, a := range as {
		if a.K == 'w' {
			if i == 0 || i == len(as)-1 {
				continue
			}
			if adj(as[i-1]) || adj(as[i+1]) {
				continue
			}
		}
		out = append(out, a)
	}
	return out
}

// importAtoms: "@import url(x)" and "@import "x"" are the same (css-cascade-4 section 2).
func importAtoms(ns []Node, ctx *Ctx) []Atom {
	as := wsAtoms(ns, ctx, ",:")
	if len(as) > 0 && as[0].K == 's' {
		as[0].K = 'u'
	}
	return as
}

// ---- selectors ----

var caseInsensitiveArgs = map[string]bool{"lang": true, "dir": true, "nth-child": true, "nth-last-child": true, "nth-of-type": true, "nth-last-of-type": true, "nth-col": true, "nth-last-col": true}

// selAtoms normalises a selector (list). Class names, ids and attribute names/values are exact.
// Pseudo-class / pseudo-element names and function names are ASCII case-insensitive (selectors-4 3.1).
// Type selectors, namespace prefixes and idents inside functional pseudos: case-insensitive unless
// ctx.Strict (K22: the minifier lower-cases them, which matters for XML/SVG documents).
func selAtoms(ns []Node, ctx *Ctx, inFn bool, fn string) []Atom {
	var out []Atom
	var prev *Node
	for i := range ns {
		n := &ns[i]
		switch n.T.K {
		case KWS:
			if len(out) > 0 && out[len(out)-1].K != 'w' {
				out = append(out, Atom{K: 'w'})
			}
			continue
		case KIdent:
			a := Atom{K: 'i', S: n.T.Val, Nd: n}
			switch {
			case prev != nil && prev.T.K == KDelim && prev.T.Val == "." && !sepBefore(ns, i):
				// class: exact
			case prev != nil && prev.T.K == KColon:
				a.S = asciiLower(a.S)
			case caseInsensitiveArgs[fn]:
				a.S = asciiLower(a.S)
			case !ctx.Strict:
				a.S = asciiLower(a.S)
			}
			out = append(out, a)
		case KFunction:
			name := asciiLower(n.T.Val)
			if strings.HasPrefix(name, "nth-") {
				// An+B microsyntax: whitespace is optional around the sign (css-syntax-3 section 6)
				raw := asciiLower(stripSpaces(nodesRawNC(n.Kids)))
				if !strings.Contains(raw, "of") {
					out = append(out, Atom{K: 'f', S: name, Kids: []Atom{{K: 'i', S: raw}}, Nd: n, Closed: n.Closed})
					break
				}
			}
			out = append(out, Atom{K: 'f', S: name, Kids: selAtoms(n.Kids, ctx, true, name), Nd: n, Closed: n.Closed})
		case KLBracket:
			out = append(out, Atom{K: 'b', S: "[", Kids: attrAtoms(n.Kids), Nd: n, Closed: n.Closed})
		case KNumber, KPercentage, KDimension:
			a := numAtom(n, false, ctx)
			if a.K == 'n' {
				a.U = asciiLower(a.U)
			}
			out = append(out, a)
		case KComma:
			out = append(out, Atom{K: 'd', S: ",", Nd: n})
		default:
			out = append(out, nodeAtom(n, false, false, false, ctx))
		}
		prev = n
	}
	return dropWS(out, ",>+~")
}

// sepBefore: is there whitespace between node i-1 and node i? (prev tracks non-ws nodes only)
func sepBefore(ns []Node, i int) bool { return i > 0 && ns[i-1].T.K == KWS }

func attrAtoms(ns []Node) []Atom {
	var out []Atom
	afterMatch := false
	for i := range ns {
		n := &ns[i]
		switch {
		case n.T.K == KWS:
			continue
		case afterMatch && (n.T.K == KIdent || n.T.K == KString):
			out = append(out, Atom{K: 's', S: n.T.Val, Nd: n, Lbl: "attr-value:"})
			afterMatch = false
		case n.T.K == KIdent:
			a := Atom{K: 'i', S: n.T.Val, Nd: n}
			// a flag (i / s) after the value is case-insensitive
			if len(out) > 0 && out[len(out)-1].Lbl == "attr-value:" {
				a.S = asciiLower(a.S)
				a.Lbl = "attr-flag:"
			}
			out = append(out, a)
		default:
			if n.T.K == KDelim && n.T.Val == "=" {
				afterMatch = true
			}
			out = append(out, Atom{K: 'd', S: n.T.Raw, Nd: n})
		}
	}
	return out
}

func selWhy(why string, in, out []Node, ctx *Ctx) string {
	switch {
	case why == "ident:case-changed":
		return "case-changed"
	case strings.HasPrefix(why, "attr-value:") || strings.HasPrefix(why, "attr-flag:") || why == "tokens-dropped":
		ri, ro := asciiLower(nodesRaw(in)), asciiLower(nodesRaw(out))
		if strings.Contains(ri, " s]") && !strings.Contains(ro, " s]") {
			return "attr-flag-fused"
		}
		return strings.TrimSuffix(why, ":")
	}
	return why
}

// ---- declarations ----

func stripSpaces(s string) string {
	var b strings.Builder
	for i := 0; i < len(s); i++ {
		if c := s[i]; c != ' ' && c != '\t' && c != '\n' {
			b.WriteByte(c)
		}
	}
	return b.String()
}

func (c *cmp) decl(a, b *Decl) *Finding {
	c.st.Decls++
	mk := func(sig, detail string) *Finding {
		f := c.finding("decl", sig, detail, a.Raw, b.Raw)
		f.Prop = a.Name
		f.Family = familyOf(a.Name)
		return f
	}
	if a.Name != b.Name || a.Custom != b.Custom {
		return mk("decl:property-changed", a.Name+" vs "+b.Name)
	}
	if a.Important != b.Important {
		if a.Important {
			return mk("important:dropped", "")
		}
		return mk("important:added", "")
	}
	fam := familyOf(a.Name)
	if fam == "ms-filter" && !strings.Contains(strings.ToLower(a.RawValue), "progid") {
		fam = "" // an ordinary filter value: judged generically
	}
	hk := fam
	if hk == "" {
		hk = "generic"
		if a.Custom {
			hk = "custom-property"
		}
	}
	c.st.Families[hk]++
	if stripSpaces(a.RawValue) != stripSpaces(b.RawValue) {
		c.st.Fired[hk]++
	}
	if a.Custom {
		if a.RawValue == b.RawValue {
			c.st.Judged++
			return nil
		}
		ia, oa := wsAtoms(a.Nodes, c.ctx, ""), wsAtoms(b.Nodes, c.ctx, "")
		// custom property values are never rewritten: numbers and colours must be identical text
		if sameTokens(ia, oa) {
			c.st.Judged++
			return nil
		}
		if _, why := atomsEq(ia, oa, c.ctx); strings.HasPrefix(why, "fusion:") {
			return mk("custom-property:"+why, "")
		}
		return mk("custom-property:tokens-changed", "")
	}
	zeroLen := a.Name != "flex"
	ia := genericAtoms(a.Nodes, true, false, zeroLen, c.ctx)
	oa := genericAtoms(b.Nodes, true, false, zeroLen, c.ctx)
	_, gwhy := atomsEq(ia, oa, c.ctx)
	if gwhy == "" {
		c.st.Judged++
		return nil
	}
	if fam == "" {
		if c.ctx.Prec > 0 && strings.HasPrefix(gwhy, "color:") {
			c.st.NJ = append(c.st.NJ, "precision+colour-function")
			return nil
		}
		return mk("generic:"+gwhy, atomsString(ia)+"  vs  "+atomsString(oa))
	}
	fi, why := canonFamily(fam, a.Name, a, c.ctx)
	if why != "" {
		c.st.NJ = append(c.st.NJ, fam+":"+why)
		return nil
	}
	fo, why := canonFamily(fam, b.Name, b, c.ctx)
	if why != "" {
		return mk(fam+":output-not-in-grammar", why+"; generic difference: "+gwhy)
	}
	if _, fwhy := atomsEq(fi, fo, c.ctx); fwhy != "" {
		if c.ctx.Prec > 0 && strings.Contains(fwhy, "color:") {
			c.st.NJ = append(c.st.NJ, "precision+colour-function")
			return nil
		}
		if c.ctx.Prec > 0 && (fam == "bgpos" || fam == "background") && strings.Contains(fwhy, "number:value-changed") {
			// offsets from right/bottom are rounded first and subtracted from 100% afterwards
			c.st.NJ = append(c.st.NJ, "precision+position-arithmetic")
			return nil
		}
		if strings.HasPrefix(fwhy, fam+":") {
			fwhy = fwhy[len(fam)+1:]
		}
		return mk(fam+":"+fwhy, atomsString(fi)+"  vs  "+atomsString(fo))
	}
	c.st.Judged++
	return nil
}

// sameTokens: identical token text, whitespace presence included (custom properties are never rewritten).
func sameTokens(a, b []Atom) bool {
	if len(a) != len(b) {
		return false
	}
	for i := range a {
		if a[i].K != b[i].K {
			return false
		}
		switch a[i].K {
		case 'w':
		case 'f', 'b':
			if a[i].Nd.T.Raw != b[i].Nd.T.Raw || a[i].Closed != b[i].Closed || !sameTokens(a[i].Kids, b[i].Kids) {
				return false
			}
		default:
			// (a hex escape may own one trailing white space character; trimming it at the end of a value is harmless)
			if a[i].Nd == nil || b[i].Nd == nil || strings.TrimRight(a[i].Nd.T.Raw, " \t\n") != strings.TrimRight(b[i].Nd.T.Raw, " \t\n") {
				return false
			}
		}
	}
	return true
}
