package main

// data: URI interpretation per RFC 2397, independent of parse.DataURI / minify.DataURI.

import (
	"bytes"
	"encoding/base64"
	"sort"
	"strings"
)

type dataURI struct {
	Type    string   // lowercased type/subtype, "text/plain" when omitted
	Params  []string // lowercased (outside quotes), whitespace-free, without charset=us-ascii, sorted
	Base64  bool
	Payload []byte
}

func hasDataScheme(s string) bool {
	return len(s) >= 5 && strings.EqualFold(s[:5], "data:")
}

func normMediaPart(s string) string {
	var b strings.Builder
	inQ := false
	for i := 0; i < len(s); i++ {
		c := s[i]
		if c == '"' {
			inQ = !inQ
		}
		if !inQ {
			if c == ' ' || c == '\t' || c == '\n' || c == '\r' {
				continue
			}
			if c >= 'A' && c <= 'Z' {
				c += 32
			}
		}
		b.WriteByte(c)
	}
	return b.String()
}

func percentDecode(s string) []byte {
	out := make([]byte, 0, len(s))
	for i := 0; i < len(s); i++ {
		if s[i] == '%' && i+2 < len(s) && isHex(s[i+1]) && isHex(s[i+2]) {
			v := 0
			for _, c := range []byte{s[i+1], s[i+2]} {
				switch {
				case c <= '9':
					v = v*16 + int(c-'0')
				case c <= 'F':
					v = v*16 + int(c-'A') + 10
				default:
					v = v*16 + int(c-'a') + 10
				}
			}
			out = append(out, byte(v))
			i += 2
		} else {
			out = append(out, s[i])
		}
	}
	return out
}

func parseDataURI(s string) (*dataURI, bool) {
	if !hasDataScheme(s) {
		return nil, false
	}
	rest := s[5:]
	comma := strings.IndexByte(rest, ',')
	if comma < 0 {
		return nil, false
	}
	head, data := rest[:comma], rest[comma+1:]
	d := &dataURI{}
	parts := strings.Split(head, ";")
	typ := normMediaPart(parts[0])
	var params []string
	for i, p := range parts[1:] {
		np := normMediaPart(p)
		if np == "base64" && i == len(parts)-2 {
			d.Base64 = true
			continue
		}
		if np == "charset=us-ascii" {
			continue
		}
		params = append(params, np)
	}
	if typ == "" {
		typ = "text/plain"
	}
	d.Type = typ
	sort.Strings(params)
	d.Params = params
	if d.Base64 {
		raw, err := base64.StdEncoding.DecodeString(data)
		if err != nil {
			return nil, false
		}
		d.Payload = raw
	} else {
		d.Payload = percentDecode(data)
	}
	return d, true
}

// embedFn tells what the registered text/css minifier makes of a payload.
type embedFn func(mediatype string, payload []byte) ([]byte, bool)

func urlDiff(in, out string, embedCSS embedFn) string {
	if !hasDataScheme(in) {
		return "url:value-changed"
	}
	di, ok := parseDataURI(in)
	if !ok {
		return "url:value-changed" // malformed data URI must pass through unchanged
	}
	do, ok := parseDataURI(out)
	if !ok {
		return "datauri:output-malformed"
	}
	if di.Type != do.Type || strings.Join(di.Params, ";") != strings.Join(do.Params, ";") {
		return "datauri:mediatype-changed"
	}
	want := di.Payload
	if di.Type == "text/css" && embedCSS != nil {
		w, ok := embedCSS(strings.Join(append([]string{di.Type}, di.Params...), ";"), di.Payload)
		if !ok {
			return "" // embedded minifier failed: behaviour belongs to C11's error clause, not judged here
		}
		want = w
		if !bytes.Equal(want, do.Payload) {
			return "datauri:embedded-css-differs"
		}
		return ""
	}
	if !bytes.Equal(want, do.Payload) {
		return "datauri:payload-changed"
	}
	return ""
}
